"""Per-property pipelines of bin/check: which TLC configurations are model-checked (mc), which
generator specs produce cases that are replayed into the crate (gen), and which recorded scenarios
are validated by which trace specification (rec)."""


def seamish(ev):
    """non-trivial = the position / cell is on a border, seam, pole or in another special class"""
    f = ev.get("f")
    if f is not None:
        return f[1] % 2 == 0 or f[2] % 2 == 0 or ev.get("cls") not in ("uniform",)
    return True


GEO_ASSUME = [
    "TLC / SANY and the CommunityModules Json/IOUtils are correct",
    "the reference bridge (harness/src/geo.rs: C&R projection formulae, face classification with tolerance 2e-14 plane units) "
    "is correct; it is validated against the specification's lattice by the `bridge` scenario",
    "u64 <-> (base cell, i, j) bit de-interleaving of the harness (checked by the C18 scenario)",
]

BMOC_ASSUME = [
    "TLC / SANY and the CommunityModules Json/IOUtils are correct",
    "the harness's projection of a BMOC (its own 6-line decoder of the raw u64 entries: sentinel bit, flag bit, base-4 path) and "
    "BMOCBuilderUnsafe::push / to_bmoc used to build operands",
]

COV_ASSUME = [
    "TLC / SANY and the CommunityModules Json/IOUtils are correct",
    "the reference bridge (harness/src/geo.rs): C&R formulae, atan2-based angular distance, face classification; a witness is kept only if it is "
    "inside the region by a margin (r (1 - 1e-7) - 3e-15) AND inside a cell by 2e-4 cell, so that its cell provably contains a point of the region",
    "Dmax(depth) used for tightness is measured by the bridge over all cells of depths 0..5 and scaled (x1.02) deeper",
    "results larger than 300 cells are not traced",
]

PROPS = {
    "C01": {
        "level": "model_checking",
        "claim": "The cell complex of HEALPix (cells, edges, nodes, their gluing across base-cell seams and poles) is specified in TLA+ "
                 "independently of the crate and model-checked exhaustively for small subdivisions (every cell, star sizes, Euler count); the same "
                 "depth-independent definition then judges every recorded call of nested::hash at depths 0..29 (random, multi-turn, polar, "
                 "adversarial and exact-border positions, release and debug profile) and TLC enumerates every face of small depths and all "
                 "border/corner/pole classes of deep depths, which the harness turns into positions (+-ulp, +-4 turns) and replays. Exhaustive "
                 "on the classes, sampled on the continuum. HashAlgo.tla transcribes hash_v2 (xpm1_and_q, d0h_lh_in_d0c, cast, clamp) on exact "
                 "rationals; MC_HashAlgo shows that on every lattice point of N in {1,2,3,4} (up to 8 thorough), +-2 turns, either sign of a zero, "
                 "either branch on the transition latitude, any longitude at a pole and any perturbation of the two projected coordinates below "
                 "the lattice step (the model of rounding), the returned cell is in the star of the position's face; the variants re-introducing "
                 "F02 (odd floor masked) or dropping the clamp violate it.",
        "rule": "events = calls nested::hash(depth, lon, lat) on seeded uniform / multi-turn / near-pole / adversarial / cell-border positions "
                "(all depths 0..29) judged by TLC: returned cell in StarFace(face of the position); generated cases = faces of the cell "
                "complex enumerated by TLC with their expected stars; non-trivial = distinct events whose position lies on an edge or node "
                "of the grid or belongs to a non-uniform class",
        "assumptions": GEO_ASSUME,
        "stages": [
            {"kind": "mc", "module": "MC_Geo", "cfg": {"quick": "MC_Geo.cfg", "thorough": "MC_Geo_thorough.cfg"}, "workers": 6},
            {"kind": "mc", "module": "MC_HashAlgo", "cfg": {"quick": "MC_HashAlgo_NestedOK.cfg", "thorough": "MC_HashAlgo_NestedOK_thorough.cfg"}, "workers": 6},
            {"kind": "gen", "module": "Gen_Faces", "cfg": {"quick": "Gen_Faces.cfg", "thorough": "Gen_Faces_thorough.cfg"}, "scenario": "C01",
             "profiles": ["release", "debug"]},
            {"kind": "rec", "scenario": "C01", "count": {"quick": 20000, "thorough": 400000}, "trace_module": "Trace_Geo", "trace_cfg": "Trace_Geo.cfg",
             "profiles": ["release", "debug"], "nontrivial": seamish},
        ],
    },
    "C02": {
        "level": "model_checking",
        "claim": "Model level: refining the complex by 2, the parents of the cells around a fine face are cells around the coarse face "
                 "(checked on every cell of every small subdivision). Code level: for each position the 30 cells returned at depths 0..29 are "
                 "recorded and TLC checks the parent chain, on positions biased to exact cell borders of every depth. "
                 "MC_HashAlgo (transcription of hash_v2 on exact rationals): the cell computed at subdivision 2N is a child of the cell computed at N "
                 "for every lattice point and every modelled floating-point choice (the base cell and the in-cell coordinates are depth independent, "
                 "the depth enters only through an exact scaling).",
        "rule": "one event per position = the 30 cells returned by nested::hash at depths 0..29; TLC requires each to be the parent of the next; "
                "positions as in C01 with one third built exactly on (or 1-2 ulp off) a cell border of a random depth; non-trivial = all "
                "distinct events of a non-uniform class",
        "assumptions": GEO_ASSUME,
        "stages": [
            {"kind": "mc", "module": "MC_Geo", "cfg": {"quick": "MC_Geo.cfg", "thorough": "MC_Geo_thorough.cfg"}, "workers": 6},
            {"kind": "mc", "module": "MC_HashAlgo", "cfg": {"quick": "MC_HashAlgo_HierarchyOK.cfg", "thorough": "MC_HashAlgo_HierarchyOK_thorough.cfg"}, "workers": 6},
            {"kind": "rec", "profiles": ["release", "debug"], "scenario": "C02", "count": {"quick": 6000, "thorough": 150000}, "trace_module": "Trace_Geo", "trace_cfg": "Trace_Geo.cfg",
             "nontrivial": lambda ev: ev.get("cls") != "uniform"},
        ],
    },
    "C04": {
        "level": "model_checking",
        "claim": "Adjacency and direction labels are derived in the specification from the gluing of sphere points (not from the crate's "
                 "tables), model-checked on every cell of small subdivisions (counts 8/7/6, symmetry, unique labels, missing cardinal only at "
                 "3-cell points); TLC generates the expected neighbour map of every cell of depths 0..3 (0..5 thorough) and of all corner/border "
                 "classes of the 12 base cells at deep depths, replayed into neighbours()/neighbour(); recorded calls on random cells at all "
                 "depths are validated by the trace spec. NeighAlgo.tla transcribes the crate's seam tables and offset arithmetic and MC_NeighAlgo shows "
                 "that the transcription refines the geometric definition on every cell of N in {1,2,3,4,8}; the depth-0 table neighbour(base_cell, dir) "
                 "and the MainWind offset helpers are generated from the geometry and replayed into the public functions. This property is decided "
                 "entirely by the specification (no float bridge).",
        "rule": "events = Layer::neighbours(h, false/true), Layer::neighbour(h, dir) for all 8 directions and the free function, for seeded random "
                "cells and base-cell corner/border cells at depths 0..29, judged direction by direction against the adjacency derived from "
                "sphere-point gluing (HpxGeo!NeighAt); generated cases = every cell of small depths and all border/corner classes of deeper "
                "depths with the expected map; non-trivial = cells on a base-cell border (i or j in {0, nside-1})",
        "assumptions": GEO_ASSUME[:1] + GEO_ASSUME[2:],
        "stages": [
            {"kind": "mc", "module": "MC_Geo", "cfg": {"quick": "MC_Geo.cfg", "thorough": "MC_Geo_thorough.cfg"}, "workers": 6},
            {"kind": "mc", "module": "MC_NeighAlgo", "cfg": {"quick": "MC_NeighAlgo.cfg", "thorough": "MC_NeighAlgo_thorough.cfg"}, "workers": 4},
            {"kind": "gen", "profiles": ["release", "debug"], "module": "Gen_Neigh", "cfg": {"quick": "Gen_Neigh.cfg", "thorough": "Gen_Neigh_thorough.cfg"}, "scenario": "C04", "exhaustive": True},
            {"kind": "gen", "profiles": ["release", "debug"], "module": "Gen_NeighTables", "cfg": "Gen_NeighTables_bn.cfg", "scenario": "TABLES", "exhaustive": True},
            {"kind": "rec", "profiles": ["release", "debug"], "scenario": "C04", "count": {"quick": 8000, "thorough": 200000}, "trace_module": "Trace_Geo", "trace_cfg": "Trace_Geo.cfg",
             "nontrivial": lambda ev: ev["ev"] == "neigh" and (ev["c"][1] in (0, 2 ** ev["d"] - 1) or ev["c"][2] in (0, 2 ** ev["d"] - 1))},
        ],
    },
    "C14": {
        "level": "model_checking",
        "claim": "Internal and external edges are defined on the cell complex (border descendants; cells of the finer subdivision outside the "
                 "cell and adjacent to it; filing by the side / corner faced) and model-checked on every cell of small subdivisions: the explicit "
                 "walk S->E->N->W is closed, adjacent, duplicate free and the filed external edge equals the geometric one. TLC generates the "
                 "expected walk / sets / sides / corners for all cells of small depths x delta 1..3 and the base-cell corner and border classes of "
                 "deep depths (depth + delta up to 29), replayed through every accessor (methods, free functions, sorted variants, struct, "
                 "per-corner and per-side helpers); recorded calls on random cells are validated by the trace spec. The direction tables used by the "
                 "external-edge code (direction_from_neighbour, edge_cell_direction_from_neighbour) are transcribed in NeighAlgo.tla, shown by "
                 "MC_NeighAlgo to equal the geometric direction of the cell seen from its neighbour, and every reachable entry generated from "
                 "the geometry is replayed into the public functions (documented panics included). delta_depth = 0 is excluded "
                 "(the 4*2^delta-4 formula is degenerate there).",
        "rule": "events = one (cell, delta_depth) with the results of internal_edge, internal_edge_sorted, external_edge, external_edge_sorted, "
                "external_edge_struct (4 sides, 4 corners), internal_corner x4, internal_edge_part x4 and the free-function variants; judged by "
                "TLC against HpxGeo!InternalEdgeWalk / ExternalSide / ExternalCorner; non-trivial = cells on a base-cell border",
        "assumptions": GEO_ASSUME[:1] + GEO_ASSUME[2:],
        "stages": [
            {"kind": "mc", "module": "MC_Geo", "cfg": {"quick": "MC_Geo.cfg", "thorough": "MC_Geo_thorough.cfg"}, "workers": 6},
            {"kind": "mc", "module": "MC_NeighAlgo", "cfg": {"quick": "MC_NeighAlgo.cfg", "thorough": "MC_NeighAlgo_thorough.cfg"}, "workers": 4},
            {"kind": "gen", "profiles": ["release", "debug"], "module": "Gen_Edges", "cfg": {"quick": "Gen_Edges.cfg", "thorough": "Gen_Edges_thorough.cfg"}, "scenario": "C14", "exhaustive": True},
            {"kind": "gen", "profiles": ["release", "debug"], "module": "Gen_NeighTables", "cfg": "Gen_NeighTables_dfn.cfg", "scenario": "TABLES", "exhaustive": True},
            {"kind": "rec", "profiles": ["release", "debug"], "scenario": "C14", "count": {"quick": 1600, "thorough": 40000}, "trace_module": "Trace_Geo", "trace_cfg": "Trace_Geo.cfg",
             "nontrivial": lambda ev: ev["c"][1] in (0, 2 ** ev["d"] - 1) or ev["c"][2] in (0, 2 ** ev["d"] - 1)},
        ],
    },
    "C10": {
        "level": "model_checking",
        "claim": "The RING index is DEFINED in the specification as the rank of a cell centre in (latitude descending, longitude ascending) "
                 "and a closed form (ring start + position in ring, on base-2^15 digit strings since indices reach 2^62) is model-checked equal "
                 "to that rank, bijective onto 0..12N^2-1 and with ring sizes 4i/4N for every N <= 5 (<= 8 thorough), powers of two or not. "
                 "TLC generates (depth, cell, index) for all cells of depths 0..4 (0..6) and base-cell corner/border classes up to depth 29, "
                 "replayed through to_ring and from_ring; recorded to_ring / from_ring / ring-centre calls on ring-boundary classes "
                 "(first/last cell of rings 1,2,3,N-1,N,N+1,2N,3N-1,3N,3N+1,4N-2,4N-1 and random rings) at all depths are validated by the trace spec, "
                 "including that the RING-scheme centre of r lies inside the cell of rank r and equals the NESTED centre of from_ring(r). "
                 "RingAlgo.tla transcribes to_ring / from_ring branch for branch (cap / equatorial / base-cell-4 wrap, depth0_hash_unsafe, "
                 "polar_ring_index) and MC_RingAlgo shows both refine the rank definition and are mutually inverse on every cell of N in {1,2,4,8} (16 thorough).",
        "rule": "events = to_ring(cell) with round trip, from_ring(index), ring::center(nside, r) vs Layer::center(from_ring r); indices biased to "
                "ring boundaries; judged by TLC with HpxRing!ToRing; non-trivial = every distinct event (all are boundary-biased)",
        "assumptions": GEO_ASSUME,
        "stages": [
            {"kind": "mc", "module": "MC_Ring", "cfg": {"quick": "MC_Ring.cfg", "thorough": "MC_Ring_thorough.cfg"}, "workers": 6},
            {"kind": "mc", "module": "MC_RingAlgo", "cfg": {"quick": "MC_RingAlgo.cfg", "thorough": "MC_RingAlgo_thorough.cfg"}, "workers": 4},
            {"kind": "gen", "profiles": ["release", "debug"], "module": "Gen_Ring", "cfg": {"quick": "Gen_Ring_pairs.cfg", "thorough": "Gen_Ring_pairs_thorough.cfg"}, "scenario": "C10", "exhaustive": True},
            {"kind": "rec", "profiles": ["release", "debug"], "scenario": "C10", "count": {"quick": 15000, "thorough": 300000}, "trace_module": "Trace_Geo", "trace_cfg": "Trace_Geo.cfg"},
        ],
    },
    "C11": {
        "level": "model_checking",
        "claim": "The same rank definition / closed form of HpxRing (model-checked for every N <= 8 including 3, 5, 6, 7) judges ring::hash at "
                 "arbitrary NSIDE: the returned index must be the RING index of a cell of StarFace(face of the position) at subdivision NSIDE. "
                 "TLC enumerates every face for NSIDE 1..7 (1..17, 20, 24 thorough) and the seam / pole / transition classes for large and odd "
                 "NSIDE up to 2^29, replayed with +-ulp nudges; recorded calls (hash, hash_with_dxdy with sph_coo inversion, center with "
                 "hash(center(h)) = h and the 4 vertices being the nodes of the cell, rejections) for random NSIDE incl. primes / 2^29-1 / 2^29 "
                 "are validated by the trace spec. HashAlgo.tla transcribes ring::hash_with_dldh (deal_with_1x1_box, the correction of cells falling "
                 "in the gap between two polar triangles, the three index formulae) on exact rationals; MC_HashAlgo shows that it returns the RING "
                 "index of a containing cell on every lattice point of N in {1,2,3,4} (1..8 thorough) under every modelled floating-point choice; "
                 "without the gap correction (variant f06) it does not.",
        "rule": "events = ring::hash / hash_with_dxdy / sph_coo / center / vertices / out-of-range calls for seeded NSIDE (small, odd, prime, huge) on "
                "uniform, adversarial and exact border positions (lon = k*pi/2 in the caps, transition corners, poles); non-trivial = position on an "
                "edge or node, or non-uniform class, or not a hash event",
        "assumptions": GEO_ASSUME,
        "stages": [
            {"kind": "mc", "module": "MC_Ring", "cfg": {"quick": "MC_Ring.cfg", "thorough": "MC_Ring_thorough.cfg"}, "workers": 6},
            {"kind": "mc", "module": "MC_HashAlgo", "cfg": {"quick": "MC_HashAlgo_RingOK.cfg", "thorough": "MC_HashAlgo_RingOK_thorough.cfg"}, "workers": 6},
            {"kind": "gen", "profiles": ["release", "debug"], "module": "Gen_Ring", "cfg": {"quick": "Gen_Ring_faces.cfg", "thorough": "Gen_Ring_faces_thorough.cfg"}, "scenario": "C11", "exhaustive": True},
            {"kind": "rec", "profiles": ["release", "debug"], "scenario": "C11", "count": {"quick": 16000, "thorough": 400000}, "trace_module": "Trace_Geo", "trace_cfg": "Trace_Geo.cfg",
             "nontrivial": seamish},
        ],
    },
    "C18": {
        "level": "model_checking",
        "claim": "Interleaving is specified on digit strings (h[k] = 2 j[k] + i[k]) and model-checked invertible with the stated restrictions for "
                 "all (i, j) of 5 (7) bits; uniq / uniq_ivoa are digit-string constructions model-checked injective and inverted for all cells "
                 "of depth <= 3 (4). TLC generates every (i, j) of 4 (6) bits with its expected code, replayed at several bit offsets through every "
                 "implementation reachable from outside the crate (get_zoc for the four depth classes, LARGE_ZOC_LUT, LARGE_ZOC_XOR, and in a second "
                 "build with -C target-feature=+bmi2 the BMI2 variants and LARGE_ZOC_BMI); recorded calls (byte-wise patterns, single bits, random) "
                 "and uniq round trips at all depths are validated by the trace spec in both builds. The #[cfg(test)] SMALL/MEDIU XOR variants are "
                 "not reachable from outside the crate and are not covered.",
        "rule": "events = (impl, i, j, ij2h, i02h, oj2h, h2ij->ij2i/ij2j) as bit / base-4 digit strings, and (depth, hash, to_uniq, to_uniq_ivoa, "
                "from_uniq, from_uniq_ivoa, Layer variants) as digit strings, rejections of depth > 29; non-trivial = all distinct events",
        "assumptions": ["TLC / SANY and the CommunityModules Json/IOUtils are correct", "u64 -> bit / base-4 digit conversion of the harness (shifts and masks)"],
        "stages": [
            {"kind": "mc", "module": "MC_Zoc", "cfg": {"quick": "MC_Zoc.cfg", "thorough": "MC_Zoc_thorough.cfg"}, "workers": 4},
            {"kind": "gen", "module": "Gen_Zoc", "cfg": {"quick": "Gen_Zoc.cfg", "thorough": "Gen_Zoc_thorough.cfg"}, "scenario": "C18", "exhaustive": True,
             "profiles": ["release", "bmi2"]},
            {"kind": "rec", "scenario": "C18", "count": {"quick": 12000, "thorough": 300000}, "trace_module": "Trace_Geo", "trace_cfg": "Trace_Geo.cfg",
             "profiles": ["release", "bmi2"]},
        ],
    },
    "C17": {
        "level": "model_checking",
        "claim": "The exact plane coordinates of every lattice point of small subdivisions (numerators over 2N) and the depth-0 cells whose "
                 "closure contains it (StarFace at N = 1 of the coarsened face) come from the specification; TLC enumerates all faces for "
                 "N in {1,2,3,4,8} (up to 32 thorough) - facet boundaries, |y| = 1, poles, seams - and the harness checks proj (5 turns, sign, "
                 "range, 1e-14), unproj of the exact point (both signs of x), both round trips and base_cell_from_proj_coo against them. Recorded "
                 "calls on random / adversarial positions are judged by the trace spec (thresholds and base-cell membership in TLC, deviations "
                 "measured by the bridge's independent C&R implementation). base_cell_from_proj_coo is transcribed in HashAlgo.tla and MC_HashAlgo "
                 "shows on every lattice point (x in [0,8], x = 8, negative x, perturbed coordinates) that it returns a base cell whose closure "
                 "contains the point; without the final wrap / clamp (variant f10) it does not.",
        "rule": "events = proj / unproj / round trips / base_cell_from_proj_coo on seeded positions (uniform, multi-turn, near-pole, adversarial, "
                "lattice +-ulp) and out-of-domain rejections; non-trivial = non-uniform class",
        "assumptions": GEO_ASSUME,
        "stages": [
            {"kind": "mc", "module": "MC_Geo", "cfg": {"quick": "MC_Geo.cfg", "thorough": "MC_Geo_thorough.cfg"}, "workers": 6},
            {"kind": "mc", "module": "MC_HashAlgo", "cfg": {"quick": "MC_HashAlgo_BaseCellOK.cfg", "thorough": "MC_HashAlgo_BaseCellOK_thorough.cfg"}, "workers": 6},
            {"kind": "gen", "module": "Gen_Proj", "cfg": {"quick": "Gen_Proj.cfg", "thorough": "Gen_Proj_thorough.cfg"}, "scenario": "C17", "exhaustive": True,
             "profiles": ["release", "debug"]},
            {"kind": "rec", "scenario": "C17", "count": {"quick": 20000, "thorough": 500000}, "trace_module": "Trace_Geo", "trace_cfg": "Trace_Geo.cfg",
             "profiles": ["release", "debug"],
             "nontrivial": lambda ev: ev.get("cls") != "uniform"},
        ],
    },
    "C07": {
        "level": "model_checking",
        "claim": "BMOC values are given a quadtree-forest semantics in TLA+ (map deepest cell -> absent/partial/full without expansion); the four "
                 "operators are structural recursions with the documented leaf tables and Canonical() is the packed normal form. MC_Bmoc checks on "
                 "every pair of a bounded universe (a history state machine over two registers) that Canonical is a normal form and that not-not, "
                 "De Morgan, commutativity, idempotence, a xor a = empty, a or not a = sky hold. TLC then enumerates every ordered pair of plain MOCs "
                 "of the universe with dmax mixes; the harness executes not/and/or/xor on the real crate and TLC validates the resulting events "
                 "(semantics AND canonical packed form AND dmax). Seeded random plain MOCs up to depth 29 (bushy, deep spines, empty, full sky, "
                 "single deepest first/last cell) are validated register-style over operation histories, together with the laws evaluated by "
                 "the crate through BMOC::equals.",
        "rule": "events = new (operand), op (not/and/or/xor over registers, results feed later operations), law (BMOC::equals on both sides of a law); "
                "non-trivial = every distinct op/law event whose operands are non-empty",
        "assumptions": ["TLC / SANY and the CommunityModules Json/IOUtils are correct",
                        "the harness's projection of a BMOC (its own 6-line decoder of the raw u64 entries: sentinel bit, flag bit, base-4 path) and BMOCBuilderUnsafe::push / to_bmoc used to build operands"],
        "stages": [
            {"kind": "mc", "module": "MC_Bmoc", "cfg": "MC_Bmoc_plain.cfg", "workers": 6},
            {"kind": "mc", "module": "MC_BmocAlgo", "cfg": {"quick": "MC_BmocAlgo.cfg", "thorough": "MC_BmocAlgo_thorough.cfg"}, "workers": 6},
            {"kind": "gentrace", "module": "Gen_Bmoc", "cfg": {"quick": "Gen_Bmoc_plain.cfg", "thorough": "Gen_Bmoc_plain.cfg"}, "scenario": "BMOC",
             "trace_module": "Trace_Bmoc", "trace_cfg": "Trace_Bmoc.cfg", "exhaustive": True, "clauses": ["panic", "dmax", "semantics", "canonical", "law_holds", "operand_wellformed"]},
            {"kind": "rec", "profiles": ["release", "debug"], "other_profile_frac": 0.5, "scenario": "C07", "count": {"quick": 3000, "thorough": 60000}, "trace_module": "Trace_Bmoc", "trace_cfg": "Trace_Bmoc.cfg",
             "shards": 10, "clauses": ["panic", "dmax", "semantics", "canonical", "law_holds", "operand_wellformed"],
             "nontrivial": lambda ev: ev["ev"] in ("op", "law")},
        ],
    },
    "C08": {
        "level": "model_checking",
        "claim": "BmocAlgo.tla transcribes the crate's cursor-based merge loops (not, and, or with not_in_cell_4_or, xor with not_in_cell_4_xor, "
                 "go_up / go_down / dd_4_go_up, consume_while_overlapped(_and_partial), pack, to_lower_depth), one operator per Rust function, "
                 "and MC_BmocAlgo checks on all 83 x 83 (249 x 249 thorough) ordered pairs of packed and unpacked BMOCs of the flagged universe "
                 "that each refines the semantic operator, keeps well-formedness, that pack leaves no four full siblings and that or / xor of "
                 "plain MOCs are canonical. Same semantics with the three-valued leaf tables (not swaps absent/full, and = min, or = max, xor table). MC_Bmoc checks the laws "
                 "that survive partial flags on all 81x81 pairs of the flagged universe over histories; TLC enumerates all 6561 ordered pairs "
                 "(dmax mixes in thorough), executed on the crate and validated semantically (several cell lists denote the same map, so no "
                 "canonical form is demanded); random mixes of flags and depths up to 29 are validated register-style.",
        "rule": "events = new / op over registers with arbitrary flags; non-trivial = every distinct op event",
        "assumptions": ["TLC / SANY and the CommunityModules Json/IOUtils are correct",
                        "the harness's projection of a BMOC (its own 6-line decoder of the raw u64 entries: sentinel bit, flag bit, base-4 path) and BMOCBuilderUnsafe::push / to_bmoc used to build operands"],
        "stages": [
            {"kind": "mc", "module": "MC_Bmoc", "cfg": "MC_Bmoc_flags.cfg", "workers": 6},
            {"kind": "mc", "module": "MC_BmocAlgo", "cfg": {"quick": "MC_BmocAlgo.cfg", "thorough": "MC_BmocAlgo_thorough.cfg"}, "workers": 6},
            {"kind": "gentrace", "module": "Gen_Bmoc", "cfg": {"quick": "Gen_Bmoc_flags.cfg", "thorough": "Gen_Bmoc_flags_thorough.cfg"}, "scenario": "BMOC",
             "trace_module": "Trace_Bmoc", "trace_cfg": "Trace_Bmoc.cfg", "exhaustive": True, "clauses": ["panic", "dmax", "semantics", "operand_wellformed"]},
            {"kind": "rec", "profiles": ["release", "debug"], "other_profile_frac": 0.5, "scenario": "C08", "count": {"quick": 3000, "thorough": 60000}, "trace_module": "Trace_Bmoc", "trace_cfg": "Trace_Bmoc.cfg",
             "shards": 10, "clauses": ["panic", "dmax", "semantics", "operand_wellformed"], "nontrivial": lambda ev: ev["ev"] == "op"},
        ],
    },
    "C09": {
        "level": "model_checking",
        "claim": "Well-formedness (depth <= dmax, base cell < 12, strictly increasing z-order with no nesting) and the agreement of all views are "
                 "clauses of the BMOC trace specification, evaluated on EVERY BMOC that enters a register in operation histories: outputs of "
                 "cone / elliptical cone / polygon queries, of both builders and of not/and/or/xor applied to them in sequences. Views: the entries "
                 "seen through into_iter equal the harness's independent decoding, each raw u64 equals the specification's Raw() digit string, "
                 "deep_size and to_ranges (as big naturals) equal DeepSizeBig / RangesOf (maximal runs: disjoint, non adjacent), flat_iter / "
                 "to_flat_array / flat_iter_cell equal the expansion in z-order with the covering entry's flag, size_hint is exact. MC_Bmoc "
                 "establishes at model level that Canonical(any reachable forest) is well formed and packed.",
        "rule": "events = query / fixed / new / op / view over registers in blocks of ~16 events (histories); results above 250 cells are not "
                "traced; non-trivial = distinct view and op events",
        "assumptions": BMOC_ASSUME,
        "stages": [
            {"kind": "mc", "module": "MC_Bmoc", "cfg": "MC_Bmoc_flags.cfg", "workers": 6},
            {"kind": "gentrace", "module": "Gen_Bmoc", "cfg": {"quick": "Gen_Bmoc_cells.cfg", "thorough": "Gen_Bmoc_cells.cfg"}, "scenario": "BMOC",
             "trace_module": "Trace_Bmoc", "trace_cfg": "Trace_Bmoc.cfg", "exhaustive": True,
             "clauses": ["wellformed", "entries", "raw_encoding", "deep_size", "ranges", "flat", "operand_wellformed"]},
            {"kind": "rec", "profiles": ["release", "debug"], "other_profile_frac": 0.5, "scenario": "C09", "count": {"quick": 2500, "thorough": 80000}, "trace_module": "Trace_Bmoc", "trace_cfg": "Trace_Bmoc.cfg",
             "shards": 10, "clauses": ["wellformed", "entries", "raw_encoding", "deep_size", "ranges", "flat", "operand_wellformed"],
             "nontrivial": lambda ev: ev["ev"] in ("op", "view", "query", "fixed")},
        ],
    },
    "C15": {
        "level": "model_checking",
        "claim": "Model level: Builder.tla transcribes BMOCBuilderFixedDepth (push with dedup-last and sortedness tracking, drain at capacity, "
                 "buff_to_bmoc with largest_lower_cell_sequence_len and the power-of-two arithmetic, merge by or) as a state machine and TLC checks, "
                 "for every push sequence of <= 5 pushes over 8 (12) cells and every capacity, that accumulated + buffered = pushed at every step, "
                 "that the sorted flag is truthful and that the result is None iff nothing was pushed (22 k / 280 k states). Thorough tier: MC_BmocAlgoDeep "
                 "runs the transcriptions of pack / not / to_lower_depth on 98 882 well-formed plain cell lists (all those of depth <= 2 in a base cell, and the exploded ones of depth <= 3) "
                 "(four full siblings at either level, three full sibling base cells beside them: cascades of two levels that must stop at depth 0). Code level: "
                 "the fixed-depth builder must return exactly the set of pushed cells with the requested flag (semantic equality with the forest "
                 "of the pushed set), None iff nothing was pushed; pack must keep the cell-to-state map and leave no four full siblings; lower-depth "
                 "must produce Lower(Sem) (coarse cell kept iff it contained something, full iff entirely full). TLC enumerates every push sequence "
                 "of length <= 3 (4) over 6 (8) cells of depth 1 for each capacity 1..4 (1..5) and flag; the buffer being private, the harness "
                 "replays every PREFIX on a fresh builder so that the abstract state is compared after each push; every cell list of the flagged "
                 "universe (packed and unpacked presentations) goes through pack / lower at every target depth. Long seeded sequences (sorted, "
                 "reverse, random, clustered runs aligned or not, duplicates, capacities 1..1000, depths to 29) are validated by the trace spec.",
        "rule": "events = fixed (pushes, capacity, flag, result), pack, lower; non-trivial = every distinct event with at least one pushed / source cell",
        "assumptions": BMOC_ASSUME,
        "stages": [
            {"kind": "mc", "module": "MC_Bmoc", "cfg": "MC_Bmoc_flags.cfg", "workers": 6},
            {"kind": "mc", "module": "Builder", "cfg": {"quick": "MC_Builder.cfg", "thorough": "MC_Builder_d2.cfg"}, "workers": 6},
            {"kind": "mc", "module": "MC_BmocAlgoDeep", "cfg": "MC_BmocAlgoDeep_sib.cfg", "workers": 6, "tiers": ("thorough",)},
            {"kind": "gentrace", "module": "Gen_Bmoc", "cfg": {"quick": "Gen_Bmoc_pushes.cfg", "thorough": "Gen_Bmoc_pushes_thorough.cfg"}, "scenario": "BMOC",
             "trace_module": "Trace_Bmoc", "trace_cfg": "Trace_Bmoc.cfg", "exhaustive": True},
            {"kind": "gentrace", "module": "Gen_Bmoc", "cfg": {"quick": "Gen_Bmoc_cells.cfg", "thorough": "Gen_Bmoc_cells.cfg"}, "scenario": "BMOC",
             "trace_module": "Trace_Bmoc", "trace_cfg": "Trace_Bmoc.cfg", "exhaustive": True,
             "clauses": ["panic", "dmax", "wellformed", "same_map", "no_four_full_siblings", "lowered_map", "packed_if_asked", "operand_wellformed"]},
            {"kind": "rec", "profiles": ["release", "debug"], "other_profile_frac": 0.5, "scenario": "C15", "count": {"quick": 4000, "thorough": 80000}, "trace_module": "Trace_Bmoc", "trace_cfg": "Trace_Bmoc.cfg",
             "shards": 10, "nontrivial": lambda ev: ev["ev"] in ("fixed", "pack", "lower")},
        ],
    },
    "C20": {
        "level": "model_checking",
        "claim": "The Once-based initialisation is specified as a state machine with one action per critical section (Check1 = the "
                 "unsynchronised fast-path read of the ORIGINAL code, absent from the repaired code: constant FastPath; EnterOnce, Construct, "
                 "Publish - atomic or torn in two steps -, Complete, Check2, Return); TLC explores every interleaving of 3 threads x 2 keys x 2 "
                 "calls (57k states): each key is constructed at most once, every return is a complete object, the same for a key, and every call "
                 "terminates under fairness, EVEN IF the store into the slot is torn; the original code (FastPath) with a torn store violates "
                 "NoTorn - the defect F25 that the races then exhibited on the real crate - and the variant without Once violates BuiltOnce "
                 "(non-vacuity). Thorough tier: LazyInd.tla states an inductive invariant of the repaired code (per key: nobody inside the Once while it is inc or done, exactly one thread inside while it is run, with the slot / counter values of each step) and Apalache checks Init => IndInv, IndInv /\\ Next => IndInv' and IndInv => the four safety properties for 4 threads x 2 keys, torn or atomic store, ANY number of calls per thread; the same invariant is not inductive for the original fast path. Real races: many fresh processes (the statics initialise once per process), 2..16 threads released by a barrier "
                 "first-use several depths of both tables (Layer via nested::get_or_create, constants via largest_center_to_vertex_distance); "
                 "inv / resp (harness) and construct (cfg-guarded hook in Layer::new and ConstantsC2V::new, with an optional busy-wait widening the "
                 "window) are totally ordered under one mutex; each response carries the returned address and an immediate probe through the "
                 "reference (n_hash, hash, centre, neighbours / distance) compared with single-threaded values. TLC must find an interleaving "
                 "of the unlogged internal steps explaining every history (a second construction, two addresses, a failed probe or a panic has none).",
        "rule": "one evaluation = one recorded event; one trace = the history of one process run; non-trivial = distinct histories",
        "assumptions": ["TLC / SANY and the CommunityModules Json/IOUtils are correct",
                        "the hook log's mutex gives a total order consistent with real time; the hook only adds a log entry and an optional delay at the top of the constructors",
                        "in the trace specification a torn object is never an acceptable explanation of a response (Torn = FALSE there): a failed "
                        "probe rejects the history"],
        "stages": [
            {"kind": "mc", "module": "Lazy", "cfg": "MC_Lazy.cfg", "workers": 6},
            {"kind": "ind", "module": "LazyInd", "cinit": "ConstInit4", "indinit": "IndInit", "inv": "IndInv", "safety": "Safety", "tiers": ("thorough",)},
            {"kind": "race", "runs": {"quick": 80, "thorough": 1500}, "profiles": ["release", "debug"]},
        ],
    },
    "C03": {
        "level": "model_checking",
        "claim": "For a cell the specification gives exact expectations: the centre lies in the open cell at local coordinates (i+1/2, j+1/2), "
                 "the vertices returned in the order S, E, N, W are the four nodes of the cell as sphere points (Canon, so that a vertex expressed "
                 "in a neighbouring base cell is recognised), every point of the edge path / inner grid lies in a face whose star contains the cell "
                 "(and on the border for the path), interior offsets map where the grid says. TLC generates all cells of small depths and the "
                 "corner / border classes of each base cell at deep depths; recorded calls on random cells and positions (hash_with_dxdy: cell in "
                 "StarFace, equal to hash() off borders, offsets in [0,1], position recovered through the SPECIFICATION's cell origin within 1e-13 "
                 "rad, sph_coo inverse) are judged by the trace spec; out-of-range cell numbers must panic in every accessor. HashAlgo.tla "
                 "transcribes hash_with_dxdy (proj, shift_rotate_scale, discretize, base_cell_coos, depth0_bits, hash_with_dxdy_out_of_base_cells) "
                 "on exact rationals and MC_HashAlgo shows on every lattice point (seams, poles, gap squares between the polar triangles included) "
                 "that the cell contains the position, the offsets are in [0,1] (up to the modelled rounding) and cell origin + offsets is the "
                 "position as a sphere point; routing the gap squares through depth0_bits (variant nooob) violates it.",
        "rule": "events = cellgeo (center, vertices x4 accessors, 25 sph_coo offsets, edge path, grid, inward-nudged re-hash), hash_dxdy, cell_bad; "
                "non-trivial = border / seam classes and cells on base-cell borders",
        "assumptions": GEO_ASSUME,
        "stages": [
            {"kind": "mc", "module": "MC_Geo", "cfg": {"quick": "MC_Geo.cfg", "thorough": "MC_Geo_thorough.cfg"}, "workers": 6},
            {"kind": "mc", "module": "MC_HashAlgo", "cfg": {"quick": "MC_HashAlgo_DxDyOK.cfg", "thorough": "MC_HashAlgo_DxDyOK_thorough.cfg"}, "workers": 6},
            {"kind": "gentrace", "module": "Gen_Neigh", "cfg": {"quick": "Gen_Neigh.cfg", "thorough": "Gen_Neigh_thorough.cfg"}, "scenario": "C03",
             "trace_module": "Trace_Geo", "trace_cfg": "Trace_Geo.cfg", "exhaustive": True},
            {"kind": "rec", "profiles": ["release", "debug"], "scenario": "C03", "count": {"quick": 12000, "thorough": 300000}, "trace_module": "Trace_Geo", "trace_cfg": "Trace_Geo.cfg",
             "nontrivial": lambda ev: ev.get("cls") != "uniform"},
        ],
    },
    "C19": {
        "level": "model_checking",
        "claim": "The four cells must be the cell containing the position (StarFace) or its neighbours in the specification's adjacency (not the "
                 "crate's own neighbour tables), that cell present, weights >= 0 summing to 1, weight 1 at the centre, the barycentre identity "
                 "in integer cell coordinates when the four cells share a base cell, and a duplicated cell only next to a missing cardinal "
                 "neighbour with weight 0. TLC generates all cells of small depths and base-cell corner / border classes (7 positions each: centre, "
                 "the four quadrants, near two borders); recorded random positions at all depths are validated by the trace spec. Bilinear.tla "
                 "transcribes the four quarters and the four missing-neighbour branches on exact rationals over the GEOMETRIC adjacency; "
                 "MC_Bilinear shows on every cell of N in {1,2,4} (1,2,3,4,5,8 thorough) and every lattice offset that the weights are >= 0, sum to 1, "
                 "give 1 at the centre, satisfy the barycentre identity inside a base cell and that a duplicated cell is the position's cell with "
                 "weight 0 next to a three-cell point.",
        "rule": "events = bilinear_interpolation(position) with the cell of hash_with_dxdy; non-trivial = non-uniform classes",
        "assumptions": GEO_ASSUME,
        "stages": [
            {"kind": "mc", "module": "MC_Geo", "cfg": {"quick": "MC_Geo.cfg", "thorough": "MC_Geo_thorough.cfg"}, "workers": 6},
            {"kind": "mc", "module": "MC_Bilinear", "cfg": {"quick": "MC_Bilinear.cfg", "thorough": "MC_Bilinear_thorough.cfg"}, "workers": 4},
            {"kind": "gentrace", "module": "Gen_Neigh", "cfg": {"quick": "Gen_Neigh.cfg", "thorough": "Gen_Neigh_thorough.cfg"}, "scenario": "C19",
             "trace_module": "Trace_Geo", "trace_cfg": "Trace_Geo.cfg", "exhaustive": True},
            {"kind": "rec", "profiles": ["release", "debug"], "scenario": "C19", "count": {"quick": 12000, "thorough": 300000}, "trace_module": "Trace_Geo", "trace_cfg": "Trace_Geo.cfg",
             "nontrivial": lambda ev: ev.get("cls") != "uniform"},
        ],
    },
    "C05": {
        "level": "model_checking",
        "claim": "Model level (Coverage.tla): the descent rule (full if shs(centre) <= shs(r - D), descend / partial if <= shs(r + D), else drop) "
                 "is checked on every chain of nested cells and every point satisfying the C16 lemma |dist(point) - dist(centre)| <= D[level]: "
                 "no cell holding a point of the cone is dropped and no full cell holds a point outside (113k states); the thresholds exactly "
                 "as the crate computed them violate both (non-vacuity and model-level discovery of the r + D > pi and r < D defects). Code level: "
                 "for seeded and TLC-generated cones (centre on every face class of small depths incl. seams and poles; radii at both sides of "
                 "each of the 29 starting-depth thresholds, 1e-9, pi/2 +- eps, 130 deg, pi - eps, log-uniform; delta_depth 0..3) the bridge "
                 "computes witness cells that provably contain a point of the cone and TLC checks that each is covered by the BMOC, possibly "
                 "through an ancestor (digit-path prefix). Witnesses come from 11 rings of >= 240 points and from every cell vertex inside the cone (points "
                 "of the cone in each cell sharing the vertex: corner touches); one recorded query in three is preceded by unrecorded queries on related "
                 "arguments (same radius elsewhere in the region, same centre at another depth: the answer must not depend on earlier calls).",
        "rule": "events = one cone query with its BMOC, witness cells (<= 120 distinct), worst excess of full cells, worst slack; non-trivial = all "
                "distinct events",
        "assumptions": ["TLC / SANY and the CommunityModules Json/IOUtils are correct",
                        "the reference bridge (harness/src/geo.rs): C&R formulae, atan2-based angular distance, face classification; a witness is kept only if it is "
                        "inside the cone by a margin (r (1 - 1e-7) - 3e-15) AND inside a cell by 2e-4 cell, so that its cell provably contains a point of the cone",
                        "Dmax(depth) used for tightness is measured by the bridge over all cells of depths 0..5 and scaled (x1.02) deeper",
                        "results larger than 300 cells are not traced"],
        "stages": [
            {"kind": "mc", "module": "MC_Coverage", "cfg": "MC_Coverage.cfg", "workers": 6},
            {"kind": "gentrace", "module": "Gen_Faces", "cfg": {"quick": "Gen_Faces_cov.cfg", "thorough": "Gen_Faces.cfg"}, "scenario": "CONE",
             "trace_module": "Trace_Bmoc", "trace_cfg": "Trace_Bmoc.cfg", "clauses": ["panic", "no_miss"]},
            {"kind": "rec", "profiles": ["release", "debug"], "other_profile_frac": 0.5, "scenario": "CONE", "count": {"quick": 9000, "thorough": 150000}, "trace_module": "Trace_Bmoc", "trace_cfg": "Trace_Bmoc.cfg",
             "shards": 10, "clauses": ["panic", "no_miss"]},
            {"kind": "rec", "scenario": "CONEBIG", "count": {"quick": 800, "thorough": 12000}, "trace_module": "Trace_Bmoc", "trace_cfg": "Trace_Bmoc.cfg",
             "shards": 10, "clauses": ["panic", "no_miss"]},
        ],
    },
    "C06": {
        "level": "model_checking",
        "claim": "Same runs as C05, other clauses: the result is well formed at the requested depth and packed (no four full siblings, decided "
                 "on digit paths), a radius >= pi yields exactly the 12 full base cells, every cell flagged full has its 4 vertices and 28 edge "
                 "points (exact plane coordinates through the bridge) within the radius (tolerance 1e-12 + 1e-9 r), and every reported cell's centre "
                 "is within r + 2 Dmax(depth of the cell). The model-level invariants Truthful and Tight of Coverage.tla hold for the intended rule.",
        "rule": "events = as C05; non-trivial = all distinct events",
        "assumptions": ["TLC / SANY and the CommunityModules Json/IOUtils are correct",
                        "the reference bridge (harness/src/geo.rs): C&R formulae, atan2-based angular distance, face classification; a witness is kept only if it is "
                        "inside the cone by a margin (r (1 - 1e-7) - 3e-15) AND inside a cell by 2e-4 cell, so that its cell provably contains a point of the cone",
                        "Dmax(depth) used for tightness is measured by the bridge over all cells of depths 0..5 and scaled (x1.02) deeper",
                        "results larger than 300 cells are not traced"],
        "stages": [
            {"kind": "mc", "module": "MC_Coverage", "cfg": "MC_Coverage.cfg", "workers": 6},
            {"kind": "gentrace", "module": "Gen_Faces", "cfg": {"quick": "Gen_Faces_cov.cfg", "thorough": "Gen_Faces.cfg"}, "scenario": "CONE",
             "trace_module": "Trace_Bmoc", "trace_cfg": "Trace_Bmoc.cfg", "clauses": ["dmax", "wellformed", "packed", "allsky", "full_truthful", "tight"]},
            {"kind": "rec", "profiles": ["release", "debug"], "other_profile_frac": 0.5, "scenario": "CONE", "count": {"quick": 6000, "thorough": 150000}, "trace_module": "Trace_Bmoc", "trace_cfg": "Trace_Bmoc.cfg",
             "shards": 10, "clauses": ["dmax", "wellformed", "packed", "allsky", "full_truthful", "tight"]},
            {"kind": "rec", "scenario": "CONEBIG", "count": {"quick": 800, "thorough": 12000}, "trace_module": "Trace_Bmoc", "trace_cfg": "Trace_Bmoc.cfg",
             "shards": 10, "clauses": ["dmax", "wellformed", "packed", "allsky", "full_truthful", "tight"]},
        ],
    },
    "C16": {
        "level": "exploration",
        "claim": "What the specification decides: (a) best_starting_depth is the deepest depth whose table entry exceeds r - the unrolled binary "
                 "search is transcribed in TLA+ and model-checked equal to the definition on all 61 order classes of r relative to an abstract "
                 "strictly decreasing table; TLC generates the classes, the harness instantiates them on the table the crate actually uses (read "
                 "through a cfg-guarded accessor: T[d], next float up / down, midpoints) and compares, plus refusal above the depth-0 limit and "
                 "monotonicity of the table; (b) the 9-cell claim: at best_starting_depth(r) every cell that provably contains a point of the cone "
                 "is the centre's cell or adjacent to it in the specification's adjacency. What the bridge measures and TLC only thresholds: (c) the "
                 "bound >= true centre-to-farthest-vertex distance (exact vertices from the spec) for cells at random positions, and for the "
                 "_with_radius variants over sampled cells whose centre lies within the radius. Level exploration: the inequalities themselves "
                 "are not something TLC decides.",
        "rule": "events = c2v (cell, position in the cell, bound vs truth), c2v_radius (position, radius, scalar and per-depth array bounds vs "
                "sampled cells in the disc), fits9 (cone at its best starting depth); non-trivial = all distinct events",
        "assumptions": GEO_ASSUME,
        "stages": [
            {"kind": "mc", "module": "Lookup", "cfg": "MC_Lookup.cfg", "workers": 2},
            {"kind": "mc", "module": "MC_Geo", "cfg": {"quick": "MC_Geo.cfg", "thorough": "MC_Geo_thorough.cfg"}, "workers": 6},
            {"kind": "gen", "module": "Gen_Lookup", "cfg": "Gen_Lookup.cfg", "scenario": "C16a", "exhaustive": True},
            {"kind": "rec", "profiles": ["release", "debug"], "other_profile_frac": 0.5, "scenario": "C16", "count": {"quick": 8000, "thorough": 200000}, "trace_module": "Trace_Geo", "trace_cfg": "Trace_Geo.cfg"},
        ],
    },
    "C13": {
        "level": "exploration",
        "claim": "Decided by the specification: the result is well formed at the requested depth; some cell whose closure contains the ellipse "
                 "centre (StarFace of its face, z-order path through HpxZoc) is covered, possibly by an ancestor; when a = b the C05 witness rule "
                 "applies verbatim (every cell provably containing a point of the circular cone is covered); a >= pi/2 panics, for the plain and the "
                 "custom variant. Measured by the bridge, thresholded by TLC: no reported cell centre farther than a + 2 Dmax(depth). Classes: "
                 "centres as C05 (seams, poles, borders), axis ratio {1, 0.9, 0.5, 0.1, 0.01}, position angle {0, pi/4, pi/2, 3pi/4, pi - eps, random}, "
                 "a at the starting-depth thresholds, just below pi/2 and log-uniform, delta_depth 0..3. Level exploration: the inside / outside "
                 "predicate of a non-circular ellipse is not re-derived.",
        "rule": "events = one elliptical cone query (plain or custom) with its BMOC; non-trivial = all distinct events",
        "assumptions": COV_ASSUME,
        "stages": [
            {"kind": "mc", "module": "MC_Coverage", "cfg": "MC_Coverage.cfg", "workers": 6},
            {"kind": "rec", "profiles": ["release", "debug"], "other_profile_frac": 0.5, "scenario": "C13", "count": {"quick": 12000, "thorough": 150000}, "trace_module": "Trace_Bmoc", "trace_cfg": "Trace_Bmoc.cfg", "shards": 10},
        ],
    },
    # Behaviour of the public API that none of the listed properties names, specified and checked all the same (DESIGN section 16).
    # Not a property of the given list: not registered in MANIFEST.json, its evidence goes to out/extra-evidence/.
    "X00": {
        "level": "model_checking",
        "claim": "to_range = the contiguous block of 4^delta descendant numbers (first / last descendant from the hierarchy of HpxGeo); nside / n_hash / "
                 "nside_square / depth / is_depth / is_nside as arithmetic on the depth, refusals above depth 29 and on non powers of two; the "
                 "accessors of MainWindMap on neighbour maps (values = the geometric neighbours, sorted_values increasing, entries = the "
                 "neighbour map, all accessors agree); cone_coverage_approx_flat = the flat view of cone_coverage_approx.",
        "rule": "events = to_range, sizes, sizes_bad, wind_map (Trace_Geo), cone with the clause flat_variant (Trace_Bmoc)",
        "assumptions": GEO_ASSUME,
        "stages": [
            {"kind": "rec", "profiles": ["release", "debug"], "scenario": "EXTRA", "count": {"quick": 8000, "thorough": 200000}, "trace_module": "Trace_Geo", "trace_cfg": "Trace_Geo.cfg"},
            {"kind": "rec", "profiles": ["release", "debug"], "other_profile_frac": 0.5, "scenario": "CONE", "count": {"quick": 3000, "thorough": 60000}, "trace_module": "Trace_Bmoc", "trace_cfg": "Trace_Bmoc.cfg",
             "shards": 10, "clauses": ["panic", "flat_variant"]},
        ],
    },
    "C12": {
        "level": "exploration",
        "claim": "Decided by the specification: the result is well formed at the requested depth and, for every polygon vertex, some cell whose closure "
                 "contains it is covered (both modes). Measured by the bridge with an independent convex point-in-polygon test (same side of every "
                 "edge's great circle as the centre, margin 1e-9) and thresholded by TLC: for convex polygons every cell flagged full has its 4 "
                 "vertices and centre inside; polygons built in a cone of radius < 0.3 have no reported cell centre farther than radius + 2 Dmax; "
                 "Polygon::contains agrees with the geometric definition on ~30 points per polygon (around the polygon, near its vertices, anywhere "
                 "on the sphere). Classes: 3..8 vertices, both windings, regular convex / star-shaped with jitter, sizes 1e-7 .. 0.78 rad, centres "
                 "incl. lon = 0 crossing and base-cell seams, short of the poles. No-miss soundness is not claimed (the property does not).",
        "rule": "events = one polygon query (approx or exact) with its BMOC; non-trivial = all distinct events",
        "assumptions": COV_ASSUME,
        "stages": [
            {"kind": "mc", "module": "MC_Geo", "cfg": {"quick": "MC_Geo.cfg", "thorough": "MC_Geo_thorough.cfg"}, "workers": 6},
            {"kind": "rec", "profiles": ["release", "debug"], "other_profile_frac": 0.5, "scenario": "C12", "count": {"quick": 9000, "thorough": 120000}, "trace_module": "Trace_Bmoc", "trace_cfg": "Trace_Bmoc.cfg", "shards": 10},
        ],
    },
}
