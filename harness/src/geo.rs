//! The reference bridge: the only floating-point code of the harness that is trusted.
//! It converts between float positions (lon, lat) and the specification's vocabulary
//! (base cell + local integer coordinates, faces in doubled coordinates) using the
//! Calabretta & Roukema formulae directly.  It shares no code with the crate.
use serde_json::{json, Value};

pub const PI: f64 = std::f64::consts::PI;
pub const TWO_PI: f64 = 2.0 * PI;
pub const HALF_PI: f64 = 0.5 * PI;
pub const SQRT6: f64 = 2.449489742783178;

#[derive(Clone, Copy, Debug, PartialEq, Eq, Hash, PartialOrd, Ord)]
pub struct Cell { pub b: u8, pub i: u32, pub j: u32 }

/// A face of the cell complex of subdivision n in doubled coordinates (see HpxGeo.tla).
#[derive(Clone, Copy, Debug, PartialEq, Eq, Hash)]
pub struct Face { pub b: u8, pub a2: u32, pub c2: u32 }

pub fn cx(b: u8) -> i32 { let q = (b % 4) as i32; if b / 4 == 1 { 2 * q } else { 2 * q + 1 } }
pub fn cy(b: u8) -> i32 { 1 - (b / 4) as i32 }

impl Cell {
  pub fn json(&self) -> Value { json!([self.b, self.i, self.j]) }
  pub fn from_json(v: &Value) -> Cell {
    Cell { b: v[0].as_u64().unwrap() as u8, i: v[1].as_u64().unwrap() as u32, j: v[2].as_u64().unwrap() as u32 }
  }
}
impl Face {
  pub fn json(&self) -> Value { json!([self.b, self.a2, self.c2]) }
  pub fn from_json(v: &Value) -> Face {
    Face { b: v[0].as_u64().unwrap() as u8, a2: v[1].as_u64().unwrap() as u32, c2: v[2].as_u64().unwrap() as u32 }
  }
  pub fn kind(&self) -> &'static str {
    match (self.a2 & 1, self.c2 & 1) { (1, 1) => "cell", (0, 0) => "node", _ => "edge" }
  }
}

// ---------------------------------------------------------------- u64 <-> (b, i, j) / digits
fn compact(mut x: u64) -> u32 { // keep even bits
  x &= 0x5555555555555555;
  x = (x | (x >> 1)) & 0x3333333333333333;
  x = (x | (x >> 2)) & 0x0F0F0F0F0F0F0F0F;
  x = (x | (x >> 4)) & 0x00FF00FF00FF00FF;
  x = (x | (x >> 8)) & 0x0000FFFF0000FFFF;
  x = (x | (x >> 16)) & 0x00000000FFFFFFFF;
  x as u32
}
fn spread(x: u32) -> u64 {
  let mut x = x as u64;
  x = (x | (x << 16)) & 0x0000FFFF0000FFFF;
  x = (x | (x << 8)) & 0x00FF00FF00FF00FF;
  x = (x | (x << 4)) & 0x0F0F0F0F0F0F0F0F;
  x = (x | (x << 2)) & 0x3333333333333333;
  x = (x | (x << 1)) & 0x5555555555555555;
  x
}
/// NESTED convention: i on even bits, j on odd bits, base cell above.
pub fn cell_of_hash(depth: u8, h: u64) -> Cell {
  let sh = 2 * depth as u32;
  let b = (h >> sh) as u8;
  let low = if sh == 0 { 0 } else { h & ((1u64 << sh) - 1) };
  Cell { b, i: compact(low), j: compact(low >> 1) }
}
pub fn hash_of_cell(depth: u8, c: Cell) -> u64 {
  ((c.b as u64) << (2 * depth as u32)) | spread(c.i) | (spread(c.j) << 1)
}
/// base cell + base-4 digit path, most significant first
pub fn path_of_hash(depth: u8, h: u64) -> (u64, Vec<u8>) {
  let b = h >> (2 * depth as u32);
  let p = (0..depth).map(|k| ((h >> (2 * (depth - 1 - k) as u32)) & 3) as u8).collect();
  (b, p)
}
pub fn hash_of_path(b: u64, p: &[u8]) -> u64 {
  let mut h = b;
  for d in p { h = (h << 2) | (*d as u64); }
  h
}
/// a u64 as base-2^15 digits, least significant first (TLC integers are 32 bit)
pub fn big_digits(mut v: u64) -> Value {
  let mut d = Vec::new();
  loop { d.push(v & 0x7FFF); v >>= 15; if v == 0 { break; } }
  json!(d)
}

// ---------------------------------------------------------------- local coordinates -> sphere
/// (lon, lat) of the point with local real coordinates (a, c) in [0, n]^2 of base cell b.
/// lon is returned in [0, 2pi] (may be slightly outside by rounding).
pub fn ref_unproj_local(n: f64, b: u8, a: f64, c: f64) -> (f64, f64) {
  let r = b / 4;
  let s_ac = a + c;
  let d = a - c;
  let xc = cx(b) as f64;
  // y = cy - 1 + (a + c)/n
  let (t, lat);
  if r == 1 || (r == 0 && s_ac <= n) || (r == 2 && s_ac >= n) {
    // equatorial belt: x = t, z = 2y/3
    let y = (cy(b) - 1) as f64 + s_ac / n;
    t = xc + d / n;
    lat = (2.0 * y / 3.0).asin();
  } else if r == 0 {
    let s = 2.0 * n - s_ac; // sigma * n
    t = if s == 0.0 { xc } else { xc + d / s };
    lat = HALF_PI - 2.0 * ((s / n) / SQRT6).asin();
  } else {
    let s = s_ac; // sigma * n
    t = if s == 0.0 { xc } else { xc + d / s };
    lat = -(HALF_PI - 2.0 * ((s / n) / SQRT6).asin());
  }
  let mut t = t;
  if t < 0.0 { t += 8.0; }
  (t * (PI / 4.0), lat)
}

/// exact-ish point of a face: even coordinates sit on their grid line, odd ones at
/// `fa`, `fc` (in (0,1)) inside their column.
pub fn face_point(n: u32, f: Face, fa: f64, fc: f64) -> (f64, f64) {
  let a = if f.a2 & 1 == 0 { (f.a2 / 2) as f64 } else { (f.a2 / 2) as f64 + fa };
  let c = if f.c2 & 1 == 0 { (f.c2 / 2) as f64 } else { (f.c2 / 2) as f64 + fc };
  ref_unproj_local(n as f64, f.b, a, c)
}

// ---------------------------------------------------------------- sphere -> plane -> local
/// HEALPix projection, x in [0, 8), y in [-2, 2]
pub fn ref_proj(lon: f64, lat: f64) -> (f64, f64) {
  let mut t = (lon * (4.0 / PI)).rem_euclid(8.0);
  if t >= 8.0 { t = 0.0; }
  let z = lat.sin();
  if z.abs() <= 2.0 / 3.0 {
    (t, 1.5 * z)
  } else {
    let sigma = SQRT6 * (PI / 4.0 - 0.5 * lat.abs()).sin().abs();
    let xc = 2.0 * (t / 2.0).floor() + 1.0;
    let x = xc + (t - xc) * sigma;
    (x, if lat > 0.0 { 2.0 - sigma } else { sigma - 2.0 })
  }
}

/// sphere position of a point of the projection plane (x any real, |y| <= 2); lon in [0, 2pi)
pub fn ref_unproj_plane(x: f64, y: f64) -> (f64, f64) {
  let x = x.rem_euclid(8.0);
  if y.abs() <= 1.0 {
    (x * (PI / 4.0), (2.0 * y / 3.0).asin())
  } else {
    let sigma = 2.0 - y.abs();
    let xc = 2.0 * (x / 2.0).floor() + 1.0;
    let t = if sigma <= 0.0 { xc } else { xc + ((x - xc) / sigma).max(-1.0).min(1.0) };
    let lat = HALF_PI - 2.0 * (sigma.max(0.0) / SQRT6).asin();
    (t.rem_euclid(8.0) * (PI / 4.0), if y > 0.0 { lat } else { -lat })
  }
}

/// real local coordinates of plane point (x, y) in base cell b
pub fn local_of_plane(n: f64, b: u8, x: f64, y: f64) -> (f64, f64) {
  let mut u = x - cx(b) as f64;
  if u >= 4.0 { u -= 8.0; }
  if u < -4.0 { u += 8.0; }
  let v = y - cy(b) as f64;
  (0.5 * n * (u + v + 1.0), 0.5 * n * (-u + v + 1.0))
}

/// absolute tolerance (in plane units) of the bridge for a longitude of this magnitude
pub fn tol_plane(lon: f64) -> f64 { 2e-14 * (1.0 + lon.abs() / TWO_PI) }

/// The face of subdivision n whose relative interior contains the position, with a
/// tolerance: a coordinate within `tol_cells` of a grid line is taken to be on it
/// (which only enlarges the star the result is compared with).
pub fn face_of(n: u32, lon: f64, lat: f64) -> Face {
  let nf = n as f64;
  let tol = (tol_plane(lon) * nf).max(1e-9);
  let (x, y) = ref_proj(lon, lat);
  let mut best: Option<(f64, Face)> = None;
  for b in 0u8..12 {
    let (a, c) = local_of_plane(nf, b, x, y);
    // how far outside [0, n]^2
    let out = (-a).max(a - nf).max(-c).max(c - nf).max(0.0);
    if out <= tol {
      let f = Face { b, a2: coord2(a, nf, tol), c2: coord2(c, nf, tol) };
      if best.map_or(true, |(o, _)| out < o) { best = Some((out, f)); }
    }
  }
  best.expect("bridge: position not located in any base cell").1
}
fn coord2(a: f64, n: f64, tol: f64) -> u32 {
  let a = a.max(0.0).min(n);
  let r = a.round();
  if (a - r).abs() <= tol { 2 * r as u32 } else { 2 * a.floor() as u32 + 1 }
}

/// real local coordinates of a position inside a given base cell (no rounding to faces)
pub fn local_of(n: u32, b: u8, lon: f64, lat: f64) -> (f64, f64) {
  let (x, y) = ref_proj(lon, lat);
  local_of_plane(n as f64, b, x, y)
}

// ---------------------------------------------------------------- metric
pub fn haversine(lon1: f64, lat1: f64, lon2: f64, lat2: f64) -> f64 {
  let sdlat = (0.5 * (lat2 - lat1)).sin();
  let sdlon = (0.5 * (lon2 - lon1)).sin();
  let h = sdlat * sdlat + lat1.cos() * lat2.cos() * sdlon * sdlon;
  2.0 * h.sqrt().min(1.0).asin()
}
pub fn vec3(lon: f64, lat: f64) -> [f64; 3] {
  let (sl, cl) = lon.sin_cos();
  let (sb, cb) = lat.sin_cos();
  [cb * cl, cb * sl, sb]
}
pub fn lonlat_of_vec(v: [f64; 3]) -> (f64, f64) {
  let n = (v[0] * v[0] + v[1] * v[1] + v[2] * v[2]).sqrt();
  let mut lon = v[1].atan2(v[0]);
  if lon < 0.0 { lon += TWO_PI; }
  let lat = (v[2] / n).atan2((v[0] * v[0] + v[1] * v[1]).sqrt() / n);
  (lon, lat)
}
/// angular distance by the atan2 form (accurate everywhere)
pub fn ang_dist(lon1: f64, lat1: f64, lon2: f64, lat2: f64) -> f64 {
  let a = vec3(lon1, lat1);
  let b = vec3(lon2, lat2);
  let cr = [a[1] * b[2] - a[2] * b[1], a[2] * b[0] - a[0] * b[2], a[0] * b[1] - a[1] * b[0]];
  let s = (cr[0] * cr[0] + cr[1] * cr[1] + cr[2] * cr[2]).sqrt();
  let c = a[0] * b[0] + a[1] * b[1] + a[2] * b[2];
  s.atan2(c)
}
/// point at angular distance `r` from (lon, lat) in direction of azimuth `az` (from north, eastwards)
pub fn offset_point(lon: f64, lat: f64, r: f64, az: f64) -> (f64, f64) {
  let p = vec3(lon, lat);
  // local east and north unit vectors
  let e = [-lon.sin(), lon.cos(), 0.0];
  let nn = [-lat.sin() * lon.cos(), -lat.sin() * lon.sin(), lat.cos()];
  let (sr, cr) = r.sin_cos();
  let (sa, ca) = az.sin_cos();
  let v = [
    cr * p[0] + sr * (ca * nn[0] + sa * e[0]),
    cr * p[1] + sr * (ca * nn[1] + sa * e[1]),
    cr * p[2] + sr * (ca * nn[2] + sa * e[2]),
  ];
  lonlat_of_vec(v)
}
