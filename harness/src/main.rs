fn main() { println!("{}", cdshealpix::nested::hash(1, 0.1, 0.2)); let v: serde_json::Value = serde_json::json!({"a":1}); println!("{}", v); }
