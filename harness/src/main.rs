//! hpx: the conformance harness binding the TLA+ specification to the real crate.
//!   hpx record <scenario> --seed S --count N --out trace.ndjson     (impl -> spec: events for TLC)
//!   hpx replay <scenario> --in cases.ndjson --out verdicts.ndjson   (spec -> impl: TLC-generated cases)
mod geo;
mod util;
mod sc_nested;
mod sc_ring;
mod sc_bmoc;
mod sc_cov;
mod race;
mod sc_proj;
mod sc_zoc;
mod sc_extra;
mod refcmp;
mod prime;

use std::io::BufRead;
use util::*;

fn main() {
  let args = Args::parse();
  if args.pos.len() >= 1 && args.pos[0] == "cone1" {
    // one cone query from the command line (used by replays and experiments): depth dd lon lat r (floats as bit patterns or decimals)
    silence_panics();
    let pf = |s: &str| -> f64 { if let Some(h) = s.strip_prefix("0x") { f64::from_bits(u64::from_str_radix(h, 16).unwrap()) } else { s.parse().unwrap() } };
    let mut rng = Rng::new(args.u64("seed", 1));
    let ev = sc_cov::cone_event(&mut rng, args.pos[1].parse().unwrap(), args.pos[2].parse().unwrap(), pf(&args.pos[3]), pf(&args.pos[4]), pf(&args.pos[5]), "cli");
    println!("{}", ev.map_or("null".to_string(), |e| e.to_string()));
    return;
  }
  if args.pos.len() >= 1 && args.pos[0] == "race" { silence_panics(); race::run(&args); return; }
  if args.pos.len() < 2 { eprintln!("usage: hpx record|replay <scenario> [--seed S] [--count N] [--in F] [--out F]"); std::process::exit(2); }
  silence_panics();
  let seed = args.u64("seed", 1);
  prime::set_seed(seed);
  let mut out = Out::create(&args.get("out", "-"));
  match args.pos[0].as_str() {
    "record" => {
      let count = args.u64("count", 1000);
      let mut rng = Rng::new(seed);
      // A panic of the harness itself (not of a guarded call into the crate) can only come from the crate handing back something the
      // harness's own unguarded code cannot digest (an out-of-range index from a decoder, an accessor used to prepare inputs that
      // panics on a valid argument): never on the unchanged tree. It must not end the run without a verdict: it is recorded as an
      // event that no specification accepts, and the scenario goes on with a fresh stream (at most 5 times).
      let mut attempt = 0u64;
      loop {
        let r = std::panic::catch_unwind(std::panic::AssertUnwindSafe(|| {
          // (development aid: HPX_SELFTEST_ABORT simulates such a failure once, to test this path)
          if attempt == 0 && std::env::var("HPX_SELFTEST_ABORT").is_ok() { panic!("selftest: simulated failure of the harness"); }
      match args.pos[1].as_str() {
            "C01" => sc_nested::record_c01(&mut rng, count, &mut out),
            "C02" => sc_nested::record_c02(&mut rng, count, &mut out),
            "C03" => sc_nested::record_c03(&mut rng, count, &mut out),
            "C19" => sc_nested::record_c19(&mut rng, count, &mut out),
            "C04" => sc_nested::record_c04(&mut rng, count, &mut out),
            "C14" => sc_nested::record_c14(&mut rng, count, &mut out),
            "C13" => sc_cov::record_c13(&mut rng, count, &mut out),
            "CONEBIG" => sc_cov::record_cone_large(&mut rng, count, &mut out),
            "C12" => sc_cov::record_c12(&mut rng, count, &mut out),
            "C16" => sc_cov::record_c16(&mut rng, count, &mut out),
            "CONE" => sc_cov::record_cone(&mut rng, count, &mut out),
            "C07" => sc_bmoc::record_c07(&mut rng, count, &mut out),
            "C08" => sc_bmoc::record_c08(&mut rng, count, &mut out),
            "C09" => sc_bmoc::record_c09(&mut rng, count, &mut out),
            "C15" => sc_bmoc::record_c15(&mut rng, count, &mut out),
            "C17" => sc_proj::record_c17(&mut rng, count, &mut out),
            "C18" => sc_zoc::record_c18(&mut rng, count, &mut out),
            "C10" => sc_ring::record_c10(&mut rng, count, &mut out),
            "C11" => sc_ring::record_c11(&mut rng, count, &mut out),
            "EXTRA" => sc_extra::record_extra(&mut rng, count, &mut out),
            s => { eprintln!("unknown record scenario {}", s); std::process::exit(2); }
          }
        }));
        if r.is_ok() { break; }
        attempt += 1;
        out.emit(serde_json::json!({"ev": "harness_abort", "msg": last_panic(), "attempt": attempt}));
        if attempt >= 5 || out.n >= count { break; }
        rng = Rng::new(seed.wrapping_add(7919 * attempt));
      }
      out.flush();
      eprintln!("{{\"events\": {}}}", out.n);
    }
    "replay" => {
      let input = args.get("in", "-");
      let rd: Box<dyn BufRead> = if input == "-" { Box::new(std::io::BufReader::new(std::io::stdin())) } else { Box::new(std::io::BufReader::new(std::fs::File::open(&input).expect("cannot open input"))) };
      let mut stats = sc_nested::ReplayStats::default();
      let mut bregs = sc_bmoc::Regs::new();
      let mut rrng = Rng::new(seed);
      for l in rd.lines() {
        let l = l.unwrap();
        if l.trim().is_empty() { continue; }
        let v: serde_json::Value = serde_json::from_str(&l).expect("bad json line");
        stats.lines += 1;
        let before = out.n;
        let r = std::panic::catch_unwind(std::panic::AssertUnwindSafe(|| {
        match args.pos[1].as_str() {
          "C01" => sc_nested::replay_c01(&v, &mut out, &mut stats),
          "C03" => sc_nested::replay_c03(&v, &mut out, &mut stats),
          "C19" => sc_nested::replay_c19(&v, &mut out, &mut stats),
          "C04" => sc_nested::replay_c04(&v, &mut out, &mut stats),
          "C14" => sc_nested::replay_c14(&v, &mut out, &mut stats),
          "TABLES" => sc_nested::replay_tables(&v, &mut out, &mut stats),
          "C16a" => sc_cov::replay_lookup(&v, &mut out, &mut stats),
          "CONE" => sc_cov::replay_cone(&v, &mut out, &mut stats, &mut rrng),
          "BMOC" => sc_bmoc::replay_bmoc(&v, &mut out, &mut stats, &mut bregs),
          "C17" => sc_proj::replay_c17(&v, &mut out, &mut stats),
          "C18" => sc_zoc::replay_c18(&v, &mut out, &mut stats),
          "C10" => sc_ring::replay_c10(&v, &mut out, &mut stats),
          "C11" => sc_ring::replay_c11(&v, &mut out, &mut stats),
          s => { eprintln!("unknown replay scenario {}", s); std::process::exit(2); }
        }
        }));
        if r.is_err() {
          // see `record`: the case is reported as a mismatch instead of ending the run
          let _ = before;
          stats.bad += 1;
          out.emit(serde_json::json!({"verdict": "mismatch", "ev": "harness_abort", "msg": last_panic(), "case": v}));
        }
      }
      out.flush();
      eprintln!("{{\"lines\": {}, \"calls\": {}, \"bad\": {}}}", stats.lines, stats.calls, stats.bad);
    }
    _ => { eprintln!("unknown command"); std::process::exit(2); }
  }
}
