//! Primer calls: the functions of the crate are pure (the only state they may keep is the lazily built per-depth tables), so what a
//! call returns must not depend on the calls made before it. A change that adds a cache - a thread-local "last query", a memo
//! keyed by part of the arguments, a table sized by the largest request seen so far - breaks a property only for particular call
//! HISTORIES: the second of two calls that agree on some arguments and differ on others. Random independent calls never form
//! such pairs. One recorded call in three is therefore preceded by a *primer*: a call of the same function (or of one that
//! shares code with it) whose arguments are related to those of the recorded call - some bit-for-bit equal, some equal under
//! `==` but different in bits (the two zeros), some one ulp or one turn away, the same cell number at another depth, the same
//! radius at another centre of the same region - chosen so that a stale entry keyed too coarsely would be hit. The result of the
//! primer is discarded (a panic included); the recorded call is judged exactly as without primer, so the specification is
//! unchanged and a correct implementation cannot be rejected because of it.
use std::cell::RefCell;
use std::f64::consts::PI;
use cdshealpix::nested;
use crate::util::*;

const TWO_PI: f64 = 2.0 * PI;
const HALF_PI: f64 = 0.5 * PI;
const TL: f64 = 0.7297276562269663;

thread_local! { static PRNG: RefCell<Rng> = RefCell::new(Rng::new(0x5eed)); }
pub fn set_seed(seed: u64) { PRNG.with(|r| *r.borrow_mut() = Rng::new(seed ^ 0x7072_696d_6572)); }
/// runs `f` with the primer generator, one time in three (`always`: every time); half of the primers are two calls in a row (an
/// entry left by the recorded calls themselves may have to be displaced by a first call before a second one can leave a stale
/// entry that the recorded call then hits)
fn maybe<F: Fn(&mut Rng)>(always: bool, f: F) {
  PRNG.with(|r| { let mut g = r.borrow_mut(); if always || g.below(3) == 0 { let n = 1 + g.below(2); for _ in 0..n { f(&mut g); } } });
}

/// a value related to `x`
pub fn related(rng: &mut Rng, x: f64, lon_like: bool) -> f64 {
  match rng.below(7) {
    0 | 1 => x,
    2 => if x == 0.0 { -x } else { nudge(x, if rng.bool() { 1 } else { -1 }) },
    3 => nudge(x, rng.below(5) as i32 - 2),
    4 => if lon_like { x + TWO_PI * (rng.below(5) as f64 - 2.0) } else { -x },
    5 => (x as f32) as f64,
    _ => if lon_like { rng.range(0.0, TWO_PI) } else { rng.range(-1.0, 1.0f64).asin() },
  }
}
/// a position related to (lon, lat): in the same region of the sphere, where the quantities that depend on the position inside the
/// region (cell-size bounds, projection branch) differ most, or a coordinate-wise relative
pub fn related_pos(rng: &mut Rng, lon: f64, lat: f64) -> (f64, f64) {
  match rng.below(4) {
    0 => {
      if lat.abs() > TL {
        // polar cap: the middle of a base cell / a base cell border, same latitude or a typical one
        let l = if rng.bool() { PI / 4.0 + HALF_PI * rng.below(4) as f64 } else { HALF_PI * rng.below(5) as f64 };
        (l, if rng.bool() { lat } else { lat.signum() * rng.range(0.75, 1.5) })
      } else {
        (if rng.bool() { lon } else { rng.range(0.0, TWO_PI) }, *rng.pick(&[0.0, 0.39, 0.41, 0.72, -0.72, -0.39, 0.2]))
      }
    }
    1 => (related(rng, lon, true), lat),
    2 => (lon, related(rng, lat, false).max(-HALF_PI).min(HALF_PI)),
    _ => (related(rng, lon, true), related(rng, lat, false).max(-HALF_PI).min(HALF_PI)),
  }
}
fn related_depth(rng: &mut Rng, depth: u8) -> u8 {
  match rng.below(4) { 0 | 1 => depth, 2 => if rng.bool() { depth.saturating_sub(1) } else { (depth + 1).min(29) }, _ => rng.below(30) as u8 }
}
/// a valid cell number related to `h` at a related depth: the same number (when it exists there), a neighbour number, the parent / a child
fn related_cell(rng: &mut Rng, depth: u8, h: u64) -> (u8, u64) {
  let d2 = related_depth(rng, depth);
  let nh2 = 12u64 << (2 * d2 as u32);
  let h2 = match rng.below(4) {
    0 | 1 => h,
    2 => if d2 >= depth { h << (2 * (d2 - depth) as u32) } else { h >> (2 * (depth - d2) as u32) },
    _ => h ^ (1 + rng.below(3)),
  };
  (d2, if h2 < nh2 { h2 } else { h2 % nh2 })
}

pub fn hash(depth: u8, lon: f64, lat: f64, always: bool) {
  maybe(always, |rng| {
    let (l, b) = related_pos(rng, lon, lat);
    let d = related_depth(rng, depth);
    match rng.below(3) {
      0 => { let _ = guarded(|| nested::hash_with_dxdy(d, l, b)); }
      _ => { let _ = guarded(|| nested::hash(d, l, b)); }
    }
  });
}
pub fn cell(depth: u8, h: u64) {
  maybe(false, |rng| {
    let (d, h2) = related_cell(rng, depth, h);
    let layer = nested::get_or_create(d);
    match rng.below(6) {
      0 => { let _ = guarded(|| layer.neighbours(h2, true)); }
      1 => { let _ = guarded(|| layer.center(h2)); }
      2 => { let _ = guarded(|| layer.vertices(h2)); }
      3 => { let dd = (1 + rng.below(3) as u8).min(29 - d); if dd > 0 { let _ = guarded(|| layer.external_edge(h2, dd)); } }
      4 => { let dd = (1 + rng.below(3) as u8).min(29 - d); if dd > 0 { let _ = guarded(|| nested::internal_edge(d, h2, dd)); } }
      _ => { let _ = guarded(|| layer.to_ring(h2)); }
    }
  });
}
pub fn edges(depth: u8, h: u64, dd: u8) {
  maybe(false, |rng| {
    let (d, h2) = related_cell(rng, depth, h);
    let dd2 = match rng.below(3) { 0 => dd, 1 => (dd + 1 + rng.below(4) as u8).min(29 - d), _ => (1 + rng.below(6) as u8).min(29 - d) };
    if dd2 == 0 || d + dd2 > 29 { return; }
    let layer = nested::get_or_create(d);
    match rng.below(4) {
      0 => { let _ = guarded(|| layer.external_edge(h2, dd2)); }
      1 => { let _ = guarded(|| layer.external_edge_sorted(h2, dd2)); }
      2 => { let _ = guarded(|| nested::internal_edge(d, h2, dd2)); }
      _ => { let _ = guarded(|| nested::internal_edge_sorted(d, h2, dd2)); }
    }
  });
}
fn cone_ok(depth: u8, r: f64) -> bool { let cs = (4.0 * PI / (12.0 * (1u64 << (2 * depth as u32)) as f64)).sqrt(); r >= PI || (r / cs).powi(2) * 3.2 <= 2000.0 }
pub fn cone(depth: u8, dd: u8, lon: f64, lat: f64, r: f64) {
  maybe(false, |rng| {
    let (l, b) = match rng.below(3) { 0 => (lon, lat), _ => related_pos(rng, lon, lat) };
    let r2 = match rng.below(4) { 0 | 1 | 2 => r, _ => r * rng.range(0.5, 2.0) };
    let d2 = match rng.below(4) { 0 | 1 | 2 => depth, _ => depth.saturating_sub(1 + rng.below(2) as u8) };
    if !cone_ok(d2 + dd, r2) { return; }
    let _ = guarded(|| if dd == 0 { nested::cone_coverage_approx(d2, l.rem_euclid(TWO_PI), b, r2) } else { nested::cone_coverage_approx_custom(d2, dd.min(29 - d2).max(1), l.rem_euclid(TWO_PI), b, r2) });
  });
}
pub fn ellipse(depth: u8, dd: u8, lon: f64, lat: f64, a: f64, b: f64, pa: f64) {
  maybe(false, |rng| {
    let (l, la) = match rng.below(3) { 0 => (lon, lat), _ => related_pos(rng, lon, lat) };
    let (a2, b2) = match rng.below(4) { 0 | 1 => (a, b), 2 => (a, a), _ => (a, b * rng.range(0.1, 1.0)) };
    let pa2 = if rng.bool() { pa } else { rng.range(0.0, PI) };
    if !cone_ok(depth + dd, a2) || a2 >= HALF_PI { return; }
    let _ = guarded(|| if dd == 0 { nested::elliptical_cone_coverage(depth, l.rem_euclid(TWO_PI), la, a2, b2, pa2) } else { nested::elliptical_cone_coverage_custom(depth, dd, l.rem_euclid(TWO_PI), la, a2, b2, pa2) });
  });
}
pub fn polygon(depth: u8, exact: bool, vs: &[(f64, f64)], radius: f64) {
  maybe(false, |rng| {
    // the same polygon at another depth / mode, or a copy moved in longitude (same shape, other base cells)
    let d2 = match rng.below(3) { 0 => depth, _ => depth.saturating_sub(1 + rng.below(2) as u8) };
    if !cone_ok(d2, radius) { return; }
    let shift = match rng.below(3) { 0 => 0.0, 1 => HALF_PI * (1 + rng.below(3)) as f64, _ => rng.range(0.0, TWO_PI) };
    let vs2: Vec<(f64, f64)> = vs.iter().map(|(l, b)| ((l + shift).rem_euclid(TWO_PI), *b)).collect();
    let ex = if rng.bool() { exact } else { !exact };
    let _ = guarded(|| nested::polygon_coverage(d2, &vs2, ex));
  });
}
pub fn c2v(depth: u8, lon: f64, lat: f64, r: f64) {
  maybe(false, |rng| {
    let (l, b) = related_pos(rng, lon, lat);
    let d = related_depth(rng, depth);
    match rng.below(3) {
      0 => { let _ = guarded(|| cdshealpix::largest_center_to_vertex_distance(d, l.rem_euclid(TWO_PI), b)); }
      1 => { if r > 0.0 { let _ = guarded(|| cdshealpix::largest_center_to_vertex_distance_with_radius(d, l.rem_euclid(TWO_PI), b, r)); } }
      _ => { if r > 0.0 && d < 29 { let _ = guarded(|| cdshealpix::largest_center_to_vertex_distances_with_radius(d, (d + 1 + rng.below(3) as u8).min(30), l.rem_euclid(TWO_PI), b, r)); } }
    }
  });
}
pub fn ring(nside: u32, lon: f64, lat: f64) {
  maybe(false, |rng| {
    let (l, b) = related_pos(rng, lon, lat);
    let n2 = match rng.below(4) { 0 | 1 => nside, 2 => nside.saturating_add(1), _ => 1 + rng.below(1000) as u32 };
    match rng.below(2) {
      0 => { let _ = guarded(|| cdshealpix::ring::hash(n2, l, b)); }
      _ => { let _ = guarded(|| cdshealpix::ring::hash_with_dxdy(n2, l, b)); }
    }
  });
}
pub fn proj(lon: f64, lat: f64) {
  maybe(false, |rng| {
    let (l, b) = related_pos(rng, lon, lat);
    if let Some((x, y)) = guarded(|| cdshealpix::proj(l, b)) { let _ = guarded(|| cdshealpix::unproj(x, y)); }
  });
}
pub fn bilinear(depth: u8, lon: f64, lat: f64) {
  maybe(false, |rng| {
    let (l, b) = related_pos(rng, lon, lat);
    let d = related_depth(rng, depth);
    let _ = guarded(|| nested::bilinear_interpolation(d, l, b));
  });
}
