//! C20: concurrent first use of the lazily initialised per-depth tables.  One process = one race per key
//! (the statics can be initialised only once per process).
//!   hpx race --threads T --delay-ns N --seed S --out trace.ndjson
//! Every thread, released by a barrier, calls get_or_create (Layer table) or largest_center_to_vertex_distance
//! (constants table) for a list of depths; inv / resp events are logged through the crate's verification hook
//! (same mutex-ordered log as the constructor events).  Each response carries the address of the returned object
//! and the result of an immediate probe through it, compared after the race with single-threaded values.
use crate::util::*;
use cdshealpix::verif_hooks as vh;
use serde_json::json;
use std::sync::{Arc, Barrier};

#[derive(Clone, Debug, PartialEq)]
struct Probe { n_hash: u64, hash: u64, center: (u64, u64), neigh: Vec<u64>, dist: u64 }

fn probe_layer(layer: &cdshealpix::nested::Layer) -> Probe {
  let h = layer.hash(1.2345, 0.4321);
  let c = layer.center(h);
  Probe { n_hash: layer.n_hash(), hash: h, center: (c.0.to_bits(), c.1.to_bits()), neigh: layer.neighbours(h, true).sorted_values_vec(), dist: 0 }
}
fn probe_c2v(depth: u8) -> Probe {
  let d = cdshealpix::largest_center_to_vertex_distance(depth, 1.2345, 0.4321);
  Probe { n_hash: 0, hash: 0, center: (0, 0), neigh: vec![], dist: d.to_bits() }
}

fn probe_c2v_range(a: u8, b: u8) -> Probe {
  let v = cdshealpix::largest_center_to_vertex_distances_with_radius(a, b, 1.2345, 0.4321, 0.01);
  Probe { n_hash: v.len() as u64, hash: 0, center: (0, 0), neigh: v.iter().map(|x| x.to_bits()).collect(), dist: 0 }
}

pub fn run(args: &Args) {
  let nthreads = args.u64("threads", 4) as usize;
  let delay = args.u64("delay-ns", 0);
  let seed = args.u64("seed", 1);
  let hammer = args.u64("hammer", 3000);
  let mut out = Out::create(&args.get("out", "-"));
  vh::INIT_DELAY_NS.store(delay, std::sync::atomic::Ordering::Relaxed);
  let mut rng = Rng::new(seed);
  // the keys raced in this process: a few depths of each table
  let mut keys: Vec<(u8, u8)> = Vec::new();
  if seed % 4 == 0 {
    // every depth of both tables: 59 racing first uses in one process
    for d in 0..30u8 { keys.push((vh::TABLE_LAYER, d)); }
    for d in 1..30u8 { keys.push((vh::TABLE_C2V, d)); }
  } else {
    for _ in 0..(2 + rng.below(4)) { keys.push((vh::TABLE_LAYER, rng.below(30) as u8)); }
    for _ in 0..(1 + rng.below(3)) { keys.push((vh::TABLE_C2V, 1 + rng.below(29) as u8)); }
  }
  keys.sort(); keys.dedup();
  let keys = Arc::new(keys);
  let barrier = Arc::new(Barrier::new(nthreads));
  // lockstep mode: every thread visits the keys in the same order, with a spin barrier before each key, so that the
  // first calls for a key are as simultaneous as possible
  let lockstep = seed % 2 == 0;
  let gate = Arc::new(std::sync::atomic::AtomicUsize::new(0));
  let mut handles = Vec::new();
  for t in 0..nthreads {
    let keys = keys.clone();
    let barrier = barrier.clone();
    let gate = gate.clone();
    let mut trng = Rng::new(seed * 1000 + t as u64);
    handles.push(std::thread::spawn(move || {
      vh::set_thread_tag(t as u32);
      // each thread visits the keys in its own order, some of them twice
      let mut order: Vec<(u8, u8)> = keys.iter().cloned().collect();
      if !lockstep {
        for i in (1..order.len()).rev() { let j = trng.below(i as u64 + 1) as usize; order.swap(i, j); }
        if trng.bool() { let k = order[0]; order.push(k); }
      }
      let mut observed: Vec<((u8, u8), u64, Option<Probe>)> = Vec::new();
      barrier.wait();
      for (step, (tb, d)) in order.into_iter().enumerate() {
        // the invocation is logged BEFORE the gate (an `inv` earlier than the actual start of the call is sound),
        // so that the calls themselves start as simultaneously as possible
        vh::log(vh::INV, tb, d, 0, true);
        if lockstep {
          gate.fetch_add(1, std::sync::atomic::Ordering::SeqCst);
          let mut spins = 0u32;
          while gate.load(std::sync::atomic::Ordering::SeqCst) < (step + 1) * nthreads {
            spins += 1;
            if spins > 2000 { std::thread::yield_now(); } else { std::hint::spin_loop(); }
          }
          // staggered starts (0 .. 512 spin iterations): some threads take the unsynchronised fast path while the
          // winner of the Once is still storing the object
          let span = (1u64 << trng.below(11)) >> 1;
          for _ in 0..trng.below(span + 1) { std::hint::spin_loop(); }
        }
        let r = guarded(|| {
          if tb == vh::TABLE_LAYER && (t + step) % 2 == 1 {
            // first use through a convenience function: the layer is used in the same expression that obtains it
            let h = cdshealpix::nested::hash(d, 1.2345, 0.4321);
            let c = cdshealpix::nested::center(d, h);
            let layer = cdshealpix::nested::get_or_create(d);
            (layer as *const _ as usize, Probe { n_hash: cdshealpix::nested::n_hash(d), hash: h, center: (c.0.to_bits(), c.1.to_bits()), neigh: layer.neighbours(h, true).sorted_values_vec(), dist: 0 })
          } else if tb == vh::TABLE_LAYER {
            let layer = cdshealpix::nested::get_or_create(d);
            (layer as *const _ as usize, probe_layer(layer))
          } else {
            (0usize, probe_c2v(d))
          }
        });
        // the response is logged now; its probe is judged after the race
        let seq_marker = observed.len() as u64;
        match r {
          Some((ptr, p)) => { vh::log(vh::RESP, tb, d, ptr, true); observed.push(((tb, d), seq_marker, Some(p))); }
          None => { vh::log(vh::RESP, tb, d, 0, false); observed.push(((tb, d), seq_marker, None)); }
        }
      }
      // range call: the per-depth bounds of a whole range of depths in one call (what every coverage query does), over the range
      // spanned by the constants depths this thread has used so far: the ends exist, the depths in between may not. Logged as
      // one call on the first depth of the range; the constructions it triggers for the other depths are `construct` events of
      // keys other than the requested one (TConstructForeign). Every element is compared with the single-threaded values.
      {
        let mut cd: Vec<u8> = observed.iter().filter(|o| (o.0).0 == vh::TABLE_C2V && o.2.is_some()).map(|o| (o.0).1).collect();
        cd.sort(); cd.dedup();
        if cd.len() >= 2 && (t + cd.len()) % 2 == 0 {
          let (a, b) = (cd[0], cd[cd.len() - 1] + 1);
          vh::log(vh::INV, vh::TABLE_C2V, a, 0, true);
          let r = guarded(|| probe_c2v_range(a, b));
          let seq_marker = observed.len() as u64;
          let key = (200 + (b - a), a);
          match r {
            Some(p) => { vh::log(vh::RESP, vh::TABLE_C2V, a, 0, true); observed.push((key, seq_marker, Some(p))); }
            None => { vh::log(vh::RESP, vh::TABLE_C2V, a, 0, false); observed.push((key, seq_marker, None)); }
          }
        }
      }
      // steady state: the keys this thread has already obtained once are now requested in a tight loop, interleaved over the
      // depths, while the other threads do the same (or are still in their first uses). Whatever sits in front of the tables
      // (a "last depth" shortcut made of several words, a per-thread slot) must keep handing out the object of the REQUESTED
      // key. A call on a key the caller has already obtained returns the same object whenever it runs, so logging its
      // invocation and response together after the fact is sound; only the first two calls and the anomalous ones (a probe
      // that differs from the first probe this thread made for the key, or a panic) are logged, each judged like any response.
      let mine: Vec<(u8, u8)> = { let mut v: Vec<(u8, u8)> = observed.iter().filter(|o| o.2.is_some() && (o.0).0 < 200).map(|o| o.0).collect(); v.sort(); v.dedup(); v };
      if mine.len() >= 2 {
        let first: std::collections::HashMap<(u8, u8), Probe> = observed.iter().filter_map(|o| o.2.clone().map(|p| (o.0, p))).rev().collect();
        let mut logged = 0;
        for it in 0..hammer {
          let (tb, d) = mine[(trng.below(mine.len() as u64)) as usize];
          let r = guarded(|| if tb == vh::TABLE_LAYER { let layer = cdshealpix::nested::get_or_create(d); (layer as *const _ as usize, probe_layer(layer)) } else { (0usize, probe_c2v(d)) });
          let anomalous = match &r { Some((_, p)) => first.get(&(tb, d)) != Some(p), None => true };
          if anomalous || it < 2 {
            if logged >= 50 { break; }
            logged += 1;
            vh::log(vh::INV, tb, d, 0, true);
            let seq_marker = observed.len() as u64;
            match r {
              Some((ptr, p)) => { vh::log(vh::RESP, tb, d, ptr, true); observed.push(((tb, d), seq_marker, Some(p))); }
              None => { vh::log(vh::RESP, tb, d, 0, false); observed.push(((tb, d), seq_marker, None)); }
            }
          }
        }
      }
      observed
    }));
  }
  let observed: Vec<Vec<((u8, u8), u64, Option<Probe>)>> = handles.into_iter().map(|h| h.join().expect("race thread died")).collect();
  // single-threaded reference values, now that everything is initialised
  vh::set_thread_tag(999);
  let mut reference = std::collections::HashMap::new();
  for (tb, d) in keys.iter() {
    // a table left unusable by the race (e.g. a slot never filled: the accessor panics for ever) has no reference value: every
    // response for that key is then judged wrong, which rejects the history - it must not kill the harness
    let p = guarded(|| if *tb == vh::TABLE_LAYER { probe_layer(cdshealpix::nested::get_or_create(*d)) } else { probe_c2v(*d) });
    if let Some(p) = p { reference.insert((*tb, *d), p); }
  }
  let log = vh::take_log();
  // map addresses to small ids, per key
  let mut addr_ids: std::collections::HashMap<usize, i64> = std::collections::HashMap::new();
  let mut per_thread_resp_index = vec![0usize; nthreads];
  out.emit(json!({"ev": "reset", "threads": nthreads, "delay": delay, "seed": seed}));
  for e in log.iter() {
    if e.thread == 999 || e.thread == u32::MAX { continue; }
    let t = e.thread as usize;
    match e.kind {
      k if k == vh::INV => out.emit(json!({"ev": "inv", "t": t, "tb": e.table, "d": e.depth})),
      k if k == vh::CONSTRUCT => out.emit(json!({"ev": "construct", "t": t, "tb": e.table, "d": e.depth})),
      _ => {
        let idx = per_thread_resp_index[t];
        per_thread_resp_index[t] += 1;
        let (key, _, probe) = &observed[t][idx];
        if key.0 >= 200 && !reference.contains_key(key) {
          // reference of a range call: the same call, single-threaded, now that the race is over
          if let Some(p) = guarded(|| probe_c2v_range(key.1, key.1 + (key.0 - 200))) { reference.insert(*key, p); }
        }
        let ok = probe.as_ref().map_or(false, |p| Some(p) == reference.get(key));
        let n = addr_ids.len() as i64;
        let ptr = if e.table == vh::TABLE_LAYER && e.ok { *addr_ids.entry(e.ptr).or_insert(n) } else { 0 };
        out.emit(json!({"ev": "resp", "t": t, "tb": e.table, "d": e.depth, "p": (!e.ok) as u8, "ok": ok as u8, "ptr": ptr}));
      }
    }
  }
  out.flush();
}
