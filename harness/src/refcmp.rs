//! Attribution of rejected events to OPEN known findings: `sar` tells whether, on the very same call, the working tree of the
//! crate under test does NOT DO WORSE than the reference copy (/verif/refcrate: the tree on which the open findings were
//! recorded) on the clauses the findings are about: it covers every witness the reference covers, its full cells do not stick
//! out further, its cells are not further away, its bounds are not smaller, it does not panic where the reference does not.
//! An open finding only matches events with sar = 1, so a change of the code that gives a worse answer on inputs covered by a
//! known finding is reported as a violation and not absorbed, while a change that keeps or improves the answer (flags,
//! representation, extra cells within the stated slack, larger bounds) is still attributed to the finding when the old failure
//! remains.  The comparison judges nothing by itself: an accepted event is accepted whatever sar says.
use crate::util::guarded;
use cdshealpix::nested::bmoc::BMOC;
use cdshealpix_ref as rf;

fn sig(b: &BMOC) -> (u8, Vec<u64>) { (b.get_depth_max(), b.entries.to_vec()) }
fn rsig(b: &rf::nested::bmoc::BMOC) -> (u8, Vec<u64>) { (b.get_depth_max(), b.entries.to_vec()) }

pub fn cone(depth: u8, dd: u8, lon: f64, lat: f64, r: f64, res: &Option<BMOC>) -> u8 {
  let rr = guarded(|| if dd == 0 { rf::nested::cone_coverage_approx(depth, lon, lat, r) } else { rf::nested::cone_coverage_approx_custom(depth, dd, lon, lat, r) });
  (res.as_ref().map(sig) == rr.as_ref().map(rsig)) as u8
}
pub fn ellipse(depth: u8, dd: u8, lon: f64, lat: f64, a: f64, b: f64, pa: f64, res: &Option<BMOC>) -> u8 {
  let rr = guarded(|| if dd == 0 { rf::nested::elliptical_cone_coverage(depth, lon, lat, a, b, pa) } else { rf::nested::elliptical_cone_coverage_custom(depth, dd, lon, lat, a, b, pa) });
  (res.as_ref().map(sig) == rr.as_ref().map(rsig)) as u8
}
pub fn polygon(depth: u8, vs: &[(f64, f64)], exact: bool, res: &Option<BMOC>) -> u8 {
  let rr = guarded(|| rf::nested::polygon_coverage(depth, vs, exact));
  (res.as_ref().map(sig) == rr.as_ref().map(rsig)) as u8
}
pub fn c2v(depth: u8, lon: f64, lat: f64, b: Option<f64>) -> u8 {
  let rr = guarded(|| rf::largest_center_to_vertex_distance(depth, lon, lat));
  (b.map(f64::to_bits) == rr.map(f64::to_bits)) as u8
}
pub fn c2v_radius(depth: u8, from: u8, lon: f64, lat: f64, r: f64, b1: Option<f64>, arr: &Option<Box<[f64]>>) -> u8 {
  let r1 = guarded(|| rf::largest_center_to_vertex_distance_with_radius(depth, lon, lat, r));
  let ra = guarded(|| rf::largest_center_to_vertex_distances_with_radius(from, depth + 1, lon, lat, r));
  let bits = |a: &Box<[f64]>| a.iter().map(|x| x.to_bits()).collect::<Vec<u64>>();
  (b1.map(f64::to_bits) == r1.map(f64::to_bits) && arr.as_ref().map(bits) == ra.as_ref().map(bits)) as u8
}
/// the starting depth chosen for the radius and the block of cells around the centre at that depth
pub fn fits9(r: f64, ds: u8, lon: f64, lat: f64) -> u8 {
  let cur = guarded(|| { let d = cdshealpix::best_starting_depth(r); let l = cdshealpix::nested::get_or_create(ds); (d, l.neighbours(l.hash(lon, lat), true).sorted_values_vec()) });
  let reff = guarded(|| { let d = rf::best_starting_depth(r); let l = rf::nested::get_or_create(ds); (d, l.neighbours(l.hash(lon, lat), true).sorted_values_vec()) });
  (cur == reff) as u8
}

// ---- reference results as decoded cell lists (the decoder of sc_bmoc does not depend on the crate's types)
use crate::sc_bmoc::{decode_raw, C};
fn rcells(b: &rf::nested::bmoc::BMOC) -> Vec<C> { b.entries.iter().map(|r| decode_raw(*r, b.get_depth_max())).collect() }
pub fn cone_cells(depth: u8, dd: u8, lon: f64, lat: f64, r: f64) -> Option<Vec<C>> {
  guarded(|| if dd == 0 { rf::nested::cone_coverage_approx(depth, lon, lat, r) } else { rf::nested::cone_coverage_approx_custom(depth, dd, lon, lat, r) }).map(|b| rcells(&b))
}
pub fn ellipse_cells(depth: u8, dd: u8, lon: f64, lat: f64, a: f64, b: f64, pa: f64) -> Option<Vec<C>> {
  guarded(|| if dd == 0 { rf::nested::elliptical_cone_coverage(depth, lon, lat, a, b, pa) } else { rf::nested::elliptical_cone_coverage_custom(depth, dd, lon, lat, a, b, pa) }).map(|b| rcells(&b))
}
pub fn polygon_cells(depth: u8, vs: &[(f64, f64)], exact: bool) -> Option<Vec<C>> {
  guarded(|| rf::nested::polygon_coverage(depth, vs, exact)).map(|b| rcells(&b))
}
pub fn covers(cells: &[C], w: &C) -> bool { cells.iter().any(|c| c.b == w.b && c.p.len() <= w.p.len() && c.p[..] == w.p[..c.p.len()]) }
/// bounds not smaller than the reference's
pub fn c2v_nw(depth: u8, lon: f64, lat: f64, b: Option<f64>) -> u8 {
  match (b, guarded(|| rf::largest_center_to_vertex_distance(depth, lon, lat))) { (Some(x), Some(y)) => (x >= y) as u8, (None, None) => 1, (Some(_), None) => 1, (None, Some(_)) => 0 }
}
pub fn c2v_radius_nw(depth: u8, from: u8, lon: f64, lat: f64, r: f64, b1: Option<f64>, arr: &Option<Box<[f64]>>) -> u8 {
  let r1 = guarded(|| rf::largest_center_to_vertex_distance_with_radius(depth, lon, lat, r));
  let ra = guarded(|| rf::largest_center_to_vertex_distances_with_radius(from, depth + 1, lon, lat, r));
  let s = match (b1, r1) { (Some(x), Some(y)) => x >= y, (None, Some(_)) => false, _ => true };
  let a = match (arr, &ra) { (Some(x), Some(y)) => x.len() == y.len() && x.iter().zip(y.iter()).all(|(p, q)| p >= q), (None, Some(_)) => false, _ => true };
  (s && a) as u8
}
