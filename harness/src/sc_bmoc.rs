//! BMOC scenarios: C07 (plain MOC algebra), C08 (three-valued semantics), C09 (well-formedness and views over
//! histories), C15 (builders, pack, lower depth).  The harness only drives the crate and projects its BMOCs to
//! the specification's vocabulary (base cell + base-4 path + flag); every judgement is TLC's (Trace_Bmoc.tla).
use crate::geo::{big_digits, hash_of_path, path_of_hash};
use crate::util::*;
use cdshealpix::nested;
use cdshealpix::nested::bmoc::{BMOCBuilderFixedDepth, BMOCBuilderUnsafe, BMOC};
use serde_json::{json, Value};

pub const NREG: usize = 8;

#[derive(Clone, Debug, PartialEq)]
pub struct C { pub b: u8, pub p: Vec<u8>, pub f: bool }
impl C {
  pub fn depth(&self) -> u8 { self.p.len() as u8 }
  pub fn hash(&self) -> u64 { hash_of_path(self.b as u64, &self.p) }
  pub fn json(&self) -> Value { json!({"b": self.b, "p": self.p, "f": self.f as u8}) }
  pub fn from_json(v: &Value) -> C {
    C { b: v["b"].as_u64().unwrap() as u8, p: v["p"].as_array().unwrap().iter().map(|d| d.as_u64().unwrap() as u8).collect(), f: v["f"].as_u64().unwrap() == 1 }
  }
}
pub fn cells_json(cs: &[C]) -> Value { Value::Array(cs.iter().map(|c| c.json()).collect()) }

/// the harness's own decoder of the raw u64 entries (sentinel bit convention)
pub fn decode_raw(raw: u64, dmax: u8) -> C {
  let f = raw & 1 == 1;
  let dd = ((raw >> 1).trailing_zeros() >> 1) as u8;
  // the sentinel bit sits below the position of the coarsest depth (or is absent): not the encoding of any cell of a BMOC of this
  // maximal depth - e.g. entries written for a deeper maximal depth than the one the BMOC announces. Reported as a cell of the
  // non-existent base cell 255, which no specification accepts (it must not be decoded as a plausible depth-0 cell)
  if dd > dmax { return C { b: 255, p: Vec::new(), f }; }
  let depth = dmax - dd;
  let h = raw >> (2 + 2 * dd as u32);
  let (b, p) = path_of_hash(depth, h);
  C { b: b.min(255) as u8, p, f }
}
pub fn cells_of(bm: &BMOC) -> Vec<C> { bm.entries.iter().map(|r| decode_raw(*r, bm.get_depth_max())).collect() }
/// base-4 digits (most significant first, no leading zeros) of a raw entry
fn raw_digits(raw: u64) -> Value {
  let mut v = Vec::new();
  let mut x = raw;
  while x > 0 { v.push(x & 3); x >>= 2; }
  if v.is_empty() { v.push(0); }
  v.reverse();
  json!(v)
}
pub fn build(dmax: u8, cs: &[C]) -> BMOC {
  let mut b = BMOCBuilderUnsafe::new(dmax, cs.len().max(1));
  for c in cs { b.push(c.depth(), c.hash(), c.f); }
  b.to_bmoc()
}
pub fn copy_of(bm: &BMOC) -> BMOC { build(bm.get_depth_max(), &cells_of(bm)) }

// ------------------------------------------------------------------------------------------ random BMOCs
enum T { A, P, F, N(Box<[T; 4]>) }
pub struct GenCfg { pub dmax: u8, pub flags: bool, pub packed: bool }

fn leaf(rng: &mut Rng, cfg: &GenCfg, p_absent: f64) -> T {
  if rng.f64() < p_absent { T::A } else if cfg.flags && rng.bool() { T::P } else { T::F }
}
fn bushy(rng: &mut Rng, cfg: &GenCfg, left: u8, p_split: f64, budget: &mut i32) -> T {
  if left == 0 || *budget <= 0 || rng.f64() >= p_split { return leaf(rng, cfg, 0.45); }
  *budget -= 3;
  T::N(Box::new([bushy(rng, cfg, left - 1, p_split * 0.8, budget), bushy(rng, cfg, left - 1, p_split * 0.8, budget),
                 bushy(rng, cfg, left - 1, p_split * 0.8, budget), bushy(rng, cfg, left - 1, p_split * 0.8, budget)]))
}
/// a spine going down to depth `left`, with random leaves (sometimes bushes) hanging on it
fn spine(rng: &mut Rng, cfg: &GenCfg, left: u8, budget: &mut i32) -> T {
  if left == 0 { return if cfg.flags && rng.bool() { T::P } else { T::F }; }
  let k = rng.below(4) as usize;
  let mut kids: Vec<T> = Vec::new();
  for i in 0..4 {
    if i == k { kids.push(spine(rng, cfg, left - 1, budget)); }
    else if *budget > 0 && rng.below(12) == 0 { *budget -= 4; kids.push(bushy(rng, cfg, left.min(3) - 1.min(left.min(3)), 0.7, budget)); }
    else { kids.push(leaf(rng, cfg, 0.7)); }
  }
  let mut it = kids.into_iter();
  T::N(Box::new([it.next().unwrap(), it.next().unwrap(), it.next().unwrap(), it.next().unwrap()]))
}
fn norm(t: T, packed: bool) -> T {
  match t {
    T::N(k) => {
      let [a, b, c, d] = *k;
      let (a, b, c, d) = (norm(a, packed), norm(b, packed), norm(c, packed), norm(d, packed));
      let all = |f: fn(&T) -> bool| f(&a) && f(&b) && f(&c) && f(&d);
      if all(|t| matches!(t, T::A)) { T::A }
      else if packed && all(|t| matches!(t, T::F)) { T::F }
      else { T::N(Box::new([a, b, c, d])) }
    }
    t => t,
  }
}
fn list(t: &T, b: u8, path: &mut Vec<u8>, out: &mut Vec<C>) {
  match t {
    T::A => {}
    T::P => out.push(C { b, p: path.clone(), f: false }),
    T::F => out.push(C { b, p: path.clone(), f: true }),
    T::N(k) => for i in 0..4 { path.push(i as u8); list(&k[i], b, path, out); path.pop(); }
  }
}
/// Cells whose NUMBERS coincide or follow each other across depths: (d, n - 1) then (d', n) with d' < d, the same number n at
/// two depths, (d, n) and (d', n + 1), numbers around a power of 4 and around the last cell of a depth. Code that compares cell
/// numbers or raw values without their depth goes wrong exactly there. The list is made well formed (z-order, no overlap).
fn coincidence_cells(rng: &mut Rng, cfg: &GenCfg) -> Vec<C> {
  let mut cand: Vec<(u8, u64)> = Vec::new();
  let dmax = cfg.dmax;
  for _ in 0..(1 + rng.below(3)) {
    let d1 = rng.below(dmax as u64 + 1) as u8;
    let d2 = rng.below(dmax as u64 + 1) as u8;
    let (dlo, dhi) = (d1.min(d2), d1.max(d2));
    let nmax = 12u64 << (2 * dlo as u32);
    let n = match rng.below(5) { 0 => 1 + rng.below(8), 1 => nmax - 1 - rng.below(3.min(nmax - 1)), 2 => 1u64 << (2 * rng.below(dlo as u64 + 1) as u32), _ => 1 + rng.below(nmax - 1) }.min(nmax - 1).max(1);
    match rng.below(4) {
      0 => { cand.push((dhi, n - 1)); cand.push((dlo, n)); }              // (d, n - 1) then (d', n), d' <= d
      1 => { cand.push((dhi, n)); cand.push((dlo, n)); }                  // the same number at two depths
      2 => { cand.push((dlo, n - 1)); cand.push((dhi, n)); }              // (d', n - 1) and (d, n), the deeper one second
      _ => { cand.push((dhi, n)); if n + 1 < nmax { cand.push((dlo, n + 1)); } cand.push((dlo, n - 1)); }
    }
  }
  // z-order on (base cell, path); drop a cell overlapping one already kept
  let mut cells: Vec<C> = cand.into_iter().map(|(d, n)| { let (b, p) = path_of_hash(d, n); C { b: b as u8, p, f: !cfg.flags || rng.bool() } }).collect();
  cells.sort_by(|x, y| (x.b, &x.p).cmp(&(y.b, &y.p)));
  let mut out: Vec<C> = Vec::new();
  for c in cells {
    let overlaps = out.iter().any(|o| o.b == c.b && { let k = o.p.len().min(c.p.len()); o.p[..k] == c.p[..k] });
    if !overlaps { out.push(c); }
  }
  out.sort_by(|x, y| (x.b, &x.p).cmp(&(y.b, &y.p)));
  out
}
/// A full cell exploded into full descendants of mixed depths (cascades of sibling merges over several levels when packed: the
/// merge of one level completes the four siblings of the next), sometimes with one partial leaf that must stop the cascade
fn exploded(rng: &mut Rng, left: u8, p: f64, spoil: &mut bool) -> T {
  if left == 0 || rng.f64() >= p { return if *spoil && rng.below(40) == 0 { *spoil = false; T::P } else { T::F }; }
  // the deepest explosion is more often in the last sibling (the cascade then closes a group whose first three cells are old)
  let deep = if rng.bool() { 3 } else { rng.below(4) as usize };
  let mut kids: Vec<T> = Vec::new();
  for i in 0..4 { kids.push(exploded(rng, left - 1, if i == deep { p.max(0.85) } else { p * 0.45 }, spoil)); }
  let mut it = kids.into_iter();
  T::N(Box::new([it.next().unwrap(), it.next().unwrap(), it.next().unwrap(), it.next().unwrap()]))
}
pub fn gen_cells(rng: &mut Rng, cfg: &GenCfg) -> Vec<C> {
  let mut out = Vec::new();
  let style = rng.below(14);
  match style {
    10 | 11 => { return coincidence_cells(rng, cfg); }
    12 | 13 if cfg.dmax >= 2 => {
      // unpacked on purpose (whatever cfg.packed says: the callers that need canonical operands pack them themselves)
      let mut spoil = cfg.flags && rng.bool();
      let nb = 1 + rng.below(3);
      let mut bs: Vec<u8> = (0..nb).map(|_| rng.below(12) as u8).collect();
      if rng.below(4) == 0 { bs = vec![0, 1, 2, 3]; } // four sibling base cells: the cascade must stop at depth 0
      bs.sort(); bs.dedup();
      for b in bs {
        let t = exploded(rng, cfg.dmax.min(7), 0.9, &mut spoil);
        let t = if cfg.packed { norm(t, true) } else { t };
        list(&t, b, &mut Vec::new(), &mut out);
      }
      return out;
    }
    0 => {} // empty
    1 => { for b in 0..12 { out.push(C { b, p: vec![], f: true }); } } // whole sky
    2 => { // a single deepest cell: first, last or random
      let rb = rng.below(12) as u8;
      let b = *rng.pick(&[0u8, 11, rb]);
      let d = match rng.below(3) { 0 => 0u8, 1 => 3, _ => rng.below(4) as u8 };
      let p: Vec<u8> = (0..cfg.dmax).map(|_| if d == 3 { rng.below(4) as u8 } else { d }).collect();
      out.push(C { b, p, f: !cfg.flags || rng.bool() });
    }
    _ => {
      let mut budget = 60 + rng.below(60) as i32;
      for b in 0..12u8 {
        let t = match rng.below(5) {
          0 => T::A,
          1 => leaf(rng, cfg, 0.3),
          2 | 3 if cfg.dmax > 4 => { let dl = cfg.dmax.min(1 + rng.below(cfg.dmax as u64) as u8); spine(rng, cfg, dl, &mut budget) }
          _ => bushy(rng, cfg, cfg.dmax.min(4), 0.8, &mut budget),
        };
        let t = norm(t, cfg.packed);
        list(&t, b, &mut Vec::new(), &mut out);
      }
    }
  }
  out
}
pub fn gen_dmax(rng: &mut Rng) -> u8 {
  match rng.below(5) { 0 => rng.below(3) as u8, 1 => 1 + rng.below(5) as u8, 2 => 29, 3 => 20 + rng.below(10) as u8, _ => rng.below(30) as u8 }
}

// ------------------------------------------------------------------------------------------ events
pub struct Regs { pub r: Vec<Option<BMOC>> }
impl Regs {
  pub fn new() -> Regs { Regs { r: (0..NREG).map(|_| None).collect() } }
  pub fn reset(&mut self, out: &mut Out) { for x in self.r.iter_mut() { *x = None; } out.emit(json!({"ev": "reset"})); }
  pub fn used(&self) -> Vec<usize> { (0..NREG).filter(|k| self.r[*k].is_some()).collect() }
  /// A malformed result is never kept as an operand: the crate's operators assume well-formed inputs and may loop or allocate
  /// without bound on anything else (observed under a seeded change: `not` of a garbage entry asked for 50 GB). The event that
  /// produced it has already been emitted (the trace spec rejects it); the block simply ends there, as after a panic.
  pub fn set(&mut self, k: usize, bm: Option<BMOC>) { self.r[k] = bm.filter(well_formed); }
}
/// well-formedness through the harness's own decoder: depth <= dmax, base cell < 12, z-order strictly increasing, no overlap
pub fn well_formed(bm: &BMOC) -> bool {
  let dmax = bm.get_depth_max();
  if dmax > 29 { return false; }
  let mut prev: Option<C> = None;
  for r in bm.entries.iter() {
    if *r >> 1 == 0 { return false; }
    let c = decode_raw(*r, dmax);
    if c.b >= 12 || c.depth() > dmax || (*r >> (2 + 2 * (dmax - c.depth()) as u32)) >= (12u64 << (2 * c.depth() as u32)) { return false; }
    if let Some(q) = &prev {
      let k = q.p.len().min(c.p.len());
      if (q.b, &q.p[..k]) >= (c.b, &c.p[..k]) { return false; } // not after, or one contains the other
    }
    prev = Some(c);
  }
  true
}

pub fn ev_new(regs: &mut Regs, out: &mut Out, k: usize, dmax: u8, cs: &[C]) {
  // the operand is built with the crate's own builder (push + to_bmoc): `built` = 1 iff it did not panic and the entries decode
  // (harness decoder) to exactly the cells pushed, in order. An operand that is not what was pushed is not kept: the events of
  // the block that need it are skipped (the rejected `new` event has been emitted).
  let bm = guarded(|| build(dmax, cs));
  let built = bm.as_ref().map_or(false, |b| b.get_depth_max() == dmax && { let got = cells_of(b); got.len() == cs.len() && got.iter().zip(cs.iter()).all(|(x, y)| x.b == y.b && x.p == y.p && x.f == y.f) });
  out.emit(json!({"ev": "new", "out": k, "dmax": dmax, "cells": cells_json(cs), "built": built as u8}));
  regs.set(k, if built { bm } else { None });
}
fn result_event(ev: Value, res: &Option<BMOC>) -> Value {
  let mut ev = ev;
  let m = ev.as_object_mut().unwrap();
  match res {
    Some(bm) => { m.insert("p".into(), json!(0)); m.insert("dmax".into(), json!(bm.get_depth_max())); m.insert("cells".into(), cells_json(&cells_of(bm))); }
    None => { m.insert("p".into(), json!(1)); m.insert("dmax".into(), json!(0)); m.insert("cells".into(), json!([])); }
  }
  ev
}
/// the cells of register `a` pushed in a shuffled order into a BMOCBuilderUnsafe, then `to_bmoc_from_unordered`
pub fn ev_unordered(rng: &mut Rng, regs: &mut Regs, out: &mut Out, a: usize, o: usize) {
  if regs.r[a].is_none() { return; } // an operand was lost (a rejected event earlier in the block): nothing to run
  let (dmax, mut cs) = { let ra = regs.r[a].as_ref().unwrap(); (ra.get_depth_max(), cells_of(ra)) };
  if cs.len() > 400 { return; }
  for k in (1..cs.len()).rev() { let j = rng.below(k as u64 + 1) as usize; cs.swap(k, j); }
  let res = guarded(|| {
    let mut b = BMOCBuilderUnsafe::new(dmax, cs.len().max(1));
    for c in cs.iter() { b.push(c.depth(), c.hash(), c.f); }
    b.to_bmoc_from_unordered()
  });
  out.emit(result_event(json!({"ev": "unordered", "a": a, "out": o}), &res));
  regs.set(o, res);
}
pub fn ev_op(regs: &mut Regs, out: &mut Out, op: &str, a: usize, b: usize, o: usize) {
  if regs.r[a].is_none() || regs.r[b].is_none() { return; } // an operand was lost (a rejected event earlier in the block): nothing to run
  let res = {
    let (ra, rb) = (regs.r[a].as_ref().unwrap(), regs.r[b].as_ref().unwrap());
    guarded(|| match op { "not" => ra.not(), "and" => ra.and(rb), "or" => ra.or(rb), "xor" => ra.xor(rb), _ => unreachable!() })
  };
  // results of more than 800 cells are not traced (each event must stay cheap for TLC); the block ends there
  if res.as_ref().map_or(false, |r| r.entries.len() > 800) { regs.set(o, None); return; }
  out.emit(result_event(json!({"ev": "op", "op": op, "a": a, "b": b, "out": o}), &res));
  // keep the spec's resynchronisation rule: a panicked / unusable result leaves the register empty on our side only if
  // the spec also replaces it; the spec then uses its own expected value, so later events on this register are skipped
  regs.set(o, res);
}
pub fn ev_law(regs: &Regs, out: &mut Out, name: &str, a: usize, b: usize) {
  if regs.r[a].is_none() || regs.r[b].is_none() { return; } // an operand was lost (a rejected event earlier in the block): nothing to run
  let (ra, rb) = (regs.r[a].as_ref().unwrap(), regs.r[b].as_ref().unwrap());
  // every intermediate result is checked before it is used as an operand (see Regs::set); a malformed one falsifies the law
  let wf = |x: BMOC| -> Option<BMOC> { Some(x).filter(well_formed) };
  let holds = guarded(|| -> Option<bool> { Some(match name {
    "notnot" => wf(wf(ra.not())?.not())?.equals(ra),
    "demorgan" => wf(wf(ra.and(rb))?.not())?.equals(&wf(wf(ra.not())?.or(&wf(rb.not())?))?),
    "xor_self" => wf(ra.xor(ra))?.equals(&build(ra.get_depth_max(), &[])),
    "or_not" => wf(ra.or(&wf(ra.not())?))?.equals(&build(ra.get_depth_max(), &(0..12).map(|b| C { b, p: vec![], f: true }).collect::<Vec<_>>())),
    _ => unreachable!(),
  }) });
  out.emit(json!({"ev": "law", "law": name, "a": a, "b": if name == "demorgan" { b } else { a }, "p": holds.is_none() as u8, "holds": holds.flatten().unwrap_or(false) as u8}));
}
pub fn ev_view(regs: &Regs, out: &mut Out, k: usize) {
  if regs.r[k].is_none() { return; } // an operand was lost (a rejected event earlier in the block): nothing to run
  let bm = regs.r[k].as_ref().unwrap();
  let dmax = bm.get_depth_max();
  let iter: Vec<C> = bm.into_iter().map(|c| { let (b, p) = path_of_hash(c.depth.min(29), c.hash); C { b: b.min(255) as u8, p, f: c.is_full } }).collect();
  let raw: Vec<Value> = bm.entries.iter().map(|r| raw_digits(*r)).collect();
  let deep = bm.deep_size();
  let hint = { let it = bm.flat_iter(); it.size_hint() == (deep, Some(deep)) && it.deep_size() == deep && it.depth() == dmax
               && { let ic = bm.flat_iter_cell(); ic.size_hint() == (deep, Some(deep)) && ic.deep_size() == deep && ic.depth() == dmax } };
  let ranges: Vec<Value> = bm.to_ranges().iter().map(|r| json!([big_digits(r.start), big_digits(r.end)])).collect();
  let own_deep: u128 = cells_of(bm).iter().map(|c| 1u128 << (2 * (dmax.saturating_sub(c.depth())) as u32)).sum();
  let small = deep <= 400 && own_deep <= 400;
  let flatc = |h: u64| -> Value { let (b, p) = path_of_hash(dmax, h); json!({"b": b, "p": p}) };
  let (flat, flatarr, flatcell) = if small {
    (bm.flat_iter().map(flatc).collect::<Vec<_>>(), bm.to_flat_array().iter().map(|h| flatc(*h)).collect::<Vec<_>>(),
     bm.flat_iter_cell().map(|c| { let (b, p) = path_of_hash(c.depth.min(29), c.hash); json!({"b": b, "p": p, "f": c.is_full as u8}) }).collect::<Vec<_>>())
  } else { (vec![], vec![], vec![]) };
  out.emit(json!({"ev": "view", "reg": k, "dmax": dmax, "iter": cells_json(&iter), "raw": raw, "deep": big_digits(deep as u64), "hint": hint as u8,
                  "ranges": ranges, "small": small as u8, "flat": flat, "flatarr": flatarr, "flatcell": flatcell}));
}
pub fn ev_pack(regs: &mut Regs, out: &mut Out, a: usize, o: usize) {
  if regs.r[a].is_none() { return; } // an operand was lost (a rejected event earlier in the block): nothing to run
  let src = cells_of(regs.r[a].as_ref().unwrap());
  let dmax = regs.r[a].as_ref().unwrap().get_depth_max();
  let res = guarded(|| { let mut b = BMOCBuilderUnsafe::new(dmax, src.len().max(1)); for c in &src { b.push(c.depth(), c.hash(), c.f); } b.to_bmoc_packing() });
  out.emit(result_event(json!({"ev": "pack", "a": a, "out": o}), &res));
  regs.set(o, res);
}
pub fn ev_lower(regs: &mut Regs, out: &mut Out, a: usize, o: usize, to: u8, packing: bool) {
  if regs.r[a].is_none() { return; } // an operand was lost (a rejected event earlier in the block): nothing to run
  let src = cells_of(regs.r[a].as_ref().unwrap());
  let dmax = regs.r[a].as_ref().unwrap().get_depth_max();
  let res = guarded(|| {
    let mut b = BMOCBuilderUnsafe::new(dmax, src.len().max(1));
    for c in &src { b.push(c.depth(), c.hash(), c.f); }
    if packing { b.to_lower_depth_bmoc_packing(to) } else { b.to_lower_depth_bmoc(to) }
  });
  out.emit(result_event(json!({"ev": "lower", "a": a, "out": o, "to": to, "packing": packing as u8}), &res));
  regs.set(o, res);
}
/// fixed-depth builder: push sequence (cells of depth `depth`), capacity, flag
pub fn ev_fixed(regs: &mut Regs, out: &mut Out, o: usize, depth: u8, flag: bool, cap: usize, hs: &[u64]) {
  let res = guarded(|| { let mut b = BMOCBuilderFixedDepth::with_capacity(depth, flag, cap); for h in hs { b.push(*h); } b.to_bmoc() });
  let mut set: Vec<u64> = hs.to_vec();
  set.sort(); set.dedup();
  let pushed: Vec<Value> = set.iter().map(|h| { let (b, p) = path_of_hash(depth, *h); json!({"b": b, "p": p}) }).collect();
  let (p, none, bm) = match res { None => (1, 0, None), Some(None) => (0, 1, None), Some(Some(bm)) => (0, 0, Some(bm)) };
  let mut ev = result_event(json!({"ev": "fixed", "out": o, "depth": depth, "flag": flag as u8, "cap": cap, "npush": hs.len(), "pushed": pushed, "none": none}), &bm);
  ev.as_object_mut().unwrap().insert("p".into(), json!(p));
  out.emit(ev);
  regs.set(o, bm);
}
/// The same builder instance used several times: `to_bmoc(&mut self)` hands the accumulated BMOC over and leaves an empty builder
/// behind, which the API lets the caller fill again. Each use is one `fixed` event of its own (the result must cover exactly the
/// cells pushed during THAT use: nothing may survive from, or be suppressed because of, the previous one).
pub fn ev_fixed_reuse(regs: &mut Regs, out: &mut Out, o: usize, depth: u8, flag: bool, cap: usize, uses: &[Vec<u64>]) {
  let res: Vec<Option<Option<BMOC>>> = {
    let mut acc: Vec<Option<Option<BMOC>>> = Vec::new();
    let mut b = guarded(|| BMOCBuilderFixedDepth::with_capacity(depth, flag, cap));
    for hs in uses {
      let r = match b.as_mut() { None => None, Some(bb) => guarded(std::panic::AssertUnwindSafe(|| { for h in hs { bb.push(*h); } bb.to_bmoc() })) };
      if r.is_none() { b = None; } // after a panic the builder is in an unknown state: the following uses are reported as panics too
      acc.push(r);
    }
    acc
  };
  for (k, (hs, r)) in uses.iter().zip(res.into_iter()).enumerate() {
    let mut set: Vec<u64> = hs.to_vec();
    set.sort(); set.dedup();
    let pushed: Vec<Value> = set.iter().map(|h| { let (b, p) = path_of_hash(depth, *h); json!({"b": b, "p": p}) }).collect();
    let (p, none, bm) = match r { None => (1, 0, None), Some(None) => (0, 1, None), Some(Some(bm)) => (0, 0, Some(bm)) };
    let mut ev = result_event(json!({"ev": "fixed", "out": o, "depth": depth, "flag": flag as u8, "cap": cap, "npush": hs.len(), "pushed": pushed, "none": none, "use": k + 1}), &bm);
    ev.as_object_mut().unwrap().insert("p".into(), json!(p));
    out.emit(ev);
    regs.set(o, bm);
  }
}
/// results above this size are not traced (TLC validates ~100 cells / ms; the bound keeps every event cheap)
pub const MAX_QUERY_CELLS: usize = 250;
pub fn ev_query(regs: &mut Regs, out: &mut Out, o: usize, what: &str, res: Option<BMOC>) {
  if res.as_ref().map_or(false, |b| b.entries.len() > MAX_QUERY_CELLS) { return; }
  out.emit(result_event(json!({"ev": "query", "out": o, "what": what}), &res));
  regs.set(o, res);
}

// ------------------------------------------------------------------------------------------ scenarios
/// Two operands built together: A holds a coarse cell (d, n); B holds cells inside it followed by a SHALLOWER cell with the same
/// number n (or n + 1), or a deeper cell numbered n just before / after: helpers that compare cell numbers of different depths
/// (is_in, raw-value order shortcuts) go wrong on exactly these pairs. Both lists are well formed.
fn coincidence_pair(rng: &mut Rng, dmax: u8, flags: bool) -> (Vec<C>, Vec<C>) {
  let mk = |d: u8, n: u64, f: bool| { let (b, p) = path_of_hash(d, n); C { b: b as u8, p, f } };
  let flag = |rng: &mut Rng| !flags || rng.bool();
  let d = 1 + rng.below(dmax as u64) as u8;                 // depth of the coarse cell, 1 ..= dmax
  let dsh = rng.below(d as u64) as u8;                       // a shallower depth
  let nmax_sh = 12u64 << (2 * dsh as u32);
  let n = 1 + rng.below((nmax_sh - 1).min(40));              // valid at depth dsh, hence at depth d; small numbers mostly
  let a = vec![mk(d, n, flag(rng))];
  let mut b: Vec<C> = Vec::new();
  // cells of B inside (d, n)
  if d < dmax {
    let dd = 1 + rng.below((dmax - d).min(3) as u64) as u8;
    let first = n << (2 * dd as u32);
    let cnt = 1u64 << (2 * dd as u32);
    let mut k = 0;
    while k < cnt { if rng.below(3) != 0 { b.push(mk(d + dd, first + k, flag(rng))); } k += 1 + rng.below(3); }
  } else { b.push(mk(d, n, flag(rng))); }
  // then the shallower cell with the same number (after them in z-order: n * 4^(d - dsh) > n), or with n + 1
  let m = if rng.below(3) == 0 { n + 1 } else { n };
  if m < nmax_sh { b.push(mk(dsh, m, flag(rng))); }
  // keep B well formed (the shallow cell must not contain the deep ones)
  let mut out_b: Vec<C> = Vec::new();
  for c in b { let ov = out_b.iter().any(|o| o.b == c.b && { let k = o.p.len().min(c.p.len()); o.p[..k] == c.p[..k] }); if !ov { out_b.push(c); } }
  out_b.sort_by(|x, y| (x.b, &x.p).cmp(&(y.b, &y.p)));
  if rng.bool() { (a, out_b) } else { (out_b, a) }
}
/// "zoomed copy": B holds the cells of A with the same NUMBERS read `dz` levels deeper, in a BMOC whose maximal depth is `dz`
/// levels deeper too: the two vectors of raw entries are then bit for bit the same although the two BMOCs cover different
/// parts of the sky (anything comparing or copying raw values without looking at the maximal depth confuses them).
fn zoom_pair(rng: &mut Rng, flags: bool, packed_prob: f64) -> (u8, Vec<C>, u8, Vec<C>) {
  let dmax = match rng.below(3) { 0 => rng.below(3) as u8, 1 => 1 + rng.below(6) as u8, _ => rng.below(27) as u8 };
  let cfg = GenCfg { dmax, flags, packed: rng.f64() < packed_prob };
  let a = if rng.below(4) == 0 { let d = rng.below(dmax as u64 + 1) as u8; let (b, p) = path_of_hash(d, rng.below(3)); vec![C { b: b as u8, p, f: !flags || rng.bool() }] } else { gen_cells(rng, &cfg) };
  let dz = 1 + rng.below((29 - dmax).min(3) as u64) as u8;
  let b: Vec<C> = a.iter().map(|c| { let (bb, p) = path_of_hash(c.depth() + dz, c.hash()); C { b: bb as u8, p, f: c.f } }).collect();
  (dmax, a, dmax + dz, b)
}
/// "long pair": A has 130 .. 300 entries, small cells first and coarser cells later in z-order; B has a few deep cells, most of
/// them inside the coarse cells of A (any of the four sub-cells): whatever skips ahead in a long operand (binary search,
/// galloping) must not jump over a coarse cell that contains the other operand's current cell.
fn long_pair(rng: &mut Rng, flags: bool) -> (u8, Vec<C>, Vec<C>) {
  let dmax = 4 + rng.below(8) as u8;
  let flag = |rng: &mut Rng| !flags || rng.bool();
  let mut a: Vec<C> = Vec::new();
  let mut b: Vec<C> = Vec::new();
  let nsmall = 130 + rng.below(170);
  // small cells: every other cell of depth dmax from the start of base cell 0 (never four siblings together)
  let mut h = 0u64;
  while (a.len() as u64) < nsmall { let (bb, p) = path_of_hash(dmax, h); a.push(C { b: bb as u8, p, f: flag(rng) }); h += 1 + rng.below(2) + (h & 1); }
  // then coarse cells of mixed depths further along the curve, and cells of B inside them
  let mut first_free = (h >> (2 * (dmax - 1) as u32)) + 1;   // number, at depth 1, of the first depth-1 cell not touched yet
  for _ in 0..(3 + rng.below(6)) {
    let d = 1 + rng.below((dmax - 1).min(4) as u64) as u8;
    let n = ((first_free << (2 * (d - 1) as u32)) + rng.below(3)).min((12u64 << (2 * d as u32)) - 1);
    let (bb, p) = path_of_hash(d, n);
    if a.iter().any(|c| c.b == bb as u8 && { let k = c.p.len().min(p.len()); c.p[..k] == p[..k] }) { continue; }
    a.push(C { b: bb as u8, p: p.clone(), f: flag(rng) });
    first_free = (n >> (2 * (d - 1) as u32)) + 1 + rng.below(2);
    if rng.below(4) != 0 {
      let mut q = p.clone();
      q.push(rng.below(4) as u8);
      while (q.len() as u8) < dmax && rng.below(3) != 0 { q.push(rng.below(4) as u8); }
      b.push(C { b: bb as u8, p: q, f: flag(rng) });
    }
  }
  // B also meets the run of small cells
  for _ in 0..(1 + rng.below(3)) { let (bb, p) = path_of_hash(dmax, rng.below(h + 4)); b.push(C { b: bb as u8, p, f: flag(rng) }); }
  for v in [&mut a, &mut b].iter_mut() { v.sort_by(|x, y| (x.b, &x.p).cmp(&(y.b, &y.p))); v.dedup_by(|x, y| x.b == y.b && x.p == y.p); }
  (dmax, a, b)
}
fn fill_regs(rng: &mut Rng, regs: &mut Regs, out: &mut Out, n: usize, flags: bool, packed_prob: f64) {
  if n >= 2 && rng.below(9) == 0 {
    let (da, a, db, b) = zoom_pair(rng, flags, packed_prob);
    ev_new(regs, out, 0, da, &a);
    ev_new(regs, out, 1, db, &b);
    for k in 2..n { let cfg = GenCfg { dmax: gen_dmax(rng), flags, packed: rng.f64() < packed_prob }; let cs = gen_cells(rng, &cfg); ev_new(regs, out, k, cfg.dmax, &cs); }
    for op in ["xor", "or", "and"].iter() { ev_op(regs, out, op, 0, 1, 4); ev_op(regs, out, op, 1, 0, 5); }
    return;
  }
  if n >= 2 && rng.below(12) == 0 {
    let (dmax, a, b) = long_pair(rng, flags);
    let d2 = if rng.below(3) == 0 { (dmax + 1 + rng.below(3) as u8).min(29) } else { dmax };
    ev_new(regs, out, 0, dmax, &a);
    ev_new(regs, out, 1, d2, &b);
    for k in 2..n { let cfg = GenCfg { dmax: gen_dmax(rng), flags, packed: rng.f64() < packed_prob }; let cs = gen_cells(rng, &cfg); ev_new(regs, out, k, cfg.dmax, &cs); }
    for op in ["and", "or", "xor"].iter() { ev_op(regs, out, op, 0, 1, 4); ev_op(regs, out, op, 1, 0, 5); }
    return;
  }
  if n >= 2 && rng.below(6) == 0 {
    let dmax = gen_dmax(rng).max(1);
    let (a, b) = coincidence_pair(rng, dmax, flags);
    let d2 = if rng.below(3) == 0 { (dmax + 1 + rng.below(3) as u8).min(29) } else { dmax };
    ev_new(regs, out, 0, dmax, &a);
    ev_new(regs, out, 1, d2, &b);
    for k in 2..n { let cfg = GenCfg { dmax: gen_dmax(rng), flags, packed: rng.f64() < packed_prob }; let cs = gen_cells(rng, &cfg); ev_new(regs, out, k, cfg.dmax, &cs); }
    // make sure the pair meets, both ways round
    for op in ["or", "xor", "and"].iter() { ev_op(regs, out, op, 0, 1, 4); ev_op(regs, out, op, 1, 0, 5); }
    return;
  }
  for k in 0..n {
    let cfg = GenCfg { dmax: gen_dmax(rng), flags, packed: rng.f64() < packed_prob };
    let cs = gen_cells(rng, &cfg);
    ev_new(regs, out, k, cfg.dmax, &cs);
  }
}
fn random_ops(rng: &mut Rng, regs: &mut Regs, out: &mut Out, nops: usize, laws: bool, views: bool) {
  for _ in 0..nops {
    let used = regs.used();
    if used.len() < 2 { return; }
    let a = *rng.pick(&used);
    let b = *rng.pick(&used);
    let o = rng.below(NREG as u64) as usize;
    let op = *rng.pick(&["not", "and", "or", "xor", "and", "or", "xor"]);
    ev_op(regs, out, op, a, b, o);
    if regs.r[o].is_none() { return; } // a panic: the rest of the block would run on different values than the spec's
    let ncells = regs.r[o].as_ref().unwrap().entries.len();
    if ncells > 400 { return; } // keep every event cheap for TLC (complements of deep MOCs grow quickly)
    if views && ncells <= MAX_QUERY_CELLS && rng.below(3) == 0 { ev_view(regs, out, o); }
    if laws && rng.below(4) == 0 {
      let used = regs.used();
      ev_law(regs, out, *rng.pick(&["notnot", "demorgan", "xor_self", "or_not"]), *rng.pick(&used), *rng.pick(&used));
    }
  }
}

/// C07: plain MOCs (all flags full), mostly canonical (packed) operands, equal and different depths
pub fn record_c07(rng: &mut Rng, count: u64, out: &mut Out) {
  let mut regs = Regs::new();
  while out.n < count {
    regs.reset(out);
    fill_regs(rng, &mut regs, out, 4, false, 0.9);
    random_ops(rng, &mut regs, out, 10, true, false);
  }
}
/// C08: arbitrary mixes of flags and depths
pub fn record_c08(rng: &mut Rng, count: u64, out: &mut Out) {
  let mut regs = Regs::new();
  while out.n < count {
    regs.reset(out);
    fill_regs(rng, &mut regs, out, 4, true, 0.5);
    random_ops(rng, &mut regs, out, 8, false, false);
  }
}
/// a coverage query whose result enters a register
fn random_query(rng: &mut Rng, regs: &mut Regs, out: &mut Out, o: usize) {
  let depth = rng.below(9) as u8;
  let (lon, lat, _) = crate::sc_nested::gen_position(rng);
  let lon = lon.rem_euclid(crate::geo::TWO_PI);
  match rng.below(4) {
    0 | 1 => {
      // incl. the whole-sky answers (radius >= pi) and very large cones
      let r = match rng.below(12) { 0 => crate::geo::PI, 1 => 3.5, 2 => 3.0, _ => 10f64.powf(rng.range(-3.5, 0.3)) }.min(3.6);
      let dd = rng.below(3) as u8;
      let res = if dd == 0 { guarded(|| nested::cone_coverage_approx(depth, lon, lat, r)) } else { guarded(|| nested::cone_coverage_approx_custom(depth, dd, lon, lat, r)) };
      ev_query(regs, out, o, "cone", res);
    }
    2 => {
      let a = 10f64.powf(rng.range(-3.0, 0.0)).min(1.5);
      let b = a * rng.range(0.1, 1.0);
      let pa = rng.range(0.0, crate::geo::PI);
      let res = guarded(|| nested::elliptical_cone_coverage(depth, lon, lat, a, b, pa));
      ev_query(regs, out, o, "ellipse", res);
    }
    _ => {
      let lat = lat.max(-1.2).min(1.2);
      let r = 10f64.powf(rng.range(-3.0, -0.3));
      let n = 3 + rng.below(5) as usize;
      let vs: Vec<(f64, f64)> = (0..n).map(|k| crate::geo::offset_point(lon, lat, r * rng.range(0.6, 1.0), crate::geo::TWO_PI * (k as f64) / (n as f64))).collect();
      let exact = rng.bool();
      let res = guarded(|| nested::polygon_coverage(depth, &vs, exact));
      ev_query(regs, out, o, "polygon", res);
    }
  }
}
/// C09: histories mixing query outputs, builder outputs and operators, with the views after each step
pub fn record_c09(rng: &mut Rng, count: u64, out: &mut Out) {
  let mut regs = Regs::new();
  while out.n < count {
    regs.reset(out);
    for k in 0..4usize {
      match rng.below(4) {
        0 => { let cfg = GenCfg { dmax: gen_dmax(rng), flags: true, packed: rng.bool() }; let cs = gen_cells(rng, &cfg); ev_new(&mut regs, out, k, cfg.dmax, &cs); }
        1 => { let (depth, flag, cap, hs) = gen_pushes(rng); ev_fixed(&mut regs, out, k, depth, flag, cap, &hs); }
        _ => random_query(rng, &mut regs, out, k),
      }
      if regs.r[k].is_some() { ev_view(&regs, out, k); }
    }
    let a = rng.below(4) as usize;
    if regs.r[a].is_some() { ev_unordered(rng, &mut regs, out, a, 7); if regs.r[7].is_some() { ev_view(&regs, out, 7); } }
    random_ops(rng, &mut regs, out, 6, false, true);
  }
}
/// push sequences for the fixed-depth builder: sorted, reverse, random, clustered runs (aligned or not), duplicates
pub fn gen_pushes(rng: &mut Rng) -> (u8, bool, usize, Vec<u64>) {
  let depth = match rng.below(4) { 0 => rng.below(3) as u8, 1 => 29, _ => rng.below(30) as u8 };
  let nh = 12u64 << (2 * depth as u32);
  let cap = *rng.pick(&[1usize, 2, 3, 4, 5, 7, 8, 16, 17, 64, 1000]);
  let n = rng.below(60) as usize;
  let mut hs: Vec<u64> = Vec::new();
  let style = rng.below(8);
  let base = rng.below(nh);
  if style >= 6 && depth >= 1 {
    // "refill": a few cells of an aligned block are flushed first, the complete block comes in a later buffer
    // (the accumulated BMOC then meets a coarser full cell covering cells it already holds)
    let dd = 1 + rng.below(2.min(depth as u64)) as u32;
    let bs = 1u64 << (2 * dd);
    let cap = (bs as usize) * (1 + rng.below(2) as usize);
    let nblocks = 1 + rng.below(3);
    let mut hs: Vec<u64> = Vec::new();
    for _ in 0..nblocks {
      let start = (rng.below(nh) / bs) * bs;
      let npre = 1 + rng.below(bs - 1);
      for _ in 0..npre { hs.push(start + rng.below(bs)); }
      // pad with unrelated cells up to a multiple of the capacity so that the prefix is flushed
      while hs.len() % cap != 0 { hs.push(rng.below(nh)); }
      for k in 0..bs { hs.push(start + k); }
      while hs.len() % cap != 0 { hs.push(rng.below(nh)); }
    }
    return (depth, rng.bool() || style == 6, cap, hs);
  }
  while hs.len() < n {
    match style {
      0 => hs.push(rng.below(nh)),                                 // random
      1 => hs.push((base + rng.below(40)) % nh),                   // clustered with duplicates
      2 | 3 => {                                                   // runs aligned (2) or not (3) on parent boundaries
        let len = 1 + rng.below(20);
        let start = if style == 2 { (rng.below(nh) >> 4) << 4 } else { rng.below(nh) };
        for k in 0..len { if start + k < nh { hs.push(start + k); } }
      }
      4 => { let lim = nh.min(64); hs.push(rng.below(lim)); }      // a small universe: massive duplicates, complete parents
      _ => hs.push(nh - 1 - rng.below(nh.min(50))),                // the end of the range
    }
  }
  match rng.below(4) { 0 => hs.sort(), 1 => { hs.sort(); hs.reverse(); } _ => {} }
  (depth, rng.bool(), cap, hs)
}
/// C15: builders, pack, lower
pub fn record_c15(rng: &mut Rng, count: u64, out: &mut Out) {
  let mut regs = Regs::new();
  while out.n < count {
    regs.reset(out);
    for k in 0..3usize {
      let (depth, flag, cap, hs) = gen_pushes(rng);
      ev_fixed(&mut regs, out, k, depth, flag, cap, &hs);
    }
    if rng.below(2) == 0 {
      // a builder used two or three times; a use often starts with, ends with or consists of the last / first value of the
      // previous one, and may be empty
      let (depth, flag, cap, hs) = gen_pushes(rng);
      let nh = 12u64 << (2 * depth as u32);
      let mut uses: Vec<Vec<u64>> = vec![hs];
      for _ in 0..(1 + rng.below(2)) {
        let prev = uses.last().unwrap().clone();
        let mut nx: Vec<u64> = Vec::new();
        match rng.below(5) {
          0 => { if let Some(l) = prev.last() { nx.push(*l); } }
          1 => { if let Some(l) = prev.last() { nx.push(*l); } for _ in 0..rng.below(6) { nx.push(rng.below(nh)); } }
          2 => { if let Some(f) = prev.first() { nx.push(*f); } if let Some(l) = prev.last() { nx.push(*l); } }
          3 => {}
          _ => { for _ in 0..(1 + rng.below(8)) { nx.push(rng.below(nh)); } }
        }
        uses.push(nx);
      }
      ev_fixed_reuse(&mut regs, out, 2, depth, flag, cap, &uses);
    }
    for k in 3..6usize {
      let cfg = GenCfg { dmax: gen_dmax(rng), flags: true, packed: false };
      let cs = gen_cells(rng, &cfg);
      ev_new(&mut regs, out, k, cfg.dmax, &cs);
      ev_pack(&mut regs, out, k, 6);
      let dmax = cfg.dmax;
      if dmax > 0 {
        let to = rng.below(dmax as u64) as u8;
        ev_lower(&mut regs, out, k, 7, to, rng.bool());
      }
    }
  }
}

// ------------------------------------------------------------------------------------------ G direction
/// TLC-generated operand pairs (and push sequences): executed here, the resulting events are validated by TLC again
pub fn replay_bmoc(line: &Value, out: &mut Out, stats: &mut crate::sc_nested::ReplayStats, regs: &mut Regs) {
  stats.calls += 1;
  regs.reset(out);
  match line["kind"].as_str().unwrap() {
    "pair" => {
      let a: Vec<C> = line["a"]["cells"].as_array().unwrap().iter().map(C::from_json).collect();
      let b: Vec<C> = line["b"]["cells"].as_array().unwrap().iter().map(C::from_json).collect();
      ev_new(regs, out, 0, line["a"]["dmax"].as_u64().unwrap() as u8, &a);
      ev_new(regs, out, 1, line["b"]["dmax"].as_u64().unwrap() as u8, &b);
      ev_op(regs, out, "not", 0, 0, 2);
      for op in ["and", "or", "xor"].iter() { ev_op(regs, out, op, 0, 1, 3); }
      stats.calls += 3;
    }
    "pushes" => {
      let depth = line["depth"].as_u64().unwrap() as u8;
      let hs: Vec<u64> = line["hs"].as_array().unwrap().iter().map(|c| C { b: c["b"].as_u64().unwrap() as u8, p: c["p"].as_array().unwrap().iter().map(|d| d.as_u64().unwrap() as u8).collect(), f: true }.hash()).collect();
      let cap = line["cap"].as_u64().unwrap() as usize;
      // the buffer is private: replay every prefix on a fresh builder so that the abstract state is compared after each push
      for n in 0..=hs.len() { ev_fixed(regs, out, 0, depth, line["flag"].as_u64().unwrap() == 1, cap, &hs[..n]); stats.calls += 1; }
    }
    "cells" => {
      let a: Vec<C> = line["a"]["cells"].as_array().unwrap().iter().map(C::from_json).collect();
      let dmax = line["a"]["dmax"].as_u64().unwrap() as u8;
      ev_new(regs, out, 0, dmax, &a);
      ev_pack(regs, out, 0, 1);
      for to in 0..dmax { ev_lower(regs, out, 0, 2, to, false); ev_lower(regs, out, 0, 3, to, true); }
      ev_view(regs, out, 0);
    }
    k => panic!("unknown generated case kind {}", k),
  }
}
