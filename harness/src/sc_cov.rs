//! Coverage queries: C05 / C06 (cone), C13 (elliptical cone), C12 (polygon), C16 (cell-size helpers).
//! The bridge measures metric facts (witness points robustly inside the region and inside a cell, excess of full
//! cells, distance of reported cells); the specification (Trace_Bmoc.tla) judges coverage through ancestors,
//! well-formedness, packing, flags and thresholds.
use crate::geo::*;
use crate::sc_bmoc::{cells_json, cells_of, C};
use crate::sc_nested::{gen_position, pos_str};
use crate::util::*;
use cdshealpix::nested;
use serde_json::{json, Value};
use std::collections::BTreeSet;

pub const MAX_CELLS: usize = 300;
/// results of the "large" cone class (cones of many cells at moderate depths): the whole cell list is still given to TLC
pub const MAX_CELLS_LARGE: usize = 4000;

fn e15(d: f64) -> i64 { if d.is_nan() { 2_000_000_000 } else { (d * 1e15).round().max(-2e9).min(2e9) as i64 } }

/// largest centre-to-vertex distance over ALL cells of a depth, measured by the bridge (exhaustive to depth 5,
/// scaled with a 2% safety factor deeper: the ratio to the cell size converges from above)
pub fn dmax(depth: u8) -> f64 {
  use std::sync::Mutex;
  static CACHE: Mutex<Vec<f64>> = Mutex::new(Vec::new());
  let mut c = CACHE.lock().unwrap();
  if c.is_empty() {
    for d in 0..=5u8 {
      let n = 1u32 << d;
      let mut m: f64 = 0.0;
      for b in 0..12u8 { for i in 0..n { for j in 0..n {
        let (cl, cb) = ref_unproj_local(n as f64, b, i as f64 + 0.5, j as f64 + 0.5);
        for (da, dc) in [(0.0, 0.0), (1.0, 0.0), (0.0, 1.0), (1.0, 1.0)].iter() {
          let (vl, vb) = ref_unproj_local(n as f64, b, i as f64 + da, j as f64 + dc);
          m = m.max(ang_dist(cl, cb, vl, vb));
        }
      } } }
      c.push(m);
    }
  }
  if depth <= 5 { c[depth as usize] } else { c[5] * 1.02 / (1u64 << (depth - 5)) as f64 }
}

fn cell_size(depth: u8) -> f64 { (4.0 * PI / (12.0 * (1u64 << (2 * depth as u32)) as f64)).sqrt() }

/// the cell of depth `depth` containing the position, if the position is robustly inside it (away from its borders)
fn robust_cell(depth: u8, lon: f64, lat: f64) -> Option<C> {
  let n = 1u32 << depth;
  let f = face_of(n, lon, lat);
  if f.kind() != "cell" { return None; }
  let (a, c) = local_of(n, f.b, lon, lat);
  let (fa, fc) = (a - a.floor(), c - c.floor());
  let m = 2e-4;
  if fa < m || fa > 1.0 - m || fc < m || fc > 1.0 - m { return None; }
  let cell = Cell { b: f.b, i: f.a2 / 2, j: f.c2 / 2 };
  let (b, p) = path_of_hash(depth, hash_of_cell(depth, cell));
  Some(C { b: b as u8, p, f: true })
}

/// witness cells of a cone: cells of depth `depth` that provably contain a point of the cone
pub fn cone_witnesses(rng: &mut Rng, depth: u8, lon: f64, lat: f64, r: f64, maxw: usize) -> Vec<C> {
  let s = cell_size(depth);
  let mut set: BTreeSet<(u8, Vec<u8>)> = BTreeSet::new();
  let mut push = |l: f64, b: f64| {
    if ang_dist(l, b, lon, lat) <= r * (1.0 - 1e-7) - 3e-15 {
      if let Some(c) = robust_cell(depth, l, b) { set.insert((c.b, c.p)); }
    }
  };
  push(lon, lat);
  let rr = r.min(PI);
  for frac in [0.25, 0.5, 0.75, 0.9, 0.97, 0.99, 0.997, 0.999, 0.9997, 0.9999, 1.0 - 1e-6].iter() {
    let rho = rr * frac;
    let circ = TWO_PI * rho.sin().abs().max(1e-300);
    // at least 240 azimuths per ring: at shallow depths a cell may be touched through a thin corner only
    let npts = ((circ / (0.25 * s)).ceil() as usize + 8).max(240).min(700);
    let a0 = rng.f64() * TWO_PI;
    for k in 0..npts {
      let (l, b) = offset_point(lon, lat, rho, a0 + TWO_PI * (k as f64) / (npts as f64));
      push(l, b);
    }
  }
  // corner witnesses: a cell may be touched through a corner so thin that no ring point falls in it. Every vertex of the cells met
  // by the ring points that lies inside the cone yields points of the cone in each of the (up to 4) cells sharing it: a tiny
  // circle around the vertex, each point of which is kept only if it is itself inside the cone and robustly inside a cell
  {
    let n = 1u32 << depth;
    let mut verts: BTreeSet<(u8, u32, u32)> = BTreeSet::new();
    let mut cand: Vec<(f64, f64)> = Vec::new();
    let mut add_cell = |l: f64, b: f64, verts: &mut BTreeSet<(u8, u32, u32)>, cand: &mut Vec<(f64, f64)>| {
      if verts.len() >= 1500 { return; }
      let f = face_of(n, l, b);
      let (i, j) = ((f.a2 / 2).min(n - 1), (f.c2 / 2).min(n - 1));
      for (da, dc) in [(0u32, 0u32), (1, 0), (0, 1), (1, 1)].iter() {
        if verts.insert((f.b, i + da, j + dc)) { cand.push(ref_unproj_local(n as f64, f.b, (i + da) as f64, (j + dc) as f64)); }
      }
    };
    add_cell(lon, lat, &mut verts, &mut cand);
    for frac in [0.5, 0.9, 0.99, 0.999, 1.0 - 1e-6].iter() {
      let rho = rr * frac;
      let circ = TWO_PI * rho.sin().abs().max(1e-300);
      let npts = ((circ / (0.5 * s)).ceil() as usize + 8).max(120).min(400);
      for k in 0..npts { let (l, b) = offset_point(lon, lat, rho, TWO_PI * (k as f64 + 0.5) / (npts as f64)); add_cell(l, b, &mut verts, &mut cand); }
    }
    for (vl, vb) in cand {
      if !(vl.is_finite() && vb.is_finite()) || vb.abs() > HALF_PI - 1e-9 { continue; }
      let dv = ang_dist(vl, vb, lon, lat);
      if dv > r { continue; }
      // as far from the vertex as the cone allows, at most 2 % of a cell
      let eps = (0.02 * s).min(0.5 * (r - dv));
      if eps <= 0.0 { continue; }
      for k in 0..16 { let (l, b) = offset_point(vl, vb, eps, TWO_PI * (k as f64 + 0.37) / 16.0); push(l, b); }
    }
  }
  let mut v: Vec<C> = set.into_iter().map(|(b, p)| C { b, p, f: true }).collect();
  // keep at most maxw, evenly spread
  if v.len() > maxw { let step = v.len() as f64 / maxw as f64; v = (0..maxw).map(|k| v[(k as f64 * step) as usize].clone()).collect(); }
  v
}
/// Same witnesses, but when there are more than `maxw` of them the ones that no cell of the result covers (digit-path prefix)
/// come first: the sample handed to TLC is adversarial, TLC remains the judge of every witness it receives.
pub fn cone_witnesses_for(rng: &mut Rng, depth: u8, lon: f64, lat: f64, r: f64, maxw: usize, result: &[C]) -> Vec<C> {
  let all = cone_witnesses(rng, depth, lon, lat, r, usize::MAX);
  if all.len() <= maxw { return all; }
  let covered = |w: &C| result.iter().any(|c| c.b == w.b && c.p.len() <= w.p.len() && c.p[..] == w.p[..c.p.len()]);
  let (mut unc, cov): (Vec<C>, Vec<C>) = all.into_iter().partition(|w| !covered(w));
  unc.truncate(maxw);
  let room = maxw - unc.len();
  if room > 0 && !cov.is_empty() { let step = cov.len() as f64 / room as f64; for k in 0..room.min(cov.len()) { unc.push(cov[((k as f64 * step) as usize).min(cov.len() - 1)].clone()); } }
  unc
}

/// sample points of a cell: its 4 vertices and `m` points inside each edge, from exact local coordinates
fn cell_border_points(c: &C, m: usize) -> Vec<(f64, f64)> {
  let depth = c.p.len() as u8;
  let n = (1u64 << depth) as f64;
  let cell = cell_of_hash(depth, hash_of_path(c.b as u64, &c.p));
  let (i, j) = (cell.i as f64, cell.j as f64);
  let mut v = Vec::new();
  for k in 0..=m {
    let t = k as f64 / (m as f64 + 1.0);
    v.push(ref_unproj_local(n, cell.b, i + t, j));
    v.push(ref_unproj_local(n, cell.b, i + 1.0, j + t));
    v.push(ref_unproj_local(n, cell.b, i + 1.0 - t, j + 1.0));
    v.push(ref_unproj_local(n, cell.b, i, j + 1.0 - t));
  }
  v
}
fn cell_centre(c: &C) -> (f64, f64) {
  let depth = c.p.len() as u8;
  let n = (1u64 << depth) as f64;
  let cell = cell_of_hash(depth, hash_of_path(c.b as u64, &c.p));
  ref_unproj_local(n, cell.b, cell.i as f64 + 0.5, cell.j as f64 + 0.5)
}

/// one cone query, everything C05 / C06 / C16(b) say about it
pub fn cone_event(rng: &mut Rng, depth: u8, dd: u8, lon: f64, lat: f64, r: f64, class: &str) -> Option<Value> {
  crate::prime::cone(depth, dd, lon, lat, r);
  let res = guarded(|| if dd == 0 { nested::cone_coverage_approx(depth, lon, lat, r) } else { nested::cone_coverage_approx_custom(depth, dd, lon, lat, r) });
  // attribution fields (used only to match known findings): centre on a polar-cap seam meridian; radius within 3 %
  // below a starting-depth threshold
  let k = (lon / HALF_PI).round();
  let cseam = ((lon - k * HALF_PI).abs() < 1e-12 && lat.abs() > 0.7297276562269663) as u8;
  let nearthr = thresholds().iter().any(|t| r < *t && r >= 0.97 * *t) as u8;
  let tl = 0.7297276562269663;
  let ccap = (lat.abs() > tl) as u8; // centre in a polar cap
  // within a few radii of one of the 8 points (k*pi/2, +-asin(2/3)) where three base cells meet
  let near3 = ((lat.abs() - tl).abs() <= 2.0 * r && (lon - k * HALF_PI).abs() <= 8.0 * r) as u8;
  let base = json!({"ev": "cone", "d": depth, "dd": dd, "cls": class, "allsky": (r >= PI) as u8, "cseam": cseam, "nearthr": nearthr, "ccap": ccap, "near3": near3,
                    "in": format!("{} r={:e}", pos_str(lon, lat), r)});
  let mut ev = base;
  let m = ev.as_object_mut().unwrap();
  let refcells = crate::refcmp::cone_cells(depth, dd, lon, lat, r);
  if res.is_none() { m.insert("sar".into(), json!(refcells.is_none() as u8)); m.insert("sar_miss".into(), json!(refcells.is_none() as u8)); m.insert("sar_full".into(), json!(refcells.is_none() as u8)); }
  match res {
    None => { m.insert("p".into(), json!(1)); m.insert("dmax".into(), json!(0)); m.insert("cells".into(), json!([])); m.insert("wit".into(), json!([]));
              m.insert("full_excess".into(), json!(0)); m.insert("slack".into(), json!(0)); m.insert("rtol".into(), json!(0)); m.insert("pen".into(), json!(0));
              m.insert("full_rel".into(), json!(0)); m.insert("r3".into(), json!((r * 1000.0) as i64)); m.insert("flat_same".into(), json!(-1)); }
    Some(bm) => {
      let large = class == "large";
      if bm.entries.len() > (if large { MAX_CELLS_LARGE } else { MAX_CELLS }) { return None; }
      let cells = cells_of(&bm);
      let wit = if r >= PI { vec![] } else { cone_witnesses_for(rng, depth, lon, lat, r, if large { 40 } else { 120 }, &cells) };
      // full cells must lie entirely in the cone: worst excess over vertices and edge points
      let mut full_excess: f64 = -1.0;
      // attribution only: the excess relative to the size of the offending cell, in 1/1000 of 1/nside
      let mut full_rel: f64 = 0.0;
      for c in cells.iter().filter(|c| c.f).take(if large { 100_000 } else { 150 }) {
        for (l, b) in cell_border_points(c, if large { 3 } else { 7 }) {
          let ex = ang_dist(l, b, lon, lat) - r;
          full_excess = full_excess.max(ex);
          full_rel = full_rel.max(ex * (1u64 << c.p.len()) as f64 * 1000.0);
        }
      }
      m.insert("full_rel".into(), json!(full_rel.min(1e9).round() as i64));
      m.insert("r3".into(), json!((r * 1000.0) as i64));
      // beyond the listed properties (X00): the flat variant returns the flat view of the same coverage (-1: not evaluated)
      let flat_same: i64 = if dd == 0 && bm.deep_size() <= 200_000 {
        guarded(|| nested::cone_coverage_approx_flat(depth, lon, lat, r)).map_or(0, |f| (f.iter().cloned().collect::<Vec<u64>>() == bm.flat_iter().collect::<Vec<u64>>()) as i64)
      } else { -1 };
      m.insert("flat_same".into(), json!(flat_same));
      // tightness: centre within r + 2 * Dmax(depth of the cell)
      let mut slack: f64 = -1.0;
      for c in cells.iter() {
        let (l, b) = cell_centre(c);
        slack = slack.max(ang_dist(l, b, lon, lat) - (r + 2.0 * dmax(c.p.len() as u8)));
      }
      // C16: at the best starting depth the cone fits in the centre cell and its neighbours: every witness of that
      // depth must be the centre cell or adjacent to it (judged by the specification's adjacency)
      m.insert("p".into(), json!(0)); m.insert("dmax".into(), json!(bm.get_depth_max())); m.insert("cells".into(), cells_json(&cells));
      m.insert("wit".into(), Value::Array(wit.iter().map(|c| json!({"b": c.b, "p": c.p})).collect()));
      // attribution only (the verdict on coverage is TLC's): how deep the cone penetrates the uncovered witness cells,
      // in 1/1000 of the radius (0 when every witness is covered)
      let covered = |w: &C| cells.iter().any(|c| c.b == w.b && c.p.len() <= w.p.len() && c.p[..] == w.p[..c.p.len()]);
      let mut pen: f64 = 0.0;
      for w in wit.iter().filter(|w| !covered(w)) {
        let dmin = cell_border_points(w, 15).iter().map(|(l, b)| ang_dist(*l, *b, lon, lat)).fold(f64::MAX, f64::min);
        pen = pen.max((r - dmin) / r);
      }
      m.insert("pen".into(), json!((pen * 1000.0).round() as i64));
      m.insert("full_excess".into(), json!(if r >= PI { -1 } else { e15(full_excess) }));
      m.insert("slack".into(), json!(if r >= PI { -1 } else { e15(slack) }));
      // attribution to open findings: not worse than the reference copy of the crate on the three metric clauses
      // (per clause: a finding about misses must not stop being recognised because the changed tree returns MORE cells than the
      // reference - that is tightness, judged by its own clause - and conversely)
      let mut nw_miss = true;
      let mut nw_full = true;
      let nw = match &refcells {
        None => true,
        Some(rc) => {
          let miss_nw = wit.iter().all(|w| covered(w) || !crate::refcmp::covers(rc, w));
          nw_miss = miss_nw;
          let mut fx_ref: f64 = -1.0;
          for c in rc.iter().filter(|c| c.f).take(if large { 100_000 } else { 150 }) { for (l, b) in cell_border_points(c, if large { 3 } else { 7 }) { fx_ref = fx_ref.max(ang_dist(l, b, lon, lat) - r); } }
          let mut sl_ref: f64 = -1.0;
          for c in rc.iter() { let (l, b) = cell_centre(c); sl_ref = sl_ref.max(ang_dist(l, b, lon, lat) - (r + 2.0 * dmax(c.p.len() as u8))); }
          nw_full = full_excess <= fx_ref.max(1e-12 + 1e-9 * r) + 1e-15;
          miss_nw && nw_full && slack <= sl_ref.max(0.0) + 1e-15
        }
      };
      m.insert("sar".into(), json!(nw as u8));
      m.insert("sar_miss".into(), json!(nw_miss as u8));
      m.insert("sar_full".into(), json!(nw_full as u8));
      m.insert("rtol".into(), json!((r * 1e6).round() as i64)); // 1e-9 * r in units of 1e-15
    }
  }
  Some(ev)
}

pub fn thresholds() -> &'static Vec<f64> {
  use std::sync::OnceLock;
  static T: OnceLock<Vec<f64>> = OnceLock::new();
  T.get_or_init(depth_thresholds)
}
/// radii at which best_starting_depth changes (bisection of the public function; input selection only)
pub fn depth_thresholds() -> Vec<f64> {
  let mut v = Vec::new();
  for d in 0..29u8 {
    // smallest radius for which the best starting depth is <= d
    let (mut lo, mut hi) = (1e-10f64, 1.2f64);
    if !cdshealpix::has_best_starting_depth(hi) { hi = 0.8; }
    for _ in 0..200 {
      let mid = 0.5 * (lo + hi);
      if cdshealpix::has_best_starting_depth(mid) && cdshealpix::best_starting_depth(mid) > d { lo = mid; } else { hi = mid; }
    }
    v.push(hi);
  }
  v
}

pub fn gen_radius(rng: &mut Rng, thr: &[f64]) -> (f64, &'static str) {
  match rng.below(10) {
    0 | 1 | 2 => { let t = *rng.pick(thr); (t * *rng.pick(&[0.97, 1.0 - 1e-9, 1.0 + 1e-9, 1.03]), "threshold") }
    3 => (*rng.pick(&[1e-9, HALF_PI - 1e-9, HALF_PI + 1e-9, 2.2689280275926285, PI - 1e-9, PI, PI + 1.0, 2.7, 3.0]), "special"),
    _ => (10f64.powf(rng.range(-8.0, 0.45)).min(3.1), "log-uniform"),
  }
}
/// a target depth such that the cone spans at most a few hundred cells
pub fn gen_depth(rng: &mut Rng, r: f64) -> u8 {
  let mut dmax_ok = 0u8;
  for d in 0..=29u8 { if (r.min(PI) / cell_size(d)).powi(2) * 3.2 <= 60.0 { dmax_ok = d; } }
  let lo = dmax_ok.saturating_sub(3);
  lo + rng.below((dmax_ok - lo + 1) as u64) as u8
}

pub fn record_cone(rng: &mut Rng, count: u64, out: &mut Out) {
  let thr = thresholds().clone();
  while out.n < count {
    let (lon, lat, class) = if rng.below(3) == 0 { crate::sc_nested::gen_border_position(rng) } else { gen_position(rng) };
    let lon = lon.rem_euclid(TWO_PI);
    let (r, rclass) = gen_radius(rng, &thr);
    let depth = gen_depth(rng, r);
    let dd = if rng.below(3) == 0 { (1 + rng.below(3) as u8).min(29 - depth) } else { 0 };
    // class "corner": a cone smaller than a cell, just on the equatorial side of the transition latitude and within a few
    // radii of a meridian k*pi/2, i.e. next to one of the 8 points where three base cells meet and where the elongated
    // corner cells of the polar cap base cells are only touched by their tip
    let corner = rng.below(6) == 0;
    let (lon, lat, r, depth, dd, class) = if corner {
      let depth = rng.below(30) as u8;
      let r = cell_size(depth) * rng.range(0.1, 0.45);
      let sgn = if rng.bool() { 1.0 } else { -1.0 };
      let lat = sgn * (0.7297276562269663 - r * rng.range(0.0, 1.2));
      let lon = (rng.below(4) as f64 * HALF_PI + r * rng.range(-6.0, 6.0)).rem_euclid(TWO_PI);
      (lon, lat, r, depth, 0u8, "corner")
    } else { (lon, lat, r, depth, dd, class) };
    // class "cellcentre": a cone centred bit for bit on the centre of a cell as the crate computes it, smaller or larger than the cell
    let (lon, lat, r, depth, dd, class) = if !corner && rng.below(8) == 0 {
      let depth = rng.below(30) as u8;
      let n = 1u64 << depth;
      let c = if rng.bool() { crate::sc_nested::special_cells(rng, depth) } else { Cell { b: rng.below(12) as u8, i: rng.below(n) as u32, j: rng.below(n) as u32 } };
      let (lo, la) = nested::get_or_create(depth).center(hash_of_cell(depth, c));
      (lo, la, (cell_size(depth) * rng.range(0.02, 3.0)).min(3.0), depth, if rng.below(4) == 0 { (1 + rng.below(2) as u8).min(29 - depth) } else { 0 }, "cellcentre")
    } else { (lon, lat, r, depth, dd, class) };
    // class "cap-small": the small-cone branch (radius below the starting-depth threshold of the requested depth) at shallow
    // depths, centred in a polar cap: the cells are large, strongly sheared next to the seams, and the cone is wide in longitude
    let (lon, lat, r, depth, dd, class) = if class != "corner" && class != "cellcentre" && rng.below(8) == 0 {
      // (half of them at depths 1 and 2, where the radius of the small-cone branch is a sizeable fraction of a base cell)
      let depth = if rng.bool() { 1 + rng.below(2) as u8 } else { rng.below(6) as u8 };
      // thr[d] is the radius at which the starting depth becomes <= d, i.e. the table entry of depth d + 1: the small-cone branch
      // of depth d is taken below the entry of depth d itself (0.841 at depth 0)
      let r = (if depth == 0 { 0.8410686705685088 } else { thr[depth as usize - 1] }) * rng.range(0.25, 0.999);
      let sgn = if rng.bool() { 1.0 } else { -1.0 };
      (rng.range(0.0, TWO_PI), sgn * rng.range(0.73, 1.5), r, depth, if rng.below(4) == 0 { 1 } else { 0 }, "cap-small")
    } else { (lon, lat, r, depth, dd, class) };
    if let Some(ev) = cone_event(rng, depth, dd, lon, lat, r, if class == "uniform" { rclass } else { class }) { out.emit(ev); }
  }
}

/// large cones at moderate depths (hundreds to thousands of cells): the full flags far from the centre, packing of long results
pub fn record_cone_large(rng: &mut Rng, count: u64, out: &mut Out) {
  let mut guard = 0;
  while out.n < count && guard < 50 * count {
    guard += 1;
    let tl = 0.7297276562269663;
    let (lon, lat) = match rng.below(5) {
      // on / around the meridian through the middle of a polar cap base cell, at high latitude
      0 | 1 => ((PI / 4.0 + HALF_PI * rng.below(4) as f64 + rng.range(-0.3, 0.3) * rng.f64()).rem_euclid(TWO_PI), (if rng.bool() { 1.0 } else { -1.0 }) * rng.range(0.75, 1.55)),
      // around the north corner of the highest-numbered base cell a cone may overlap: pole, (270 deg, transition), (315 deg, 0)
      2 => { let (l, b) = *rng.pick(&[(0.3, HALF_PI), (1.5 * PI, tl), (1.75 * PI, 0.0)]); let (l2, b2) = offset_point(l, b.min(HALF_PI - 1e-9), rng.range(0.0, 0.2), rng.range(0.0, TWO_PI)); (l2.rem_euclid(TWO_PI), b2) }
      _ => (rng.range(0.0, TWO_PI), rng.range(-1.0, 1.0f64).asin()),
    };
    let capdiag = lat.abs() > 1.0 && rng.below(4) != 0;
    let r = if capdiag { rng.range(0.1, 0.6) } else { 10f64.powf(rng.range(-1.3, 0.2)) };
    let mut depth = if capdiag { 6 + rng.below(2) as u8 } else { 3 + rng.below(5) as u8 };
    // class "circumscribed": the cone is centred on the centre of a cell of depth k and just contains it (radius 1 .. 10 %
    // above the distance to its farthest vertex), queried 3 .. 5 levels deeper: the sibling merges of the packing must
    // cascade from the requested depth up to the depth of that cell (or one above, when its siblings are full too)
    let (lon, lat, r, mut depth) = if rng.below(4) == 0 {
      let k = rng.below(5) as u8;
      let n = 1u64 << k;
      let c = if rng.bool() { Cell { b: 4 + rng.below(4) as u8, i: rng.below(n) as u32, j: rng.below(n) as u32 } } else { Cell { b: rng.below(12) as u8, i: rng.below(n) as u32, j: rng.below(n) as u32 } };
      let (cl, cb) = ref_unproj_local(n as f64, c.b, c.i as f64 + 0.5, c.j as f64 + 0.5);
      (cl.rem_euclid(TWO_PI), cb, (true_c2v(k, c) * *rng.pick(&[1.01, 1.03, 1.06, 1.10, 1.3])).min(3.1), k + 3 + rng.below(3) as u8)
    } else if rng.below(2) == 0 {
      // class "vertex-touch": the cone barely reaches over a vertex V of a cell of a coarse depth k (by 0.3 .. 3 cells of the
      // requested depth, k + 3 .. k + 4): up to three coarse cells are only touched at that corner, and the descent must keep them
      let k = rng.below(6) as u8;
      let n = 1u64 << k;
      // the vertex is drawn in one of the three latitude regimes of the cell shapes (polar caps, |lat| between the latitude of
      // the square cells 0.3997 and the transition latitude, lower equatorial region), each with the same weight
      let regime = rng.below(3);
      let (mut vl, mut vb) = (0.0, 0.0);
      for _ in 0..40 {
        let c = if rng.below(4) == 0 { crate::sc_nested::special_cells(rng, k) } else { Cell { b: rng.below(12) as u8, i: rng.below(n) as u32, j: rng.below(n) as u32 } };
        let (da, dc) = *rng.pick(&[(0.0, 0.0), (1.0, 0.0), (0.0, 1.0), (1.0, 1.0)]);
        let v = ref_unproj_local(n as f64, c.b, c.i as f64 + da, c.j as f64 + dc);
        vl = v.0; vb = v.1;
        let a = vb.abs();
        if (regime == 0 && a > 0.7297276562269663) || (regime == 1 && a > 0.3997 && a <= 0.7297276562269663) || (regime == 2 && a <= 0.3997) { break; }
      }
      let dreq = k + 3 + rng.below(2) as u8;
      let r = cell_size(k) * rng.range(0.25, 1.0);
      let pen = cell_size(dreq) * 10f64.powf(rng.range(-1.3, 0.5));
      // two thirds of the time the centre is (almost) due north or south of V: V is then the extreme-latitude point of the cone,
      // which passes the iso-latitude ring of vertices through V by `pen` only
      let az = if rng.below(3) != 0 { (if rng.bool() { 0.0 } else { PI }) + rng.range(-0.25, 0.25) } else { rng.range(0.0, TWO_PI) };
      let (cl, cb) = offset_point(vl, vb.max(-HALF_PI + 1e-6).min(HALF_PI - 1e-6), (r - pen).max(0.1 * r), az);
      (cl.rem_euclid(TWO_PI), cb, r, dreq)
    } else { (lon, lat, r, depth) };
    // keep the result below the size given to TLC
    loop {
      let ddl = if rng.below(5) == 0 { 1u8.min(29 - depth) } else { 0 };
      match cone_event(rng, depth, ddl, lon, lat, r, "large") {
        Some(ev) => { out.emit(ev); break; }
        None => { if depth <= 2 { break; } depth -= 1; }
      }
    }
  }
}

/// G direction: TLC-generated centre faces (cells, edges, nodes of small depths incl. seams and poles) x radius classes
pub fn replay_cone(line: &Value, out: &mut Out, stats: &mut crate::sc_nested::ReplayStats, rng: &mut Rng) {
  let fd = line["d"].as_u64().unwrap() as u8;
  let f = Face::from_json(&line["f"]);
  let (lon, lat) = face_point(1u32 << fd, f, 0.5, 0.5);
  let thr = thresholds().clone();
  for k in 0..3 {
    let (r, _) = if k == 0 { (*rng.pick(&thr) * *rng.pick(&[1.0 - 1e-9, 1.0 + 1e-9]), "t") } else { gen_radius(rng, &thr) };
    let depth = gen_depth(rng, r);
    let dd = if k == 2 { (1 + rng.below(2) as u8).min(29 - depth) } else { 0 };
    stats.calls += 1;
    if let Some(ev) = cone_event(rng, depth, dd, lon, lat, r, "generated") { out.emit(ev); }
  }
}

// ------------------------------------------------------------------------------------------ C16
/// (a) G direction: an order class of the radius relative to the table actually used by the crate (read through the
/// cfg-guarded accessor); the expected depth comes from the specification's definition
pub fn replay_lookup(line: &Value, out: &mut Out, stats: &mut crate::sc_nested::ReplayStats) {
  let t = |d: i64| cdshealpix::verif_smaller_edge2opedge_dist(d as u8);
  let expected = line["expected"].as_i64().unwrap();
  let (eq, above, below) = (line["eq"].as_i64().unwrap(), line["above"].as_i64().unwrap(), line["below"].as_i64().unwrap());
  let radii: Vec<f64> = if eq >= 0 { vec![t(eq)] }
    else if above >= 1 { vec![next_up(t(above)), 0.5 * (t(above) + t(above - 1)), next_down(t(above - 1)), t(above) * 1.001, t(above - 1) * 0.999] }
    else if below == 1 { vec![next_down(t(29)), 0.5 * t(29), 0.0, -0.0, f64::from_bits(1), 1e-300] } // -0.0 is a radius of zero
    else { vec![] };
  for r in radii {
    stats.calls += 1;
    let has = guarded(|| cdshealpix::has_best_starting_depth(r));
    let got = guarded(|| cdshealpix::best_starting_depth(r));
    if has != Some(true) || got != Some(expected as u8) {
      stats.bad += 1;
      out.emit(json!({"verdict": "mismatch", "ev": "best_starting_depth", "r": format!("{:e}", r), "expected": expected, "got": got, "has": has, "class": line["cls"]}));
    }
  }
  // above the depth-0 limit: refused, as has_best_starting_depth announces (checked once, on the first class)
  if line["cls"].as_i64().unwrap() == -1 {
    for r in [t(0), next_up(t(0)), 1.0, 3.2].iter() {
      stats.calls += 1;
      let has = guarded(|| cdshealpix::has_best_starting_depth(*r));
      let got = guarded(|| cdshealpix::best_starting_depth(*r));
      if has != Some(false) || got.is_some() {
        stats.bad += 1;
        out.emit(json!({"verdict": "mismatch", "ev": "best_starting_depth_refusal", "r": format!("{:e}", r), "got": got, "has": has}));
      }
    }
    // the table must be strictly decreasing (the specification's only assumption on it)
    for d in 1..30 { if !(t(d) < t(d - 1)) { stats.bad += 1; out.emit(json!({"verdict": "mismatch", "ev": "table_not_decreasing", "d": d})); } }
  }
}

/// true largest centre-to-vertex distance of a cell (exact vertex coordinates through the bridge)
fn true_c2v(depth: u8, c: Cell) -> f64 {
  let n = (1u64 << depth) as f64;
  let (cl, cb) = ref_unproj_local(n, c.b, c.i as f64 + 0.5, c.j as f64 + 0.5);
  let mut m: f64 = 0.0;
  for (da, dc) in [(0.0, 0.0), (1.0, 0.0), (0.0, 1.0), (1.0, 1.0)].iter() {
    let (vl, vb) = ref_unproj_local(n, c.b, c.i as f64 + da, c.j as f64 + dc);
    m = m.max(ang_dist(cl, cb, vl, vb));
  }
  m
}
/// deficit of a bound in units of 1e-6 of the true distance (<= 0: the bound holds)
fn deficit_ppm(truth: f64, bound: f64) -> i64 { (((truth - bound) / truth) * 1e6).round().max(-2e9).min(2e9) as i64 }

pub fn record_c16(rng: &mut Rng, count: u64, out: &mut Out) {
  let thr = thresholds().clone();
  while out.n < count {
    let depth = if rng.below(4) == 0 { 29 - rng.below(4) as u8 } else { rng.below(30) as u8 };
    let n = 1u32 << depth;
    match rng.below(3) {
      0 => {
        // (c1) largest_center_to_vertex_distance at the centre of a cell bounds the true distance of that cell
        let c = if rng.bool() { crate::sc_nested::special_cells(rng, depth) } else { Cell { b: rng.below(12) as u8, i: rng.below(n as u64) as u32, j: rng.below(n as u64) as u32 } };
        // any position of the cell: centre or random offset
        let (fa, fc) = if rng.bool() { (0.5, 0.5) } else { (rng.range(0.01, 0.99), rng.range(0.01, 0.99)) };
        let (lon, lat) = ref_unproj_local(n as f64, c.b, c.i as f64 + fa, c.j as f64 + fc);
        crate::prime::c2v(depth, lon, lat, 0.0);
        let b = guarded(|| cdshealpix::largest_center_to_vertex_distance(depth, lon, lat));
        // attribution fields: the cell straddles the transition latitude / lies in a polar cap
        let tl = 0.7297276562269663;
        let lats: Vec<f64> = [(0.0, 0.0), (1.0, 0.0), (0.0, 1.0), (1.0, 1.0)].iter().map(|(da, dc)| ref_unproj_local(n as f64, c.b, c.i as f64 + da, c.j as f64 + dc).1.abs()).collect();
        let (lmin, lmax) = (lats.iter().cloned().fold(f64::MAX, f64::min), lats.iter().cloned().fold(0.0, f64::max));
        let straddle = (lmin < tl + 1e-12 && lmax > tl - 1e-12) as u8;
        let capcell = (lmin >= tl - 1e-12) as u8;
        out.emit(json!({"ev": "c2v", "d": depth, "c": c.json(), "sar": crate::refcmp::c2v_nw(depth, lon, lat, b), "p": b.is_none() as u8, "deficit": b.map_or(0, |b| deficit_ppm(true_c2v(depth, c), b)),
                        "straddle": straddle, "capcell": capcell,
                        "polerow": if c.b < 4 { (2 * (n - 1) - (c.i + c.j)) as i64 } else if c.b >= 8 { (c.i + c.j) as i64 } else { -1 }, "in": pos_str(lon, lat)}));
      }
      1 => {
        // (c2) the _with_radius variants bound it for every cell whose centre lies within the radius of the position
        let (lon, lat, class) = gen_position(rng);
        let lon = lon.rem_euclid(TWO_PI);
        let r = match rng.below(3) { 0 => cell_size(depth) * rng.range(0.2, 6.0), 1 => rng.range(0.0, 0.5), _ => 10f64.powf(rng.range(-6.0, 0.3)) }.min(3.0);
        crate::prime::c2v(depth, lon, lat, r);
        let b1 = guarded(|| cdshealpix::largest_center_to_vertex_distance_with_radius(depth, lon, lat, r));
        let from = rng.below(depth as u64 + 1) as u8;
        crate::prime::c2v(depth, lon, lat, r);
        let arr = guarded(|| cdshealpix::largest_center_to_vertex_distances_with_radius(from, depth + 1, lon, lat, r));
        // cells whose centre is within r: sampled (the position's own cell, and cells of points in the disc)
        let mut worst1 = -2_000_000_000i64;
        let mut worst_arr = -2_000_000_000i64;
        let mut ncand = 0;
        for k in 0..40 {
          let (pl, pb) = if k == 0 { (lon, lat) } else { offset_point(lon, lat, r * rng.f64().sqrt(), rng.range(0.0, TWO_PI)) };
          for dd in from..=depth {
            let nn = 1u32 << dd;
            let f = face_of(nn, pl, pb);
            let c = Cell { b: f.b, i: (f.a2 / 2).min(nn - 1), j: (f.c2 / 2).min(nn - 1) };
            let (cl, cb) = ref_unproj_local(nn as f64, c.b, c.i as f64 + 0.5, c.j as f64 + 0.5);
            if ang_dist(cl, cb, lon, lat) > r * (1.0 - 1e-9) { continue; }
            ncand += 1;
            let truth = true_c2v(dd, c);
            if dd == depth { if let Some(b) = b1 { worst1 = worst1.max(deficit_ppm(truth, b)); } }
            if let Some(a) = &arr { if ((dd - from) as usize) < a.len() { worst_arr = worst_arr.max(deficit_ppm(truth, a[(dd - from) as usize])); } }
          }
        }
        let reg = if lat.abs() + r >= 0.7297276562269663 { "npc" } else { "eqr" };
        let ccap = (lat.abs() >= 0.7297276562269663) as u8;
        out.emit(json!({"ev": "c2v_radius", "d": depth, "from": from, "sar": crate::refcmp::c2v_radius_nw(depth, from, lon, lat, r, b1, &arr), "reg": reg, "ccap": ccap, "r3": (r * 1000.0) as i64, "p": (b1.is_none() || arr.is_none()) as u8, "ncand": ncand, "deficit": worst1, "deficit_arr": worst_arr,
                        "len_ok": arr.as_ref().map_or(0, |a| (a.len() == (depth + 1 - from) as usize) as u8), "cls": class, "in": format!("{} r={:e}", pos_str(lon, lat), r)}));
      }
      _ => {
        // (b) at depth = best_starting_depth(r) a cone of radius r fits in the cell of its centre plus its neighbours
        let t = *rng.pick(&thr);
        let r = match rng.below(4) { 0 => t * (1.0 - 1e-9), 1 => t * rng.range(0.5, 1.0), 2 => t * 0.97, _ => 10f64.powf(rng.range(-8.5, -0.1)) };
        if !cdshealpix::has_best_starting_depth(r) { continue; }
        let ds = cdshealpix::best_starting_depth(r);
        let (lon, lat, class) = if rng.below(3) == 0 { crate::sc_nested::gen_border_position(rng) } else { gen_position(rng) };
        let lon = lon.rem_euclid(TWO_PI);
        let h = guarded(|| nested::hash(ds, lon, lat));
        let wit = cone_witnesses(rng, ds, lon, lat, r, 60);
        let k = (lon / HALF_PI).round();
        let cseam = ((lon - k * HALF_PI).abs() < 1e-12 && lat.abs() > 0.7297276562269663) as u8;
        let nearthr = thr.iter().any(|t| r < *t && r >= 0.97 * *t) as u8;
        let ccap = (lat.abs() > 0.7297276562269663) as u8;
        let wj: Vec<Value> = wit.iter().map(|c| cell_of_hash(ds, hash_of_path(c.b as u64, &c.p)).json()).collect();
        out.emit(json!({"ev": "fits9", "d": ds, "sar": crate::refcmp::fits9(r, ds, lon, lat), "p": h.is_none() as u8, "c": h.map_or(json!([]), |h| crate::sc_nested::cell_json(ds, h)), "wit": wj,
                        "cseam": cseam, "nearthr": nearthr, "ccap": ccap, "cls": class, "in": format!("{} r={:e}", pos_str(lon, lat), r)}));
      }
    }
  }
}

// ------------------------------------------------------------------------------------------ C13
fn bmoc_fields(m: &mut serde_json::Map<String, Value>, res: &Option<cdshealpix::nested::bmoc::BMOC>) -> Option<Vec<C>> {
  match res {
    None => { m.insert("p".into(), json!(1)); m.insert("dmax".into(), json!(0)); m.insert("cells".into(), json!([])); None }
    Some(bm) => { let cells = cells_of(bm); m.insert("p".into(), json!(0)); m.insert("dmax".into(), json!(bm.get_depth_max())); m.insert("cells".into(), cells_json(&cells)); Some(cells) }
  }
}
fn worst_slack(cells: &[C], lon: f64, lat: f64, r: f64) -> i64 {
  let mut slack: f64 = -1.0;
  for c in cells { let (l, b) = cell_centre(c); slack = slack.max(ang_dist(l, b, lon, lat) - (r + 2.0 * dmax(c.p.len() as u8))); }
  e15(slack)
}

pub fn ellipse_event(rng: &mut Rng, depth: u8, dd: u8, lon: f64, lat: f64, a: f64, b: f64, pa: f64, class: &str) -> Option<Value> {
  crate::prime::ellipse(depth, dd, lon, lat, a, b, pa);
  let res = guarded(|| if dd == 0 { nested::elliptical_cone_coverage(depth, lon, lat, a, b, pa) } else { nested::elliptical_cone_coverage_custom(depth, dd, lon, lat, a, b, pa) });
  if res.as_ref().map_or(false, |bm| bm.entries.len() > MAX_CELLS) { return None; }
  let n = 1u32 << depth;
  let mut ev = json!({"ev": "ellipse", "d": depth, "dd": dd, "f": face_of(n, lon, lat).json(), "circular": (a == b) as u8, "cls": class,
                      "in": format!("{} a={:e} b={:e} pa={:e}", pos_str(lon, lat), a, b, pa)});
  let m = ev.as_object_mut().unwrap();
  let refcells = crate::refcmp::ellipse_cells(depth, dd, lon, lat, a, b, pa);
  let cells = bmoc_fields(m, &res);
  let wit = if a == b && res.is_some() { cone_witnesses_for(rng, depth, lon, lat, a, 80, cells.as_deref().unwrap_or(&[])) } else { vec![] };
  m.insert("wit".into(), Value::Array(wit.iter().map(|c| json!({"b": c.b, "p": c.p})).collect()));
  m.insert("slack".into(), json!(cells.as_ref().map_or(-1, |cs| worst_slack(cs, lon, lat, a))));
  // attribution to open findings: not worse than the reference copy (witnesses of the circular case, tightness, panic)
  let nw = match (&cells, &refcells) {
    (None, r) => r.is_none(),
    (Some(_), None) => true,
    (Some(cs), Some(rc)) => wit.iter().all(|w| crate::refcmp::covers(cs, w) || !crate::refcmp::covers(rc, w)) && worst_slack(cs, lon, lat, a) <= worst_slack(rc, lon, lat, a).max(0),
  };
  m.insert("sar".into(), json!(nw as u8));
  let nw_miss = match (&cells, &refcells) {
    (None, r) => r.is_none(),
    (Some(_), None) => true,
    (Some(cs), Some(rc)) => wit.iter().all(|w| crate::refcmp::covers(cs, w) || !crate::refcmp::covers(rc, w)),
  };
  m.insert("sar_miss".into(), json!(nw_miss as u8));
  // attribution only (see cone_event): centre in a polar cap, penetration of the uncovered witness cells
  let mut pen: f64 = 0.0;
  if let Some(cs) = &cells {
    let covered = |w: &C| cs.iter().any(|c| c.b == w.b && c.p.len() <= w.p.len() && c.p[..] == w.p[..c.p.len()]);
    for w in wit.iter().filter(|w| !covered(w)) {
      let dmin = cell_border_points(w, 15).iter().map(|(l, b)| ang_dist(*l, *b, lon, lat)).fold(f64::MAX, f64::min);
      pen = pen.max((a - dmin) / a);
    }
  }
  m.insert("pen".into(), json!((pen * 1000.0).round() as i64));
  m.insert("ccap".into(), json!((lat.abs() > 0.7297276562269663) as u8));
  m.insert("a9".into(), json!((a * 1e9).min(2e9) as i64)); // semi-major axis in units of 1e-9 rad
  m.insert("di".into(), json!(depth + dd));                 // depth at which the coverage is computed internally
  Some(ev)
}

pub fn record_c13(rng: &mut Rng, count: u64, out: &mut Out) {
  let thr = thresholds().clone();
  while out.n < count {
    if out.n % 30 == 29 {
      // a semi-major axis >= pi/2 is rejected by a panic
      let a = *rng.pick(&[HALF_PI, next_up(HALF_PI), 2.0, 3.0]);
      let depth = rng.below(6) as u8;
      // whatever the other arguments: semi-minor axis small, equal to the semi-major axis (a circle) or in between, any centre,
      // any position angle, through the free functions and the methods of the layer
      let b = *rng.pick(&[0.1, a, a, 0.5 * a, next_down(a)]);
      let (lon, lat) = if rng.bool() { (1.0, 0.5) } else { (rng.range(0.0, TWO_PI), rng.range(-1.0, 1.0f64).asin()) };
      let pa = *rng.pick(&[0.3, 0.0, HALF_PI]);
      let ddc = 1 + rng.below(2) as u8;
      let p1 = guarded(|| nested::elliptical_cone_coverage(depth, lon, lat, a, b, pa)).is_none()
        && guarded(|| nested::get_or_create(depth).elliptical_cone_coverage(lon, lat, a, b, pa)).is_none();
      let p2 = guarded(|| nested::elliptical_cone_coverage_custom(depth, ddc, lon, lat, a, b, pa)).is_none()
        && guarded(|| nested::get_or_create(depth).elliptical_cone_coverage_custom(ddc, lon, lat, a, b, pa)).is_none();
      out.emit(json!({"ev": "ellipse_bad", "pp": p1 as u8, "pc": p2 as u8, "in": format!("{} a={:e} b={:e} pa={:e} dd={}", pos_str(lon, lat), a, b, pa, ddc)}));
      continue;
    }
    let (lon, lat, class) = if rng.below(3) == 0 { crate::sc_nested::gen_border_position(rng) } else { gen_position(rng) };
    let lon = lon.rem_euclid(TWO_PI);
    let (a, _) = match rng.below(4) { 0 => (*rng.pick(&thr) * *rng.pick(&[0.97, 1.0 - 1e-9, 1.0 + 1e-9, 1.03]), "t"), 1 => (next_down(HALF_PI) * rng.range(0.5, 1.0), "large"), _ => (10f64.powf(rng.range(-7.0, 0.15)), "log") };
    let a = a.min(next_down(HALF_PI));
    let ratio = *rng.pick(&[1.0, 1.0, 0.9, 0.5, 0.1, 0.01]);
    let b = a * ratio;
    let rpa = rng.range(0.0, PI);
    let pa = *rng.pick(&[0.0, PI / 4.0, HALF_PI, 3.0 * PI / 4.0, PI - 1e-9, rpa]);
    let depth = gen_depth(rng, a);
    let dd = if rng.below(3) == 0 { (1 + rng.below(3) as u8).min(29 - depth) } else { 0 };
    // class "cellcentre": a thin ellipse, small with respect to the cell, centred bit for bit on the centre of a cell as the
    // crate computes it (degenerate case of the overlap tests: distance 0 between the ellipse centre and a candidate cell centre)
    let (lon, lat, a, b, depth, dd, class) = if rng.below(7) == 0 {
      let depth = rng.below(30) as u8;
      let n = 1u64 << depth;
      let c = if rng.bool() { crate::sc_nested::special_cells(rng, depth) } else { Cell { b: rng.below(12) as u8, i: rng.below(n) as u32, j: rng.below(n) as u32 } };
      let (lo, la) = nested::get_or_create(depth).center(hash_of_cell(depth, c));
      let a = (cell_size(depth) * rng.range(0.02, 2.5)).min(1.5);
      (lo, la, a, a * *rng.pick(&[0.3, 0.1, 0.01, 1.0]), depth, if rng.below(4) == 0 { (1 + rng.below(2) as u8).min(29 - depth) } else { 0 }, "cellcentre")
    } else { (lon, lat, a, b, depth, dd, class) };
    // class "cap-circular": a circular cone (a = b) centred in a polar cap, at shallow depths, from a tenth of a cell to 15 cells:
    // the circular case has a no-miss clause, and in the caps the cell-size bounds it relies on are the least generous
    let (lon, lat, a, b, depth, dd, class) = if class != "cellcentre" && rng.below(5) == 0 {
      let depth = 1 + rng.below(8) as u8;
      let a = cell_size(depth) * (if rng.bool() { rng.range(0.1, 0.9) } else { rng.range(0.9, 15.0) });
      let sgn = if rng.bool() { 1.0 } else { -1.0 };
      let lat = sgn * rng.range(0.7297276562269663, HALF_PI - 1e-6);
      (rng.range(0.0, TWO_PI), lat, a.min(1.5), a.min(1.5), depth, if rng.below(4) == 0 { 1 } else { 0 }, "cap-circular")
    } else { (lon, lat, a, b, depth, dd, class) };
    if let Some(ev) = ellipse_event(rng, depth, dd, lon, lat, a, b, pa, class) { out.emit(ev); }
  }
}

// ------------------------------------------------------------------------------------------ C12
fn cross(a: [f64; 3], b: [f64; 3]) -> [f64; 3] { [a[1] * b[2] - a[2] * b[1], a[2] * b[0] - a[0] * b[2], a[0] * b[1] - a[1] * b[0]] }
fn dot(a: [f64; 3], b: [f64; 3]) -> f64 { a[0] * b[0] + a[1] * b[1] + a[2] * b[2] }
/// geometric definition for a convex polygon: on the same side of every edge's great circle as the polygon's interior
/// point `c`; None when within `margin` of an edge's great circle
fn inside_convex(vs: &[(f64, f64)], c: (f64, f64), p: (f64, f64), margin: f64) -> Option<bool> {
  let pv = vec3(p.0, p.1);
  let cv = vec3(c.0, c.1);
  let mut inside = true;
  for k in 0..vs.len() {
    let (a, b) = (vec3(vs[k].0, vs[k].1), vec3(vs[(k + 1) % vs.len()].0, vs[(k + 1) % vs.len()].1));
    let nrm = cross(a, b);
    let nn = dot(nrm, nrm).sqrt();
    let (sp, sc) = (dot(nrm, pv) / nn, dot(nrm, cv) / nn);
    // the normal of a short edge is itself only known to ~4e-16 / (length of the edge): for edges below a micro-radian the
    // rounding distance of the edge's great circle grows accordingly (it reaches the size of the polygon for edges of ~1e-8 rad,
    // where neither this oracle nor any f64 cross-product test can tell the sides apart)
    let margin = margin.max(4e-15 / nn);
    if sp.abs() <= margin || sc.abs() <= margin { return None; }
    if (sp > 0.0) != (sc > 0.0) { inside = false; }
  }
  Some(inside)
}

pub fn polygon_event(rng: &mut Rng, depth: u8, exact: bool, centre: (f64, f64), radius: f64, vs: &[(f64, f64)], convex: bool, class: &str) -> Option<Value> {
  crate::prime::polygon(depth, exact, vs, radius);
  let res = guarded(|| nested::polygon_coverage(depth, vs, exact));
  let pmsg = if res.is_none() { last_panic() } else { String::new() };
  if res.as_ref().map_or(false, |bm| bm.entries.len() > MAX_CELLS) { return None; }
  let n = 1u32 << depth;
  let mut ev = json!({"ev": "polygon", "d": depth, "exact": exact as u8, "convex": convex as u8, "nv": vs.len(), "cls": class,
                      "vf": vs.iter().map(|(l, b)| face_of(n, l.rem_euclid(TWO_PI), *b).json()).collect::<Vec<_>>(),
                      "in": format!("{} r={:e} {:?}", pos_str(centre.0, centre.1), radius, vs)});
  let m = ev.as_object_mut().unwrap();
  let refcells = crate::refcmp::polygon_cells(depth, vs, exact);
  let cells = bmoc_fields(m, &res);
  // attribution to open findings: the same set of cells as the reference copy (whatever the flags), the same panic status
  let keyset = |cs: &Vec<C>| cs.iter().map(|c| (c.b, c.p.clone())).collect::<std::collections::BTreeSet<_>>();
  m.insert("sar".into(), json!((cells.as_ref().map(keyset) == refcells.as_ref().map(keyset)) as u8));
  // convex polygons: a cell flagged full has its 4 vertices and its centre inside (margin 1e-9 around the edges)
  let mut full_bad = 0;
  if let (true, Some(cs)) = (convex, &cells) {
    for c in cs.iter().filter(|c| c.f).take(120) {
      let mut pts = cell_border_points(c, 0);
      pts.push(cell_centre(c));
      if pts.iter().any(|p| inside_convex(vs, centre, *p, 1e-9) == Some(false)) { full_bad += 1; }
    }
  }
  m.insert("full_bad".into(), json!(full_bad));
  // tightness with respect to the cone the polygon was built in (only claimed below 0.3 rad)
  m.insert("slack".into(), json!(if radius < 0.3 { cells.as_ref().map_or(-1, |cs| worst_slack(cs, centre.0, centre.1, radius)) } else { -1 }));
  m.insert("r9".into(), json!((radius * 1e9).min(2e9) as i64)); // radius of the reference cone in units of 1e-9 rad (attribution of findings only)
  // the public point-in-polygon predicate agrees with the geometric definition (convex, fits in 0.3 rad)
  let mut contains_bad = 0;
  let mut contains_n = 0;
  if convex && radius < 0.3 {
    use cdshealpix::sph_geom::coo3d::{Coo3D, LonLat};
    use cdshealpix::sph_geom::Polygon;
    let poly = guarded(|| Polygon::new(vs.iter().map(|(l, b)| LonLat { lon: *l, lat: *b }).collect::<Vec<_>>().into_boxed_slice()));
    if let Some(poly) = poly {
      for k in 0..80 {
        let p = match k % 4 { 0 => offset_point(centre.0, centre.1, radius * rng.range(0.0, 1.6), rng.range(0.0, TWO_PI)),
                              1 => { let v = vs[rng.below(vs.len() as u64) as usize]; offset_point(v.0, v.1, radius * 0.05 * rng.f64(), rng.range(0.0, TWO_PI)) }
                              // bit for bit on the meridian (or the parallel) of a vertex: the degenerate case of a ray cast along a meridian
                              2 => { let v = vs[rng.below(vs.len() as u64) as usize];
                                     if rng.below(4) != 0 { (v.0, (v.1 + radius * rng.range(-1.6, 1.6)).max(-1.5).min(1.5)) } else { ((v.0 + radius * rng.range(-1.6, 1.6)).rem_euclid(TWO_PI), v.1) } }
                              _ => (rng.range(0.0, TWO_PI), rng.range(-1.0, 1.0f64).asin()) };
        if let Some(exp) = inside_convex(vs, centre, p, 1e-9) {
          contains_n += 1;
          let got = guarded(|| poly.contains(&Coo3D::from_sph_coo(p.0, p.1)));
          if got != Some(exp) { contains_bad += 1; }
        }
      }
    } else { contains_bad += 1; }
  }
  m.insert("contains_bad".into(), json!(contains_bad));
  m.insert("contains_n".into(), json!(contains_n));
  m.insert("pmsg".into(), json!(pmsg));
  // attribution only (known findings): the bounding cone as the crate documents it (mean direction of the vertices, largest
  // distance to a vertex), whether its centre is in a polar cap, whether its radius is just below an entry of the starting-depth
  // table, and whether every vertex cell at the starting depth is the centre cell or one of its neighbours
  {
    let p: Vec<(f64, f64, f64)> = vs.iter().map(|(lo, la)| (la.cos() * lo.cos(), la.cos() * lo.sin(), la.sin())).collect();
    let nn = p.len() as f64;
    let (mut x, mut y, mut z) = (0.0, 0.0, 0.0);
    for q in p.iter() { x += q.0; y += q.1; z += q.2; }
    let norm = ((x / nn).powi(2) + (y / nn).powi(2) + (z / nn).powi(2)).sqrt();
    let c = (x / nn / norm, y / nn / norm, z / nn / norm);
    let d2max = p.iter().map(|q| (c.0 - q.0).powi(2) + (c.1 - q.1).powi(2) + (c.2 - q.2).powi(2)).fold(0.0f64, f64::max);
    let br = 2.0 * (0.5 * d2max.sqrt()).asin();
    let (blon, blat) = (c.1.atan2(c.0).rem_euclid(TWO_PI), c.2.max(-1.0).min(1.0).asin());
    let bnear = thresholds().iter().any(|t| br < *t && br >= 0.97 * *t) as u8;
    let bcap = (blat.abs() > 0.7297276562269663) as u8;
    let fits9 = guarded(|| {
      if !cdshealpix::has_best_starting_depth(br) { return 1u8; }
      let ds = cdshealpix::best_starting_depth(br).min(depth);
      let root = nested::get_or_create(ds);
      let ne = root.neighbours(root.hash(blon, blat), true).values_vec();
      vs.iter().all(|(lo, la)| ne.contains(&root.hash(*lo, *la))) as u8
    }).unwrap_or(2);
    m.insert("bcap".into(), json!(bcap)); m.insert("bnear".into(), json!(bnear)); m.insert("fits9".into(), json!(fits9));
  }
  Some(ev)
}

/// azimuth (from the north, towards the east) of the great circle from point 1 to point 2, at point 1
fn bearing(lon1: f64, lat1: f64, lon2: f64, lat2: f64) -> f64 {
  let dl = lon2 - lon1;
  (dl.sin() * lat2.cos()).atan2(lat1.cos() * lat2.sin() - lat1.sin() * lat2.cos() * dl.cos())
}
/// a point with exact special coordinates, far enough from the poles for a polygon of the given radius
fn special_sphere_point(rng: &mut Rng, radius: f64) -> (f64, f64) {
  let lim = HALF_PI - 2.0 * radius - 0.12;
  let p = match rng.below(4) {
    0 => { let g = rng.range(-1.0, 1.0); (HALF_PI * rng.below(4) as f64, *rng.pick(&[0.0, 0.7297276562269663, -0.7297276562269663, g])) }
    1 => (HALF_PI * 0.5 * rng.below(8) as f64, if rng.bool() { 0.0 } else { rng.range(-1.0, 1.0) }),
    k => {
      let depth = rng.below(30) as u8;
      let n = 1u64 << depth;
      let c = if rng.bool() { crate::sc_nested::special_cells(rng, depth) } else { Cell { b: rng.below(12) as u8, i: rng.below(n) as u32, j: rng.below(n) as u32 } };
      let layer = nested::get_or_create(depth);
      let h = hash_of_cell(depth, c);
      if k == 2 { layer.vertices(h)[rng.below(4) as usize] } else { layer.center(h) }
    }
  };
  (p.0, p.1.max(-lim).min(lim))
}

pub fn record_c12(rng: &mut Rng, count: u64, out: &mut Out) {
  while out.n < count {
    // centre anywhere short of the poles, incl. lon = 0 crossing and base-cell seams
    let (lon, lat, class) = match rng.below(4) { 0 => (rng.range(-0.05, 0.05f64).rem_euclid(TWO_PI), rng.range(-1.0, 1.0), "lon0"), 1 => crate::sc_nested::gen_border_position(rng), _ => gen_position(rng) };
    // (one polygon in ten spans only a few cells of the deepest depths, 1.5e-9 .. 1e-7 rad: chords and cosines of such sizes are at
    // the limit of what f64 resolves)
    let radius = match rng.below(10) { 0 | 1 => rng.range(0.3, 0.78), 2 | 3 => rng.range(0.05, 0.29), 4 => 10f64.powf(rng.range(-8.8, -7.0)), _ => 10f64.powf(rng.range(-7.0, -0.55)) };
    let lat = lat.max(-(HALF_PI - radius - 0.12)).min(HALF_PI - radius - 0.12);
    let lon = lon.rem_euclid(TWO_PI);
    let nv = 3 + rng.below(6) as usize;
    let convex = rng.below(3) != 0;
    let a0 = rng.range(0.0, TWO_PI);
    let cw = rng.bool();
    let mut vs: Vec<(f64, f64)> = (0..nv).map(|k| {
      let az = a0 + TWO_PI * (k as f64 + if convex { 0.0 } else { rng.range(-0.3, 0.3) }) / nv as f64;
      let rho = radius * if convex { 1.0 } else { rng.range(0.35, 1.0) };
      offset_point(lon, lat, rho, az)
    }).collect();
    if cw { vs.reverse(); }
    // elongated kites / needles: a few vertices close together and one distant apex, listed at a random position
    // (in particular last), so that the vertices are very unevenly spread around their mean direction
    let kite = rng.below(6) == 0;
    if kite {
      let az = rng.range(0.0, TWO_PI);
      let nb = 2 + rng.below(3) as usize;
      let spread = rng.range(0.15, 0.6);
      vs = (0..nb).map(|k| offset_point(lon, lat, radius * rng.range(0.05, 0.12), az + PI + spread * (k as f64 - (nb as f64 - 1.0) / 2.0))).collect();
      if rng.bool() { vs.reverse(); }
      let apex = offset_point(lon, lat, radius, az);
      let pos = if rng.bool() { vs.len() } else { rng.below(vs.len() as u64 + 1) as usize };
      vs.insert(pos, apex);
    }
    let mut convex = convex && !kite;
    let mut class = if kite { "kite" } else { class };
    let (mut lon, mut lat) = (lon, lat);
    // class "special-vertex": a regular polygon one vertex of which is BIT FOR BIT a special point of the sphere: on a meridian
    // k pi/4 (lon = 0.0 included: the polygon then straddles lon = 0), on the equator or the transition latitude, a vertex or the
    // centre of a HEALPix cell. class "meridian-kite": a diamond across such a meridian with two vertices exactly on it.
    match rng.below(8) {
      0 | 1 if radius < 0.7 => {
        let p = special_sphere_point(rng, radius);
        let az0 = rng.range(0.0, TWO_PI);
        let c = offset_point(p.0, p.1, radius, az0);
        let beta = bearing(c.0, c.1, p.0, p.1);
        let sgn = if rng.bool() { 1.0 } else { -1.0 };
        vs = (0..nv).map(|k| if k == 0 { p } else { offset_point(c.0, c.1, radius, beta + sgn * TWO_PI * k as f64 / nv as f64) }).collect();
        let rot = rng.below(nv as u64) as usize;
        vs.rotate_left(rot);
        lon = c.0.rem_euclid(TWO_PI); lat = c.1; convex = true; class = "special-vertex";
      }
      2 if radius < 0.7 => {
        let l0 = HALF_PI * 0.5 * rng.below(8) as f64;
        let (g1, g2) = (rng.range(-1.0, 1.0), rng.range(-1.0, 1.0));
        let phi = *rng.pick(&[0.0, 0.7297276562269663, -0.7297276562269663, g1, g2]);
        let phi = phi.max(-(HALF_PI - radius - 0.12)).min(HALF_PI - radius - 0.12);
        let (r1, r2, dl) = (radius * rng.range(0.3, 1.0), radius * rng.range(0.3, 1.0), radius * rng.range(0.2, 0.9) / phi.cos());
        vs = vec![(l0, phi + r1), ((l0 + dl).rem_euclid(TWO_PI), phi + radius * rng.range(-0.1, 0.1)), (l0, phi - r2), ((l0 - dl).rem_euclid(TWO_PI), phi + radius * rng.range(-0.1, 0.1))];
        if rng.bool() { vs.reverse(); }
        let rot = rng.below(4) as usize;
        vs.rotate_left(rot);
        lon = l0; lat = phi; convex = radius < 0.3; class = "meridian-kite";
      }
      // class "slope1": a triangle one edge of which is, in the HEALPix projection plane, tangent to the direction of the cell
      // edges (slope +-1 reached along the edge): the "special points" that distinguish the exact mode from the approximate
      // one. The edge starts half of the time from one of the 4 points (k pi/2, 0), whose unit vector has exact zeros
      // (degenerate branches of the intersection routines). Equatorial region: slope = (3 pi / 8) cos^2(lat) / tan(azimuth).
      3 | 6 if radius < 0.5 => {
        let a = if rng.bool() { (HALF_PI * rng.below(4) as f64, 0.0) } else { let p = special_sphere_point(rng, radius); (p.0, p.1.max(-0.6).min(0.6)) };
        let t = 3.0 * PI / 8.0 * a.1.cos().powi(2) / (1.0 + rng.range(-0.12, 0.12));
        let alpha = t.atan() * (if rng.bool() { 1.0 } else { -1.0 }) + if rng.bool() { PI } else { 0.0 };
        let len = radius * rng.range(0.5, 1.5);
        let b = offset_point(a.0, a.1, len, alpha);
        // a thin triangle (few cells even at depths where the cells are much smaller than the edge)
        let c3 = offset_point(a.0, a.1, len * rng.range(0.3, 1.0), alpha + rng.range(0.05, 0.5) * if rng.bool() { 1.0 } else { -1.0 });
        vs = vec![a, (b.0.rem_euclid(TWO_PI), b.1), (c3.0.rem_euclid(TWO_PI), c3.1)];
        if rng.bool() { vs.reverse(); }
        let rot = rng.below(3) as usize;
        vs.rotate_left(rot);
        // reference interior point: the mean direction of the three vertices
        let sum = vs.iter().map(|v| vec3(v.0, v.1)).fold([0.0; 3], |acc, v| [acc[0] + v[0], acc[1] + v[1], acc[2] + v[2]]);
        let m = lonlat_of_vec(sum);
        lon = m.0.rem_euclid(TWO_PI); lat = m.1; convex = true; class = "slope1";
      }
      // class "corner-poly": a polygon next to one of the 8 points (k pi/2, +-asin(2/3)) where three base cells meet, centred
      // slightly on the equatorial side, reaching into the elongated corner cells of the polar cap base cells
      4 => {
        let tl = 0.7297276562269663;
        let p3 = (HALF_PI * rng.below(4) as f64, if rng.bool() { tl } else { -tl });
        let c = offset_point(p3.0, p3.1, radius * rng.range(0.1, 1.1), (if p3.1 > 0.0 { PI } else { 0.0 }) + rng.range(-1.2, 1.2));
        let a1 = rng.range(0.0, TWO_PI);
        vs = (0..nv).map(|k| offset_point(c.0, c.1, radius, a1 + TWO_PI * k as f64 / nv as f64)).map(|(l, b)| (l.rem_euclid(TWO_PI), b)).collect();
        if rng.bool() { vs.reverse(); }
        lon = c.0.rem_euclid(TWO_PI); lat = c.1; convex = true; class = "corner-poly";
      }
      // class "transition-poly": a polygon hugging the transition latitude from the equatorial side (its centre below it by a
      // fraction of its radius, a few vertices inside the tips of the polar cap cells, which are longer than the equatorial
      // cells next to them), within a few cells of a base-cell seam half of the time; requested depth often much coarser than
      // the polygon
      5 => {
        let tl = 0.7297276562269663;
        let sgn = if rng.bool() { 1.0 } else { -1.0 };
        let clat = sgn * (tl - radius * rng.range(0.05, 0.95));
        let clon = if rng.bool() { (HALF_PI * rng.below(4) as f64 + rng.range(-3.0, 3.0) * radius.max(cell_size(gen_depth(rng, radius)))).rem_euclid(TWO_PI) } else { rng.range(0.0, TWO_PI) };
        let a1 = rng.range(0.0, TWO_PI);
        vs = (0..nv).map(|k| offset_point(clon, clat, radius, a1 + TWO_PI * k as f64 / nv as f64)).map(|(l, b)| (l.rem_euclid(TWO_PI), b)).collect();
        if rng.bool() { vs.reverse(); }
        lon = clon; lat = clat; convex = true; class = "transition-poly";
      }
      _ => {}
    }
    // a polygon coverage is hierarchical (full cells at coarser depths): up to two depths deeper than for a cone of the same size
    // (results above the traced size are skipped)
    let mut depth = (gen_depth(rng, radius) + rng.below(3) as u8).min(29);
    let mut exact = rng.bool();
    if class == "transition-poly" || class == "corner-poly" { depth = depth.saturating_sub(rng.below(6) as u8); }
    if class == "slope1" {
      // cells 6 to 24 times smaller than the polygon; mostly the exact mode (the special points only matter there)
      let size = vs.iter().map(|v| ang_dist(vs[0].0, vs[0].1, v.0, v.1)).fold(0.0, f64::max);
      let mut d = 0u8;
      while d < 29 && cell_size(d) > size / 6.0 { d += 1; }
      depth = (d + rng.below(3) as u8).min(29);
      exact = rng.below(4) != 0;
    }
    // the reference cone of the tightness clause must contain the polygon: measured for the constructed classes
    let radius = if class == "meridian-kite" || class == "special-vertex" || class == "slope1" || class == "corner-poly" || class == "transition-poly" { vs.iter().map(|v| ang_dist(lon, lat, v.0, v.1)).fold(radius, f64::max) * (1.0 + 1e-9) } else { radius };
    if let Some(ev) = polygon_event(rng, depth, exact, (lon, lat), radius, &vs, convex, class) { out.emit(ev); }
  }
}
