//! Behaviour of the public API that none of the listed properties names (DESIGN section 16): to_range, the size helpers
//! (nside, n_hash, nside_square, depth, is_depth, is_nside), the accessors of MainWindMap.  Same conventions as the other
//! scenarios: one event per call, judged by Trace_Geo.
use crate::geo::*;
use crate::sc_nested::{cell_json, mw, special_cells, WINDS};
use crate::util::*;
use cdshealpix::compass_point::MainWind;
use cdshealpix::nested;
use serde_json::{json, Value};

fn wind_name(w: &MainWind) -> &'static str {
  match w { MainWind::S => "S", MainWind::SE => "SE", MainWind::E => "E", MainWind::SW => "SW", MainWind::C => "C", MainWind::NE => "NE", MainWind::W => "W", MainWind::NW => "NW", MainWind::N => "N" }
}

pub fn record_extra(rng: &mut Rng, count: u64, out: &mut Out) {
  for k in 0..count {
    match k % 4 {
      0 => {
        // to_range(hash, delta_depth): the numbers of the descendants of the cell, delta_depth levels below
        let dd = rng.below(30) as u8;
        let depth = rng.below(30 - dd as u64) as u8;
        let n = 1u32 << depth;
        let c = if rng.bool() { special_cells(rng, depth) } else { Cell { b: rng.below(12) as u8, i: rng.below(n as u64) as u32, j: rng.below(n as u64) as u32 } };
        let h = hash_of_cell(depth, c);
        match guarded(|| nested::to_range(h, dd)) {
          Some(r) => out.emit(json!({"ev": "to_range", "d": depth, "dd": dd, "c": c.json(), "p": 0, "first": cell_json(depth + dd, r.start),
                                     "last": cell_json(depth + dd, r.end.wrapping_sub(1)), "len": big_digits(r.end.wrapping_sub(r.start))})),
          None => out.emit(json!({"ev": "to_range", "d": depth, "dd": dd, "c": c.json(), "p": 1, "first": [], "last": [], "len": [0]})),
        }
      }
      1 => {
        // size helpers on a valid depth
        let d = rng.below(30) as u8;
        let r = guarded(|| (cdshealpix::nside(d), cdshealpix::n_hash(d), nested::n_hash(d), cdshealpix::nside_square(d), cdshealpix::depth(cdshealpix::nside(d)),
                            cdshealpix::is_depth(d), cdshealpix::is_nside(cdshealpix::nside(d)), nested::get_or_create(d).n_hash(), nested::get_or_create(d).depth()));
        match r {
          Some((ns, nh, nh2, nsq, back, isd, isn, lnh, ld)) => out.emit(json!({"ev": "sizes", "d": d, "p": 0, "nside": ns, "nh": big_digits(nh), "same": (nh == nh2 && nh == lnh && ld == d) as u8,
                                                                      "nsq": big_digits(nsq), "back": back, "isd": isd as u8, "isn": isn as u8})),
          None => out.emit(json!({"ev": "sizes", "d": d, "p": 1, "nside": 0, "nh": [0], "same": 0, "nsq": [0], "back": 0, "isd": 0, "isn": 0})),
        }
      }
      2 => {
        // ... and on invalid arguments: depth > 29 is refused, is_nside recognises exactly the powers of two up to 2^29
        let d = 30 + rng.below(226) as u8;
        let ps = [guarded(|| cdshealpix::nside(d)).is_none(), guarded(|| cdshealpix::n_hash(d)).is_none(), guarded(|| cdshealpix::nside_square(d)).is_none(),
                  guarded(|| nested::n_hash(d)).is_none(), !cdshealpix::is_depth(d)];
        let e = rng.below(32) as u32;
        let ns: u32 = match rng.below(5) { 0 => 0, 1 => (1u32 << e).wrapping_add(1), 2 => (1u32 << e).wrapping_sub(1), 3 => 1u32 << e, _ => rng.below(1u64 << 32) as u32 };
        let isn = guarded(|| cdshealpix::is_nside(ns));
        let dp = guarded(|| cdshealpix::depth(ns));
        out.emit(json!({"ev": "sizes_bad", "d": d, "ps": ps.iter().map(|b| *b as u8).collect::<Vec<u8>>(), "ns": big_digits(ns as u64), "zero": (ns == 0) as u8,
                        "pow2": (ns != 0 && ns & (ns - 1) == 0 && ns <= (1 << 29)) as u8,
                        "log2": if ns != 0 { 31 - ns.leading_zeros() } else { 0 }, "isn": isn.map_or(-1, |b| b as i64), "dp": dp.map_or(-1, |x| x as i64)}));
      }
      _ => {
        // MainWindMap accessors on a neighbour map
        let depth = if k % 8 == 3 { 29 - rng.below(3) as u8 } else { rng.below(30) as u8 };
        let n = 1u32 << depth;
        let c = if rng.below(3) != 0 { special_cells(rng, depth) } else { Cell { b: rng.below(12) as u8, i: rng.below(n as u64) as u32, j: rng.below(n as u64) as u32 } };
        let h = hash_of_cell(depth, c);
        let with_c = rng.bool();
        let r = guarded(|| {
          let m = nested::get_or_create(depth).neighbours(h, with_c);
          let sv = m.sorted_values_vec();
          let sv2 = m.sorted_values().to_vec();
          let vv = m.values_vec();
          let name_rank = |n: &str| -> usize { ["S", "SE", "E", "SW", "C", "NE", "W", "NW", "N"].iter().position(|x| *x == n).unwrap() };
          let ev: Vec<(&'static str, u64)> = m.entries_vec().iter().map(|(w, v)| (wind_name(w), *v)).collect();
          let se: Vec<(&'static str, u64)> = m.sorted_entries_vec().iter().map(|(w, v)| (wind_name(w), *v)).collect();
          let eb: Vec<(&'static str, u64)> = m.entries().iter().map(|(w, v)| (wind_name(w), *v)).collect();
          let inc = sv.windows(2).all(|w| w[0] < w[1]);
          // entries() = entries_vec(); sorted_entries: the same pairs, in the order of the sorted values
          let mut ev_by_value = ev.clone(); ev_by_value.sort_by_key(|(_, v)| *v);
          let mut vv_sorted = vv.clone(); vv_sorted.sort_unstable();
          let _ = name_rank;
          let same = sv == sv2 && vv_sorted == sv && ev == eb && se == ev_by_value;
          let mut entries = serde_json::Map::new();
          for w in WINDS.iter() { entries.insert(w.to_string(), json!([])); }
          entries.insert("C".to_string(), json!([]));
          let mut dup = 0;
          for (w, v) in ev.iter() { if entries.insert(w.to_string(), cell_json(depth, *v)) != Some(json!([])) { dup += 1; } }
          // get() agrees with the entries
          let get_same = WINDS.iter().all(|w| m.get(mw(w)).map(|v| cell_json(depth, *v)).unwrap_or(json!([])) == entries[*w]);
          (sv.iter().map(|v| cell_json(depth, *v)).collect::<Vec<Value>>(), inc, same && get_same && dup == 0, Value::Object(entries))
        });
        match r {
          Some((sv, inc, same, entries)) => out.emit(json!({"ev": "wind_map", "d": depth, "c": c.json(), "with_c": with_c as u8, "p": 0, "sv": sv, "inc": inc as u8, "same": same as u8, "entries": entries})),
          None => out.emit(json!({"ev": "wind_map", "d": depth, "c": c.json(), "with_c": with_c as u8, "p": 1, "sv": [], "inc": 0, "same": 0, "entries": {}})),
        }
      }
    }
  }
}
