//! Scenarios for the NESTED scheme: C01 (hash), C02 (hierarchy), C04 (neighbours).
use crate::geo::*;
use crate::util::*;
use cdshealpix::compass_point::MainWind;
use cdshealpix::nested;
use serde_json::{json, Value};

pub const TRANSITION_LAT: f64 = 0.7297276562269663; // asin(2/3)
pub const WINDS: [&str; 8] = ["S", "SE", "E", "SW", "NE", "W", "NW", "N"];
/// MainWind is not Copy in the crate: build a fresh value each time
pub fn mw(name: &str) -> MainWind {
  match name { "S" => MainWind::S, "SE" => MainWind::SE, "E" => MainWind::E, "SW" => MainWind::SW, "C" => MainWind::C,
               "NE" => MainWind::NE, "W" => MainWind::W, "NW" => MainWind::NW, "N" => MainWind::N, _ => panic!("bad wind") }
}

pub fn n_hash(depth: u8) -> u64 { 12u64 << (2 * depth as u32) }

/// History follow-up: the cell having the SAME NUMBER as `h` at another depth (a result must not depend on the previous
/// call: this is the pair of calls that exposes a hidden cache keyed by the cell number only)
pub fn same_number_other_depth(rng: &mut Rng, depth: u8, h: u64) -> (u8, Cell) {
  let mut d2 = rng.below(30) as u8;
  if d2 == depth { d2 = (depth + 1) % 30; }
  // prefer a depth at which the number is a valid cell
  let mut tries = 0;
  while h >= n_hash(d2) && tries < 8 { d2 = d2 + (29 - d2 + 1) / 2; tries += 1; if d2 > 29 { d2 = 29; } }
  (d2, cell_of_hash(d2, h % n_hash(d2)))
}

/// a returned cell number as [b, i, j]; out-of-range numbers become [99, 0, 0]
pub fn cell_json(depth: u8, h: u64) -> Value {
  if h >= n_hash(depth) { json!([99, 0, 0]) } else { cell_of_hash(depth, h).json() }
}

/// a position generator mixing uniform and adversarial positions
pub fn gen_position(rng: &mut Rng) -> (f64, f64, &'static str) {
  let k = rng.below(100);
  if k < 45 {
    let z = rng.range(-1.0, 1.0);
    (rng.range(0.0, TWO_PI), z.asin(), "uniform")
  } else if k < 60 {
    let z = rng.range(-1.0, 1.0);
    (rng.range(-8.0 * PI, 8.0 * PI), z.asin(), "uniform-turns")
  } else if k < 70 {
    // near a pole
    let e = 10f64.powf(rng.range(-16.0, -1.0));
    let lat = if rng.bool() { HALF_PI - e } else { -HALF_PI + e };
    (rng.range(0.0, TWO_PI), lat, "near-pole")
  } else {
    // adversarial latitude and / or longitude
    let lat = match rng.below(8) {
      0 => nudge(TRANSITION_LAT, rng.below(5) as i32 - 2),
      1 => nudge(-TRANSITION_LAT, rng.below(5) as i32 - 2),
      2 => HALF_PI,
      3 => -HALF_PI,
      4 => nudge(HALF_PI, -(rng.below(3) as i32)),
      5 => if rng.bool() { 0.0 } else { -0.0 },
      6 => nudge(0.0, rng.below(5) as i32 - 2),
      _ => rng.range(-1.0, 1.0).asin(),
    };
    let lon = match rng.below(7) {
      0 => nudge(rng.below(9) as f64 * (PI / 4.0), rng.below(5) as i32 - 2),
      1 => if rng.bool() { 0.0 } else { -0.0 },
      2 => f64::from_bits(rng.below(1 << 20) + 1), // subnormal
      3 => nudge(TWO_PI, -(rng.below(3) as i32)),
      4 => nudge((rng.below(33) as f64 - 16.0) * (PI / 4.0), rng.below(5) as i32 - 2),
      5 => -rng.range(0.0, TWO_PI),
      _ => rng.range(0.0, TWO_PI),
    };
    (lon, lat, "adversarial")
  }
}

/// a position on (or an ulp away from) a cell border of some depth `db` (a border point of depth db is a
/// border point of every deeper depth), built from exact local coordinates
pub fn gen_border_position(rng: &mut Rng) -> (f64, f64, &'static str) {
  let db = rng.below(30) as u8;
  let n = 1u32 << db;
  let b = rng.below(12) as u8;
  let a2 = if rng.bool() { 2 * rng.below(n as u64 + 1) as u32 } else { rng.below(2 * n as u64 + 1) as u32 };
  let c2 = if rng.bool() { 2 * rng.below(n as u64 + 1) as u32 } else { rng.below(2 * n as u64 + 1) as u32 };
  // bias towards base-cell borders
  let (a2, c2) = match rng.below(6) { 0 => (0, c2), 1 => (2 * n, c2), 2 => (a2, 0), 3 => (a2, 2 * n), _ => (a2, c2) };
  let (lon, lat) = face_point(n, Face { b, a2, c2 }, rng.f64(), rng.f64());
  (nudge(lon, rng.below(5) as i32 - 2), nudge(lat, rng.below(5) as i32 - 2).max(-HALF_PI).min(HALF_PI), "border")
}

pub fn pos_str(lon: f64, lat: f64) -> String { format!("{:e} {:e} bits {:016x} {:016x}", lon, lat, lon.to_bits(), lat.to_bits()) }

fn any_position(rng: &mut Rng) -> (f64, f64, &'static str) {
  if rng.below(3) == 0 { gen_border_position(rng) } else { gen_position(rng) }
}

// ------------------------------------------------------------------------------------------ C01
pub fn hash_event(depth: u8, lon: f64, lat: f64, class: &str) -> Value {
  let n = 1u32 << depth;
  let f = face_of(n, lon, lat);
  crate::prime::hash(depth, lon, lat, false);
  let r = guarded(|| nested::hash(depth, lon, lat));
  json!({"ev": "hash", "d": depth, "f": f.json(), "fk": f.kind(), "p": if r.is_none() { 1 } else { 0 },
         "r": r.map_or(json!([]), |h| cell_json(depth, h)), "cls": class, "in": pos_str(lon, lat)})
}

pub fn record_c01(rng: &mut Rng, count: u64, out: &mut Out) {
  for k in 0..count {
    let depth = if k % 4 == 0 { 29 - rng.below(4) as u8 } else { rng.below(30) as u8 };
    if k % 50 == 49 {
      // latitude outside the domain must be rejected by a panic
      let lat = *rng.pick(&[nudge(HALF_PI, 1), nudge(-HALF_PI, -1), 2.0, -2.0, f64::NAN, f64::INFINITY, f64::NEG_INFINITY, 1.6, -1.5708]);
      let lon = rng.range(-1.0, 7.0);
      let r = guarded(|| nested::hash(depth, lon, lat));
      out.emit(json!({"ev": "hash_bad", "d": depth, "p": if r.is_none() { 1 } else { 0 }, "in": pos_str(lon, lat)}));
      continue;
    }
    let (lon, lat, class) = any_position(rng);
    out.emit(hash_event(depth, lon, lat, class));
  }
}

/// G direction: a TLC-generated face with its expected star; positions of the face (several inner offsets,
/// ulp nudges, whole turns) must hash into the star.
pub fn replay_c01(line: &Value, out: &mut Out, stats: &mut ReplayStats) {
  let depth = line["d"].as_u64().unwrap() as u8;
  let n = 1u32 << depth;
  let f = Face::from_json(&line["f"]);
  let star: Vec<Cell> = line["star"].as_array().unwrap().iter().map(Cell::from_json).collect();
  let fracs = [(0.5, 0.5), (0.25, 0.75), (0.999, 0.001), (0.001, 0.5)];
  let nfr = if f.kind() == "node" { 1 } else { fracs.len() };
  for (fa, fc) in fracs.iter().take(nfr) {
    // keep the inner offsets a safe distance from the borders at deep depths (bridge precision)
    let (fa, fc) = if depth > 20 { (0.25 + 0.5 * fa, 0.25 + 0.5 * fc) } else { (*fa, *fc) };
    let (lon0, lat0) = face_point(n, f, fa, fc);
    for turn in -4i32..=4 {
      for (ul, ub) in [(0, 0), (1, 0), (-1, 0), (0, 1), (0, -1), (2, 2), (-2, -2), (2, -2)].iter() {
        if turn != 0 && (*ul != 0 || *ub != 0) && depth > 3 { continue; }
        let lon = nudge(lon0 + TWO_PI * turn as f64, *ul);
        let lat = nudge(lat0, *ub).max(-HALF_PI).min(HALF_PI);
        stats.calls += 1;
        let r = guarded(|| nested::hash(depth, lon, lat));
        let ok = match r { Some(h) => h < n_hash(depth) && star.contains(&cell_of_hash(depth, h)), None => false };
        if !ok {
          stats.bad += 1;
          if stats.bad <= MAX_MISMATCH_LINES { out.emit(json!({"verdict": "mismatch", "ev": "hash", "d": depth, "f": f.json(), "star": line["star"], "turn": turn,
                          "p": if r.is_none() { 1 } else { 0 }, "r": r.map_or(json!([]), |h| cell_json(depth, h)), "in": pos_str(lon, lat)})); }
        }
      }
    }
  }
}

pub const MAX_MISMATCH_LINES: u64 = 2000;
#[derive(Default)]
pub struct ReplayStats { pub lines: u64, pub calls: u64, pub bad: u64 }

// ------------------------------------------------------------------------------------------ C02
pub fn record_c02(rng: &mut Rng, count: u64, out: &mut Out) {
  for k in 0..count {
    let (lon, lat, class) = any_position(rng);
    let mut cs = Vec::new();
    let mut panicked = 0;
    // the cell number of a position is also returned by hash_with_dxdy (an independent, projection based algorithm): one chain
    // in four is recorded through it
    let via_dxdy = k % 4 == 3;
    // one chain in three is interleaved with primer calls on related positions / depths (prime.rs): the cell numbers of ONE position
    // must be nested whatever was hashed in between
    let interleaved = k % 3 == 2;
    for depth in 0..=29u8 {
      if interleaved { crate::prime::hash(depth, lon, lat, true); }
      let r = if via_dxdy { guarded(|| nested::hash_with_dxdy(depth, lon, lat).0) } else { guarded(|| nested::hash(depth, lon, lat)) };
      match r {
        Some(h) if h < n_hash(depth) => cs.push(cell_json(depth, h)),
        Some(_) => cs.push(json!([98, 0, 0])),
        None => { panicked = 1; cs.push(json!([99, 0, 0])); }
      }
    }
    out.emit(json!({"ev": "hier", "cs": cs, "p": panicked, "cls": class, "fn": if via_dxdy { "hash_with_dxdy" } else { "hash" }, "in": pos_str(lon, lat)}));
  }
}

// ------------------------------------------------------------------------------------------ C04
pub fn neigh_event(depth: u8, c: Cell) -> Value {
  let h = hash_of_cell(depth, c);
  let layer = nested::get_or_create(depth);
  crate::prime::cell(depth, h);
  let m = guarded(|| layer.neighbours(h, false));
  let mc = guarded(|| layer.neighbours(h, true));
  let mut jm = serde_json::Map::new();
  let mut jc = serde_json::Map::new();
  let mut js = serde_json::Map::new();
  let mut p = 0;
  for name in WINDS.iter() {
    match &m { Some(m) => { jm.insert(name.to_string(), m.get(mw(name)).map_or(json!([]), |o| cell_json(depth, *o))); }, None => { p = 1; jm.insert(name.to_string(), json!([])); } }
    match &mc { Some(m) => { jc.insert(name.to_string(), m.get(mw(name)).map_or(json!([]), |o| cell_json(depth, *o))); }, None => { p = 1; jc.insert(name.to_string(), json!([])); } }
    match guarded(|| layer.neighbour(h, mw(name))) { Some(o) => { js.insert(name.to_string(), o.map_or(json!([]), |o| cell_json(depth, o))); }, None => { p = 1; js.insert(name.to_string(), json!([])); } }
  }
  let centre = mc.as_ref().and_then(|m| m.get(MainWind::C).map(|o| cell_json(depth, *o))).unwrap_or(json!([]));
  let centre_in_plain = m.as_ref().map_or(false, |m| m.get(MainWind::C).is_some());
  // free-function variant
  let free_same = guarded(|| nested::neighbours(depth, h, false)).map_or(false, |fm| {
    m.as_ref().map_or(false, |m| WINDS.iter().all(|w| fm.get(mw(w)) == m.get(mw(w))))
  });
  json!({"ev": "neigh", "d": depth, "c": c.json(), "p": p, "m": jm, "mc": jc, "s": js, "ctr": centre,
         "cplain": if centre_in_plain { 1 } else { 0 }, "free": if free_same { 1 } else { 0 }})
}

pub fn special_cells(rng: &mut Rng, depth: u8) -> Cell {
  let n = 1u32 << depth;
  let b = rng.below(12) as u8;
  let edge = |rng: &mut Rng| -> u32 {
    match rng.below(5) { 0 => 0, 1 => n - 1, 2 => 1.min(n - 1), 3 => n.saturating_sub(2), _ => rng.below(n as u64) as u32 }
  };
  Cell { b, i: edge(rng), j: edge(rng) }
}

pub fn record_c04(rng: &mut Rng, count: u64, out: &mut Out) {
  for k in 0..count {
    let depth = if k % 3 == 0 { 29 - rng.below(3) as u8 } else { rng.below(30) as u8 };
    if k % 40 == 39 {
      // out-of-range cell number must be rejected
      let h = bad_cell_number(rng, n_hash(depth), 1u64 << (2 * depth as u32));
      let layer = nested::get_or_create(depth);
      let r1 = guarded(|| layer.neighbours(h, false)).is_none();
      let r2 = guarded(|| layer.neighbour(h, MainWind::E)).is_none();
      out.emit(json!({"ev": "neigh_bad", "d": depth, "pn": r1 as u8, "p1": r2 as u8, "in": format!("{}", h)}));
      continue;
    }
    let n = 1u32 << depth;
    let c = if rng.bool() { special_cells(rng, depth) } else { Cell { b: rng.below(12) as u8, i: rng.below(n as u64) as u32, j: rng.below(n as u64) as u32 } };
    out.emit(neigh_event(depth, c));
    if k % 6 == 5 { let (d2, c2) = same_number_other_depth(rng, depth, hash_of_cell(depth, c)); out.emit(neigh_event(d2, c2)); }
  }
}

/// G direction: TLC-generated cell with its expected neighbour map
pub fn replay_c04(line: &Value, out: &mut Out, stats: &mut ReplayStats) {
  let depth = line["d"].as_u64().unwrap() as u8;
  let c = Cell::from_json(&line["c"]);
  let ev = neigh_event(depth, c);
  stats.calls += 3;
  let mut ok = ev["p"] == 0 && ev["ctr"] == c.json() && ev["cplain"] == 0 && ev["free"] == 1;
  for name in WINDS.iter() {
    let exp = &line["m"][*name];
    ok = ok && &ev["m"][*name] == exp && &ev["mc"][*name] == exp && &ev["s"][*name] == exp;
  }
  if !ok {
    stats.bad += 1;
    out.emit(json!({"verdict": "mismatch", "ev": "neigh", "d": depth, "c": c.json(), "expected": line["m"], "got": ev}));
  }
}

/// G direction: one entry of the base-cell tables of lib.rs / of the MainWind helpers, as the geometry defines it
pub fn replay_tables(line: &Value, out: &mut Out, stats: &mut ReplayStats) {
  fn wind_name(w: &MainWind) -> &'static str {
    match w { MainWind::S => "S", MainWind::SE => "SE", MainWind::E => "E", MainWind::SW => "SW", MainWind::C => "C",
              MainWind::NE => "NE", MainWind::W => "W", MainWind::NW => "NW", MainWind::N => "N" }
  }
  let kind = line["k"].as_str().unwrap();
  stats.calls += 1;
  let got: Value = match kind {
    "bn" => {
      let b = line["b"].as_u64().unwrap() as u8;
      let w = line["w"].as_str().unwrap();
      match guarded(|| cdshealpix::neighbour(b, mw(w))) { Some(Some(x)) => json!([x]), Some(None) => json!([]), None => json!("!") }
    }
    "dfn" => {
      let b = line["b"].as_u64().unwrap() as u8;
      let w = line["w"].as_str().unwrap();
      match guarded(|| cdshealpix::direction_from_neighbour(b, &mw(w))) { Some(d) => json!(wind_name(&d)), None => json!("!") }
    }
    "ecd" => {
      let b = line["b"].as_u64().unwrap() as u8;
      let w = line["w"].as_str().unwrap();
      let inner = line["inner"].as_str().unwrap();
      match guarded(|| cdshealpix::edge_cell_direction_from_neighbour(b, &mw(inner), &mw(w))) { Some(d) => json!(wind_name(&d)), None => json!("!") }
    }
    "opp" => {
      let w = line["w"].as_str().unwrap();
      match guarded(|| mw(w).opposite()) { Some(d) => json!(wind_name(&d)), None => json!("!") }
    }
    "off" => {
      let a = line["ose"].as_i64().unwrap() as i8;
      let c = line["osw"].as_i64().unwrap() as i8;
      match guarded(|| MainWind::from_offsets(a, c)) { Some(d) => json!(wind_name(&d)), None => json!("!") }
    }
    _ => json!("?"),
  };
  if got != line["r"] {
    stats.bad += 1;
    out.emit(json!({"verdict": "mismatch", "ev": "table", "k": kind, "line": line, "got": got}));
  }
}

// ------------------------------------------------------------------------------------------ C14
use cdshealpix::compass_point::{Cardinal, Ordinal};
pub fn card(name: &str) -> Cardinal { match name { "S" => Cardinal::S, "E" => Cardinal::E, "N" => Cardinal::N, "W" => Cardinal::W, _ => panic!("bad cardinal") } }
pub fn ordi(name: &str) -> Ordinal { match name { "SE" => Ordinal::SE, "SW" => Ordinal::SW, "NE" => Ordinal::NE, "NW" => Ordinal::NW, _ => panic!("bad ordinal") } }
pub const CARDS: [&str; 4] = ["S", "E", "W", "N"];
pub const ORDS: [&str; 4] = ["SE", "SW", "NE", "NW"];

fn cells_json(depth: u8, v: &[u64]) -> Value { Value::Array(v.iter().map(|h| cell_json(depth, *h)).collect()) }
fn increasing(v: &[u64]) -> i32 { if v.windows(2).all(|w| w[0] < w[1]) { 1 } else { 0 } }

pub fn edges_event(depth: u8, c: Cell, dd: u8) -> Value {
  use cdshealpix::nested::Layer;
  let h = hash_of_cell(depth, c);
  let deep = depth + dd;
  let layer = nested::get_or_create(depth);
  let mut p = 0;
  let mut take = |r: Option<Box<[u64]>>| -> Vec<u64> { match r { Some(v) => v.to_vec(), None => { p += 1; vec![] } } };
  crate::prime::edges(depth, h, dd);
  let ie = take(guarded(|| Layer::internal_edge(h, dd)));
  let ies = take(guarded(|| Layer::internal_edge_sorted(h, dd)));
  crate::prime::edges(depth, h, dd);
  let ee = take(guarded(|| layer.external_edge(h, dd)));
  let ees = take(guarded(|| layer.external_edge_sorted(h, dd)));
  // free-function variants must agree with the methods (and not panic for depth + delta <= 29)
  let f_ie = guarded(|| nested::internal_edge(depth, h, dd));
  let f_ies = guarded(|| nested::internal_edge_sorted(depth, h, dd));
  let f_ee = guarded(|| nested::external_edge(depth, h, dd));
  let f_ees = guarded(|| nested::external_edge_sorted(depth, h, dd));
  let freep = [&f_ie, &f_ies, &f_ee, &f_ees].iter().filter(|r| r.is_none()).count();
  let free_same = f_ie.as_ref().map_or(true, |v| v.to_vec() == ie) && f_ies.as_ref().map_or(true, |v| v.to_vec() == ies)
    && f_ee.as_ref().map_or(true, |v| v.to_vec() == ee) && f_ees.as_ref().map_or(true, |v| v.to_vec() == ees);
  let mut side = serde_json::Map::new();
  let mut corner = serde_json::Map::new();
  let mut icorner = serde_json::Map::new();
  let mut ipart = serde_json::Map::new();
  let st = guarded(|| layer.external_edge_struct(h, dd));
  let st2 = guarded(|| nested::external_edge_struct(depth, h, dd));
  let mut struct_same = 1;
  for o in ORDS.iter() {
    match &st { Some(s) => { side.insert(o.to_string(), cells_json(deep, s.get_edge(&ordi(o)))); }, None => { side.insert(o.to_string(), json!([])); } }
    if let (Some(a), Some(b)) = (&st, &st2) { if a.get_edge(&ordi(o)) != b.get_edge(&ordi(o)) { struct_same = 0; } }
    let part = take(guarded(|| nested::internal_edge_part(h, dd, &ordi(o))));
    ipart.insert(o.to_string(), cells_json(deep, &part));
  }
  for d in CARDS.iter() {
    match &st { Some(s) => { corner.insert(d.to_string(), s.get_corner(&card(d)).map_or(json!([]), |x| cell_json(deep, x))); }, None => { corner.insert(d.to_string(), json!([])); } }
    if let (Some(a), Some(b)) = (&st, &st2) { if a.get_corner(&card(d)) != b.get_corner(&card(d)) { struct_same = 0; } }
    match guarded(|| nested::internal_corner(h, dd, &card(d))) { Some(x) => { icorner.insert(d.to_string(), cell_json(deep, x)); }, None => { p += 1; icorner.insert(d.to_string(), json!([])); } }
  }
  if st.is_none() { p += 1; }
  if st2.is_none() { struct_same = 0; }
  json!({"ev": "edges", "d": depth, "dd": dd, "c": c.json(), "p": p, "ie": cells_json(deep, &ie), "ies": cells_json(deep, &ies), "ies_inc": increasing(&ies),
         "ee": cells_json(deep, &ee), "ees": cells_json(deep, &ees), "ees_inc": increasing(&ees), "side": side, "corner": corner,
         "icorner": icorner, "ipart": ipart, "free": if free_same { 1 } else { 0 }, "freep": freep, "ssame": struct_same})
}

pub fn record_c14(rng: &mut Rng, count: u64, out: &mut Out) {
  for k in 0..count {
    let dd = 1 + rng.below(if k % 10 == 0 { 5 } else { 3 }) as u8;
    let depth = if k % 4 == 0 { 29 - dd } else { rng.below(30 - dd as u64) as u8 };
    let n = 1u32 << depth;
    let c = if rng.below(3) != 0 { special_cells(rng, depth) } else { Cell { b: rng.below(12) as u8, i: rng.below(n as u64) as u32, j: rng.below(n as u64) as u32 } };
    out.emit(edges_event(depth, c, dd));
    // large delta_depth (6 .. 20): counted as a whole and sampled
    if k % 40 == 7 {
      // (the debug profile is ~30 times slower on these: up to 2^14 cells per side there, 2^20 in release)
      let ddb = 6 + rng.below(if cfg!(debug_assertions) { 9 } else { 15 }) as u8;
      let db = if rng.bool() { 29 - ddb } else { rng.below(30 - ddb as u64) as u8 };
      let nb = 1u32 << db;
      let cb = if rng.bool() { special_cells(rng, db) } else { Cell { b: rng.below(12) as u8, i: rng.below(nb as u64) as u32, j: rng.below(nb as u64) as u32 } };
      out.emit(edges_big_event(rng, db, cb, ddb));
    }
    if k % 6 == 5 { let (d2, c2) = same_number_other_depth(rng, depth, hash_of_cell(depth, c)); if d2 + dd <= 29 { out.emit(edges_event(d2, c2, dd)); } }
  }
}

pub fn replay_c14(line: &Value, out: &mut Out, stats: &mut ReplayStats) {
  let depth = line["d"].as_u64().unwrap() as u8;
  let dd = line["dd"].as_u64().unwrap() as u8;
  let c = Cell::from_json(&line["c"]);
  let ev = edges_event(depth, c, dd);
  stats.calls += 20;
  let as_set = |v: &Value| -> Vec<Cell> { let mut s: Vec<Cell> = v.as_array().unwrap().iter().map(Cell::from_json).collect(); s.sort(); s };
  let as_set_nodup = |v: &Value| -> Vec<Cell> { let s = as_set(v); let mut t = s.clone(); t.dedup(); if t.len() != s.len() { vec![] } else { s } };
  let mut ok = ev["p"] == 0 && ev["free"] == 1 && ev["freep"] == 0 && ev["ssame"] == 1 && ev["ies_inc"] == 1 && ev["ees_inc"] == 1;
  ok = ok && ev["ie"] == line["ie"];
  ok = ok && as_set_nodup(&ev["ies"]) == as_set(&line["ie"]);
  ok = ok && as_set_nodup(&ev["ee"]) == as_set(&line["ee"]) && as_set_nodup(&ev["ees"]) == as_set(&line["ee"]);
  for o in ORDS.iter() {
    ok = ok && as_set_nodup(&ev["side"][*o]) == as_set(&line["side"][*o]);
    ok = ok && as_set_nodup(&ev["ipart"][*o]) == as_set(&line["ipart"][*o]);
  }
  for d in CARDS.iter() {
    ok = ok && ev["corner"][*d] == line["corner"][*d] && ev["icorner"][*d] == line["icorner"][*d];
  }
  if !ok {
    stats.bad += 1;
    if stats.bad <= MAX_MISMATCH_LINES { out.emit(json!({"verdict": "mismatch", "ev": "edges", "d": depth, "dd": dd, "c": c.json(), "expected": line, "got": ev})); }
  }
}

// ------------------------------------------------------------------------------------------ C03
use cdshealpix::compass_point::CardinalSet;
fn e15(d: f64) -> i64 { if d.is_nan() { 2_000_000_000 } else { (d.abs() * 1e15).round().min(2e9) as i64 } }
fn micro(d: f64) -> i64 { if !d.is_finite() { 2_000_000_000 } else { (d * 1e6).round().max(-2e9).min(2e9) as i64 } }

/// position pulled towards the centre of cell c by the fraction `t` of the way (on the sphere: a border point may be
/// expressed by the bridge in the neighbouring base cell, so plane coordinates are avoided)
fn nudged_inwards(depth: u8, c: Cell, lon: f64, lat: f64, t: f64) -> Option<(f64, f64)> {
  let n = 1u32 << depth;
  let (cl, cb) = ref_unproj_local(n as f64, c.b, c.i as f64 + 0.5, c.j as f64 + 0.5);
  let (p, q) = (vec3(lon, lat), vec3(cl, cb));
  Some(lonlat_of_vec([(1.0 - t) * p[0] + t * q[0], (1.0 - t) * p[1] + t * q[1], (1.0 - t) * p[2] + t * q[2]]))
}
/// 1 if the face lies on the border of a polar cap base cell (lon = k*pi/2 in a cap, a pole, or one of the 8 corners
/// of the transition latitude): used only to attribute rejections to known findings
pub fn on_cap_seam(n: u32, f: Face) -> u8 {
  let r = f.b / 4;
  let north = (r == 0 && (f.a2 == 2 * n || f.c2 == 2 * n)) || (r == 1 && f.a2 == 2 * n && f.c2 == 2 * n);
  let south = (r == 2 && (f.a2 == 0 || f.c2 == 0)) || (r == 1 && f.a2 == 0 && f.c2 == 0);
  (north || south) as u8
}

pub fn cellgeo_event(depth: u8, c: Cell) -> Value {
  let n = 1u32 << depth;
  let h = hash_of_cell(depth, c);
  let layer = nested::get_or_create(depth);
  let r = guarded(|| {
    let ctr = layer.center(h);
    let vs = layer.vertices(h);
    let cdev = { let (a, cc) = local_of(n, c.b, ctr.0, ctr.1); (a - (c.i as f64 + 0.5)).abs().max((cc - (c.j as f64 + 0.5)).abs()) };
    // the 4 vertices through every accessor: vertices() = [S, E, N, W], vertex(h, dir), vertices_map(h, all), free functions
    let mut vsame = true;
    let order = ["S", "E", "N", "W"];
    let vm = layer.vertices_map(h, CardinalSet::all());
    let fv = nested::vertices(depth, h);
    let fc = nested::center(depth, h);
    if fc != ctr { vsame = false; }
    for (k, d) in order.iter().enumerate() {
      let v1 = layer.vertex(h, card(d));
      let v2 = *vm.get(card(d)).unwrap();
      for v in [v1, v2, fv[k]].iter() { if ang_dist(v.0, v.1, vs[k].0, vs[k].1) > 1e-15 { vsame = false; } }
    }
    // vertices_map on a proper subset of the directions (all 16 subsets over the cells): exactly the requested keys, each the
    // vertex of that direction
    {
      let mask = (c.i as usize + 3 * c.j as usize + depth as usize) % 16;
      let mut set = CardinalSet::new();
      for (k, d) in order.iter().enumerate() { if mask >> k & 1 == 1 { set.set(card(d), true); } }
      let sub = layer.vertices_map(h, set);
      for (k, d) in order.iter().enumerate() {
        match (mask >> k & 1 == 1, sub.get(card(d))) {
          (true, Some(v)) => if ang_dist(v.0, v.1, vs[k].0, vs[k].1) > 1e-15 { vsame = false; },
          (false, None) => {},
          _ => vsame = false,
        }
      }
    }
    let vf: Vec<Value> = vs.iter().map(|(l, b)| face_of(n, *l, *b).json()).collect();
    // interior offsets: sph_coo(h, dx, dy) hashes back to h and sits where the specification's grid puts it
    let offs = [0.1, 0.3, 0.5, 0.7, 0.9];
    let mut sph_bad = 0;
    let mut sph_dev: f64 = 0.0;
    for dx in offs.iter() { for dy in offs.iter() {
      let (l, b) = layer.sph_coo(h, *dx, *dy);
      if layer.hash(l, b) != h { sph_bad += 1; }
      let (a, cc) = local_of(n, c.b, l, b);
      sph_dev = sph_dev.max((a - (c.i as f64 + dx)).abs()).max((cc - (c.j as f64 + dy)).abs());
    } }
    // points of the edge path and of the inner grid: on / in the closure of the cell, hashing back to it once nudged inwards
    // parameters vary with the cell: starting vertex, sense, number of segments (1..4), grid size (1..3)
    let nseg = 1 + (c.i / 2 + c.j) % 4;
    let mut path: Vec<(f64, f64)> = layer.path_along_cell_edge(h, &card(order[(c.i as usize + c.j as usize) % 4]), (c.i + c.j) % 2 == 0, nseg).to_vec();
    // one side through the public side accessor (method and free function): from a vertex to an adjacent one, with / without the end vertex
    let from = order[(c.i as usize + 2 * c.j as usize) % 4];
    let to = order[((c.i as usize + 2 * c.j as usize) % 4 + if (c.i / 4 + c.j / 4) % 2 == 0 { 1 } else { 3 }) % 4];
    let incl = (c.i / 2 + c.j / 2) % 2 == 0;
    let side = layer.path_along_cell_side(h, &card(from), &card(to), incl, nseg);
    let side2 = nested::path_along_cell_side(depth, h, &card(from), &card(to), incl, nseg);
    if side.len() != (nseg as usize + incl as usize) || side2.len() != side.len() || side.iter().zip(side2.iter()).any(|(a, b)| a != b) { vsame = false; }
    // the side starts at `from` (and ends at `to` when the end vertex is included)
    let vi = |d: &str| vs[order.iter().position(|o| *o == d).unwrap()];
    if side.len() > 0 && ang_dist(side[0].0, side[0].1, vi(from).0, vi(from).1) > 1e-13 { vsame = false; }
    if incl && side.len() > 0 { let l = side[side.len() - 1]; if ang_dist(l.0, l.1, vi(to).0, vi(to).1) > 1e-13 { vsame = false; } }
    path.extend(side.iter().cloned());
    let grid = layer.grid(h, 1 + (c.j % 3) as u16);
    let mut pf = Vec::new();
    let mut nudged_bad = 0;
    for (l, b) in path.iter().chain(grid.iter()) {
      pf.push(face_of(n, *l, *b).json());
      match nudged_inwards(depth, c, *l, *b, 2e-3) { Some((l2, b2)) => if layer.hash(l2, b2) != h { nudged_bad += 1; }, None => nudged_bad += 1 }
    }
    json!({"cf": face_of(n, ctr.0, ctr.1).json(), "cdev": micro(cdev), "hc": cell_json(depth, layer.hash(ctr.0, ctr.1)), "vf": vf, "vsame": vsame as u8,
           "sph_bad": sph_bad, "sph_dev": micro(sph_dev), "npath": path.len(), "ngrid": grid.len(), "pf": pf, "nudged_bad": nudged_bad})
  });
  let mut ev = r.clone().unwrap_or(json!({}));
  let m = ev.as_object_mut().unwrap();
  m.insert("ev".into(), json!("cellgeo")); m.insert("d".into(), json!(depth)); m.insert("c".into(), c.json()); m.insert("p".into(), json!(r.is_none() as u8));
  ev
}

pub fn hash_dxdy_event(depth: u8, lon: f64, lat: f64, class: &str) -> Value {
  let n = 1u32 << depth;
  let f = face_of(n, lon, lat);
  let layer = nested::get_or_create(depth);
  crate::prime::hash(depth, lon, lat, false);
  let r = guarded(|| layer.hash_with_dxdy(lon, lat));
  let rh = guarded(|| layer.hash(lon, lat));
  match r {
    None => json!({"ev": "hash_dxdy", "d": depth, "f": f.json(), "fk": f.kind(), "seam": on_cap_seam(n, f), "p": 1, "cls": class, "in": pos_str(lon, lat)}),
    Some((h, dx, dy)) => {
      let inr = h < n_hash(depth);
      let c = if inr { cell_of_hash(depth, h) } else { Cell { b: 0, i: 0, j: 0 } };
      // position recovered from (cell, dx, dy) through the SPECIFICATION's cell origin (bridge), not through the crate
      let rec = if inr && dx.is_finite() && dy.is_finite() {
        let (l2, b2) = ref_unproj_local(n as f64, c.b, c.i as f64 + dx, c.j as f64 + dy);
        e15(ang_dist(l2, b2, lon, lat))
      } else { 2_000_000_000 };
      let back = if inr && dx >= 0.0 && dx < 1.0 && dy >= 0.0 && dy < 1.0 {
        guarded(|| layer.sph_coo(h, dx, dy)).map_or(2_000_000_000, |(l, b)| e15(ang_dist(l, b, lon, lat)))
      } else { -1 };
      json!({"ev": "hash_dxdy", "d": depth, "f": f.json(), "fk": f.kind(), "seam": on_cap_seam(n, f), "p": 0, "r": cell_json(depth, h), "rh": rh.map_or(json!([]), |x| cell_json(depth, x)),
             "dx": micro(dx), "dy": micro(dy), "rec": rec, "back": back, "cls": class, "in": pos_str(lon, lat)})
    }
  }
}

pub fn record_c03(rng: &mut Rng, count: u64, out: &mut Out) {
  for k in 0..count {
    let depth = if k % 4 == 0 { 29 - rng.below(3) as u8 } else { rng.below(30) as u8 };
    let n = 1u32 << depth;
    match k % 10 {
      0 | 1 | 2 => {
        let c = if rng.bool() { special_cells(rng, depth) } else { Cell { b: rng.below(12) as u8, i: rng.below(n as u64) as u32, j: rng.below(n as u64) as u32 } };
        out.emit(cellgeo_event(depth, c));
        if k % 20 == 0 { let (d2, c2) = same_number_other_depth(rng, depth, hash_of_cell(depth, c)); out.emit(cellgeo_event(d2, c2)); }
      }
      3 => {
        // a cell number >= 12 * 4^depth is rejected by every accessor
        let h = bad_cell_number(rng, n_hash(depth), 1u64 << (2 * depth as u32));
        let layer = nested::get_or_create(depth);
        let ps = [guarded(|| layer.center(h)).is_none(), guarded(|| layer.vertices(h)).is_none(), guarded(|| layer.vertex(h, card("N"))).is_none(),
                  guarded(|| layer.sph_coo(h, 0.5, 0.5)).is_none(), guarded(|| layer.path_along_cell_edge(h, &card("S"), true, 2)).is_none(),
                  guarded(|| layer.grid(h, 2)).is_none(), guarded(|| layer.vertices_map(h, CardinalSet::all())).is_none()];
        out.emit(json!({"ev": "cell_bad", "d": depth, "ps": ps.iter().map(|b| *b as u8).collect::<Vec<u8>>(), "in": format!("{}", h)}));
      }
      _ => {
        let (lon, lat, class) = if rng.below(3) == 0 { gen_border_position(rng) } else { gen_position(rng) };
        out.emit(hash_dxdy_event(depth, lon.rem_euclid(TWO_PI * 4.0) - if rng.below(8) == 0 { TWO_PI * 4.0 } else { 0.0 }, lat, class));
      }
    }
  }
}

/// G direction: TLC-generated cells (all cells of small depths, corner / border classes of deep ones)
pub fn replay_c03(line: &Value, out: &mut Out, _stats: &mut ReplayStats) {
  let depth = line["d"].as_u64().unwrap() as u8;
  let c = Cell::from_json(&line["c"]);
  out.emit(cellgeo_event(depth, c));
  // the centre and the 4 vertices as positions for hash_with_dxdy
  let n = 1u32 << depth;
  for (a2, c2) in [(2 * c.i + 1, 2 * c.j + 1), (2 * c.i, 2 * c.j), (2 * c.i + 2, 2 * c.j), (2 * c.i, 2 * c.j + 2), (2 * c.i + 2, 2 * c.j + 2), (2 * c.i + 1, 2 * c.j)].iter() {
    let (lon, lat) = face_point(n, Face { b: c.b, a2: *a2, c2: *c2 }, 0.5, 0.5);
    out.emit(hash_dxdy_event(depth, lon, lat, "generated"));
  }
}

// ------------------------------------------------------------------------------------------ C19
pub fn bilinear_event(depth: u8, lon: f64, lat: f64, class: &str) -> Value {
  let is_centre = class == "centre";
  let n = 1u32 << depth;
  let f = face_of(n, lon, lat);
  let layer = nested::get_or_create(depth);
  crate::prime::bilinear(depth, lon, lat);
  let r = guarded(|| layer.bilinear_interpolation(lon, lat));
  let hd = guarded(|| layer.hash_with_dxdy(lon, lat));
  match (r, hd) {
    (Some(r), Some((h, _, _))) if h < n_hash(depth) && r.iter().all(|(x, _)| *x < n_hash(depth)) => {
      let c = cell_of_hash(depth, h);
      let cells: Vec<Value> = r.iter().map(|(x, _)| cell_json(depth, *x)).collect();
      let w: Vec<i64> = r.iter().map(|(_, w)| if w.is_finite() { (w * 1048576.0).round() as i64 } else { -2_000_000_000 }).collect();
      let sum: f64 = r.iter().map(|(_, w)| *w).sum();
      // barycentre in the cell grid, relative to the centre of the containing cell (only meaningful in one base cell)
      let one_base = r.iter().all(|(x, _)| cell_of_hash(depth, *x).b == c.b);
      let (a, cc) = local_of(n, c.b, lon, lat);
      let (mut ba, mut bc) = (0.0, 0.0);
      for (x, w) in r.iter() { let o = cell_of_hash(depth, *x); ba += w * (o.i as f64 - c.i as f64); bc += w * (o.j as f64 - c.j as f64); }
      let bary = if one_base { micro((ba - (a - (c.i as f64 + 0.5))).abs().max((bc - (cc - (c.j as f64 + 0.5))).abs())) } else { -1 };
      json!({"ev": "bilinear", "d": depth, "f": f.json(), "fk": f.kind(), "seam": on_cap_seam(n, f), "p": 0, "c": c.json(), "cells": cells, "w": w, "sum": micro(sum - 1.0), "bary": bary, "ctr": is_centre as u8,
             "cls": class, "in": pos_str(lon, lat)})
    }
    _ => json!({"ev": "bilinear", "d": depth, "f": f.json(), "fk": f.kind(), "seam": on_cap_seam(n, f), "p": 1, "c": [], "cells": [], "w": [], "sum": 0, "bary": -1, "ctr": 0, "cls": class, "in": pos_str(lon, lat)}),
  }
}

pub fn record_c19(rng: &mut Rng, count: u64, out: &mut Out) {
  for k in 0..count {
    let depth = if k % 4 == 0 { 29 - rng.below(3) as u8 } else { rng.below(30) as u8 };
    let n = 1u32 << depth;
    let (lon, lat, class) = match k % 5 {
      0 => {
        // the four quadrants of the cells lacking a S / E / N / W neighbour, and cell centres
        let b = rng.below(12) as u8;
        let (i, j) = *rng.pick(&[(0u32, 0u32), (n - 1, 0), (0, n - 1), (n - 1, n - 1)]);
        let centre = rng.below(5) == 0;
        let (fa, fc) = if centre { (0.5, 0.5) } else { (*rng.pick(&[0.2, 0.8]), *rng.pick(&[0.2, 0.8])) };
        let (lo, la) = if centre { let layer = nested::get_or_create(depth); layer.center(hash_of_cell(depth, Cell { b, i, j })) } else { ref_unproj_local(n as f64, b, i as f64 + fa, j as f64 + fc) };
        (lo, la, if centre { "centre" } else { "corner-cell" })
      }
      1 => gen_border_position(rng),
      _ => gen_position(rng),
    };
    out.emit(bilinear_event(depth, lon.rem_euclid(TWO_PI), lat, class));
    if k % 6 == 5 {
      let h = nested::get_or_create(depth).hash(lon.rem_euclid(TWO_PI), lat);
      let (d2, c2) = same_number_other_depth(rng, depth, h);
      let (lo, la) = ref_unproj_local((1u64 << d2) as f64, c2.b, c2.i as f64 + rng.range(0.05, 0.95), c2.j as f64 + rng.range(0.05, 0.95));
      out.emit(bilinear_event(d2, lo, la, "same-number"));
    }
  }
}
pub fn replay_c19(line: &Value, out: &mut Out, _stats: &mut ReplayStats) {
  let depth = line["d"].as_u64().unwrap() as u8;
  let c = Cell::from_json(&line["c"]);
  let n = 1u32 << depth;
  for (fa, fc) in [(0.5, 0.5), (0.25, 0.25), (0.75, 0.25), (0.25, 0.75), (0.75, 0.75), (0.5, 0.01), (0.99, 0.5)].iter() {
    let (lon, lat) = ref_unproj_local(n as f64, c.b, c.i as f64 + fa, c.j as f64 + fc);
    out.emit(bilinear_event(depth, lon, lat, "generated"));
    if *fa == 0.5 && *fc == 0.5 { let ctr = nested::get_or_create(depth).center(hash_of_cell(depth, c)); out.emit(bilinear_event(depth, ctr.0, ctr.1, "centre")); }
  }
}

/// C14 at large delta_depth: the lists (up to 4 * 2^20 cells) are checked as a whole by counting (length, duplicates, adjacency of
/// consecutive cells of the walk, sorted variant = sorted list) and sampled for TLC (positions around the side changes, around
/// the powers of two - where a carry of the interleaved coordinates propagates - and random ones).
pub fn edges_big_event(rng: &mut Rng, depth: u8, c: Cell, dd: u8) -> Value {
  use cdshealpix::nested::Layer;
  let h = hash_of_cell(depth, c);
  let deep = depth + dd;
  let m = 1u64 << dd;
  let layer = nested::get_or_create(depth);
  let mut p = 0;
  crate::prime::edges(depth, h, dd);
  let ie = guarded(|| Layer::internal_edge(h, dd)).map(|v| v.to_vec()).unwrap_or_else(|| { p += 1; vec![] });
  let ies = guarded(|| Layer::internal_edge_sorted(h, dd)).map(|v| v.to_vec()).unwrap_or_else(|| { p += 1; vec![] });
  crate::prime::edges(depth, h, dd);
  let ee = guarded(|| layer.external_edge(h, dd)).map(|v| v.to_vec()).unwrap_or_else(|| { p += 1; vec![] });
  let ees = guarded(|| layer.external_edge_sorted(h, dd)).map(|v| v.to_vec()).unwrap_or_else(|| { p += 1; vec![] });
  let f_ie = guarded(|| nested::internal_edge(depth, h, dd));
  let f_ee = guarded(|| nested::external_edge_sorted(depth, h, dd));
  let free = f_ie.map_or(false, |v| v.to_vec() == ie) && f_ee.map_or(false, |v| v.to_vec() == ees);
  let nh = n_hash(deep);
  let dups = |v: &Vec<u64>| { let mut s = v.clone(); s.sort_unstable(); (s.windows(2).filter(|w| w[0] == w[1]).count() + s.iter().filter(|x| **x >= nh).count(), s) };
  let (ie_dup, ie_sorted) = dups(&ie);
  let (ee_dup, ee_sorted) = dups(&ee);
  // consecutive cells of the (closed) walk share an edge: same base cell, |di| + |dj| = 1
  let mut nonadj = 0;
  if ie.iter().all(|x| *x < nh) {
    for k in 0..ie.len() {
      let (a, b) = (cell_of_hash(deep, ie[k]), cell_of_hash(deep, ie[(k + 1) % ie.len()]));
      let d = (a.i as i64 - b.i as i64).abs() + (a.j as i64 - b.j as i64).abs();
      if a.b != b.b || (d != 1 && ie.len() > 1) { nonadj += 1; }
    }
  } else { nonadj = 1; }
  // sampled positions (1-based) of the walk
  let l = ie.len() as u64;
  let mut idx: Vec<u64> = vec![1, 2, 3, l, l.saturating_sub(1)];
  for q in 1..4u64 { for d in 0..5u64 { idx.push((q * (m - 1) + d).saturating_sub(2)); } }
  for k in 3..=(dd as u64 + 2) { for d in 0..3u64 { idx.push((1u64 << k) + d - 1); idx.push(3 * (m - 1) + (1u64 << k) + d - 1); idx.push((m - 1) + (1u64 << k) + d - 1); } }
  for _ in 0..24 { idx.push(1 + rng.below(l.max(1))); }
  idx.retain(|k| *k >= 1 && *k <= l);
  idx.sort_unstable(); idx.dedup();
  let ie_s: Vec<Value> = idx.iter().map(|k| json!([k, cell_json(deep, ie[(*k - 1) as usize])])).collect();
  let mut side_len = serde_json::Map::new();
  let mut side_s = serde_json::Map::new();
  let mut corner = serde_json::Map::new();
  let mut icorner = serde_json::Map::new();
  let st = guarded(|| layer.external_edge_struct(h, dd));
  if st.is_none() { p += 1; }
  for o in ORDS.iter() {
    let e: Vec<u64> = st.as_ref().map_or(vec![], |s| s.get_edge(&ordi(o)).to_vec());
    side_len.insert(o.to_string(), json!(e.len()));
    let mut ks: Vec<usize> = vec![0, 1, e.len() / 2, e.len().saturating_sub(2), e.len().saturating_sub(1)];
    for k in 3..=(dd as usize) { ks.push((1usize << k) - 1); ks.push(1usize << k); }
    for _ in 0..8 { ks.push(rng.below(e.len().max(1) as u64) as usize); }
    ks.retain(|k| *k < e.len()); ks.sort_unstable(); ks.dedup();
    side_s.insert(o.to_string(), Value::Array(ks.iter().map(|k| cell_json(deep, e[*k])).collect()));
  }
  for d in CARDS.iter() {
    corner.insert(d.to_string(), st.as_ref().and_then(|s| s.get_corner(&card(d))).map_or(json!([]), |x| cell_json(deep, x)));
    match guarded(|| nested::internal_corner(h, dd, &card(d))) { Some(x) => { icorner.insert(d.to_string(), cell_json(deep, x)); }, None => { p += 1; icorner.insert(d.to_string(), json!([])); } }
  }
  // the flat external edge is the union of the sides and corners of the structured one
  let mut all: Vec<u64> = Vec::new();
  if let Some(s) = &st { for o in ORDS.iter() { all.extend_from_slice(s.get_edge(&ordi(o))); } for d in CARDS.iter() { if let Some(x) = s.get_corner(&card(d)) { all.push(x); } } }
  all.sort_unstable();
  let free = free && all == ee_sorted;
  json!({"ev": "edges_big", "d": depth, "dd": dd, "c": c.json(), "p": p, "free": free as u8,
         "ie_len": ie.len(), "ie_dup": ie_dup, "ie_nonadj": nonadj, "ie_s": ie_s, "ies_ok": (ies == ie_sorted) as u8,
         "ee_len": ee.len(), "ee_dup": ee_dup, "ees_ok": (ees == ee_sorted) as u8,
         "side_len": side_len, "side_s": side_s, "corner": corner, "icorner": icorner})
}
