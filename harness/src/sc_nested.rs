//! Scenarios for the NESTED scheme: C01 (hash), C02 (hierarchy), C04 (neighbours).
use crate::geo::*;
use crate::util::*;
use cdshealpix::compass_point::MainWind;
use cdshealpix::nested;
use serde_json::{json, Value};

pub const TRANSITION_LAT: f64 = 0.7297276562269663; // asin(2/3)
pub const WINDS: [&str; 8] = ["S", "SE", "E", "SW", "NE", "W", "NW", "N"];
/// MainWind is not Copy in the crate: build a fresh value each time
pub fn mw(name: &str) -> MainWind {
  match name { "S" => MainWind::S, "SE" => MainWind::SE, "E" => MainWind::E, "SW" => MainWind::SW, "C" => MainWind::C,
               "NE" => MainWind::NE, "W" => MainWind::W, "NW" => MainWind::NW, "N" => MainWind::N, _ => panic!("bad wind") }
}

pub fn n_hash(depth: u8) -> u64 { 12u64 << (2 * depth as u32) }

/// a returned cell number as [b, i, j]; out-of-range numbers become [99, 0, 0]
pub fn cell_json(depth: u8, h: u64) -> Value {
  if h >= n_hash(depth) { json!([99, 0, 0]) } else { cell_of_hash(depth, h).json() }
}

/// a position generator mixing uniform and adversarial positions
pub fn gen_position(rng: &mut Rng) -> (f64, f64, &'static str) {
  let k = rng.below(100);
  if k < 45 {
    let z = rng.range(-1.0, 1.0);
    (rng.range(0.0, TWO_PI), z.asin(), "uniform")
  } else if k < 60 {
    let z = rng.range(-1.0, 1.0);
    (rng.range(-8.0 * PI, 8.0 * PI), z.asin(), "uniform-turns")
  } else if k < 70 {
    // near a pole
    let e = 10f64.powf(rng.range(-16.0, -1.0));
    let lat = if rng.bool() { HALF_PI - e } else { -HALF_PI + e };
    (rng.range(0.0, TWO_PI), lat, "near-pole")
  } else {
    // adversarial latitude and / or longitude
    let lat = match rng.below(8) {
      0 => nudge(TRANSITION_LAT, rng.below(5) as i32 - 2),
      1 => nudge(-TRANSITION_LAT, rng.below(5) as i32 - 2),
      2 => HALF_PI,
      3 => -HALF_PI,
      4 => nudge(HALF_PI, -(rng.below(3) as i32)),
      5 => if rng.bool() { 0.0 } else { -0.0 },
      6 => nudge(0.0, rng.below(5) as i32 - 2),
      _ => rng.range(-1.0, 1.0).asin(),
    };
    let lon = match rng.below(7) {
      0 => nudge(rng.below(9) as f64 * (PI / 4.0), rng.below(5) as i32 - 2),
      1 => if rng.bool() { 0.0 } else { -0.0 },
      2 => f64::from_bits(rng.below(1 << 20) + 1), // subnormal
      3 => nudge(TWO_PI, -(rng.below(3) as i32)),
      4 => nudge((rng.below(33) as f64 - 16.0) * (PI / 4.0), rng.below(5) as i32 - 2),
      5 => -rng.range(0.0, TWO_PI),
      _ => rng.range(0.0, TWO_PI),
    };
    (lon, lat, "adversarial")
  }
}

/// a position on (or an ulp away from) a cell border of some depth `db` (a border point of depth db is a
/// border point of every deeper depth), built from exact local coordinates
pub fn gen_border_position(rng: &mut Rng) -> (f64, f64, &'static str) {
  let db = rng.below(30) as u8;
  let n = 1u32 << db;
  let b = rng.below(12) as u8;
  let a2 = if rng.bool() { 2 * rng.below(n as u64 + 1) as u32 } else { rng.below(2 * n as u64 + 1) as u32 };
  let c2 = if rng.bool() { 2 * rng.below(n as u64 + 1) as u32 } else { rng.below(2 * n as u64 + 1) as u32 };
  // bias towards base-cell borders
  let (a2, c2) = match rng.below(6) { 0 => (0, c2), 1 => (2 * n, c2), 2 => (a2, 0), 3 => (a2, 2 * n), _ => (a2, c2) };
  let (lon, lat) = face_point(n, Face { b, a2, c2 }, rng.f64(), rng.f64());
  (nudge(lon, rng.below(5) as i32 - 2), nudge(lat, rng.below(5) as i32 - 2).max(-HALF_PI).min(HALF_PI), "border")
}

pub fn pos_str(lon: f64, lat: f64) -> String { format!("{:e} {:e} bits {:016x} {:016x}", lon, lat, lon.to_bits(), lat.to_bits()) }

fn any_position(rng: &mut Rng) -> (f64, f64, &'static str) {
  if rng.below(3) == 0 { gen_border_position(rng) } else { gen_position(rng) }
}

// ------------------------------------------------------------------------------------------ C01
pub fn hash_event(depth: u8, lon: f64, lat: f64, class: &str) -> Value {
  let n = 1u32 << depth;
  let f = face_of(n, lon, lat);
  let r = guarded(|| nested::hash(depth, lon, lat));
  json!({"ev": "hash", "d": depth, "f": f.json(), "fk": f.kind(), "p": if r.is_none() { 1 } else { 0 },
         "r": r.map_or(json!([]), |h| cell_json(depth, h)), "cls": class, "in": pos_str(lon, lat)})
}

pub fn record_c01(rng: &mut Rng, count: u64, out: &mut Out) {
  for k in 0..count {
    let depth = if k % 4 == 0 { 29 - rng.below(4) as u8 } else { rng.below(30) as u8 };
    if k % 50 == 49 {
      // latitude outside the domain must be rejected by a panic
      let lat = *rng.pick(&[nudge(HALF_PI, 1), nudge(-HALF_PI, -1), 2.0, -2.0, f64::NAN, f64::INFINITY, f64::NEG_INFINITY, 1.6, -1.5708]);
      let lon = rng.range(-1.0, 7.0);
      let r = guarded(|| nested::hash(depth, lon, lat));
      out.emit(json!({"ev": "hash_bad", "d": depth, "p": if r.is_none() { 1 } else { 0 }, "in": pos_str(lon, lat)}));
      continue;
    }
    let (lon, lat, class) = any_position(rng);
    out.emit(hash_event(depth, lon, lat, class));
  }
}

/// G direction: a TLC-generated face with its expected star; positions of the face (several inner offsets,
/// ulp nudges, whole turns) must hash into the star.
pub fn replay_c01(line: &Value, out: &mut Out, stats: &mut ReplayStats) {
  let depth = line["d"].as_u64().unwrap() as u8;
  let n = 1u32 << depth;
  let f = Face::from_json(&line["f"]);
  let star: Vec<Cell> = line["star"].as_array().unwrap().iter().map(Cell::from_json).collect();
  let fracs = [(0.5, 0.5), (0.25, 0.75), (0.999, 0.001), (0.001, 0.5)];
  let nfr = if f.kind() == "node" { 1 } else { fracs.len() };
  for (fa, fc) in fracs.iter().take(nfr) {
    // keep the inner offsets a safe distance from the borders at deep depths (bridge precision)
    let (fa, fc) = if depth > 20 { (0.25 + 0.5 * fa, 0.25 + 0.5 * fc) } else { (*fa, *fc) };
    let (lon0, lat0) = face_point(n, f, fa, fc);
    for turn in -4i32..=4 {
      for (ul, ub) in [(0, 0), (1, 0), (-1, 0), (0, 1), (0, -1), (2, 2), (-2, -2), (2, -2)].iter() {
        if turn != 0 && (*ul != 0 || *ub != 0) && depth > 3 { continue; }
        let lon = nudge(lon0 + TWO_PI * turn as f64, *ul);
        let lat = nudge(lat0, *ub).max(-HALF_PI).min(HALF_PI);
        stats.calls += 1;
        let r = guarded(|| nested::hash(depth, lon, lat));
        let ok = match r { Some(h) => h < n_hash(depth) && star.contains(&cell_of_hash(depth, h)), None => false };
        if !ok {
          stats.bad += 1;
          if stats.bad <= MAX_MISMATCH_LINES { out.emit(json!({"verdict": "mismatch", "ev": "hash", "d": depth, "f": f.json(), "star": line["star"], "turn": turn,
                          "p": if r.is_none() { 1 } else { 0 }, "r": r.map_or(json!([]), |h| cell_json(depth, h)), "in": pos_str(lon, lat)})); }
        }
      }
    }
  }
}

pub const MAX_MISMATCH_LINES: u64 = 2000;
#[derive(Default)]
pub struct ReplayStats { pub lines: u64, pub calls: u64, pub bad: u64 }

// ------------------------------------------------------------------------------------------ C02
pub fn record_c02(rng: &mut Rng, count: u64, out: &mut Out) {
  for _ in 0..count {
    let (lon, lat, class) = any_position(rng);
    let mut cs = Vec::new();
    let mut panicked = 0;
    for depth in 0..=29u8 {
      match guarded(|| nested::hash(depth, lon, lat)) {
        Some(h) => cs.push(cell_json(depth, h)),
        None => { panicked = 1; cs.push(json!([99, 0, 0])); }
      }
    }
    out.emit(json!({"ev": "hier", "cs": cs, "p": panicked, "cls": class, "in": pos_str(lon, lat)}));
  }
}

// ------------------------------------------------------------------------------------------ C04
pub fn neigh_event(depth: u8, c: Cell) -> Value {
  let h = hash_of_cell(depth, c);
  let layer = nested::get_or_create(depth);
  let m = guarded(|| layer.neighbours(h, false));
  let mc = guarded(|| layer.neighbours(h, true));
  let mut jm = serde_json::Map::new();
  let mut jc = serde_json::Map::new();
  let mut js = serde_json::Map::new();
  let mut p = 0;
  for name in WINDS.iter() {
    match &m { Some(m) => { jm.insert(name.to_string(), m.get(mw(name)).map_or(json!([]), |o| cell_json(depth, *o))); }, None => { p = 1; jm.insert(name.to_string(), json!([])); } }
    match &mc { Some(m) => { jc.insert(name.to_string(), m.get(mw(name)).map_or(json!([]), |o| cell_json(depth, *o))); }, None => { p = 1; jc.insert(name.to_string(), json!([])); } }
    match guarded(|| layer.neighbour(h, mw(name))) { Some(o) => { js.insert(name.to_string(), o.map_or(json!([]), |o| cell_json(depth, o))); }, None => { p = 1; js.insert(name.to_string(), json!([])); } }
  }
  let centre = mc.as_ref().and_then(|m| m.get(MainWind::C).map(|o| cell_json(depth, *o))).unwrap_or(json!([]));
  let centre_in_plain = m.as_ref().map_or(false, |m| m.get(MainWind::C).is_some());
  // free-function variant
  let free_same = guarded(|| nested::neighbours(depth, h, false)).map_or(false, |fm| {
    m.as_ref().map_or(false, |m| WINDS.iter().all(|w| fm.get(mw(w)) == m.get(mw(w))))
  });
  json!({"ev": "neigh", "d": depth, "c": c.json(), "p": p, "m": jm, "mc": jc, "s": js, "ctr": centre,
         "cplain": if centre_in_plain { 1 } else { 0 }, "free": if free_same { 1 } else { 0 }})
}

pub fn special_cells(rng: &mut Rng, depth: u8) -> Cell {
  let n = 1u32 << depth;
  let b = rng.below(12) as u8;
  let edge = |rng: &mut Rng| -> u32 {
    match rng.below(5) { 0 => 0, 1 => n - 1, 2 => 1.min(n - 1), 3 => n.saturating_sub(2), _ => rng.below(n as u64) as u32 }
  };
  Cell { b, i: edge(rng), j: edge(rng) }
}

pub fn record_c04(rng: &mut Rng, count: u64, out: &mut Out) {
  for k in 0..count {
    let depth = if k % 3 == 0 { 29 - rng.below(3) as u8 } else { rng.below(30) as u8 };
    if k % 40 == 39 {
      // out-of-range cell number must be rejected
      let h = n_hash(depth) + rng.below(1000);
      let layer = nested::get_or_create(depth);
      let r1 = guarded(|| layer.neighbours(h, false)).is_none();
      let r2 = guarded(|| layer.neighbour(h, MainWind::E)).is_none();
      out.emit(json!({"ev": "neigh_bad", "d": depth, "pn": r1 as u8, "p1": r2 as u8, "in": format!("{}", h)}));
      continue;
    }
    let n = 1u32 << depth;
    let c = if rng.bool() { special_cells(rng, depth) } else { Cell { b: rng.below(12) as u8, i: rng.below(n as u64) as u32, j: rng.below(n as u64) as u32 } };
    out.emit(neigh_event(depth, c));
  }
}

/// G direction: TLC-generated cell with its expected neighbour map
pub fn replay_c04(line: &Value, out: &mut Out, stats: &mut ReplayStats) {
  let depth = line["d"].as_u64().unwrap() as u8;
  let c = Cell::from_json(&line["c"]);
  let ev = neigh_event(depth, c);
  stats.calls += 3;
  let mut ok = ev["p"] == 0 && ev["ctr"] == c.json() && ev["cplain"] == 0 && ev["free"] == 1;
  for name in WINDS.iter() {
    let exp = &line["m"][*name];
    ok = ok && &ev["m"][*name] == exp && &ev["mc"][*name] == exp && &ev["s"][*name] == exp;
  }
  if !ok {
    stats.bad += 1;
    out.emit(json!({"verdict": "mismatch", "ev": "neigh", "d": depth, "c": c.json(), "expected": line["m"], "got": ev}));
  }
}

// ------------------------------------------------------------------------------------------ C14
use cdshealpix::compass_point::{Cardinal, Ordinal};
pub fn card(name: &str) -> Cardinal { match name { "S" => Cardinal::S, "E" => Cardinal::E, "N" => Cardinal::N, "W" => Cardinal::W, _ => panic!("bad cardinal") } }
pub fn ordi(name: &str) -> Ordinal { match name { "SE" => Ordinal::SE, "SW" => Ordinal::SW, "NE" => Ordinal::NE, "NW" => Ordinal::NW, _ => panic!("bad ordinal") } }
pub const CARDS: [&str; 4] = ["S", "E", "W", "N"];
pub const ORDS: [&str; 4] = ["SE", "SW", "NE", "NW"];

fn cells_json(depth: u8, v: &[u64]) -> Value { Value::Array(v.iter().map(|h| cell_json(depth, *h)).collect()) }
fn increasing(v: &[u64]) -> i32 { if v.windows(2).all(|w| w[0] < w[1]) { 1 } else { 0 } }

pub fn edges_event(depth: u8, c: Cell, dd: u8) -> Value {
  use cdshealpix::nested::Layer;
  let h = hash_of_cell(depth, c);
  let deep = depth + dd;
  let layer = nested::get_or_create(depth);
  let mut p = 0;
  let mut take = |r: Option<Box<[u64]>>| -> Vec<u64> { match r { Some(v) => v.to_vec(), None => { p += 1; vec![] } } };
  let ie = take(guarded(|| Layer::internal_edge(h, dd)));
  let ies = take(guarded(|| Layer::internal_edge_sorted(h, dd)));
  let ee = take(guarded(|| layer.external_edge(h, dd)));
  let ees = take(guarded(|| layer.external_edge_sorted(h, dd)));
  // free-function variants must agree with the methods (and not panic for depth + delta <= 29)
  let f_ie = guarded(|| nested::internal_edge(depth, h, dd));
  let f_ies = guarded(|| nested::internal_edge_sorted(depth, h, dd));
  let f_ee = guarded(|| nested::external_edge(depth, h, dd));
  let f_ees = guarded(|| nested::external_edge_sorted(depth, h, dd));
  let freep = [&f_ie, &f_ies, &f_ee, &f_ees].iter().filter(|r| r.is_none()).count();
  let free_same = f_ie.as_ref().map_or(true, |v| v.to_vec() == ie) && f_ies.as_ref().map_or(true, |v| v.to_vec() == ies)
    && f_ee.as_ref().map_or(true, |v| v.to_vec() == ee) && f_ees.as_ref().map_or(true, |v| v.to_vec() == ees);
  let mut side = serde_json::Map::new();
  let mut corner = serde_json::Map::new();
  let mut icorner = serde_json::Map::new();
  let mut ipart = serde_json::Map::new();
  let st = guarded(|| layer.external_edge_struct(h, dd));
  let st2 = guarded(|| nested::external_edge_struct(depth, h, dd));
  let mut struct_same = 1;
  for o in ORDS.iter() {
    match &st { Some(s) => { side.insert(o.to_string(), cells_json(deep, s.get_edge(&ordi(o)))); }, None => { side.insert(o.to_string(), json!([])); } }
    if let (Some(a), Some(b)) = (&st, &st2) { if a.get_edge(&ordi(o)) != b.get_edge(&ordi(o)) { struct_same = 0; } }
    let part = take(guarded(|| nested::internal_edge_part(h, dd, &ordi(o))));
    ipart.insert(o.to_string(), cells_json(deep, &part));
  }
  for d in CARDS.iter() {
    match &st { Some(s) => { corner.insert(d.to_string(), s.get_corner(&card(d)).map_or(json!([]), |x| cell_json(deep, x))); }, None => { corner.insert(d.to_string(), json!([])); } }
    if let (Some(a), Some(b)) = (&st, &st2) { if a.get_corner(&card(d)) != b.get_corner(&card(d)) { struct_same = 0; } }
    match guarded(|| nested::internal_corner(h, dd, &card(d))) { Some(x) => { icorner.insert(d.to_string(), cell_json(deep, x)); }, None => { p += 1; icorner.insert(d.to_string(), json!([])); } }
  }
  if st.is_none() { p += 1; }
  if st2.is_none() { struct_same = 0; }
  json!({"ev": "edges", "d": depth, "dd": dd, "c": c.json(), "p": p, "ie": cells_json(deep, &ie), "ies": cells_json(deep, &ies), "ies_inc": increasing(&ies),
         "ee": cells_json(deep, &ee), "ees": cells_json(deep, &ees), "ees_inc": increasing(&ees), "side": side, "corner": corner,
         "icorner": icorner, "ipart": ipart, "free": if free_same { 1 } else { 0 }, "freep": freep, "ssame": struct_same})
}

pub fn record_c14(rng: &mut Rng, count: u64, out: &mut Out) {
  for k in 0..count {
    let dd = 1 + rng.below(if k % 10 == 0 { 5 } else { 3 }) as u8;
    let depth = if k % 4 == 0 { 29 - dd } else { rng.below(30 - dd as u64) as u8 };
    let n = 1u32 << depth;
    let c = if rng.below(3) != 0 { special_cells(rng, depth) } else { Cell { b: rng.below(12) as u8, i: rng.below(n as u64) as u32, j: rng.below(n as u64) as u32 } };
    out.emit(edges_event(depth, c, dd));
  }
}

pub fn replay_c14(line: &Value, out: &mut Out, stats: &mut ReplayStats) {
  let depth = line["d"].as_u64().unwrap() as u8;
  let dd = line["dd"].as_u64().unwrap() as u8;
  let c = Cell::from_json(&line["c"]);
  let ev = edges_event(depth, c, dd);
  stats.calls += 20;
  let as_set = |v: &Value| -> Vec<Cell> { let mut s: Vec<Cell> = v.as_array().unwrap().iter().map(Cell::from_json).collect(); s.sort(); s };
  let as_set_nodup = |v: &Value| -> Vec<Cell> { let s = as_set(v); let mut t = s.clone(); t.dedup(); if t.len() != s.len() { vec![] } else { s } };
  let mut ok = ev["p"] == 0 && ev["free"] == 1 && ev["freep"] == 0 && ev["ssame"] == 1 && ev["ies_inc"] == 1 && ev["ees_inc"] == 1;
  ok = ok && ev["ie"] == line["ie"];
  ok = ok && as_set_nodup(&ev["ies"]) == as_set(&line["ie"]);
  ok = ok && as_set_nodup(&ev["ee"]) == as_set(&line["ee"]) && as_set_nodup(&ev["ees"]) == as_set(&line["ee"]);
  for o in ORDS.iter() {
    ok = ok && as_set_nodup(&ev["side"][*o]) == as_set(&line["side"][*o]);
    ok = ok && as_set_nodup(&ev["ipart"][*o]) == as_set(&line["ipart"][*o]);
  }
  for d in CARDS.iter() {
    ok = ok && ev["corner"][*d] == line["corner"][*d] && ev["icorner"][*d] == line["icorner"][*d];
  }
  if !ok {
    stats.bad += 1;
    if stats.bad <= MAX_MISMATCH_LINES { out.emit(json!({"verdict": "mismatch", "ev": "edges", "d": depth, "dd": dd, "c": c.json(), "expected": line, "got": ev})); }
  }
}
