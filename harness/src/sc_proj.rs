//! C17: HEALPix projection / de-projection and base_cell_from_proj_coo.
use crate::geo::*;
use crate::sc_nested::{gen_position, pos_str, ReplayStats, MAX_MISMATCH_LINES};
use crate::util::*;
use serde_json::{json, Value};

fn e15(d: f64) -> i64 { if d.is_nan() { 2_000_000_000 } else { (d.abs() * 1e15).round().min(2e9) as i64 } }
fn lon_diff(a: f64, b: f64) -> f64 { let d = (a - b).rem_euclid(TWO_PI); d.min(TWO_PI - d) }

/// everything C17 says about one position, measured against the bridge
pub fn proj_event(lon: f64, lat: f64, class: &str) -> Value {
  let f1 = face_of(1, lon, lat);
  crate::prime::proj(lon, lat);
  let r = guarded(|| cdshealpix::proj(lon, lat));
  let (rx, ry) = ref_proj(lon, lat); // x in [0, 8)
  match r {
    None => json!({"ev": "proj", "p": 1, "f1": f1.json(), "cls": class, "in": pos_str(lon, lat)}),
    Some((x, y)) => {
      // x carries the sign of the longitude and any number of turns is reduced to |x| <= 8
      let sign_ok = x == 0.0 || lon == 0.0 || (x > 0.0) == (lon > 0.0);
      let range_ok = x.abs() <= 8.0 && y.abs() <= 2.0;
      // the plane point must be the C&R image of the position: compared on the sphere through the bridge's own
      // de-projection, because a position on a polar-cap seam (lon = k*pi/2) has two images in the plane
      let _ = rx;
      let (pl, pb) = ref_unproj_plane(x, y);
      let dxm = ang_dist(pl, pb, lon, lat);
      let back = guarded(|| cdshealpix::unproj(x, y));
      let (berr, bsign) = match back { Some((l, b)) => (e15(ang_dist(l, b, lon, lat)), (l == 0.0 || (l > 0.0) == (x > 0.0)) as u8), None => (2_000_000_000, 0) };
      let bc = guarded(|| cdshealpix::base_cell_from_proj_coo(x, y));
      // proj(unproj(x, y)) = (x, y)
      let fwd = back.and_then(|(l, b)| guarded(|| cdshealpix::proj(l, b)));
      // (a point on the border of a polar-cap triangle has a second image in the plane, on the border of the
      //  neighbouring triangle: there the round trip is judged on the sphere)
      let ferr = fwd.map_or(2_000_000_000, |(x2, y2)| {
        let plane = (x2 - x).abs().min(8.0 - (x2 - x).abs()).max((y2 - y).abs());
        if y.abs() > 1.0 && plane > 1e-14 {
          let (l1, b1) = ref_unproj_plane(x, y);
          let (l2, b2) = ref_unproj_plane(x2, y2);
          e15(ang_dist(l1, b1, l2, b2).max((y2 - y).abs()))
        } else { e15(plane) }
      });
      let polar = (HALF_PI - lat.abs() <= 1.0e-13) as u8;
      json!({"ev": "proj", "p": 0, "f1": f1.json(), "sign": sign_ok as u8, "range": range_ok as u8, "dx": e15(dxm), "dy": e15(y - ry),
             "back": berr, "bsign": bsign, "fwd": ferr, "polar": polar, "bc": bc.map_or(-1, |b| b as i64), "cls": class, "in": pos_str(lon, lat)})
    }
  }
}

pub fn record_c17(rng: &mut Rng, count: u64, out: &mut Out) {
  for k in 0..count {
    if k % 25 == 24 {
      let lat = *rng.pick(&[nudge(HALF_PI, 1), nudge(-HALF_PI, -1), 2.0, -3.0, f64::NAN]);
      let y = *rng.pick(&[nudge(2.0, 1), nudge(-2.0, -1), 2.5, -7.0, f64::NAN]);
      let p1 = guarded(|| cdshealpix::proj(1.0, lat)).is_none();
      let p2 = guarded(|| cdshealpix::unproj(1.0, y)).is_none();
      out.emit(json!({"ev": "proj_bad", "pp": p1 as u8, "pu": p2 as u8, "in": format!("{:e} {:e}", lat, y)}));
      continue;
    }
    let (lon, lat, class) = if rng.below(3) == 0 {
      // facet boundaries, |y| = 1, poles: exact lattice points of a small subdivision
      let n = 1u32 << rng.below(4);
      let f = Face { b: rng.below(12) as u8, a2: rng.below(2 * n as u64 + 1) as u32, c2: rng.below(2 * n as u64 + 1) as u32 };
      let (lo, la) = face_point(n, f, 0.5, 0.5);
      let turns = if rng.below(3) == 0 { rng.below(7) as f64 - 3.0 } else { 0.0 };
      (nudge(lo + TWO_PI * turns, rng.below(5) as i32 - 2), nudge(la, rng.below(5) as i32 - 2).max(-HALF_PI).min(HALF_PI), "lattice")
    } else { gen_position(rng) };
    out.emit(proj_event(lon, lat, class));
  }
}

/// G direction: TLC-generated lattice points with exact plane coordinates x = xn / (2n), y = yn / (2n) and the
/// base cells whose closure contains them
pub fn replay_c17(line: &Value, out: &mut Out, stats: &mut ReplayStats) {
  let n = line["n"].as_u64().unwrap() as u32;
  let f = Face::from_json(&line["f"]);
  let den = 2.0 * n as f64;
  let x = line["xn"].as_i64().unwrap() as f64 / den; // in [-1, 8]
  let y = line["yn"].as_i64().unwrap() as f64 / den;
  let bcs: Vec<i64> = line["bc"].as_array().unwrap().iter().map(|v| v.as_i64().unwrap()).collect();
  let pole = y.abs() == 2.0;
  let cap_seam = y.abs() >= 1.0 && ((f.b < 4 && (f.a2 == 2 * n || f.c2 == 2 * n)) || (f.b >= 8 && (f.a2 == 0 || f.c2 == 0)));
  let (lon, lat) = face_point(n, f, 0.5, 0.5);
  let xpos = if x < 0.0 { x + 8.0 } else { x };
  let mut fails: Vec<String> = Vec::new();
  let tol = 1e-14;
  let close_x = |a: f64, b: f64| -> bool { let d = (a - b).abs(); d.min((8.0 - d).abs()) <= tol };
  for turn in [-2i32, -1, 0, 1, 2].iter() {
    let l = lon + TWO_PI * (*turn as f64);
    stats.calls += 1;
    match guarded(|| cdshealpix::proj(l, lat)) {
      None => fails.push(format!("proj panics turn {}", turn)),
      Some((px, py)) => {
        if !(px.abs() <= 8.0 && py.abs() <= 2.0) { fails.push(format!("range turn {}: {} {}", turn, px, py)); }
        if px != 0.0 && l != 0.0 && (px > 0.0) != (l > 0.0) { fails.push(format!("sign turn {}: x={} lon={}", turn, px, l)); }
        let t = tol * (1.0 + 8.0 * turn.abs() as f64);
        let d = (px.rem_euclid(8.0) - xpos).abs();
        // a position on a polar-cap seam has a second image in the plane (on the border of the other triangle)
        let (sl, sb) = ref_unproj_plane(px, py);
        let seam_ok = cap_seam && ang_dist(sl, sb, lon, lat) <= t;
        if !pole && !(d.min((8.0 - d).abs()) <= t) && !seam_ok { fails.push(format!("x turn {}: {} vs {}", turn, px, xpos)); }
        if (py - y).abs() > tol { fails.push(format!("y turn {}: {} vs {}", turn, py, y)); }
        if *turn == 0 {
          match guarded(|| cdshealpix::base_cell_from_proj_coo(px, py)) {
            Some(b) if bcs.contains(&(b as i64)) => {}
            other => fails.push(format!("base_cell_from_proj_coo({}, {}) = {:?} not in {:?}", px, py, other, bcs)),
          }
        }
      }
    }
  }
  // de-projection of the exact plane point, both signs of x
  for xs in [xpos, xpos - 8.0].iter() {
    stats.calls += 1;
    match guarded(|| cdshealpix::unproj(*xs, y)) {
      None => fails.push(format!("unproj({}, {}) panics", xs, y)),
      Some((l, b)) => {
        if ang_dist(l, b, lon, lat) > tol { fails.push(format!("unproj({}, {}) = ({}, {}) vs ({}, {})", xs, y, l, b, lon, lat)); }
        if *xs > 0.0 && !(l >= 0.0 && l <= TWO_PI + 1e-15) { fails.push(format!("unproj lon range x={} lon={}", xs, l)); }
        if *xs < 0.0 && !(l <= 0.0 && l >= -TWO_PI - 1e-15) { fails.push(format!("unproj lon range x={} lon={}", xs, l)); }
        if let Some((x2, y2)) = guarded(|| cdshealpix::proj(l, b)) {
          let (sl, sb) = ref_unproj_plane(x2, y2);
          let seam_ok = cap_seam && ang_dist(sl, sb, lon, lat) <= tol;
          if (!pole && !close_x(x2.rem_euclid(8.0), xpos) && !seam_ok) || (y2 - y).abs() > tol { fails.push(format!("proj(unproj({}, {})) = ({}, {})", xs, y, x2, y2)); }
        } else { fails.push("proj(unproj) panics".to_string()); }
      }
    }
  }
  if !fails.is_empty() {
    stats.bad += 1;
    if stats.bad <= MAX_MISMATCH_LINES { out.emit(json!({"verdict": "mismatch", "ev": "proj_lattice", "n": n, "f": f.json(), "x": x, "y": y, "fails": fails, "in": pos_str(lon, lat)})); }
  }
}
