//! Scenarios for the RING scheme: C10 (NESTED <-> RING), C11 (RING at any NSIDE).
use crate::geo::*;
use crate::sc_nested::{cell_json, gen_position, n_hash, pos_str, special_cells};
use crate::util::*;
use cdshealpix::{nested, ring};
use serde_json::{json, Value};

/// first RING index of ring rho (1-based from the north), for choosing inputs only
pub fn first_of_ring(n: u64, rho: u64) -> u64 {
  if rho <= n { 2 * rho * (rho - 1) } else if rho <= 3 * n { 2 * n * (n - 1) + 4 * n * (rho - n) } else { let s = 4 * n - rho; 12 * n * n - 2 * s * (s + 1) }
}
pub fn ring_size(n: u64, rho: u64) -> u64 { if rho < n { 4 * rho } else if rho <= 3 * n { 4 * n } else { 4 * (4 * n - rho) } }

/// a RING index biased to ring boundaries
pub fn gen_ring_index(rng: &mut Rng, n: u64) -> u64 {
  let nrings = 4 * n - 1;
  let rho = match rng.below(4) {
    0 => 1 + rng.below(nrings),
    _ => {
      let cands = [1, 2, 3, n.saturating_sub(1), n, n + 1, 2 * n, 3 * n - 1, 3 * n, 3 * n + 1, 4 * n - 2, 4 * n - 1];
      let r = *rng.pick(&cands);
      r.max(1).min(nrings)
    }
  };
  let sz = ring_size(n, rho);
  let pos = match rng.below(6) { 0 => 0, 1 => sz - 1, 2 => 1.min(sz - 1), 3 => sz / 4, 4 => sz / 4 - 1.min(sz / 4), _ => rng.below(sz) };
  first_of_ring(n, rho) + pos
}

fn err15(d: f64) -> i64 { if d.is_nan() { 2_000_000_000 } else { (d * 1e15).round().min(2e9) as i64 } }

// ------------------------------------------------------------------------------------------ C10
pub fn record_c10(rng: &mut Rng, count: u64, out: &mut Out) {
  for k in 0..count {
    let depth = if k % 3 == 0 { 29 - rng.below(5) as u8 } else { rng.below(30) as u8 };
    let n = 1u64 << depth;
    let layer = nested::get_or_create(depth);
    match k % 3 {
      0 => {
        let c = if rng.bool() { special_cells(rng, depth) } else { Cell { b: rng.below(12) as u8, i: rng.below(n) as u32, j: rng.below(n) as u32 } };
        let h = hash_of_cell(depth, c);
        crate::prime::cell(depth, h);
        let r = guarded(|| layer.to_ring(h));
        let back = r.and_then(|r| guarded(|| layer.from_ring(r)));
        out.emit(json!({"ev": "to_ring", "d": depth, "c": c.json(), "p": if r.is_none() { 1 } else { 0 }, "r": r.map_or(json!([]), big_digits),
                        "back": back.map_or(json!([]), |h| cell_json(depth, h))}));
        if k % 6 == 0 {
          // history follow-up: the same cell number at another depth
          let (d2, c2) = crate::sc_nested::same_number_other_depth(rng, depth, h);
          let l2 = nested::get_or_create(d2);
          let h2 = hash_of_cell(d2, c2);
          let r2 = guarded(|| l2.to_ring(h2));
          let back2 = r2.and_then(|r| guarded(|| l2.from_ring(r)));
          out.emit(json!({"ev": "to_ring", "d": d2, "c": c2.json(), "p": if r2.is_none() { 1 } else { 0 }, "r": r2.map_or(json!([]), big_digits),
                          "back": back2.map_or(json!([]), |h| cell_json(d2, h))}));
        }
      }
      1 => {
        let r = gen_ring_index(rng, n);
        let h = guarded(|| layer.from_ring(r));
        out.emit(json!({"ev": "from_ring", "d": depth, "r": big_digits(r), "p": if h.is_none() { 1 } else { 0 },
                        "c": h.map_or(json!([]), |h| cell_json(depth, h)), "in": format!("{}", r)}));
      }
      _ => {
        // the RING-scheme centre of cell r is the NESTED centre of from_ring(r), and lies in the interior of the cell of rank r
        let r = gen_ring_index(rng, n);
        let rc = guarded(|| ring::center(n as u32, r));
        let nc = guarded(|| { let h = layer.from_ring(r); layer.center(h) });
        let (cf, dev) = match (rc, nc) {
          (Some((l1, b1)), Some((l2, b2))) => (face_of(n as u32, l1, b1).json(), err15(ang_dist(l1, b1, l2, b2))),
          (Some((l1, b1)), None) => (face_of(n as u32, l1, b1).json(), 2_000_000_000),
          _ => (json!([]), 2_000_000_000),
        };
        out.emit(json!({"ev": "ring_nested_centre", "d": depth, "r": big_digits(r), "p": if rc.is_none() || nc.is_none() { 1 } else { 0 }, "cf": cf, "dev": dev, "in": format!("{}", r)}));
      }
    }
  }
}

/// G direction: TLC-generated (depth, cell, ring digits) triples
pub fn replay_c10(line: &Value, out: &mut Out, stats: &mut crate::sc_nested::ReplayStats) {
  let depth = line["d"].as_u64().unwrap() as u8;
  let c = Cell::from_json(&line["c"]);
  let mut r: u64 = 0;
  for (k, d) in line["r"].as_array().unwrap().iter().enumerate() { r += d.as_u64().unwrap() << (15 * k); }
  let layer = nested::get_or_create(depth);
  let h = hash_of_cell(depth, c);
  stats.calls += 2;
  let a = guarded(|| layer.to_ring(h));
  let b = guarded(|| layer.from_ring(r));
  if a != Some(r) || b != Some(h) {
    stats.bad += 1;
    if stats.bad <= crate::sc_nested::MAX_MISMATCH_LINES {
      out.emit(json!({"verdict": "mismatch", "ev": "ring_pair", "d": depth, "c": c.json(), "r": line["r"], "to_ring": a.map(|x| x.to_string()), "from_ring": b.map(|x| cell_json(depth, x))}));
    }
  }
}

// ------------------------------------------------------------------------------------------ C11
pub fn gen_nside(rng: &mut Rng) -> u32 {
  match rng.below(5) {
    0 => 1 + rng.below(16) as u32,
    1 => 1 + rng.below(300) as u32,
    2 => *rng.pick(&[97u32, 1000, 4095, 4097, 65537, 1_000_003, (1 << 29) - 1, 1 << 29, 3, 5, 6, 7, 12, 1 << 20, 123_456_789]),
    3 => 1 + rng.below(1 << 29) as u32,
    _ => 1u32 << rng.below(30),
  }
}

pub fn record_c11(rng: &mut Rng, count: u64, out: &mut Out) {
  for k in 0..count {
    let nside = gen_nside(rng);
    let n = nside as u64;
    let nh = 12 * n * n;
    if k % 25 == 24 {
      // the constants of the scheme at this NSIDE
      let r = guarded(|| (ring::n_hash(nside), ring::n_isolatitude_rings(nside) as u64, ring::first_hash_on_npc_eqr_transition(nside), ring::first_hash_in_eqr(nside),
                          ring::first_hash_on_eqr_spc_transition(nside), ring::first_hash_in_spc(nside)));
      let (p, v) = match r { Some(v) => (0, v), None => (1, (0, 0, 0, 0, 0, 0)) };
      out.emit(json!({"ev": "ring_meta", "n": nside, "p": p, "nh": big_digits(v.0), "nr": big_digits(v.1), "ft": big_digits(v.2), "fe": big_digits(v.3),
                      "st": big_digits(v.4), "fs": big_digits(v.5), "in": format!("{}", nside)}));
      continue;
    }
    if k % 16 == 7 {
      // class "seam-scan": 200 latitudes of a polar cap (half of them in the first rings beyond the transition latitude) on a
      // meridian k pi/2 nudged by -2 .. +2 ulp: whether the offsets of hash_with_dxdy stay in [0, 1] and sph_coo inverts them
      // depends on the rounding of each latitude, so one position per event would hardly ever meet the bad ones
      let km = rng.below(9) as f64 - 2.0;
      let ulp = rng.below(5) as i32 - 2;
      let lon = nudge(km * HALF_PI, ulp);
      let south = rng.bool();
      let tl = 0.7297276562269663;
      let (mut dxmin, mut dxmax, mut dymin, mut dymax, mut backmax, mut panics, mut diff) = (f64::MAX, f64::MIN, f64::MAX, f64::MIN, 0i64, 0, 0);
      for s in 0..200 {
        let a = if s % 2 == 0 { tl + rng.f64() * 3.0 / nside as f64 } else { tl + rng.f64() * (HALF_PI - tl) };
        let lat = (if south { -a } else { a }).max(-HALF_PI).min(HALF_PI);
        match (guarded(|| ring::hash(nside, lon, lat)), guarded(|| ring::hash_with_dxdy(nside, lon, lat))) {
          (Some(h), Some((h2, dx, dy))) => {
            if h != h2 { diff += 1; }
            if !(dx.is_finite() && dy.is_finite()) { panics += 1; continue; }
            dxmin = dxmin.min(dx); dxmax = dxmax.max(dx); dymin = dymin.min(dy); dymax = dymax.max(dy);
            if dx >= 0.0 && dx < 1.0 && dy >= 0.0 && dy < 1.0 && h2 < nh {
              backmax = backmax.max(guarded(|| ring::sph_coo(nside, h2, dx, dy)).map_or(2_000_000_000, |(l, b)| err15(ang_dist(l, b, lon, lat))));
            }
          }
          _ => panics += 1,
        }
      }
      let mic = |x: f64| if x.is_finite() && x.abs() < 1e3 { (x * 1e6).round() as i64 } else { 999_999_999 };
      out.emit(json!({"ev": "ring_scan", "n": nside, "south": south as u8, "p": panics, "diff": diff, "dxmin": mic(dxmin), "dxmax": mic(dxmax), "dymin": mic(dymin), "dymax": mic(dymax),
                      "back": backmax, "in": format!("{} ulp={} south={}", pos_str(lon, 0.0), ulp, south)}));
      continue;
    }
    match k % 4 {
      0 | 1 => {
        // hash of a position: RING index of a cell whose closure contains the position
        let (lon, lat, class) = if rng.below(3) == 0 {
          // exact node / edge positions of this nside, incl. lon = k*pi/2 in the caps
          let b = rng.below(12) as u8;
          let pickc = |rng: &mut Rng| -> u32 { match rng.below(4) { 0 => 0, 1 => 2 * nside, 2 => 2 * rng.below(n + 1) as u32, _ => rng.below(2 * n + 1) as u32 } };
          let f = Face { b, a2: pickc(rng), c2: pickc(rng) };
          let (lo, la) = face_point(nside, f, rng.f64(), rng.f64());
          (nudge(lo, rng.below(3) as i32 - 1), nudge(la, rng.below(3) as i32 - 1).max(-HALF_PI).min(HALF_PI), "border")
        } else { gen_position(rng) };
        let f = face_of(nside, lon, lat);
        crate::prime::ring(nside, lon, lat);
        let r = guarded(|| ring::hash(nside, lon, lat));
        crate::prime::ring(nside, lon, lat);
        let r2 = guarded(|| ring::hash_with_dxdy(nside, lon, lat));
        let (dxm, dym, back, same) = match (r, r2) {
          (Some(h), Some((h2, dx, dy))) => {
            let fin = dx.is_finite() && dy.is_finite();
            let back = if fin && dx >= 0.0 && dx < 1.0 && dy >= 0.0 && dy < 1.0 && h2 < nh {
              guarded(|| ring::sph_coo(nside, h2, dx, dy)).map_or(2_000_000_000, |(l, b)| err15(ang_dist(l, b, lon, lat)))
            } else { -1 };
            (if fin { (dx * 1e6).round() as i64 } else { -999_999_999 }, if fin { (dy * 1e6).round() as i64 } else { -999_999_999 }, back, if h == h2 { 1 } else { 0 })
          }
          _ => (0, 0, -1, 0),
        };
        out.emit(json!({"ev": "ring_hash", "n": nside, "f": f.json(), "fk": f.kind(), "p": if r.is_none() || r2.is_none() { 1 } else { 0 },
                        "r": r.map_or(json!([]), |h| big_digits(h.min(u64::MAX >> 1))), "same": same, "dx": dxm, "dy": dym, "back": back,
                        "cls": class, "in": pos_str(lon, lat)}));
      }
      2 => {
        // centre of cell h: lies in the interior of the cell of RING index h, and hashes back to h; vertices are its 4 nodes
        let r = if n <= 64 { rng.below(nh) } else { gen_ring_index(rng, n) };
        let c = guarded(|| ring::center(nside, r));
        let (cf, hc) = match c {
          Some((l, b)) => (face_of(nside, l, b).json(), guarded(|| ring::hash(nside, l, b)).map_or(json!([]), |h| big_digits(h.min(u64::MAX >> 1)))),
          None => (json!([]), json!([])),
        };
        let v = guarded(|| ring::vertices(nside, r));
        let vf = match v { Some(v) => json!(v.iter().map(|(l, b)| face_of(nside, *l, *b).json()).collect::<Vec<_>>()), None => json!([]) };
        out.emit(json!({"ev": "ring_center", "n": nside, "r": big_digits(r), "p": if c.is_none() || v.is_none() { 1 } else { 0 }, "cf": cf, "hc": hc, "vf": vf, "in": format!("{}", r)}));
      }
      _ => {
        // out-of-range cell numbers and latitudes are rejected
        let bad_h = bad_cell_number(rng, nh, n * n);
        let lat = *rng.pick(&[nudge(HALF_PI, 1), nudge(-HALF_PI, -1), 2.0, -1.6, f64::NAN]);
        let p1 = guarded(|| ring::center(nside, bad_h)).is_none();
        let p2 = guarded(|| ring::vertices(nside, bad_h)).is_none();
        let p3 = guarded(|| ring::sph_coo(nside, bad_h, 0.5, 0.5)).is_none();
        let p4 = guarded(|| ring::hash(nside, 1.0, lat)).is_none();
        let p5 = guarded(|| ring::hash_with_dxdy(nside, 1.0, lat)).is_none();
        out.emit(json!({"ev": "ring_bad", "n": nside, "pc": p1 as u8, "pv": p2 as u8, "ps": p3 as u8, "ph": p4 as u8, "phd": p5 as u8, "in": format!("{} {:e}", bad_h, lat)}));
      }
    }
  }
  let _ = n_hash(0);
}

/// G direction: TLC-generated (nside, face, expected ring indices)
pub fn replay_c11(line: &Value, out: &mut Out, stats: &mut crate::sc_nested::ReplayStats) {
  let nside = line["n"].as_u64().unwrap() as u32;
  let f = Face::from_json(&line["f"]);
  let exp: Vec<u64> = line["rs"].as_array().unwrap().iter().map(|ds| ds.as_array().unwrap().iter().enumerate().map(|(k, d)| d.as_u64().unwrap() << (15 * k)).sum()).collect();
  let fracs = [(0.5, 0.5), (0.2, 0.7), (0.9, 0.1)];
  let nfr = if f.kind() == "node" { 1 } else { fracs.len() };
  for (fa, fc) in fracs.iter().take(nfr) {
    let (lon0, lat0) = face_point(nside, f, *fa, *fc);
    for (ul, ub) in [(0, 0), (1, 0), (-1, 0), (0, 1), (0, -1)].iter() {
      let lon = nudge(lon0, *ul);
      let lat = nudge(lat0, *ub).max(-HALF_PI).min(HALF_PI);
      stats.calls += 1;
      let r = guarded(|| ring::hash(nside, lon, lat));
      if !r.map_or(false, |h| exp.contains(&h)) {
        stats.bad += 1;
        if stats.bad <= crate::sc_nested::MAX_MISMATCH_LINES {
          out.emit(json!({"verdict": "mismatch", "ev": "ring_hash", "n": nside, "f": f.json(), "expected": exp.iter().map(|x| x.to_string()).collect::<Vec<_>>(),
                          "p": if r.is_none() { 1 } else { 0 }, "got": r.map(|x| x.to_string()), "in": pos_str(lon, lat)}));
        }
      }
    }
  }
}
