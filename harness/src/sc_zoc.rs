//! C18: z-order curve implementations and uniq numbers.
use crate::util::*;
use cdshealpix::nested;
use cdshealpix::nested::zordercurve::{get_zoc, ZOrderCurve, LARGE_ZOC_LUT, LARGE_ZOC_XOR};
use serde_json::{json, Value};

fn bits32(x: u32) -> Value { json!((0..32).map(|k| (x >> (31 - k)) & 1).collect::<Vec<u32>>()) }
fn quads32(h: u64) -> Value { json!((0..32).map(|k| (h >> (2 * (31 - k))) & 3).collect::<Vec<u64>>()) }
/// base-4 digits, most significant first, no leading zeros
fn quads(h: u64) -> Value {
  let mut v: Vec<u64> = Vec::new();
  let mut x = h;
  while x > 0 { v.push(x & 3); x >>= 2; }
  if v.is_empty() { v.push(0); }
  v.reverse();
  json!(v)
}
fn path(depth: u8, h: u64) -> Value { json!((0..depth).map(|k| (h >> (2 * (depth - 1 - k) as u32)) & 3).collect::<Vec<u64>>()) }

/// the implementations reachable from outside the crate: (name, object, number of significant bits of i and j)
pub fn impls() -> Vec<(String, &'static dyn ZOrderCurve, u32)> {
  let mut v: Vec<(String, &'static dyn ZOrderCurve, u32)> = vec![
    ("get_zoc(0)".to_string(), get_zoc(0), 0),
    ("get_zoc(5)".to_string(), get_zoc(5), 8),
    ("get_zoc(8)".to_string(), get_zoc(8), 8),
    ("get_zoc(9)".to_string(), get_zoc(9), 16),
    ("get_zoc(16)".to_string(), get_zoc(16), 16),
    ("get_zoc(17)".to_string(), get_zoc(17), 32),
    ("get_zoc(29)".to_string(), get_zoc(29), 32),
    ("LARGE_ZOC_LUT".to_string(), &LARGE_ZOC_LUT, 32),
    ("LARGE_ZOC_XOR".to_string(), &LARGE_ZOC_XOR, 32),
  ];
  #[cfg(all(any(target_arch = "x86", target_arch = "x86_64"), target_feature = "bmi2"))]
  v.push(("LARGE_ZOC_BMI".to_string(), &cdshealpix::nested::zordercurve::LARGE_ZOC_BMI, 32));
  v
}
pub fn build_name() -> &'static str {
  if cfg!(all(any(target_arch = "x86", target_arch = "x86_64"), target_feature = "bmi2")) { "bmi2" } else { "lut" }
}

pub fn zoc_event(name: &str, z: &dyn ZOrderCurve, i: u32, j: u32) -> Value {
  let h = guarded(|| z.ij2h(i, j));
  let hi0 = guarded(|| z.i02h(i));
  let h0j = guarded(|| z.oj2h(j));
  let back = h.and_then(|h| guarded(|| { let ij = z.h2ij(h); (z.ij2i(ij), z.ij2j(ij)) }));
  let p = h.is_none() || hi0.is_none() || h0j.is_none() || back.is_none();
  json!({"ev": "zoc", "impl": name, "build": build_name(), "p": p as u8, "i": bits32(i), "j": bits32(j), "h": quads32(h.unwrap_or(0)),
         "hi0": quads32(hi0.unwrap_or(0)), "h0j": quads32(h0j.unwrap_or(0)),
         "i2": bits32(back.map_or(0, |b| b.0)), "j2": bits32(back.map_or(0, |b| b.1)), "in": format!("{} {}", i, j)})
}

fn gen_coord(rng: &mut Rng, nbits: u32) -> u32 {
  if nbits == 0 { return 0; }
  let mask = if nbits == 32 { u32::MAX } else { (1u32 << nbits) - 1 };
  let x = match rng.below(6) {
    0 => rng.next() as u32,
    1 => (rng.below(256) as u32) << (8 * rng.below(4) as u32), // one byte set
    2 => 1u32 << rng.below(32),
    3 => !(1u32 << rng.below(32)),
    4 => rng.below(16) as u32,
    _ => mask - rng.below(16).min(mask as u64) as u32,
  };
  x & mask
}

pub fn uniq_event(rng: &mut Rng) -> Value {
  let depth = rng.below(30) as u8;
  let nh = 12u64 << (2 * depth as u32);
  let h = match rng.below(5) { 0 => 0, 1 => nh - 1, 2 => (rng.below(12)) << (2 * depth as u32), 3 => ((rng.below(12) + 1) << (2 * depth as u32)) - 1, _ => rng.below(nh) };
  let b = h >> (2 * depth as u32);
  let u = guarded(|| nested::to_uniq(depth, h));
  let ui = guarded(|| nested::to_uniq_ivoa(depth, h));
  let layer = nested::get_or_create(depth);
  let lu = guarded(|| layer.to_uniq(h));
  let lui = guarded(|| layer.to_uniq_ivoa(h));
  let fu = u.and_then(|u| guarded(|| nested::from_uniq(u)));
  let fui = ui.and_then(|u| guarded(|| nested::from_uniq_ivoa(u)));
  let dec = |r: Option<(u8, u64)>| -> Value { match r { Some((d, hh)) if d <= 29 && hh < (16u64 << (2 * d as u32)) => json!({"d": d, "b": hh >> (2 * d as u32), "p": path(d, hh)}), _ => json!({"d": -1, "b": -1, "p": []}) } };
  let p = u.is_none() || ui.is_none() || lu.is_none() || lui.is_none() || fu.is_none() || fui.is_none();
  json!({"ev": "uniq", "d": depth, "b": b, "path": path(depth, h), "p": p as u8, "u": quads(u.unwrap_or(0)), "ui": quads(ui.unwrap_or(0)),
         "lsame": (lu == u && lui == ui) as u8, "fu": dec(fu), "fui": dec(fui), "in": format!("{} {}", depth, h)})
}

pub fn record_c18(rng: &mut Rng, count: u64, out: &mut Out) {
  let imps = impls();
  // exhaustive small square for every implementation class
  for (name, z, nbits) in imps.iter() {
    let m = 8u32.min(if *nbits == 0 { 1 } else { 1 << (*nbits).min(3) });
    for i in 0..m { for j in 0..m { out.emit(zoc_event(name, *z, i, j)); } }
  }
  for k in 0..count {
    if k % 4 == 3 {
      if k % 40 == 39 {
        // any u8 above 29: just above, wrap-around values of 8-bit arithmetic on the depth (128 + d, 256 - d), random
        let d = match rng.below(4) { 0 => 30 + rng.below(30) as u8, 1 => 128 + rng.below(30) as u8, 2 => 255 - rng.below(30) as u8, _ => 30 + rng.below(226) as u8 };
        let p1 = guarded(|| nested::to_uniq(d, 0)).is_none();
        let p2 = guarded(|| nested::to_uniq_ivoa(d, 0)).is_none();
        out.emit(json!({"ev": "uniq_bad", "d": d, "pu": p1 as u8, "pi": p2 as u8}));
      } else {
        out.emit(uniq_event(rng));
      }
      continue;
    }
    let (name, z, nbits) = &imps[rng.below(imps.len() as u64) as usize];
    out.emit(zoc_event(name, *z, gen_coord(rng, *nbits), gen_coord(rng, *nbits)));
  }
}

/// G direction: TLC-generated (i, j, h) triples replayed through every implementation whose domain holds them
pub fn replay_c18(line: &Value, out: &mut Out, stats: &mut crate::sc_nested::ReplayStats) {
  let i = line["i"].as_u64().unwrap() as u32;
  let j = line["j"].as_u64().unwrap() as u32;
  let sh = line["shift"].as_u64().unwrap() as u32; // the same pattern moved to higher bits
  let hp: u64 = line["h"].as_array().unwrap().iter().fold(0u64, |a, d| (a << 2) | d.as_u64().unwrap());
  for (name, z, nbits) in impls().iter() {
    if *nbits == 0 { continue; }
    let width = line["h"].as_array().unwrap().len() as u32;
    if sh + width > *nbits { continue; }
    let (ii, jj, hh) = (i << sh, j << sh, hp << (2 * sh));
    stats.calls += 1;
    let r = guarded(|| { let h = z.ij2h(ii, jj); let ij = z.h2ij(h); (h, z.ij2i(ij), z.ij2j(ij), z.i02h(ii), z.oj2h(jj)) });
    let ok = match r { Some((h, i2, j2, hi0, h0j)) => h == hh && i2 == ii && j2 == jj && (hi0 | h0j) == hh && (hi0 & h0j) == 0, None => false };
    if !ok {
      stats.bad += 1;
      if stats.bad <= crate::sc_nested::MAX_MISMATCH_LINES {
        out.emit(json!({"verdict": "mismatch", "ev": "zoc", "impl": name, "build": build_name(), "i": ii, "j": jj, "expected_h": hh.to_string(), "got": format!("{:?}", r)}));
      }
    }
  }
}
