//! Small utilities: deterministic RNG, panic capture, ndjson writer, argument parsing.
use std::io::{BufWriter, Write};
use std::panic::{catch_unwind, AssertUnwindSafe};

/// splitmix64: tiny, deterministic, good enough for test-input generation.
pub struct Rng(pub u64);
impl Rng {
  /// the seed is scrambled (murmur3 finalizer) so that consecutive seeds do not give shifted copies of one stream
  pub fn new(seed: u64) -> Rng {
    let mut z = seed ^ 0x1234_5678_9ABC_DEF1;
    z = (z ^ (z >> 33)).wrapping_mul(0xFF51AFD7ED558CCD);
    z = (z ^ (z >> 33)).wrapping_mul(0xC4CEB9FE1A85EC53);
    Rng(z ^ (z >> 33))
  }
  pub fn next(&mut self) -> u64 {
    self.0 = self.0.wrapping_add(0x9E3779B97F4A7C15);
    let mut z = self.0;
    z = (z ^ (z >> 30)).wrapping_mul(0xBF58476D1CE4E5B9);
    z = (z ^ (z >> 27)).wrapping_mul(0x94D049BB133111EB);
    z ^ (z >> 31)
  }
  /// uniform in [0, n)
  pub fn below(&mut self, n: u64) -> u64 { if n == 0 { 0 } else { ((self.next() as u128 * n as u128) >> 64) as u64 } }
  /// uniform in [0, 1)
  pub fn f64(&mut self) -> f64 { (self.next() >> 11) as f64 / (1u64 << 53) as f64 }
  pub fn range(&mut self, lo: f64, hi: f64) -> f64 { lo + (hi - lo) * self.f64() }
  pub fn bool(&mut self) -> bool { self.next() & 1 == 1 }
  pub fn pick<'a, T>(&mut self, v: &'a [T]) -> &'a T { &v[self.below(v.len() as u64) as usize] }
}

/// An out-of-range cell number (>= `nh`, the number of cells): just above the range, far above it, a valid-looking number
/// with one or several high bits set (what a truncating cast to u8 / u32 or a bit mask would drop), or near u64::MAX.
/// `unit` is the number of cells of a base cell (4^depth), 1 if not applicable.
pub fn bad_cell_number(rng: &mut Rng, nh: u64, unit: u64) -> u64 {
  let valid = rng.below(nh);
  let lead = 64 - nh.leading_zeros() as u64;            // number of bits of nh
  let h = match rng.below(8) {
    0 => nh.saturating_add(rng.below(1000)),
    1 => nh.saturating_mul(1 + rng.below(30)).saturating_add(rng.below(nh)),
    2 => { let k = lead + rng.below(64 - lead.min(63)); valid | (1u64 << k.min(63)) }               // one high bit over a valid number
    3 => unit.saturating_mul(256 * (1 + rng.below(8)) + rng.below(12)).saturating_add(rng.below(unit)),     // base-cell part wraps in a u8
    4 => valid.saturating_add((1 + rng.below(1 << 20)) << 32),                                               // dropped by a u32 cast
    5 => u64::MAX - rng.below(1000),
    6 => (1u64 << 63) | valid,
    _ => nh.saturating_add(rng.below(3) * rng.below(1 << 20)),
  };
  if h < nh { nh } else { h }
}

/// Run `f`, turning a panic into `None` (a panic of the code under test is data, not a crash).
pub fn guarded<T, F: FnOnce() -> T>(f: F) -> Option<T> {
  catch_unwind(AssertUnwindSafe(f)).ok()
}

thread_local! { static LAST_PANIC: std::cell::RefCell<String> = std::cell::RefCell::new(String::new()); }
/// the message of the last panic caught on this thread (attribution of known findings only)
pub fn last_panic() -> String { LAST_PANIC.with(|c| c.borrow().clone()) }

pub fn silence_panics() {
  let show = std::env::var("HPX_PANIC_LOC").is_ok();
  std::panic::set_hook(Box::new(move |info| {
    let msg = if let Some(s) = info.payload().downcast_ref::<&str>() { s.to_string() } else if let Some(s) = info.payload().downcast_ref::<String>() { s.clone() } else { String::from("?") };
    let msg: String = msg.chars().take(120).collect();
    LAST_PANIC.with(|c| *c.borrow_mut() = msg);
    // development aid: where do the panics of the code under test come from
    if show { if let Some(l) = info.location() { eprintln!("PANIC-AT {}:{}", l.file(), l.line()); } }
  }));
}

pub struct Out {
  w: BufWriter<Box<dyn Write>>,
  pub n: u64,
}
impl Out {
  pub fn create(path: &str) -> Out {
    let w: Box<dyn Write> = if path == "-" { Box::new(std::io::stdout()) } else { Box::new(std::fs::File::create(path).expect("cannot create output file")) };
    Out { w: BufWriter::with_capacity(1 << 20, w), n: 0 }
  }
  pub fn emit(&mut self, v: serde_json::Value) {
    serde_json::to_writer(&mut self.w, &v).unwrap();
    self.w.write_all(b"\n").unwrap();
    self.n += 1;
  }
  pub fn flush(&mut self) { self.w.flush().unwrap(); }
}

pub struct Args {
  pub pos: Vec<String>,
  pub opts: std::collections::HashMap<String, String>,
}
impl Args {
  pub fn parse() -> Args {
    let mut pos = Vec::new();
    let mut opts = std::collections::HashMap::new();
    let mut it = std::env::args().skip(1);
    while let Some(a) = it.next() {
      if let Some(k) = a.strip_prefix("--") {
        let v = it.next().unwrap_or_default();
        opts.insert(k.to_string(), v);
      } else {
        pos.push(a);
      }
    }
    Args { pos, opts }
  }
  pub fn get(&self, k: &str, d: &str) -> String { self.opts.get(k).cloned().unwrap_or_else(|| d.to_string()) }
  pub fn u64(&self, k: &str, d: u64) -> u64 { self.opts.get(k).map(|s| s.parse().expect("bad integer option")).unwrap_or(d) }
}

pub fn next_up(x: f64) -> f64 {
  if x.is_nan() || x == f64::INFINITY { return x; }
  if x == 0.0 { return f64::from_bits(1); }
  let b = x.to_bits();
  if x > 0.0 { f64::from_bits(b + 1) } else { f64::from_bits(b - 1) }
}
pub fn next_down(x: f64) -> f64 { -next_up(-x) }
/// move `x` by `k` ulps (k may be negative)
pub fn nudge(mut x: f64, k: i32) -> f64 {
  for _ in 0..k.abs() { x = if k > 0 { next_up(x) } else { next_down(x) }; }
  x
}
