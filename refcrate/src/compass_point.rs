//! Module defining the commodity enums Cardinal (points) and MainWind (points). 

use std::mem;

/// Cardinal points 
#[derive(Debug, PartialEq)]
pub enum Cardinal {
  /// South direction
  S,
  /// East direction
  E,
  /// North direction
  N,
  /// West direction
  W
}

impl Cardinal {

  /// Returns a Cardinal point give an index.
  /// We define this method for calls from external languages
  /// - 0 => S
  /// - 1 => E
  /// - 2 => N
  /// - 3 => W
  /// 
  /// # Input
  /// - `i` index in `[0, 3]`
  /// 
  /// # Output
  /// - cardinal point
  /// 
  /// # Panics
  /// If the given index in not in `[0, 3]`
  /// 
  /// # Example
  /// ```rust
  /// use cdshealpix::compass_point::{Cardinal};
  /// 
  /// assert_eq!(Cardinal::from_index(0), Cardinal::S);
  /// assert_eq!(Cardinal::from_index(1), Cardinal::E);
  /// assert_eq!(Cardinal::from_index(2), Cardinal::N);
  /// assert_eq!(Cardinal::from_index(3), Cardinal::W);
  /// ```
  pub fn from_index(i: u8) -> Cardinal {
    match i {
      0 => Cardinal::S,
      1 => Cardinal::E,
      2 => Cardinal::N,
      3 => Cardinal::W,
      _ => panic!("Wrong Cardinal index: Expected value in [0, 3]; Actual value {}.", i),
    }
  }

  pub(crate) fn index(&self) -> u8 {
    match *self {
      Cardinal::S => 0,
      Cardinal::E => 1,
      Cardinal::N => 2,
      Cardinal::W => 3,
    }
  }
  
  /// Returns:
  /// - South: -offset
  /// - North: +offset
  /// - East and West: 0
  pub(super) fn offset_sn(&self, offset: f64) -> f64 {
    match *self {
      Cardinal::S => -offset,
      Cardinal::N => offset,
      _ => 0f64,
    }
  }

  /// Returns:
  /// - West: -offset
  /// - East: +offset
  /// - South and North: 0
  pub(super) fn offset_we(&self, offset: f64) -> f64 {
    match *self {
      Cardinal::W => -offset,
      Cardinal::E => offset,
      _ => 0f64,
    }
  }

  pub(super) fn next_clockwise(&self) -> Cardinal {
    match *self {
      Cardinal::S => Cardinal::W,
      Cardinal::E => Cardinal::S,
      Cardinal::N => Cardinal::E,
      Cardinal::W => Cardinal::N,
    }
  }

  pub(super) fn next_counter_clockwise(&self) -> Cardinal {
    match *self {
      Cardinal::S => Cardinal::E,
      Cardinal::E => Cardinal::N,
      Cardinal::N => Cardinal::W,
      Cardinal::W => Cardinal::S,
    }
  }

  pub(super) fn clockwise_cycle(&self) -> (Cardinal, Cardinal, Cardinal, Cardinal) {
    match *self {
      Cardinal::S => (Cardinal::S, Cardinal::W, Cardinal::N, Cardinal::E),
      Cardinal::E => (Cardinal::E, Cardinal::S, Cardinal::W, Cardinal::N),
      Cardinal::N => (Cardinal::N, Cardinal::E, Cardinal::S, Cardinal::W),
      Cardinal::W => (Cardinal::W, Cardinal::N, Cardinal::E, Cardinal::S),
    }
  }

  pub(super) fn counter_clockwise_cycle(&self) -> (Cardinal, Cardinal, Cardinal, Cardinal) {
    match *self {
      Cardinal::S => (Cardinal::S, Cardinal::E, Cardinal::N, Cardinal::W),
      Cardinal::E => (Cardinal::E, Cardinal::N, Cardinal::W, Cardinal::S),
      Cardinal::N => (Cardinal::N, Cardinal::W, Cardinal::S, Cardinal::E),
      Cardinal::W => (Cardinal::W, Cardinal::S, Cardinal::E, Cardinal::N),
    }
  }
}

/// Cardinal set. 
/// Internally the information is stored on 4 bits.
pub struct CardinalSet {
  // Byte storing the 4 boolean values
  byte: u8,
}

impl CardinalSet {
  
  /// Retuns a new empty cardinal set.
  pub fn new() -> CardinalSet {
    CardinalSet {
      byte: 0u8,
    }
  }
  
  /// Retusn a cardinal set with all directions set
  pub fn all() -> CardinalSet {
    CardinalSet {
      byte: 0b00001111_u8,
    }
  }
  
  /// Add or remove (or do nothing) the given direction to the set.
  pub fn set(&mut self, key: Cardinal, value: bool) {
    let i = key.index() as u8;
    let mask = 1u8 << i;
    if value {
      self.byte |= mask;  
    } else {
      self.byte &= !mask;
    }
  }
  
  /// Returns `true` if the given direction is in the set.
  pub fn get(&self, key: Cardinal) -> bool {
    let i = key.index();
    self.get_from_index(i)
  }
  
  fn get_from_index(&self, index: u8) -> bool {
    let mask = 1u8 << index;
    self.byte & mask != 0u8
  }
  
  /// Remove all directions from the set
  pub fn clear(&mut self) {
    self.byte = 0u8;
  }
}

impl IntoIterator for CardinalSet {
  type Item = Cardinal;
  type IntoIter = CardinalSetIterator;
  
  fn into_iter(self) -> Self::IntoIter {
    CardinalSetIterator {
      cardinal_set: self,
      index: 0
    }
  }
}

/// Structure used to iterate over a CardinalSet
pub struct CardinalSetIterator {
  cardinal_set: CardinalSet,
  index: u8,
}

impl Iterator for CardinalSetIterator {
  type Item = Cardinal;
  
  fn next(&mut self) -> Option<Cardinal> {
    while self.index < 4 {
      if self.cardinal_set.get_from_index(self.index) {
        let card = Cardinal::from_index(self.index);
        self.index += 1;
        return Some(card)
      } else {
        self.index += 1;
      }
    }
    None
  }
}

/// Equivalent of a Java EnumMap for cardinal directions.
/// We require T to implement the Copy trait since internally we use an array stored on the stack.
pub struct CardinalMap<T: Copy> {
  array: [Option<T>; 4],
}

/// Equivalent of a Java EnumMap for the cardinal points.
/// We require T to implement the Copy trait since internally we use an array stored on the stack.
impl<V: Copy> CardinalMap<V> {

  /// Creates a new empty map.
  pub fn new() ->  CardinalMap<V> {
    CardinalMap {
      array: [Option::None; 4],
    }
  }

  /// Associate the given value with the given direction
  pub fn put(&mut self, key: Cardinal, value: V) -> Option<V> {
    mem::replace(&mut self.array[key.index() as usize], Some(value))
  }

  /// Get a pointer to the value associated with the given direction
  pub fn get(&self, key: Cardinal) -> Option<&V> {
    match self.array[key.index() as usize] {
      Some(ref v) => Some(v),
      None => None,
    }
  }
  
  /// Replace all values by None
  pub fn clear(&mut self) {
    // fill_with_none(self.array);
    for i in 0..4 {
      self.array[i] = None;
    }
  }
}

/////////////
// Ordinal //
/////////////

/// Cardinal points 
#[derive(Debug, PartialEq)]
pub enum Ordinal {
  /// Southeast direction
  SE,
  /// Southwest direction
  SW,
  /// Northeast direction
  NE,
  /// Northwest direction
  NW
}

impl Ordinal {
  pub(crate) fn index( & self ) -> u8 {
    match * self {
      Ordinal::SE => 0,
      Ordinal::SW => 1,
      Ordinal::NE => 2,
      Ordinal::NW => 3,
    }
  }
}

/// Equivalent of a Java EnumMap for ordinal directions.
/// We require T to implement the Copy trait since internally we use an array stored on the stack.
pub struct OrdinalMap<T: Copy> {
  array: [Option<T>; 4],
}

/// Equivalent of a Java EnumMap for the cardinal points.
/// We require T to implement the Copy trait since internally we use an array stored on the stack.
impl<V: Copy> OrdinalMap<V> {

  /// Creates a new empty map.
  pub fn new() ->  OrdinalMap<V> {
    OrdinalMap {
      array: [Option::None; 4],
    }
  }

  /// Associate the given value with the given direction
  pub fn put(&mut self, key: Ordinal, value: V) -> Option<V> {
    mem::replace(&mut self.array[key.index() as usize], Some(value))
  }

  /// Get a pointer to the value associated with the given direction
  pub fn get(&self, key: Ordinal) -> Option<&V> {
    match self.array[key.index() as usize] {
      Some(ref v) => Some(v),
      None => None,
    }
  }

  /// Replace all values by None
  pub fn clear(&mut self) {
    for i in 0..4 {
      self.array[i] = None;
    }
  }
}

///////////////
// MAIN WIND //
///////////////

/// Main winds directions
#[derive(Debug, PartialEq)]
pub enum MainWind {
  /// South
  S,
  /// Southeast
  SE,
  /// East
  E,
  /// Southwest
  SW,
  /// Center (not a real main winds)
  C,
  /// Northeast
  NE,
  /// West
  W,
  /// Norhtwest
  NW,
  /// North
  N
}

impl MainWind {

  /// Returns a Main wind direction give an index.
  /// We define this method for calls from external languages
  /// - 0 => S
  /// - 1 => SE
  /// - 2 => E
  /// - 3 => SW
  /// - 4 => C
  /// - 5 => NE
  /// - 6 => W
  /// - 7 => NW
  /// - 8 => N
  /// 
  /// # Input
  /// - `i` index in `[0, 8]`
  /// 
  /// # Output
  /// - main wind direction
  /// 
  /// # Panics
  /// If the given index in not in `[0, 8]`
  /// 
  /// # Example
  /// 
  /// ```rust
  /// use cdshealpix::compass_point::{MainWind};
  /// 
  /// assert_eq!(MainWind::from_index(0), MainWind::S);
  /// assert_eq!(MainWind::from_index(1), MainWind::SE);
  /// assert_eq!(MainWind::from_index(2), MainWind::E);
  /// assert_eq!(MainWind::from_index(3), MainWind::SW);
  /// assert_eq!(MainWind::from_index(4), MainWind::C);
  /// assert_eq!(MainWind::from_index(5), MainWind::NE);
  /// assert_eq!(MainWind::from_index(6), MainWind::W);
  /// assert_eq!(MainWind::from_index(7), MainWind::NW);
  /// assert_eq!(MainWind::from_index(8), MainWind::N);
  /// ```
  pub fn from_index(i: u8) -> MainWind {
    match i {
      0 => MainWind::S,
      1 => MainWind::SE,
      2 => MainWind::E,
      3 => MainWind::SW,
      4 => MainWind::C,
      5 => MainWind::NE,
      6 => MainWind::W,
      7 => MainWind::NW,
      8 => MainWind::N,
      _ => panic!("Wrong MainWind index: Expected value in [0, 7]; Actual value {}.", i),
    }
  }

  /// Returns `true` is the Main Wind is more particularly a Cardinal point.
  /// ```rust
  /// use cdshealpix::compass_point::{MainWind};
  /// 
  /// assert_eq!(true, MainWind::S.is_cardinal());
  /// assert_eq!(true, MainWind::E.is_cardinal());
  /// assert_eq!(true, MainWind::N.is_cardinal());
  /// assert_eq!(true, MainWind::W.is_cardinal());
  /// assert_eq!(false, MainWind::C.is_cardinal());
  /// assert_eq!(false, MainWind::SE.is_cardinal());
  /// assert_eq!(false, MainWind::SW.is_cardinal());
  /// assert_eq!(false, MainWind::NE.is_cardinal());
  /// assert_eq!(false, MainWind::NW.is_cardinal());
  /// ```
  pub fn is_cardinal(&self) -> bool {
    match *self {
      MainWind::S | MainWind::E | MainWind::N | MainWind::W => true,
      _ => false,
    }
  }

  /// Convert this main wind into a Cardinal point.
  /// # Panics
  /// If the maind wind is not a cardinal point
  pub fn to_cardinal(&self) -> Cardinal {
    // use self::Cardinal;
    match *self {
      MainWind::S => Cardinal::S,
      MainWind::E => Cardinal::E,
      MainWind::N => Cardinal::N,
      MainWind::W => Cardinal::W,
      _ => panic!(format!("Main wind '{:?}' can't be converted to cardinal!", &self)),
    }
  }

  /// Returns `true` is the Main Wind is more particularly an Ordinal point.
  /// ```rust
  /// use cdshealpix::compass_point::{MainWind};
  /// 
  /// assert_eq!(false, MainWind::S.is_ordinal());
  /// assert_eq!(false, MainWind::E.is_ordinal());
  /// assert_eq!(false, MainWind::N.is_ordinal());
  /// assert_eq!(false, MainWind::W.is_ordinal());
  /// assert_eq!(false, MainWind::C.is_ordinal());
  /// assert_eq!(true, MainWind::SE.is_ordinal());
  /// assert_eq!(true, MainWind::SW.is_ordinal());
  /// assert_eq!(true, MainWind::NE.is_ordinal());
  /// assert_eq!(true, MainWind::NW.is_ordinal());
  /// ```
  pub fn is_ordinal(&self) -> bool {
    match *self {
      MainWind::SE | MainWind::SW | MainWind::NE | MainWind::NW => true,
      _ => false,
    }
  }

  /// Convert this main wind into an Ordinal point.
  /// # Panics
  /// If the maind wind is not an orinal point
  pub fn to_ordinal(&self) -> Ordinal {
    match *self {
      MainWind::SE => Ordinal::SE,
      MainWind::SW => Ordinal::SW,
      MainWind::NE => Ordinal::NE,
      MainWind::NW => Ordinal::NW,
      _ => panic!(format!("Main wind '{:?}' can't be converted to ordinal!", &self)),
    }
  }
  
  /// Returns the given main wind opposite direction.
  /// 
  /// # Example
  /// 
  /// ```rust
  /// use cdshealpix::compass_point::{MainWind};
  /// 
  /// assert_eq!(MainWind::S.opposite(),  MainWind::N);
  /// assert_eq!(MainWind::SE.opposite(), MainWind::NW);
  /// assert_eq!(MainWind::E.opposite(),  MainWind::W);
  /// assert_eq!(MainWind::SW.opposite(), MainWind::NE);
  /// assert_eq!(MainWind::C.opposite(),  MainWind::C);
  /// assert_eq!(MainWind::NE.opposite(), MainWind::SW);
  /// assert_eq!(MainWind::W.opposite(),  MainWind::E);
  /// assert_eq!(MainWind::NW.opposite(), MainWind::SE);
  /// assert_eq!(MainWind::N.opposite(),  MainWind::S);
  /// ```
  pub fn opposite(&self) -> MainWind {
    match *self {
        MainWind::S  => MainWind::N,
        MainWind::SE => MainWind::NW,
        MainWind::E  => MainWind::W,
        MainWind::SW => MainWind::NE,
        MainWind::C  => MainWind::C,
        MainWind::NE => MainWind::SW,
        MainWind::W  => MainWind::E,
        MainWind::NW => MainWind::SE,
        MainWind::N  => MainWind::S,
    }
  }
  
  /// Returns the given Main Wind direction according to the given offsets.
  /// - `offset_se must` be in `[-1, 1]`
  /// - `offset_sw must` be in `[-1, 1]`
  /// 
  /// # Example
  /// 
  /// ```rust
  /// use cdshealpix::compass_point::MainWind;
  /// use cdshealpix::compass_point::MainWind::{S, SE, E, SW, C, NE, W, NW, N};
  /// 
  /// assert_eq!(MainWind::from_offsets(-1, -1),  S);
  /// assert_eq!(MainWind::from_offsets( 0, -1), SE);
  /// assert_eq!(MainWind::from_offsets( 1, -1),  E);
  /// assert_eq!(MainWind::from_offsets(-1,  0), SW);
  /// assert_eq!(MainWind::from_offsets( 0,  0),  C);
  /// assert_eq!(MainWind::from_offsets( 1,  0), NE);
  /// assert_eq!(MainWind::from_offsets(-1,  1),  W);
  /// assert_eq!(MainWind::from_offsets( 0,  1), NW);
  /// assert_eq!(MainWind::from_offsets( 1,  1),  N);
  /// ```
  pub fn from_offsets(offset_se: i8, offset_sw: i8) -> MainWind {
    debug_assert!(-1_i8 <= offset_se && offset_se <= 1_i8);
    debug_assert!(-1_i8 <= offset_sw && offset_sw <= 1_i8);
    let mut i = (offset_sw + 1_i8) as u8;
    i += (i << 1) + (offset_se + 1_i8) as u8;
    MainWind::from_index(i)
  }
  
  fn index(&self) -> u8 {
    match *self {
      MainWind::S  => 0,
      MainWind::SE => 1,
      MainWind::E  => 2,
      MainWind::SW => 3,
      MainWind::C  => 4,
      MainWind::NE => 5,
      MainWind::W  => 6,
      MainWind::NW => 7,
      MainWind::N  => 8,
    }
  }

  /// Returns:
  /// _W NW _N
  /// SW _C NE
  /// _S SE _E 
  /// ----------> SE
  /// -1  0  1
  pub(super) fn offset_se(&self) -> i8 {
    match *self {
      MainWind::S  => -1,
      MainWind::SE =>  0,
      MainWind::E  =>  1,
      MainWind::SW => -1,
      MainWind::C  =>  0,
      MainWind::NE =>  1,
      MainWind::W  => -1,
      MainWind::NW =>  0,
      MainWind::N  =>  1,
    }
  }

  /// Returns:
  ///    ^
  ///  1 | _W NW _N
  ///  0 | SW _C NE
  /// -1 | _S SE _E
  pub(super) fn offset_sw(&self) -> i8 {
    match *self {
      MainWind::S  => -1,
      MainWind::SE => -1,
      MainWind::E  => -1,
      MainWind::SW => 0,
      MainWind::C  => 0,
      MainWind::NE => 0,
      MainWind::W  => 1,
      MainWind::NW => 1,
      MainWind::N  => 1,
    }
  }
}

/// Equivalent of a Java EnumMap for the main winds.
/// We require T to implement the Copy trait since internally we use an array stored on the stack.
#[derive(Debug)]
pub struct MainWindMap<T: Copy> {
  array: [Option<T>; 9],
}

impl<V: Copy> MainWindMap<V> {

  /// Creates a new empty map.
  pub fn new() -> MainWindMap<V> {
    MainWindMap {
      array: [Option::None; 9],
    }
  }

  /// Associate the given value with the given direction
  pub fn put(&mut self, key: MainWind, value: V) -> Option<V> {
    mem::replace(&mut self.array[key.index() as usize], Some(value))
  }

  /// Associate None with the given direction
  pub fn put_none(&mut self, key: MainWind) -> Option<V> {
    mem::replace(&mut self.array[key.index() as usize], None)
  }

  /// Associate the given Option with the given direction
  pub fn put_opt(&mut self, key: MainWind, value: Option<V>) -> Option<V> {
    mem::replace(&mut self.array[key.index() as usize], value)
  }

  /// Get a pointer to the value associated with the given direction
  pub fn get(&self, key: MainWind) -> Option<&V> {
    self.get_from_index(key.index() as usize)
  }

  fn get_from_index(&self, index: usize) -> Option<&V> {
    match self.array[index] {
      Some(ref v) => Some(v),
      None => None,
    }
  }
  
  /// Replace all values by None 
  pub fn clear(&self) {
    let mut a = self.array; 
    fill_with_none(&mut a);
  }

  /// Returns a vector of values
  pub fn values_vec(&self) -> Vec<V> {
    self.array.into_iter().filter_map(|&o| o).collect::<Vec<V>>()
  }
  
  pub fn entries(&self) -> Box<[(MainWind, V)]> {
    self.entries_vec().into_boxed_slice()
  }

  pub fn entries_vec(&self) -> Vec<(MainWind, V)> {
    self.array.into_iter().enumerate()
      .filter_map(|(i, &o)| o.map(|v| (MainWind::from_index(i as u8), v)))
      .collect::<Vec<(MainWind, V)>>()
  }
  
}

impl<V: Copy + Ord> MainWindMap<V> {
  
  /// Returns the values contained in the map, ordered in their natural order in a fixed length array
  pub fn sorted_values(&self) -> Box<[V]> {
    //let mut values = self.values_vec().into_boxed_slice();
    //values.sort_unstable();
    //values
    self.sorted_values_vec().into_boxed_slice()
  }

  /// Returns the values contained in the map, ordered in their natural order in a growable array
  pub fn sorted_values_vec(&self) -> Vec<V> {
    let mut values: Vec<V> = self.values_vec();
    values.sort_unstable();
    values
  }

  pub fn sorted_entries(&self) -> Box<[(MainWind, V)]> {
    self.sorted_entries_vec().into_boxed_slice()
  }
  
  pub fn sorted_entries_vec(&self) -> Vec<(MainWind, V)> {
    let mut entries = self.entries_vec();
    entries.sort_unstable_by(|(_, v1), (_, v2)| v1.partial_cmp(v2).unwrap());
    entries
  }
}


/// Fill the given (mutable reference on a) slice of Option with the None value
fn fill_with_none<T>(array_of_option: &mut [Option<T>]) {
  array_of_option.iter_mut().for_each(|o| *o = None);
}
