//! Module simply defining a the structure storing the external edges of an HEALPix cell and
//! provided accesses according to the main wind directions.
//! This strcut is common to nested and ring scheme.

use crate::compass_point::{Cardinal, Ordinal};

/// Stores the external edges of an HEALPix cell, providing accessor using the main wind directions.
#[derive(Debug)]
pub struct ExternalEdge { // very simila to CardinalMap + OrdinalMap
  corners: [Option<u64>; 4],
  edges: [Box<[u64]>; 4],
}

impl ExternalEdge {
  
  pub(crate) fn new_empty() -> Self {
    ExternalEdge {
      corners: Default::default(),
      edges: Default::default(),
    }
  }
  
  pub(crate) fn set_corner(&mut self, cardinal_direction: &Cardinal, value: u64) {
    self.corners[cardinal_direction.index() as usize] = Some(value);
  }
  
  pub(crate) fn set_edge(&mut self, ordinal_direction: &Ordinal, values: Box<[u64]>) {
    self.edges[ordinal_direction.index() as usize] = values;
  }
  
  /// Returns the neighbour cell located at the given cardinal point (if it exists). 
  pub fn get_corner(&self, cardinal_point: &Cardinal) -> Option<u64> {
    match self.corners[cardinal_point.index() as usize] {
      Some(h) => Some(h),
      None => None,
    }
  }
  
  /// Returns the neighbour cells along the given ordinal direction.
  pub fn get_edge(&self, ordinal_point: &Ordinal) -> &[u64] {
    &self.edges[ordinal_point.index() as usize]
  }
  
}