//! Implementation of the HEALPix framework.  
//! See papers:  
//! * Gorsky2005: "HEALPix: A Framework for High-Resolution Discretization and Fast Analysis of Data
//!                Distributed on the Sphere", Górski, K. M. et al., 2005; 2005ApJ...622..759G.
//! * Calabretta2004: "Mapping on the HEALPix grid", Calabretta, M. R., 2004; 2004astro.ph.12607C
//! * Calabretta2007: "Mapping on the HEALPix grid", Calabretta, M. R. et Roukema, B. F., 2007; 2007MNRAS.381..865C
//! * Reinecke2015: "Efficient data structures for masks on 2D grids",  Reinecke, M. et Hivon, E., 2015; 2015A&A...580A.132R

// #![cfg_attr(test, feature(test))]
// #![cfg_attr(test)]


// #[cfg(test)]
// extern crate test;

use std::sync::Once;
use std::f64::consts::{PI};

/// Constant = sqrt(6).
/// 
/// ```rust
/// use cdshealpix::{SQRT6};
/// assert_eq!(6_f64.sqrt(), SQRT6);
/// ```
pub const SQRT6: f64 = 2.44948974278317809819_f64;
const ONE_OVER_SQRT6: f64 = 0.40824829046386301636_f64;
const HALF: f64 = 0.5_f64;

/// Upper limit on sqrt(3(1-|z|)) to consider that we are not near from the poles
const EPS_POLE: f64 = 1e-15_f64;

/// Constant = pi/2.
/// 
/// ```rust
/// use cdshealpix::{HALF_PI};
/// use std::f64::consts::PI;
/// assert_eq!(PI / 2f64, HALF_PI);
/// ```
pub const HALF_PI: f64 = HALF * PI;

/// Constant = pi/2.
/// 
/// ```rust
/// use cdshealpix::{TWICE_PI};
/// use std::f64::consts::PI;
/// assert_eq!(2f64 * PI, TWICE_PI);
/// ```
pub const TWICE_PI: f64 = 2.0 * PI;

/// Constant = 4/pi.
/// 
/// ```rust
/// use cdshealpix::{FOUR_OVER_PI};
/// use std::f64::consts::PI;
/// assert_eq!(4f64 / PI, FOUR_OVER_PI);
/// ```
pub const FOUR_OVER_PI: f64 = 4_f64 / PI;

/// Constant = pi/4.
/// 
/// ```rust
/// use cdshealpix::{PI_OVER_FOUR};
/// use std::f64::consts::PI;
/// assert_eq!(PI / 4f64, PI_OVER_FOUR);
/// ```
pub const PI_OVER_FOUR: f64 = 0.25_f64 * PI;

/// Constant = 29, i.e. the largest possible depth we can store on a signed positive long
/// (4 bits for base cells + 2 bits per depth + 2 remaining bits (1 use in the unique notation).
/// 
/// ```rust
/// use cdshealpix::{DEPTH_MAX};
/// assert_eq!(29, DEPTH_MAX);
/// ```
pub const DEPTH_MAX: u8 = 29;

/// Constant = nside(29), i.e. the largest possible nside available when we store HEALPix hash
/// on a u64.
///
/// ```rust
/// use cdshealpix::{DEPTH_MAX, NSIDE_MAX, nside};
/// assert_eq!(nside(DEPTH_MAX), NSIDE_MAX);
/// ```
pub const NSIDE_MAX: u32 = 536870912;

/// Limit on the latitude (in radians) between the equatorial region and the polar caps.
/// Equals asin(2/3) = 0.7297276562269663 radians ~= 41,81 degrees.
/// Written $\theta_X$ in Calabretta2007.
/// 
/// ```rust
/// use cdshealpix::{TRANSITION_LATITUDE};
/// assert_eq!(f64::asin(2f64 / 3f64), TRANSITION_LATITUDE);
/// ```
pub const TRANSITION_LATITUDE: f64 = 0.72972765622696636344_f64; // asin(2/3)
/// Limit on |z|=|sin(lat)| between the equatorial region and the polar caps.
/// Equals 2/3, see Eq. (1) in Gorsky2005.
pub const TRANSITION_Z: f64 = 2_f64 / 3_f64;
/// Inverse of the limit on |z|=|sin(lat)| between the equatorial region and the polar caps.
/// Equals 1/(2/3) = 1.5, see Eq. (1) in Gorsky2005.
pub const ONE_OVER_TRANSITION_Z: f64 = 1.5_f64;

/// Mask to keep only the f64 sign
pub const F64_SIGN_BIT_MASK: u64 = 0x8000000000000000;
/// Equals !F64_SIGN_BIT_MASK (the inverse of the f64 sign mask)
pub const F64_BUT_SIGN_BIT_MASK: u64 = 0x7FFFFFFFFFFFFFFF;

/// For each HEALPix depth, stores the smallest distance from an edge of a cell to the opposite
/// edge of the same cell. If the radius of a cone is smaller than this distance, we know that
/// it will overlap maximum 9 pixels (the pixel containing the center of the cone plus
/// the 8 neighbours).  
/// In practice, this distance if the distance between the point of coordinate
/// (0, TRANSITION_LATITUDE) and it nearest point on the Northeast edge of the
/// cell of base hash 0 and coordinates in the base hash (x=0, y=nside-1).  
/// IMPORTANT REMARK:  
/// - this value is larger than the smallest center to vertex distance
/// - this value x2 is larger than the smallest diagonal (NS or EW)
/// - this value x2 is larger than the smallest edge
/// - BUT there is no case in which the value is larger than the four center-to-vertex distance
/// - BUT there is no case in which the value x2 is larger than both diagonals
/// => this radius is smaller than the smaller circumcircle radius (=> no cone having the smaller
/// -edge-to-opposite-edge-radius radius can contains the 4 vertices of a cell (but 3 is ok)
/// vertices
static SMALLER_EDGE2OPEDGE_DIST: [f64; 30] =  [
    0.8410686705685088,    // depth = 0
    0.37723631722170053,   // depth = 1
    0.18256386461918295,   // depth = 2
    0.09000432499034523,   // depth = 3
    0.04470553761855741,   // depth = 4
    0.02228115704023076,   // depth = 5
    0.011122977211214961,  // depth = 6
    0.005557125022105058,  // depth = 7
    0.0027774761500209185, // depth = 8
    0.0013884670480328143, // depth = 9
    6.941658374603201E-4,  // depth = 10
    3.4706600585087755E-4, // depth = 11
    1.7352877579970442E-4, // depth = 12
    8.676333125510362E-5,  // depth = 13
    4.338140148342286E-5,  // depth = 14
    2.1690634707822447E-5, // depth = 15
    1.084530084565172E-5,  // depth = 16
    5.422646295795749E-6,  // depth = 17
    2.711322116099695E-6,  // depth = 18
    1.3556608000873442E-6, // depth = 19
    6.778303355805395E-7,  // depth = 20
    3.389151516386149E-7,  // depth = 21
    1.69457571754776E-7,   // depth = 22
    8.472878485272006E-8,  // depth = 23
    4.236439215502565E-8,  // depth = 24
    2.1182195982014308E-8, // depth = 25
    1.0591097960375205E-8, // depth = 26
    5.295548939447981E-9,  // depth = 27
    2.647774429917369E-9,  // depth = 28
    1.3238871881399636E-9  // depth = 29
];

// Idee pour cone: surface du cone => ncells !! (facteur variant 8, 4, 2, ... 1.2 

/// Latitude, in the equatorial region, for which the distance from the cell center to its four
/// vertices is almost equal on the sky (i.e. the shape of the cell on the sky is close to a square).
/// The larger the depth, the better the approximation (based on differential calculus).
/// > dX = dY = 1 / nside (center to vertex distance)
/// > X = 4/pi * lon     => dX = 4/pi dlon
/// > Y = 3/2 * sin(lat) => dY = 3/2 * cos(lat) dlat
/// > dlon * cos(lat) = dlat (same distance on the sky)
/// > => cos^2(lat) = 2/3 * 4/pi
/// > => lat = arccos(sqrt(2/3 * 4/pi)) ~= 22.88 deg ~= 0.39934 rad
/// 
/// ```rust
/// use cdshealpix::{TRANSITION_Z, FOUR_OVER_PI, LAT_OF_SQUARE_CELL};
/// assert!(f64::abs(f64::acos(f64::sqrt(TRANSITION_Z * FOUR_OVER_PI)) - LAT_OF_SQUARE_CELL) < 1e-15_f64);
/// ```
pub static LAT_OF_SQUARE_CELL: f64 = 0.39934019947897773410_f64;

/// Verification hook (only with `--cfg cdshealpix_verif`): read access to the private table used by
/// `best_starting_depth`, so that its lookup can be checked against the table actually used.
#[cfg(cdshealpix_verif)]
pub fn verif_smaller_edge2opedge_dist(depth: u8) -> f64 { SMALLER_EDGE2OPEDGE_DIST[depth as usize] }
/// Simply the consine of LAT_OF_SQUARE_CELL
static COS_LAT_OF_SQUARE_CELL: f64 = 0.92131773192356127804_f64;

/// Array storing pre-computed values for each of the 30 possible depth (from 0 to 29)
/// Info: I would have prefered to compute those quantities at compilation time, and thus have
/// a `static CSTS_C2V: [ConstantsC2V; 30]`. Unfortunately:
/// - macro do not seems work with static arrays
/// - const fn is not stable and can only use const fn (so no min/max/sin/ ...) :o/
static mut CSTS_C2V: [Option<ConstantsC2V>; 30] = [
  None, None, None, None, None, None, None, None, None, None, None, None, None, None, None,
  None, None, None, None, None, None, None, None, None, None, None, None, None, None, None
];
// Found here: https://stackoverflow.com/questions/28656387/initialize-a-large-fixed-size-array-with-non-copy-types
// I wanted to use it to set a static array. So far it is not possible.
// I hope in the future to be able to compute such an array at compilation time.
/*macro_rules! make_array {
  ($n: expr, $constructor: expr) => {
    {
      let mut items: [_; $n] = mem::uninitialized();
      for (i, place) in items.iter_mut().enumerate() {
          ptr::write(place, $constructor(i as u8));
      }
      items
    }
  }
}
static CSTS_C2V: [ConstantsC2V; 30] = unsafe { make_array!(30, |depth| new_cst_c2v(depth)) };
*/

/*
/// Defines a simple range `from` a given index (inclusive) `to` a given index (exclusive) 
pub struct Range {
  pub from: u64,
  pub to: u64,
}

impl Range {
  
  pub fn new(from: u64, to: u64) -> Range {
    if from >= to {
      panic!("Illegal argument: from '{}' must be lower than to '{}'.", from, to);
    }
    new_unsafe(from, to)
  }
  
  fn new_unsafe(from: u64, to: u64) -> Range {
    Range{from, to}
  }
  
}
*/

/// See the get_or_create function, each object is used for the lazy instantiation of the 
/// layer of the corresponding depht.
/// Info: Unfortunatly Default::default(); do no work with static arrays :o/
static CSTS_C2V_INIT: [Once; 30] = [
  Once::new(), Once::new(), Once::new(), Once::new(), Once::new(), Once::new(), Once::new(),
  Once::new(), Once::new(), Once::new(), Once::new(), Once::new(), Once::new(), Once::new(),
  Once::new(), Once::new(), Once::new(), Once::new(), Once::new(), Once::new(), Once::new(),
  Once::new(), Once::new(), Once::new(), Once::new(), Once::new(), Once::new(), Once::new(),
  Once::new(), Once::new()
];
/// Lazy factory method: instantiate a new Layer at the first call for a given depth; after the 
/// first call, returns an already instantiated Layer.
/// # Info
/// This method resort to a double-checked lock, ensuring thread-safety.
fn get_or_create(depth: u8) -> &'static ConstantsC2V {
  unsafe {
    // Inspired from the Option get_or_insert_with method, modified to ensure thread safety with
    // https://doc.rust-lang.org/std/sync/struct.Once.html
    // This implements a double-checked lock
    // The slot must not be read before the `Once` is completed: another thread may be writing it (data race;
    // partially initialized constants were observed). `call_once` is a simple atomic load once completed.
    CSTS_C2V_INIT[depth as usize].call_once(|| {
      CSTS_C2V[depth as usize] = Some(ConstantsC2V::new(depth));
    });
    match CSTS_C2V[depth as usize] {
      Some(ref v) => v,
      _ => unreachable!(),
    }
  }
}

struct ConstantsC2V {
  slope_npc: f64,
  intercept_npc: f64,
  slope_eqr: f64,
  intercept_eqr: f64,
  coeff_x2_eqr: f64,
  coeff_cst_eqr: f64,
}

impl ConstantsC2V {
 fn new(depth: u8) -> ConstantsC2V {
    #[cfg(cdshealpix_verif)]
    verif_hooks::on_construct(verif_hooks::TABLE_C2V, depth);
    let nside = nside_unsafe(depth);
    let dist_cw = 1.0_f64 / (nside as f64); // Center to West (or East) vertex distance on the transition latitude
    let one_min_dist_cw = 1.0_f64 - dist_cw;
    // NPC, see comment of function largest_c2v_dist_in_npc()
    let lat_north = f64::asin(1_f64 - (pow2(one_min_dist_cw) / 3_f64));
    let mut d_min = lat_north - TRANSITION_LATITUDE;
    let mut d_max: f64 = sphe_dist(
      squared_half_segment(
        PI_OVER_FOUR * dist_cw, d_min,
        lat_north.cos(),  TRANSITION_LATITUDE.cos()));
    // - linear approx
    let slope_npc: f64 = (d_max - d_min) / (PI_OVER_FOUR * one_min_dist_cw); // a = (yB - yA) / (xB - xA); with xA = 0
    let intercept_npc: f64 = d_min;                                          // b = yA - a * xA          ; with xA = 0
    // EQR TOP, see comment of function largest_c2v_dist_in_eqr_top()
    d_min =  FOUR_OVER_PI * dist_cw * COS_LAT_OF_SQUARE_CELL;
    d_max = TRANSITION_LATITUDE - f64::asin(one_min_dist_cw * TRANSITION_Z);
    let slope_eqr: f64 = (d_max - d_min) / (TRANSITION_LATITUDE - LAT_OF_SQUARE_CELL); // a = (yB - yA) / (xB - xA) 
    let intercept_eqr: f64 = d_min - slope_eqr * LAT_OF_SQUARE_CELL;                   // b = yA - a * xA 
    // EQR BOTTOM,  see comment of function largest_c2v_dist_in_eqr_bottom()
    d_max = FOUR_OVER_PI * dist_cw;
    let coeff_cst_eqr: f64 = d_max;
    let coeff_x2_eqr: f64 = (d_min - d_max) / pow2(LAT_OF_SQUARE_CELL);
    // Struct creation
    ConstantsC2V {
      slope_npc,
      intercept_npc,
      slope_eqr,
      intercept_eqr,
      coeff_x2_eqr,
      coeff_cst_eqr
    }
  }
}

#[inline]
fn haversine_dist(p1_lon: f64, p1_lat: f64, p2_lon: f64, p2_lat: f64) -> f64 {
  let shs = squared_half_segment(
    p2_lon - p1_lon, p2_lat - p1_lat, 
    p1_lat.cos(), p2_lat.cos());
  sphe_dist(shs)
}

/// Returns the angular distance corresponding to the given squared half great-circle arc segment
#[inline]
fn sphe_dist(squared_half_segment: f64) -> f64 {
  squared_half_segment.sqrt().asin().twice()
}

/// Returns `(s/2)^2` with `s` the segment (i.e. the Euclidean distance) between 
/// the two given points  `P1` and `P2` on the unit-sphere.
/// We recall that `s = 2 sin(ad/2)` with `ad` the angular distance between the two points.
/// # Input
/// - `dlon` the longitude difference, i.e. (P2.lon - P1.lon), in radians
/// - `dlat` the latitude difference, i.e. (P2.lat - P1.lat), in radians
/// - `cos_lat1` cosine of the latitude of the first point
/// - `cos_lat2` cosine of the latitude of the second point
#[inline]
fn squared_half_segment(dlon: f64, dlat: f64, cos_lat1: f64, cos_lat2: f64) -> f64 {
  dlat.half().sin().pow2() + cos_lat1 * cos_lat2 * dlon.half().sin().pow2()
}


#[inline]
fn to_squared_half_segment(spherical_distance: f64) -> f64 {
  spherical_distance.half().sin().pow2()
}

/*#[inline]
fn to_squared_half_segments(spherical_distances: &mut [f64]) {
  spherical_distances.iter_mut().for_each(|d| *d = to_squared_half_segment(*d));
}*/

#[inline]
fn pow2(x: f64) -> f64 {
  x * x
}

/*impl f64 {
  #[inline]
  pub fn pow2(self) -> f64 {
    self * self
  }
}*/

/// Simple trait used to implements `pow2`, `twice` and `half` on f64.
pub trait Customf64 {
  fn pow2(self) -> f64;
  fn twice(self) -> f64;
  fn half(self) -> f64;
  fn div_eucl(self, rhs: f64) -> f64;
}

impl Customf64 for f64 {
  /// Returns x^2
  #[inline]
  fn pow2(self) -> f64 {
    self * self // or powi ?
  }
  /// Returns 2 * x
  #[inline]
  fn twice(self) -> f64 {
    2.0 * self // self + self (I hope the compiler know the simple shift bit to be used for x2)
  }
  /// Returns x / 2
  #[inline]
  fn half(self) -> f64 {
    0.5 * self
  }

  /// [Duplicated code](https://doc.rust-lang.org/std/primitive.f64.html#method.div_euc), because
  /// it is unstable so far.
  #[inline]
  fn div_eucl(self, rhs: f64) -> f64 {
    let q = (self / rhs).trunc();
    if self % rhs < 0.0 {
      return if rhs > 0.0 { q - 1.0 } else { q + 1.0 }
    }
    q
  }
}
// All types that implement `f64` get methods defined in `Customf64` for free.
// impl<F: f64> Customf64 for F {}*/


/// Returns an upper limit on the distance between a cell center around the given position 
/// and its furthest vertex.
/// # Params
/// - `depth` the depth of the cell
/// - `lon` the longitude of the point on the unit-sphere, in radians 
/// - `lat` the latitude of the point on the unit-sphere, in radians
/// 
/// # Result
/// The following plot shows, for the depth 8, the real largest distances (in red) and the result
/// of this method (in blue).  
/// WARNING: the units of `(lon, lat)` on the plot are *degrees*, while the distance is in *mas*  
/// Credit: plot made using [TOPCAT](http://www.star.bris.ac.uk/~mbt/topcat/)
/// ![CenterToVertexDist](https://raw.githubusercontent.com/cds-astro/cds-healpix-rust/master/resources/4doc/d_center_vertex.png)
/// 
pub fn largest_center_to_vertex_distance(depth: u8, lon: f64, lat: f64) -> f64 {
  // Specific case for depth 0
  if depth == 0 {
    return HALF_PI - TRANSITION_LATITUDE;
  }
  // Regular case
  let lat_abs = lat.abs();
  if lat_abs >= TRANSITION_LATITUDE {
    largest_c2v_dist_in_npc(lon, get_or_create(depth))
  } else if lat_abs >= LAT_OF_SQUARE_CELL {
    largest_c2v_dist_in_eqr_top(lat_abs, get_or_create(depth))
  } else {
    largest_c2v_dist_in_eqr_bottom(lat_abs, get_or_create(depth))
  }
}

/// Returns an upper limit on the distance between a cell center and it furthest vertex, for
/// all the cells in the region covered by a cone of given center and radius.  
/// It is an extension of [largest_center_to_vertex_distance](#fn.largest_center_to_vertex_distance)
/// # Params
/// - `depth` the depth of the cell
/// - `lon` the longitude of the point on the unit-sphere, in radians 
/// - `lat` the latitude of the point on the unit-sphere, in radians
/// - `radius` the radius of the cone, in radians
///
pub fn largest_center_to_vertex_distance_with_radius(depth: u8, lon: f64, lat: f64, radius: f64) -> f64 {
  // Specific case for depth 0
  if depth == 0 {
    return HALF_PI - TRANSITION_LATITUDE;
  }
  // Regular case
  let lat_abs = lat.abs();
  let lat_max = lat_abs + radius;
  let lat_min = lat_abs - radius;
  if lat_max >= TRANSITION_LATITUDE {
    largest_c2v_dist_in_npc_with_radius(lon, radius, get_or_create(depth))
  } else if lat_min >= LAT_OF_SQUARE_CELL {
    largest_c2v_dist_in_eqr_top_with_radius(lat_abs, radius, get_or_create(depth))
  } else if lat_max <= LAT_OF_SQUARE_CELL {
    largest_c2v_dist_in_eqr_bottom_with_radius(lat_abs, radius, get_or_create(depth))
  } else {
    let csts = get_or_create(depth);
    f64::max(
      largest_c2v_dist_in_eqr_top_with_radius(lat_abs, radius, csts),
      largest_c2v_dist_in_eqr_bottom_with_radius(lat_abs, radius, csts)
    )
  }
}

/// Same as [largest_center_to_vertex_distance_with_radius](#fn.largest_center_to_vertex_distance_with_radius)
/// but making the computation for several depths at the same time.
pub fn largest_center_to_vertex_distances_with_radius(mut from_depth: u8, to_depth: u8, lon: f64, lat: f64, radius: f64) -> Box<[f64]> {
  let mut vec: Vec<f64> = Vec::with_capacity((to_depth - from_depth) as usize);
  // Specific case for depth 0
  if from_depth == 0 {
    vec.push(HALF_PI - TRANSITION_LATITUDE);
    from_depth = 1_u8;
  }
  // Regular case
  let lat_abs = lat.abs();
  let lat_max = lat_abs + radius;
  let lat_min = lat_abs - radius;
  if lat_max >= TRANSITION_LATITUDE {
    let mut lon = (PI_OVER_FOUR - (lon % HALF_PI)).abs();
    lon = f64::min(lon + radius, PI_OVER_FOUR);
    for depth in from_depth..to_depth {
      let csts = get_or_create(depth);
      vec.push(linear_approx(lon, csts.slope_npc, csts.intercept_npc));
    }
  } else if lat_min >= LAT_OF_SQUARE_CELL {
    for depth in from_depth..to_depth {
      vec.push(largest_c2v_dist_in_eqr_top(lat_max, get_or_create(depth)));
    }
  } else if lat_max <= LAT_OF_SQUARE_CELL {
    let val_min = f64::max(lat_min, 0_f64);
    for depth in from_depth..to_depth {
      vec.push(largest_c2v_dist_in_eqr_bottom(val_min, get_or_create(depth))); 
    }
  } else {
    let val_max = f64::min(lat_max, TRANSITION_LATITUDE);
    let val_min = f64::max(lat_min, 0_f64);
    for depth in from_depth..to_depth {
      let csts = get_or_create(depth);
      vec.push(
        f64::max(
          largest_c2v_dist_in_eqr_top(val_max, csts),
          largest_c2v_dist_in_eqr_bottom(val_min, csts)
        )
      );
    }
  }
  vec.into_boxed_slice()
}

/// Returns an upper limit on distance between the center of a cell and its furthest vertex.  
/// We assumes that the cell center is located in the North polar cap region (OR IS ON THE
/// TRANSITION LATITUDE).  
/// We use a linear upper limit based on the longitude.
/// - At the transition latitude, we note CN the distance at a base cell border between:
///   - Cell center (C): (x_c = 1/nside, y_c = 1) => (lon_c = pi/4 * 1/nside, lat_c = TRANSITION_LATITUDE)
///   - North vertex (N): (x_n = 0, y_c = 2 - (1 + 1/nside)) => (lon_n = 0, lat_n = asin(1 - ((1 - 1/nside)^2 / 3)) 
///   - using the Haversine formula and SC defined below:
/// > dMax = CN = 2 * asin(sqrt( sin^2(SC/2)  + sin^2(pi/8) * cos(pi/4 * 1/nside)))
/// - At the transition latitude, we not SC the distance at a base cell center between:
///   - South vertex (S): (lon_s = pi/4, lat_s = TRANSITION_LATITUDE)
///   - Cell center: (lon_c = pi/4,  lat_c = asin(1 - ((1 - 1/nside)^2 / 3))
/// > dMin = SC =  asin(1 - ((1 - 1/nside)^2 / 3)) - TRANSITION_LATITUDE
/// - finally, linear approx:
/// > d = ((lon % pi/2) - pi/4) * (dMax - dMin)/(pi/4 * (1 - 1/nside)) + dMin
#[inline]
fn largest_c2v_dist_in_npc(lon: f64, csts: &ConstantsC2V) -> f64 {
  let lon = (PI_OVER_FOUR - (lon % HALF_PI)).abs();
  debug_assert!(0_f64 <= lon && lon <= PI_OVER_FOUR);
  linear_approx(lon, csts.slope_npc, csts.intercept_npc)
}
/// Same as the above method, but taking into account an additional radius
#[inline]
fn largest_c2v_dist_in_npc_with_radius(lon: f64, radius: f64, csts: &ConstantsC2V) -> f64 {
  debug_assert!(0_f64 < radius);
  let mut lon = (PI_OVER_FOUR - (lon % HALF_PI)).abs();
  debug_assert!(0_f64 <= lon && lon <= PI_OVER_FOUR);
  lon = f64::min(lon + radius, PI_OVER_FOUR);
  linear_approx(lon, csts.slope_npc, csts.intercept_npc)
}

/// Returns an upper limit on distance between the center of a cell and its furthest vertex.  
/// We assumes that the cell center is located in the equatorial region,
/// above the latitude at which cells are squares.
/// We use a linear upper limit based on the latitude.
/// - At the latitude in which cells are squares (lat = LAT_OF_SQUARE_CELL), we note CE the 
///   Center-to-East distance: CE (=CW) =  4/pi * 1/nside * cos(LAT_OF_SQUARE_CELL)
/// > dMin = 4/pi * 1/nside * cos(LAT_OF_SQUARE_CELL)
/// - At the latitude under the transition latitude, we note CN the distance with N on the 
///   transition latitude and C at latitude: y_c = 1 - 1/nside => lat_c = arcsin(y_c * 2/3)
/// > dMax = TRANSITION_LATITUDE - arcsin(y_c * 2/3)
/// - finally, linear approx:
/// > d = (lat - LAT_OF_SQUARE_CELL) * (dMax - dMin)/(TRANSITION_LATITUDE - LAT_OF_SQUARE_CELL) + dMin
#[inline]
fn largest_c2v_dist_in_eqr_top(lat_abs: f64, csts: &ConstantsC2V) -> f64 {
  debug_assert!(LAT_OF_SQUARE_CELL <= lat_abs && lat_abs < TRANSITION_LATITUDE);
  linear_approx(lat_abs, csts.slope_eqr, csts.intercept_eqr)
}
/// Same as the above method, but taking into account an additional radius
#[inline]
fn largest_c2v_dist_in_eqr_top_with_radius(lat_abs: f64, radius: f64, csts: &ConstantsC2V) -> f64 {
  debug_assert!(0_f64 < radius);
  // lat_abs itself may be lower than LAT_OF_SQUARE_CELL (disc overlapping both parts of the equatorial region)
  debug_assert!(LAT_OF_SQUARE_CELL <= lat_abs + radius && lat_abs < TRANSITION_LATITUDE);
  largest_c2v_dist_in_eqr_top(f64::min(lat_abs + radius, TRANSITION_LATITUDE), csts)
}

/// Returns an upper limit on distance between the center of a cell and its furthest vertex.  
/// We assumes that the cell center is located in the equatorial region,
/// bellow the latitude at which cells are squares.
/// We use a parabola approximation upper limit based on the latitude.
/// - At lat = 0, d_max = pi/4 * 1/nside
/// - At lat = LAT_OF_SQUARE_CELL, d_min = 4/pi * 1/nside * cos(LAT_OF_SQUARE_CELL)
/// - Parabola approx: a * lat^2 + b = dist
///   - At lat = 0, b = d_max
///   - At lat = LAT_OF_SQUARE_CELL, a * LAT_OF_SQUARE_CELL^2 + d_max = d_min
///   - => a = (d_min - d_max) / LAT_OF_SQUARE_CELL^2
///   - => a = d_max (cos(LAT_OF_SQUARE_CELL) - 1) / LAT_OF_SQUARE_CELL^2
///   - => dist =  d_max * (1 + (cos(LAT_OF_SQUARE_CELL) - 1) / LAT_OF_SQUARE_CELL^2 * lat^2)
///   - => dist =  d_max * (1 - (1 - cos(LAT_OF_SQUARE_CELL)) / LAT_OF_SQUARE_CELL^2 * lat^2)
#[inline]
fn largest_c2v_dist_in_eqr_bottom(lat_abs: f64, csts: &ConstantsC2V) -> f64 {
  debug_assert!(0_f64 <= lat_abs && lat_abs <= LAT_OF_SQUARE_CELL);
  csts.coeff_x2_eqr * pow2(lat_abs) + csts.coeff_cst_eqr
}
/// Same as the above method, but taking into account an additional radius.
#[inline]
fn largest_c2v_dist_in_eqr_bottom_with_radius(lat_abs: f64, radius: f64, csts: &ConstantsC2V) -> f64 {
  debug_assert!(0_f64 < radius);
  // lat_abs itself may be larger than LAT_OF_SQUARE_CELL (disc overlapping both parts of the equatorial region)
  debug_assert!(0_f64 <= lat_abs && lat_abs - radius <= LAT_OF_SQUARE_CELL);
  largest_c2v_dist_in_eqr_bottom(f64::max(lat_abs - radius, 0_f64), csts)
}

#[inline]
fn linear_approx(x: f64, slope: f64, intercept: f64) -> f64 {
  slope * x + intercept
}

/// Returns, for the given depth, the number of cells along both axis of a base-resolution cell.
///
/// # Input
/// - `depth` must be in `[0, 29]`
///
/// # Output
/// - `nside` = 2^`depth`
///
/// # Panics
/// If `depth` is not valid (see [is_depth](fn.is_depth.html)), this method panics.
///
/// # Examples
///
/// ```rust
/// use cdshealpix::{nside};
///
/// assert_eq!(1, nside(0));
/// assert_eq!(2, nside(1));
/// assert_eq!(4, nside(2));
/// assert_eq!(8, nside(3));
/// assert_eq!(16, nside(4));
/// assert_eq!(32, nside(5));
/// assert_eq!(64, nside(6));
/// assert_eq!(128, nside(7));
/// assert_eq!(256, nside(8));
/// assert_eq!(512, nside(9));
/// assert_eq!(1024, nside(10));
/// assert_eq!(2048, nside(11));
/// assert_eq!(4096, nside(12));
/// assert_eq!(8192, nside(13));
/// assert_eq!(16384, nside(14));
/// assert_eq!(32768, nside(15));
/// assert_eq!(65536, nside(16));
/// assert_eq!(131072, nside(17));
/// assert_eq!(262144, nside(18));
/// assert_eq!(524288, nside(19));
/// assert_eq!(1048576, nside(20));
/// assert_eq!(2097152, nside(21));
/// assert_eq!(4194304, nside(22));
/// assert_eq!(8388608, nside(23));
/// assert_eq!(16777216, nside(24));
/// assert_eq!(33554432, nside(25));
/// assert_eq!(67108864, nside(26));
/// assert_eq!(134217728, nside(27));
/// assert_eq!(268435456, nside(28));
/// assert_eq!(536870912, nside(29));
/// // Using a for loop...
/// for depth in 0..29 {
///     assert_eq!(2u32.pow(depth), nside(depth as u8));
/// }
/// ```
#[inline]
pub fn nside(depth: u8) -> u32 {
    check_depth(depth);
    nside_unsafe(depth)
}

/// Same as [nside](fn.nside.html) except that this version does not check the argument, and thus
/// does not panics if the argument is illegal.
#[inline]
pub const fn nside_unsafe(depth: u8) -> u32 {
    1_u32 << depth
}


/// Returns, for the given difference of depth, the number of cells small cells the large cell
/// contains. If the small cell level is 0, the result is the sqaured nside.
///
/// # Input
/// - `delta_depth` must be in `[0, 29]`
///
/// # Output
/// - `nside^2` = 2^2*`delta_depth`
///
/// # Panics
/// If `delta_depth` is not in `[0, 29]`.
///
/// # Examples
///
/// ```rust
/// use cdshealpix::{nside_square};
/// 
/// for delta_depth in 0..29_u8 {
///     assert_eq!(2u64.pow(2 * delta_depth as u32), nside_square(delta_depth));
/// }
/// ```
#[inline]
pub fn nside_square(delta_depth: u8) -> u64 {
  check_depth(delta_depth);
  nside_square_unsafe(delta_depth)
}

/// Same as [nside_square](fn.nside_square.html) except that this version does not check the argument, 
/// and thus does not panics if the argument is illegal.
#[inline]
pub const fn nside_square_unsafe(delta_depth: u8) -> u64 {
  1_u64 << (delta_depth << 1)
}

#[inline]
fn check_depth(depth: u8) {
    assert!(is_depth(depth), "Expected depth in [0, 29]");
}

/// Returns `true` if the given argument is a valid depth, i.e. if it is <= [DEPTH_MAX](constant.DEPTH_MAX.html). 
#[inline]
pub const fn is_depth(depth: u8) -> bool {
    depth <= DEPTH_MAX
}

/// Returns, for the given `nside`, the number of subdivision of a base-resolution cell (i.e. the depth).
/// For the NESTED scheme only.
/// 
/// # Input
/// - `nside` must be a power of 2 in `[0, 2^29]`
///
/// # Output
/// - `depth` = `log2(nside)`
///
/// # Panics
/// If `nside` is not valid (see [is_nside](fn.is_nside.html)), this method panics.
///
/// # Examples
///
/// ```rust
/// use cdshealpix::{nside, depth};
///
/// for d in 0..29 {
///     assert_eq!(d, depth(nside(d as u8)));
/// }
/// ```
#[inline]
pub fn depth(nside: u32) -> u8 {
    check_nside(nside);
    depth_unsafe(nside)
}

/// Same as [depth](fn.depth.html) except that this version does not check the argument, and thus
/// does not panics if the argument is illegal.
#[inline]
pub const fn depth_unsafe(nside: u32) -> u8 {
    nside.trailing_zeros() as u8
}

#[inline]
fn check_nside(nside: u32) {
    assert!(is_nside(nside), "Nside must be a power of 2 in [1-2^29]");
}

/// Returns `true` if the given argument is a valid `nside` for the NESTED scheme, i.e. 
/// if it is a power of 2, is != 0 and is <= [NSIDE_MAX](constant.NSIDE_MAX.html). 
#[inline]
pub fn is_nside(nside: u32) -> bool {
    is_pow_of_2(nside) && nside > 0 && nside <= NSIDE_MAX
}

/// Determines if an integer is a power of two, including 0.
/// Taken from the "Bit Twiddling Hacks" web page of Sean Eron Anderson.
#[inline]
fn is_pow_of_2(x: u32) -> bool {
    (x & (x - 1)) == 0
}

/// Returns the number of distinct hash value (the number of cells or pixel the unit sphere is
/// devided in) at the given `depth`.
/// 
/// # Input
/// - `depth` must be in `[0, 29]`
///
/// # Output
/// - `n_hash` = `12 * nside^2`
///
/// # Panics
/// If `depth` is not valid (see [is_depth](fn.is_depth.html)), this method panics.
///
/// # Examples
/// 
/// ```rust
/// use cdshealpix::{n_hash};
/// 
/// assert_eq!(12u64, n_hash(0u8));
/// assert_eq!(48u64, n_hash(1u8));
/// assert_eq!(192u64, n_hash(2u8));
/// assert_eq!(768u64, n_hash(3u8));
/// assert_eq!(3072u64, n_hash(4u8));
/// assert_eq!(12288u64, n_hash(5u8));
/// assert_eq!(49152u64, n_hash(6u8));
/// assert_eq!(196608u64, n_hash(7u8));
/// assert_eq!(786432u64, n_hash(8u8));
/// assert_eq!(3145728u64, n_hash(9u8));
/// assert_eq!(12582912u64, n_hash(10u8));
/// assert_eq!(50331648u64, n_hash(11u8));
/// assert_eq!(201326592u64, n_hash(12u8));
/// assert_eq!(805306368u64, n_hash(13u8));
/// assert_eq!(3221225472u64, n_hash(14u8));
/// assert_eq!(12884901888u64, n_hash(15u8));
/// assert_eq!(51539607552u64, n_hash(16u8));
/// assert_eq!(206158430208u64, n_hash(17u8));
/// assert_eq!(824633720832u64, n_hash(18u8));
/// assert_eq!(3298534883328u64, n_hash(19u8));
/// assert_eq!(13194139533312u64, n_hash(20u8));
/// assert_eq!(52776558133248u64, n_hash(21u8));
/// assert_eq!(211106232532992u64, n_hash(22u8));
/// assert_eq!(844424930131968u64, n_hash(23u8));
/// assert_eq!(3377699720527872u64, n_hash(24u8));
/// assert_eq!(13510798882111488u64, n_hash(25u8));
/// assert_eq!(54043195528445952u64, n_hash(26u8));
/// assert_eq!(216172782113783808u64, n_hash(27u8));
/// assert_eq!(864691128455135232u64, n_hash(28u8));
/// assert_eq!(3458764513820540928u64, n_hash(29u8));
/// ```
/// 
#[inline]
pub fn n_hash(depth: u8) -> u64 {
  check_depth(depth);
  n_hash_unsafe(depth)
}

/// Same as [n_hash](fn.n_hash.html) except that this version does not panic if the given `depth` is
/// out of range.
#[inline]
pub const fn n_hash_unsafe(depth: u8) -> u64 { 12u64 << (depth << 1u8) }

/// Returns `true` if the function [best_starting_depth](fn.best_starting_depth.html) is valid
/// for the given argument `d_max_rad`. So if `d_max_rad < ~48 deg`. `d_max_rad` is given in radians.
/// 
/// ```rust
/// use cdshealpix::{has_best_starting_depth};
/// use std::f64::consts::PI;
/// 
/// assert!(!has_best_starting_depth(PI / 3f64));
/// assert!(has_best_starting_depth(PI / 4f64));
/// ```
#[inline]
pub fn has_best_starting_depth(d_max_rad: f64) -> bool {
    d_max_rad < SMALLER_EDGE2OPEDGE_DIST[0]
}

/// Returns the the smallest depth (in `[0, 29]`) at which a shape having the given largest distance
/// from its center to a border overlaps a maximum of 9 cells (the cell containing the center of
/// the shape plus the 8 neighbouring cells).  
/// Info: internally, unrolled binary search loop on 30 pre-computed values (one by depth).

/// @return -1 if the given distance is very large (> ~48deg), else returns the smallest depth
/// (in [0, 29]) at which a shape having the given largest distance from its center to a border
/// overlaps a maximum of 9 cells (the cell containing the center of the shape plus the 8
/// neighbouring cells).
/// 
/// # Input
/// - `d_max_rad` largest possible distance, in radians, between the center and the border of a shape
///
/// # Output
/// - `depth` = the smallest depth (in `[0, 29]`) at which a shape having the given largest distance 
/// from its center to a border overlaps a maximum of 9 cells (the cell containing the center of the
/// shape plus the 8 neighbouring cells).
///
/// # Panics
/// If the given distance is very large (> ~48deg), this function is not valid since the 12 base
/// cells could be overlaped by the shape 
/// (see [has_best_starting_depth](fn.has_best_starting_depth.html)). Thus it panics.
///
/// # Examples
///
/// ```rust
/// use cdshealpix::{best_starting_depth};
/// use std::f64::consts::PI;
///
/// assert_eq!(0, best_starting_depth(PI / 4f64)); // 45 deg
/// assert_eq!(5, best_starting_depth(0.0174533)); //  1 deg
/// assert_eq!(7, best_starting_depth(0.0043632)); // 15 arcmin
/// assert_eq!(9, best_starting_depth(0.0013));    // 4.469 arcmin
/// assert_eq!(15, best_starting_depth(1.454E-5)); // 3 arcsec
/// assert_eq!(20, best_starting_depth(6.5E-7));   // 0.134 arcsec
/// assert_eq!(22, best_starting_depth(9.537E-8)); // 20 mas
/// ```
#[inline]
pub fn best_starting_depth(d_max_rad: f64) -> u8 { // Could have used an Option
    assert!(d_max_rad < SMALLER_EDGE2OPEDGE_DIST[0],
            "Too large value, use first function has_best_starting_depth");
    // Unrolled binary search loop
    if d_max_rad < SMALLER_EDGE2OPEDGE_DIST[29] {
        29
    } else if d_max_rad < SMALLER_EDGE2OPEDGE_DIST[15] {
        if d_max_rad < SMALLER_EDGE2OPEDGE_DIST[22] {
            if d_max_rad < SMALLER_EDGE2OPEDGE_DIST[25] {
                if d_max_rad < SMALLER_EDGE2OPEDGE_DIST[27] {
                    if d_max_rad < SMALLER_EDGE2OPEDGE_DIST[28] {
                        28
                    } else {
                        27
                    } 
                } else if d_max_rad < SMALLER_EDGE2OPEDGE_DIST[26] {
                    26
                } else {
                    25
                } 
            } else if d_max_rad < SMALLER_EDGE2OPEDGE_DIST[24] {
                24
            } else if d_max_rad < SMALLER_EDGE2OPEDGE_DIST[23] {
                23
            } else {
                22
            }
        } else if d_max_rad < SMALLER_EDGE2OPEDGE_DIST[18] {
            if d_max_rad < SMALLER_EDGE2OPEDGE_DIST[20] {
                if d_max_rad < SMALLER_EDGE2OPEDGE_DIST[21] {
                    21
                } else {
                    20
                }
            } else if d_max_rad < SMALLER_EDGE2OPEDGE_DIST[19] {
                19
            } else {
                18
            }
        } else if d_max_rad < SMALLER_EDGE2OPEDGE_DIST[17] {
            17
        } else if d_max_rad < SMALLER_EDGE2OPEDGE_DIST[16] {
            16
        } else {
            15
        }
    } else if d_max_rad < SMALLER_EDGE2OPEDGE_DIST[7] {
        if d_max_rad < SMALLER_EDGE2OPEDGE_DIST[11] {
            if d_max_rad < SMALLER_EDGE2OPEDGE_DIST[13] {
                if d_max_rad < SMALLER_EDGE2OPEDGE_DIST[14] {
                    14
                } else {
                    13
                }
            } else if d_max_rad < SMALLER_EDGE2OPEDGE_DIST[12] {
                12
            } else {
                11
            }
        } else if d_max_rad < SMALLER_EDGE2OPEDGE_DIST[9] {
            if d_max_rad < SMALLER_EDGE2OPEDGE_DIST[10] {
                10
            } else {
                9
            }
        } else if d_max_rad < SMALLER_EDGE2OPEDGE_DIST[8] {
            8
        } else {
            7
        }
    } else if d_max_rad < SMALLER_EDGE2OPEDGE_DIST[3] {
        if d_max_rad < SMALLER_EDGE2OPEDGE_DIST[5] {
            if d_max_rad < SMALLER_EDGE2OPEDGE_DIST[6] {
                6
            } else {
                5
            }
        } else if d_max_rad < SMALLER_EDGE2OPEDGE_DIST[4] {
            4
        } else {
            3
        }
    } else if d_max_rad < SMALLER_EDGE2OPEDGE_DIST[2] {
        2
    } else if d_max_rad < SMALLER_EDGE2OPEDGE_DIST[1] {
        1
    } else {
        0
    }
}

/// Performs the HEALPix projection: `(x, y) = proj(lon, lat)`.  
/// The chosen scale is such that: base cell vertices and center coordinates are integers;
/// the distance from a cell center to its vertices equals one.  
/// This projection is multi-purpose in the sense that if `lon` is in `[-pi, pi]`, then
/// `x` is in `[-4, 4]` and if `lon` is in `[0, 2pi]`, then `x` is in `[0, 8]`.  
/// It means that a same position on the sphere can lead to different positions in the projected 
/// Euclidean plane.
/// 
/// Simplified projection formulae are:
///  - Equatorial region
/// ```math
/// \boxed{
///   \left\{
///     \begin{array}{lcl}
///       X & = & \alpha \times \frac{4}{\pi} \\
///       Y & = & \sin(\delta) \times \frac{3}{2}
///     \end{array}
///   \right.
/// }
/// \Rightarrow
/// \left\{
///   \begin{array}{lcl}
///     \alpha \in [0, 2\pi] & \leadsto &  X \in [0, 8] \\
///     \sin\delta \in [-\frac{2}{3}, \frac{2}{3}] & \leadsto & Y \in [-1, 1]
///   \end{array}
/// \right.
/// ```
///  - Polar caps:
/// ```math
/// \boxed{
///   \left\{
///     \begin{array}{lcl}
///       t & = & \sqrt{3(1-\sin\delta)} \\
///       X & = & (\alpha\frac{4}{\pi} - 1)t+1 \\
///       Y & = & 2 - t
///     \end{array}
///   \right.
/// }
/// \Rightarrow
/// \left\{
///   \begin{array}{l}
///     \alpha \in [0, \frac{\pi}{2}] \\
///     \sin\delta \in ]\frac{2}{3}, 1]
///   \end{array}
/// \right.
/// \leadsto
/// \begin{array}{l}
///    t \in [0, 1[  \\
///    X \in ]0, 2[ \\
///    Y \in ]1, 2]
/// \end{array}
/// ```
/// 
/// It is the responsibility of the caller to homogenize the result according to its needs.
/// ![Proj](https://raw.githubusercontent.com/cds-astro/cds-healpix-rust/master/resources/4doc/hpx_proj.png)
///
/// # Inputs
/// - `lon` longitude in radians, support positive and negative reasonably large values
///   (naive approach, no Cody-Waite nor Payne Hanek range reduction).
/// - `lat` latitude in radians, must be in `[-pi/2, pi/2]`
///
/// # Output
/// - `(x, y)` the projected planar Euclidean coordinates of the point
///    of given coordinates `(lon, lat)` on the unit sphere
///     - `lon` &le; `0` => `x in [-8, 0]`
///     - `lon` &ge; `0` => `x in [0, 8]`
///     - `y in [-2, 2]`
///
/// # Panics
/// If `lat` **not in** `[-pi/2, pi/2]`, this method panics.
///
/// # Examples
/// To obtain the WCS projection (see Calabretta2007), you can write:
/// ```rust
/// use cdshealpix::{HALF_PI, PI_OVER_FOUR, proj};
/// use std::f64::consts::{PI};
///
/// let lon = 25.1f64;
/// let lat = 46.7f64;
///
/// let (mut x, mut y) = proj(lon.to_radians(), lat.to_radians());
/// if x > 4f64 {
///   x -= 8f64;
/// }
/// x *= PI_OVER_FOUR;
/// y *= PI_OVER_FOUR;
///
/// assert!(-PI <= x && x <= PI);
/// assert!(-HALF_PI <= y && y <= HALF_PI);
/// ```
///
/// Other test example:
/// ```rust
/// use cdshealpix::{TRANSITION_LATITUDE, HALF_PI, PI_OVER_FOUR, proj};
///
/// let (x, y) = proj(0.0, 0.0);
/// assert_eq!(0f64, x);
/// assert_eq!(0f64, y);
///
/// assert_eq!((0.0, 1.0), proj(0.0 * HALF_PI, TRANSITION_LATITUDE));
///
/// fn dist(p1: (f64, f64), p2: (f64, f64)) -> f64 {
///     f64::sqrt((p2.0 - p1.0) * (p2.0 - p1.0) + (p2.1 - p1.1) * (p2.1 - p1.1))
/// }
/// assert!(dist((0.0, 0.0), proj(0.0 * HALF_PI, 0.0)) < 1e-15);
/// assert!(dist((0.0, 1.0), proj(0.0 * HALF_PI, TRANSITION_LATITUDE)) < 1e-15);
/// assert!(dist((1.0, 2.0), proj(0.0 * HALF_PI + PI_OVER_FOUR, HALF_PI)) < 1e-15);
/// assert!(dist((2.0, 1.0), proj(1.0 * HALF_PI, TRANSITION_LATITUDE)) < 1e-15);
/// assert!(dist((3.0, 2.0), proj(1.0 * HALF_PI + PI_OVER_FOUR, HALF_PI)) < 1e-15);
/// assert!(dist((4.0, 1.0), proj(2.0 * HALF_PI , TRANSITION_LATITUDE)) < 1e-15);
/// assert!(dist((5.0, 2.0), proj(2.0 * HALF_PI + PI_OVER_FOUR, HALF_PI)) < 1e-15);
/// assert!(dist((6.0, 1.0), proj(3.0 * HALF_PI, TRANSITION_LATITUDE)) < 1e-15);
/// assert!(dist((7.0, 2.0), proj(3.0 * HALF_PI + PI_OVER_FOUR, HALF_PI)) < 1e-15);
/// assert!(dist((0.0, 1.0), proj(4.0 * HALF_PI, TRANSITION_LATITUDE)) < 1e-15);
/// assert!(dist((0.0, 0.0), proj(4.0 * HALF_PI, 0.0)) < 1e-15);
/// assert!(dist((0.0, -1.0), proj(0.0 * HALF_PI, -TRANSITION_LATITUDE)) < 1e-15);
/// assert!(dist((1.0, -2.0), proj(0.0 * HALF_PI + PI_OVER_FOUR, -HALF_PI)) < 1e-15);
/// assert!(dist((2.0, -1.0), proj(1.0 * HALF_PI, -TRANSITION_LATITUDE)) < 1e-15);
/// assert!(dist((3.0, -2.0), proj(1.0 * HALF_PI + PI_OVER_FOUR, -HALF_PI)) < 1e-15);
/// assert!(dist((4.0, -1.0), proj(2.0 * HALF_PI, -TRANSITION_LATITUDE)) < 1e-15);
/// assert!(dist((5.0, -2.0), proj(2.0 * HALF_PI + PI_OVER_FOUR, -HALF_PI)) < 1e-15);
/// assert!(dist((6.0, -1.0), proj(3.0 * HALF_PI, -TRANSITION_LATITUDE)) < 1e-15);
/// assert!(dist((7.0, -2.0), proj(3.0 * HALF_PI + PI_OVER_FOUR, -HALF_PI)) < 1e-15);
/// assert!(dist((0.0, -1.0), proj(4.0 * HALF_PI, -TRANSITION_LATITUDE)) < 1e-15);
///
/// assert!(dist((-0.0, 0.0), proj(-0.0 * HALF_PI, 0.0)) < 1e-15);
/// assert!(dist((-0.0, 1.0), proj(-0.0 * HALF_PI, TRANSITION_LATITUDE)) < 1e-15);
/// assert!(dist((-1.0, 2.0), proj(-0.0 * HALF_PI - PI_OVER_FOUR, HALF_PI)) < 1e-15);
/// assert!(dist((-2.0, 1.0), proj(-1.0 * HALF_PI, TRANSITION_LATITUDE)) < 1e-15);
/// assert!(dist((-3.0, 2.0), proj(-1.0 * HALF_PI - PI_OVER_FOUR, HALF_PI)) < 1e-15);
/// assert!(dist((-4.0, 1.0), proj(-2.0 * HALF_PI , TRANSITION_LATITUDE)) < 1e-15);
/// assert!(dist((-5.0, 2.0), proj(-2.0 * HALF_PI - PI_OVER_FOUR, HALF_PI)) < 1e-15);
/// assert!(dist((-6.0, 1.0), proj(-3.0 * HALF_PI, TRANSITION_LATITUDE)) < 1e-15);
/// assert!(dist((-7.0, 2.0), proj(-3.0 * HALF_PI - PI_OVER_FOUR, HALF_PI)) < 1e-15);
/// assert!(dist((-0.0, 1.0), proj(-4.0 * HALF_PI, TRANSITION_LATITUDE)) < 1e-15);
/// assert!(dist((-0.0, 0.0), proj(-4.0 * HALF_PI, 0.0)) < 1e-15);
/// assert!(dist((-0.0, -1.0), proj(-0.0 * HALF_PI, -TRANSITION_LATITUDE)) < 1e-15);
/// assert!(dist((-1.0, -2.0), proj(-0.0 * HALF_PI - PI_OVER_FOUR, -HALF_PI)) < 1e-15);
/// assert!(dist((-2.0, -1.0), proj(-1.0 * HALF_PI, -TRANSITION_LATITUDE)) < 1e-15);
/// assert!(dist((-3.0, -2.0), proj(-1.0 * HALF_PI - PI_OVER_FOUR, -HALF_PI)) < 1e-15);
/// assert!(dist((-4.0, -1.0), proj(-2.0 * HALF_PI, -TRANSITION_LATITUDE)) < 1e-15);
/// assert!(dist((-5.0, -2.0), proj(-2.0 * HALF_PI - PI_OVER_FOUR, -HALF_PI)) < 1e-15);
/// assert!(dist((-6.0, -1.0), proj(-3.0 * HALF_PI, -TRANSITION_LATITUDE)) < 1e-15);
/// assert!(dist((-7.0, -2.0), proj(-3.0 * HALF_PI - PI_OVER_FOUR, -HALF_PI)) < 1e-15);
/// assert!(dist((-0.0, -1.0), proj(-4.0 * HALF_PI, -TRANSITION_LATITUDE)) < 1e-15);
/// ```
#[inline]
pub fn proj(lon: f64, lat: f64) -> (f64, f64) {
    check_lat(lat);
    let lon = abs_sign_decompose(lon);
    let lat = abs_sign_decompose(lat);
    let x = pm1_offset_decompose(lon.abs * FOUR_OVER_PI);
    let mut xy = (x.pm1, lat.abs);
    if is_in_equatorial_region(lat.abs) {
        proj_cea(&mut xy);
    } else {
        proj_collignon(&mut xy);
    }
    apply_offset_and_signs(&mut xy, x.offset, lon.sign, lat.sign);
    xy
}

/// Returns the hash of the base cell given the coordinates of a points in the Euclidean projection
/// plane.
/// The purpose so far is just to test and compare both speed and precision with the 45deg 
/// rotation solution.
/// 
/// # Input
/// - `(x, y)` the coordinates in the Euclidean projection plane, i.e. $x \in [0, 8[$ 
/// and $y \in [-2, 2]$
/// 
/// # Ouput
/// - `d0h` the hash value of the base cell (i.e. the depth 0 / nside 1 cell)
/// 
/// # Example
/// Simple example based on the center of each base cell.
/// ```rust
/// use cdshealpix::base_cell_from_proj_coo;
/// 
/// assert_eq!(base_cell_from_proj_coo(1.0,  1.0),  0);
/// assert_eq!(base_cell_from_proj_coo(3.0,  1.0),  1);
/// assert_eq!(base_cell_from_proj_coo(5.0,  1.0),  2);
/// assert_eq!(base_cell_from_proj_coo(7.0,  1.0),  3);
/// assert_eq!(base_cell_from_proj_coo(0.0,  0.0),  4);
/// assert_eq!(base_cell_from_proj_coo(2.0,  0.0),  5);
/// assert_eq!(base_cell_from_proj_coo(4.0,  0.0),  6);
/// assert_eq!(base_cell_from_proj_coo(6.0,  0.0),  7);
/// assert_eq!(base_cell_from_proj_coo(1.0, -1.0),  8);
/// assert_eq!(base_cell_from_proj_coo(3.0, -1.0),  9);
/// assert_eq!(base_cell_from_proj_coo(5.0, -1.0), 10);
/// assert_eq!(base_cell_from_proj_coo(7.0, -1.0), 11);
/// ```
pub fn base_cell_from_proj_coo(x: f64, y: f64) -> u8 {
  let mut x = 0.5 * ensures_x_is_positive(x);
  let mut y = 0.5 * (y + 3.0);
  let mut i = x as u8;     debug_assert!(i <= 4); // i == 4 if x == 8 (e.g. -1e-17 + 8): dealt with by the final '& 3'
  let mut j = (y as u8) << 1;  debug_assert!(j == 0 || j == 2 || j == 4);
  x -= i as f64;               debug_assert!(0.0 <= x && x < 1.0);
  y -= (j >> 1) as f64;        debug_assert!(0.0 <= y && y < 1.0);
  let in_northwest = (x <= y) as u8;       // 1/0
  let in_southeast = (x >= 1.0 - y) as u8; // 0\1
  i += in_southeast >> in_northwest; // <=> in_southeast & (1 - in_northwest) => 0 or 1
  j += in_northwest + in_southeast;
  // Rare cases, so few risks of branch miss-prediction:
  // - j = 6: north pole
  // - j = 5 (resp. j = 1): border of a north (resp. south) polar cap base cell (lon = k * pi/2), the
  //   position has been attributed to the gap between the projections of two polar base cells
  if j > 4 { j = 4; } else if j < 2 { j = 2; }
  debug_assert!(j == 2 || j == 3 || j == 4);
  ((4 - j) << 2) + (i & 3) // & 3: i = 4 for x in ]7, 8], i.e. the west part of base cell 4
}

/// Unproject the given HEALPix projected points.  
/// This unprojection is multi-purpose in the sense that:
///  - if input `x` in `[-8, 0[`, then output `lon` in `[-2pi, 0]`
///  - if input `x` in `[ 0, 8]`, then output `lon` in `[0, 2pi]`
///  - output `lat` always in `[-pi/2, pi/2]`
/// 
/// # Inputs
///  - `x` the projected coordinate along the x-axis, supports positive and negative reasonably 
///        large values with a naive approach (no Cody-Waite nor Payne Hanek range reduction).
///  - `y` the projected coordinate along te x-axis, must be in `[-2, 2]`
/// 
/// # Output
/// -  `(lon, lat)` in radians, the position on the unit sphere whose projected coordinates are 
///    the input coordinates `(x, y)`.  
///   - if `x <= 0`, then `lon` in `[-2pi, 0]`;
///   - else if `x >= 0`, the  `lon` in `[0, 2pi]`
///   - `lat` always in `[-pi/2, pi/2]`.
///
/// # Panics
/// If `y` **not in** `[-2, 2]`, this method panics.
///
/// # Examples
/// To obtain the WCS un-projection (see Calabretta2007), you can write:
/// ```rust
/// use cdshealpix::{HALF_PI, FOUR_OVER_PI, unproj};
/// use std::f64::consts::{PI};
///
/// let x = 2.1f64;
/// let y = 0.36f64;
///
/// let (mut lon, mut lat) = unproj(x * FOUR_OVER_PI, y * FOUR_OVER_PI);
/// if lon < 0f64 {
///     lon += 2f64 * PI;
/// }
///
/// assert!(0f64 <= lon && lon <= 2f64 * PI);
/// assert!(-HALF_PI <= lat && lat <= HALF_PI);
/// ```
///
/// Other test example:
/// ```rust
/// use cdshealpix::{TRANSITION_LATITUDE, HALF_PI, PI_OVER_FOUR, proj, unproj};
///
/// fn dist(p1: (f64, f64), p2: (f64, f64)) -> f64 {
///     let sindlon = f64::sin(0.5 * (p2.0 - p1.0));
///     let sindlat = f64::sin(0.5 * (p2.1 - p1.1));
///     2f64 * f64::asin(f64::sqrt(sindlat * sindlat + p1.1.cos() * p2.1.cos() * sindlon * sindlon))
/// }
/// 
/// let points: [(f64, f64); 40] = [
///     (0.0 * HALF_PI, 0.0),
///     (1.0 * HALF_PI, TRANSITION_LATITUDE),
///     (2.0 * HALF_PI, TRANSITION_LATITUDE),
///     (3.0 * HALF_PI, TRANSITION_LATITUDE),
///     (4.0 * HALF_PI, TRANSITION_LATITUDE),
///     (0.0 * HALF_PI + PI_OVER_FOUR, HALF_PI),
///     (1.0 * HALF_PI + PI_OVER_FOUR, HALF_PI),
///     (2.0 * HALF_PI + PI_OVER_FOUR, HALF_PI),
///     (3.0 * HALF_PI + PI_OVER_FOUR, HALF_PI),
///     (4.0 * HALF_PI + PI_OVER_FOUR, HALF_PI),
///     (0.0 * HALF_PI, 0.0),
///     (1.0 * HALF_PI, -TRANSITION_LATITUDE),
///     (2.0 * HALF_PI, -TRANSITION_LATITUDE),
///     (3.0 * HALF_PI, -TRANSITION_LATITUDE),
///     (4.0 * HALF_PI, -TRANSITION_LATITUDE),
///     (0.0 * HALF_PI + PI_OVER_FOUR, -HALF_PI),
///     (1.0 * HALF_PI + PI_OVER_FOUR, -HALF_PI),
///     (2.0 * HALF_PI + PI_OVER_FOUR, -HALF_PI),
///     (3.0 * HALF_PI + PI_OVER_FOUR, -HALF_PI),
///     (4.0 * HALF_PI + PI_OVER_FOUR, -HALF_PI),
///     (-0.0 * HALF_PI, 0.0),
///     (-1.0 * HALF_PI, TRANSITION_LATITUDE),
///     (-2.0 * HALF_PI, TRANSITION_LATITUDE),
///     (-3.0 * HALF_PI, TRANSITION_LATITUDE),
///     (-4.0 * HALF_PI, TRANSITION_LATITUDE),
///     (-0.0 * HALF_PI + PI_OVER_FOUR, HALF_PI),
///     (-1.0 * HALF_PI + PI_OVER_FOUR, HALF_PI),
///     (-2.0 * HALF_PI + PI_OVER_FOUR, HALF_PI),
///     (-3.0 * HALF_PI + PI_OVER_FOUR, HALF_PI),
///     (-4.0 * HALF_PI + PI_OVER_FOUR, HALF_PI),
///     (-0.0 * HALF_PI, 0.0),
///     (-1.0 * HALF_PI, -TRANSITION_LATITUDE),
///     (-2.0 * HALF_PI, -TRANSITION_LATITUDE),
///     (-3.0 * HALF_PI, -TRANSITION_LATITUDE),
///     (-4.0 * HALF_PI, -TRANSITION_LATITUDE),
///     (-0.0 * HALF_PI + PI_OVER_FOUR, -HALF_PI),
///     (-1.0 * HALF_PI + PI_OVER_FOUR, -HALF_PI),
///     (-2.0 * HALF_PI + PI_OVER_FOUR, -HALF_PI),
///     (-3.0 * HALF_PI + PI_OVER_FOUR, -HALF_PI),
///     (-4.0 * HALF_PI + PI_OVER_FOUR, -HALF_PI)
/// ];
/// 
/// for (lon, lat) in points.iter() {
///     let (x, y): (f64, f64) = proj(*lon, *lat);
///     assert!(dist((*lon, *lat), unproj(x, y)) < 1e-15);
/// }
/// ```
#[inline]
pub fn unproj(x: f64, y: f64) -> (f64, f64) {
    check_y(y);
    let x = abs_sign_decompose(x);
    let y = abs_sign_decompose(y);
    let lon = pm1_offset_decompose(x.abs);
    let mut lonlat= (lon.pm1, y.abs);
    if is_in_projected_equatorial_region(y.abs) {
        deproj_cea(&mut lonlat);
    } else {
        deproj_collignon(&mut lonlat);
    }
    apply_offset_and_signs(&mut lonlat, lon.offset, x.sign, y.sign);
    lonlat.0 *= PI_OVER_FOUR;
    lonlat
}

/// In the case we want the projection to return values `x in [0, 8]`, we just have to apply
/// this method to the returned `x` value.
#[inline]
pub(crate) fn ensures_x_is_positive(x: f64) -> f64 {
  if x < 0.0 { x + 8.0 } else { x }
}

/// Verify that the latitude is in [-PI/2, PI/2], panics if not.
#[inline]
fn check_lat(lat: f64) {
    assert!(-HALF_PI <= lat && lat <= HALF_PI);
}

/// Verify that the projected y coordinate is in [-2, 2], panics if not.
#[inline]
fn check_y(y: f64) { assert!(-2f64 <= y && y <= 2f64); }

/// Returns `true` if the point of given (absolute value of) latitude is in the equatorial region,
/// and `false` if it is located in one of the two polar caps
#[inline]
pub fn is_in_equatorial_region(abs_lat: f64) -> bool {
    abs_lat <= TRANSITION_LATITUDE
}

/// Returns `true` if the point of given (absolute value of) y coordinate in the projected plane
/// is in the equatorial region, and `false` if it is located in one of the two polar caps
#[inline]
pub fn is_in_projected_equatorial_region(abs_y: f64) -> bool { abs_y <= 1.0 }

// Returns the absolute value of the given double together with its bit of sign
struct AbsAndSign {
    abs: f64,
    sign: u64,
}
#[inline]
pub(crate) fn abs_sign_decompose(x: f64) -> AbsAndSign {
    let bits = f64::to_bits(x);
    AbsAndSign {
        abs: f64::from_bits(bits & F64_BUT_SIGN_BIT_MASK),
        sign: bits & F64_SIGN_BIT_MASK,
    }
}

// Decompose the given positive real value in
// --* an integer offset in [1, 3, 5, 7] (*PI/4) and
// --* a real value in [-1.0, 1.0] (*PI/4)
pub(crate) struct OffsetAndPM1 {
    offset: u8, // = 1, 3, 5 or 7
    pm1: f64,   // in [-1.0, 1.0]
}
#[inline]
pub(crate) fn pm1_offset_decompose(x: f64) -> OffsetAndPM1 {
    let floor: u8 = x as u8;
    let odd_floor: u8 = floor | 1u8;
    OffsetAndPM1 {
        offset: odd_floor & 7u8, // value modulo 8
        pm1: x - (odd_floor as f64),
    }
}

// Cylindrical Equal Area projection
#[inline]
pub(crate) fn proj_cea(xy: &mut (f64, f64)) {
    let (_, ref mut y) = *xy;
    *y = f64::sin(*y) * ONE_OVER_TRANSITION_Z;
}
#[inline]
fn deproj_cea(lonlat: &mut (f64, f64)) {
    let (_, ref mut lat) = *lonlat;
    // Using asin is OK here since |lat*TRANSITION_Z| < 2/3, so not near from 1.
    *lat = f64::asin((*lat) * TRANSITION_Z);
}

// Collignon projection
#[inline]
pub(crate) fn proj_collignon(xy: &mut (f64, f64)) {
    let (ref mut x, ref mut y) = *xy;
    *y = SQRT6 * f64::cos(HALF * *y + PI_OVER_FOUR);
    *x *= *y;
    *y = 2.0 - *y;
}
#[inline]
fn deproj_collignon(lonlat: &mut (f64, f64)) {
    let (ref mut lon, ref mut lat) = *lonlat;
    *lat = 2.0 - *lat;
    if is_not_near_from_pole(*lat) { // Rare, so few risks of branch miss-prediction
        *lon /= *lat;
        deal_with_numerical_approx_in_edges(lon);
    } // in case of pole, lon = lat = 0 (we avoid NaN due to division by lat=0)
    *lat *= ONE_OVER_SQRT6;
    // Using acos is OK here since lat < 1/sqrt(6), so not near from 1.
    *lat = 2.0 * f64::acos(*lat) - HALF_PI;
}

#[inline]
fn is_not_near_from_pole(sqrt_of_three_time_one_minus_sin_of: f64) -> bool {
    // In case of pole: x = y = 0
    sqrt_of_three_time_one_minus_sin_of > EPS_POLE
}

#[inline]
fn deal_with_numerical_approx_in_edges(lon: &mut f64) {
    if *lon > 1.0 {
        *lon = 1.0;
    } else if *lon < -1.0 {
        *lon = -1.0;
    }
}

// Shift x by the given offset and apply lon and lat signs to x and y respectively
#[inline]
pub(crate) fn apply_offset_and_signs(ab: &mut (f64, f64), off: u8, a_sign: u64, b_sign: u64) {
    let (ref mut a, ref mut b) = *ab;
    *a += off as f64;
    *a = f64::from_bits(f64::to_bits(*a) | a_sign);
    *b = f64::from_bits(f64::to_bits(*b) | b_sign);
}

#[cfg(cdshealpix_verif)]
pub mod verif_hooks;

// Import module compass point
pub mod compass_point;
pub mod external_edge;
use crate::compass_point::{MainWind};
use crate::compass_point::MainWind::*;

/// Compute the base cell value which is the neighbour of the given base cell, in the given direction.  
/// There is no neighbour:
/// - in the North and South directions for the equatorial region cells (i.e. cells 4, 5, 6 and 7)
/// - in the East and West directions for:
///   - the north polar cap cells (i.e. cells 0, 1, 2 and 3)
///   - the south polar cap cells (i.e. cells 8, 9, 10 and 11)  
pub fn neighbour(base_cell: u8, direction: MainWind) -> Option<u8> {
  if direction == MainWind::C {
    Some(base_cell)
  } else {
    let d0h_mod_4 = base_cell & 3_u8;  // <=> base_cell modulo 4
    match base_cell >> 2 { // <=> basce_cell / 4
      0 => npc_neighbour(d0h_mod_4, direction),
      1 => eqr_neighbour(d0h_mod_4, direction),
      2 => spc_neighbour(d0h_mod_4, direction),
      _ => panic!("Base cell must be in [0, 12["),
    }
  }
}

fn npc_neighbour(d0h_mod_4: u8, direction: MainWind) -> Option<u8> {
  match direction {
     S => base_cell_opt(iden(d0h_mod_4), 2),
    SE => base_cell_opt(next(d0h_mod_4), 1),
    SW => base_cell_opt(iden(d0h_mod_4), 1),
    NE => base_cell_opt(next(d0h_mod_4), 0),
    NW => base_cell_opt(prev(d0h_mod_4), 0),
     N => base_cell_opt(oppo(d0h_mod_4), 0),
    _ => None,
  }  
}

fn eqr_neighbour(d0h_mod_4: u8, direction: MainWind) -> Option<u8> {
  match direction {
    SE => base_cell_opt(iden(d0h_mod_4), 2),
     E => base_cell_opt(next(d0h_mod_4), 1),
    SW => base_cell_opt(prev(d0h_mod_4), 2),
    NE => base_cell_opt(iden(d0h_mod_4), 0),
     W => base_cell_opt(prev(d0h_mod_4), 1),
    NW => base_cell_opt(prev(d0h_mod_4), 0),
    _ => None,
  }
}

fn spc_neighbour(d0h_mod_4: u8, direction: MainWind) -> Option<u8> {
  match direction {
     S => base_cell_opt(oppo(d0h_mod_4), 2),
    SE => base_cell_opt(next(d0h_mod_4), 2),
    SW => base_cell_opt(prev(d0h_mod_4), 2),
    NE => base_cell_opt(next(d0h_mod_4), 1),
    NW => base_cell_opt(iden(d0h_mod_4), 1),
     N => base_cell_opt(iden(d0h_mod_4), 0),
    _ => None,
  }
}

/// Returns the direction of a cell on the inner edge of the given base cell from its neighbour 
/// located at the given direction in a different base cell.
/// # Inputs
/// - `base_cell` the base cell containing the sub-cell we are looking for the direction from its
///   neighbour in the given `neighbour_direction`
/// - `inner_direction` the direction of the sub-cell in the edge of the given base cell
/// - `neighbour_direction` direction of the neighbour of the sub-cell from which we are looking 
///    at the direction of the sub-cell
///   
pub fn edge_cell_direction_from_neighbour(base_cell: u8, inner_direction: &MainWind, neighbour_direction: &MainWind) -> MainWind {
  match base_cell >> 2 { // <=> basce_cell / 4
    0 => npc_egde_direction_from_neighbour(inner_direction, neighbour_direction),
    1 => eqr_edge_direction_from_neighbour(inner_direction, neighbour_direction),
    2 => spc_edge_direction_from_neighbour(inner_direction, neighbour_direction),
    _ => panic!("Base cell must be in [0, 12["),
  }
}

fn npc_egde_direction_from_neighbour(inner_direction: &MainWind, neighbour_direction: &MainWind) -> MainWind {
  match neighbour_direction {
    C => panic!(format!("No neighbour in direction {:?}", &neighbour_direction)),
    E => match inner_direction {
      N | NE => N,
      E => panic!(format!("No neighbour in direction {:?}", &neighbour_direction)),
      S | SE => neighbour_direction.opposite(),
      _ => unreachable!(),
    },
    W => match inner_direction {
      N | NW => N,
      W => panic!(format!("No neighbour in direction {:?}", &neighbour_direction)),
      S | SW => neighbour_direction.opposite(),
      _ => unreachable!(),
    },
    NE => {
      println!("{:?}", inner_direction);
      assert!(*inner_direction == N || *inner_direction == E || *inner_direction == NE);
      NW
    },
    NW => {
      assert!(*inner_direction == N || *inner_direction == W || *inner_direction == NW);
      NE
    },
    N  => match inner_direction {
      N => N,
      E | NE => W,
      W | NW => E,
      _ => unreachable!(),
    },
    _ => neighbour_direction.opposite(),
  }
}

fn eqr_edge_direction_from_neighbour(_inner_direction: &MainWind, neighbour_direction: &MainWind) -> MainWind {
  neighbour_direction.opposite()
}

fn spc_edge_direction_from_neighbour(inner_direction: &MainWind, neighbour_direction: &MainWind) -> MainWind {
  match neighbour_direction {
    C => panic!(format!("No neighbour in direction {:?}", &neighbour_direction)),
    E => match inner_direction {
      S | SE => S,
      E => panic!(format!("No neighbour in direction {:?}", &neighbour_direction)),
      N | NE => neighbour_direction.opposite(),
      _ => unreachable!(),
    },
    W => match inner_direction {
      S | SW => S,
      W => panic!(format!("No neighbour in direction {:?}", &neighbour_direction)),
      N | NW => neighbour_direction.opposite(),
      _ => unreachable!(),
    },
    SE => {
      assert!(*inner_direction == S || *inner_direction == E || *inner_direction == SE);
      SW
    },
    SW => {
      assert!(*inner_direction == S || *inner_direction == W || *inner_direction == SW);
      SE
    },
    S  => match inner_direction {
      S => S,
      E | SE => W,
      W | SW => E,
      _ => unreachable!(),
    },
    _ => neighbour_direction.opposite(),
  }
}

/// Returns the direction of the given base cell from its neighbour base cell located 
/// in the given direction.
/// # Panics
/// If the base cell has no neighbour in the given direction (i.e. N/S for equatorial cells
/// and E/W for polar caps cells)
pub fn direction_from_neighbour(base_cell: u8, neighbour_direction: &MainWind) -> MainWind {
  match base_cell >> 2 { // <=> basce_cell / 4
    0 => npc_direction_from_neighbour(neighbour_direction),
    1 => eqr_direction_from_neighbour(neighbour_direction),
    2 => spc_direction_from_neighbour(neighbour_direction),
    _ => panic!("Base cell must be in [0, 12["),
  }
}

fn npc_direction_from_neighbour(neighbour_direction: &MainWind) -> MainWind {
  match neighbour_direction {
    E | W | C => panic!(format!("No neighbour in direction {:?}", &neighbour_direction)),
    NE => NW,
    NW => NE,
    N  => N,
    _ => neighbour_direction.opposite(),
  }
}

fn eqr_direction_from_neighbour(neighbour_direction: &MainWind) -> MainWind {
  match neighbour_direction {
    S | N | C => panic!(format!("No neighbour in direction {:?}", &neighbour_direction)),
    _ => neighbour_direction.opposite(),
  }
}

fn spc_direction_from_neighbour(neighbour_direction: &MainWind) -> MainWind {
  match neighbour_direction {
    E | W | C => panic!(format!("No neighbour in direction {:?}", &neighbour_direction)),
    S  => S,
    SE => SW,
    SW => SE,
    _ => neighbour_direction.opposite(),
  }
}

/// Returns (mod4 - 1) in [0, 2], and 3 if mod4 == 0 (i.e. the previous value in [0, 3] range)
#[inline]
fn prev(mod4: u8) -> u8 {
  debug_assert!(mod4 < 4);
  (((mod4 as i8) - 1) & 3) as u8
}

/// Returns (mod4 + 1) in [1, 3], and 0 if mod4 == 3 (i.e. the next value in [0, 3] range)
#[inline]
fn next(mod4: u8) -> u8 {
  debug_assert!(mod4 < 4);
  (mod4 + 1) & 3
}

/// Returns (mod4 + 2) in [2, 3], and 0 if mod4 == 2 and 1 if mod4 == 3 (i.e. the opposite value in [0, 3] range)
#[inline]
fn oppo(mod4: u8) -> u8 {
  debug_assert!(mod4 < 4);
  (mod4 + 2) & 3
}

/// Returns the input value: useless, just used to improve code legibility
#[inline]
fn iden(mod4: u8) -> u8 {
  debug_assert!(mod4 < 4);
  mod4
}

#[inline]
fn base_cell_opt(i: u8, j: u8) -> Option<u8> {
  Some(base_cell(i, j))
}

/// Compute the base cell from its (i, j) coordinates:
/// - i: index along the longitude axis ( = base_cell modulo 4)
/// - j: index along the latitude axis ( = base_cell / 4)
///   - = 0 for the cells covering the north polar cap
///   - = 1 for the cells with are only in the equatorial region
///   - = 2 for the cells covering the south polar cap
#[inline]
fn base_cell(i: u8, j: u8) -> u8 {
  debug_assert!(i < 4 && j < 3);
  (j << 2) + i
}


/// Module containing NESTED scheme methods
pub mod nested;

/// Module containing RING scheme methods
pub mod ring;

/// No need to make those public!
mod xy_geom;
pub mod sph_geom;
mod special_points_finder;

#[cfg(test)]
mod tests {
  use super::*;

  #[test]
  fn testok_nside() {
    assert_eq!(1, nside(0));
    assert_eq!(2, nside(1));
    assert_eq!(4, nside(2));
    assert_eq!(8, nside(3));
    assert_eq!(16, nside(4));
    assert_eq!(32, nside(5));
    assert_eq!(64, nside(6));
    assert_eq!(128, nside(7));
    assert_eq!(256, nside(8));
    assert_eq!(512, nside(9));
    assert_eq!(1024, nside(10));
    assert_eq!(2048, nside(11));
    assert_eq!(4096, nside(12));
    assert_eq!(8192, nside(13));
    assert_eq!(16384, nside(14));
    assert_eq!(32768, nside(15));
    assert_eq!(65536, nside(16));
    assert_eq!(131072, nside(17));
    assert_eq!(262144, nside(18));
    assert_eq!(524288, nside(19));
    assert_eq!(1048576, nside(20));
    assert_eq!(2097152, nside(21));
    assert_eq!(4194304, nside(22));
    assert_eq!(8388608, nside(23));
    assert_eq!(16777216, nside(24));
    assert_eq!(33554432, nside(25));
    assert_eq!(67108864, nside(26));
    assert_eq!(134217728, nside(27));
    assert_eq!(268435456, nside(28));
    assert_eq!(536870912, nside(29));
  }

  #[test]
  #[should_panic]
  fn testpanic_nside() {
    nside(30);
  }

  #[test]
  fn testok_proj() {
    fn dist(p1: (f64, f64), p2: (f64, f64)) -> f64 {
      f64::sqrt((p2.0 - p1.0) * (p2.0 - p1.0) + (p2.1 - p1.1) * (p2.1 - p1.1))
    }
    // println!("{:?}", proj(0.0, TRANSITION_LATITUDE));
    // println!("{}", dist((0.0, 1.0), proj(0.0, TRANSITION_LATITUDE)));
    assert!(dist((0.0, 0.0), proj(0.0 * HALF_PI, 0.0)) < 1e-15);
    assert!(dist((0.0, 1.0), proj(0.0 * HALF_PI, TRANSITION_LATITUDE)) < 1e-15);
    assert!(dist((1.0, 2.0), proj(0.0 * HALF_PI + PI_OVER_FOUR, HALF_PI)) < 1e-15);
    assert!(dist((2.0, 1.0), proj(1.0 * HALF_PI, TRANSITION_LATITUDE)) < 1e-15);
    assert!(dist((3.0, 2.0), proj(1.0 * HALF_PI + PI_OVER_FOUR, HALF_PI)) < 1e-15);
    assert!(dist((4.0, 1.0), proj(2.0 * HALF_PI, TRANSITION_LATITUDE)) < 1e-15);
    assert!(dist((5.0, 2.0), proj(2.0 * HALF_PI + PI_OVER_FOUR, HALF_PI)) < 1e-15);
    assert!(dist((6.0, 1.0), proj(3.0 * HALF_PI, TRANSITION_LATITUDE)) < 1e-15);
    assert!(dist((7.0, 2.0), proj(3.0 * HALF_PI + PI_OVER_FOUR, HALF_PI)) < 1e-15);
    assert!(dist((0.0, 1.0), proj(4.0 * HALF_PI, TRANSITION_LATITUDE)) < 1e-15);
    assert!(dist((0.0, 0.0), proj(4.0 * HALF_PI, 0.0)) < 1e-15);
    assert!(dist((0.0, -1.0), proj(0.0 * HALF_PI, -TRANSITION_LATITUDE)) < 1e-15);
    assert!(dist((1.0, -2.0), proj(0.0 * HALF_PI + PI_OVER_FOUR, -HALF_PI)) < 1e-15);
    assert!(dist((2.0, -1.0), proj(1.0 * HALF_PI, -TRANSITION_LATITUDE)) < 1e-15);
    assert!(dist((3.0, -2.0), proj(1.0 * HALF_PI + PI_OVER_FOUR, -HALF_PI)) < 1e-15);
    assert!(dist((4.0, -1.0), proj(2.0 * HALF_PI, -TRANSITION_LATITUDE)) < 1e-15);
    assert!(dist((5.0, -2.0), proj(2.0 * HALF_PI + PI_OVER_FOUR, -HALF_PI)) < 1e-15);
    assert!(dist((6.0, -1.0), proj(3.0 * HALF_PI, -TRANSITION_LATITUDE)) < 1e-15);
    assert!(dist((7.0, -2.0), proj(3.0 * HALF_PI + PI_OVER_FOUR, -HALF_PI)) < 1e-15);
    assert!(dist((0.0, -1.0), proj(4.0 * HALF_PI, -TRANSITION_LATITUDE)) < 1e-15);

    assert!(dist((-0.0, 0.0), proj(-0.0 * HALF_PI, 0.0)) < 1e-15);
    assert!(dist((-0.0, 1.0), proj(-0.0 * HALF_PI, TRANSITION_LATITUDE)) < 1e-15);
    assert!(dist((-1.0, 2.0), proj(-0.0 * HALF_PI - PI_OVER_FOUR, HALF_PI)) < 1e-15);
    assert!(dist((-2.0, 1.0), proj(-1.0 * HALF_PI, TRANSITION_LATITUDE)) < 1e-15);
    assert!(dist((-3.0, 2.0), proj(-1.0 * HALF_PI - PI_OVER_FOUR, HALF_PI)) < 1e-15);
    assert!(dist((-4.0, 1.0), proj(-2.0 * HALF_PI, TRANSITION_LATITUDE)) < 1e-15);
    assert!(dist((-5.0, 2.0), proj(-2.0 * HALF_PI - PI_OVER_FOUR, HALF_PI)) < 1e-15);
    assert!(dist((-6.0, 1.0), proj(-3.0 * HALF_PI, TRANSITION_LATITUDE)) < 1e-15);
    assert!(dist((-7.0, 2.0), proj(-3.0 * HALF_PI - PI_OVER_FOUR, HALF_PI)) < 1e-15);
    assert!(dist((-0.0, 1.0), proj(-4.0 * HALF_PI, TRANSITION_LATITUDE)) < 1e-15);
    assert!(dist((-0.0, 0.0), proj(-4.0 * HALF_PI, 0.0)) < 1e-15);
    assert!(dist((-0.0, -1.0), proj(-0.0 * HALF_PI, -TRANSITION_LATITUDE)) < 1e-15);
    assert!(dist((-1.0, -2.0), proj(-0.0 * HALF_PI - PI_OVER_FOUR, -HALF_PI)) < 1e-15);
    assert!(dist((-2.0, -1.0), proj(-1.0 * HALF_PI, -TRANSITION_LATITUDE)) < 1e-15);
    assert!(dist((-3.0, -2.0), proj(-1.0 * HALF_PI - PI_OVER_FOUR, -HALF_PI)) < 1e-15);
    assert!(dist((-4.0, -1.0), proj(-2.0 * HALF_PI, -TRANSITION_LATITUDE)) < 1e-15);
    assert!(dist((-5.0, -2.0), proj(-2.0 * HALF_PI - PI_OVER_FOUR, -HALF_PI)) < 1e-15);
    assert!(dist((-6.0, -1.0), proj(-3.0 * HALF_PI, -TRANSITION_LATITUDE)) < 1e-15);
    assert!(dist((-7.0, -2.0), proj(-3.0 * HALF_PI - PI_OVER_FOUR, -HALF_PI)) < 1e-15);
    assert!(dist((-0.0, -1.0), proj(-4.0 * HALF_PI, -TRANSITION_LATITUDE)) < 1e-15);
  }

  #[test]
  #[should_panic]
  fn testpanic_proj_1() {
    proj(0.0, -1.58);
  }

  #[test]
  #[should_panic]
  fn testpanic_proj_2() {
    proj(3.14159, -1.58);
  }

  #[test]
  fn testok_shs() {
    let ang_dist = 0.24;
    let shs = to_squared_half_segment(ang_dist);
    let ang_dist_2 = sphe_dist(shs);
    assert!((ang_dist - ang_dist_2).abs() < 1e-4);
  }
  
}
