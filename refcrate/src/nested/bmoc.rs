//! Definition of a BMOC, i.e. a MOC storing an additional flag telling if a cell is fully
//! or partially covered by the MOC.
//! 
//! So far, all BMOC logical operations (not, and, or, xor) are made from the BMOC representation.
//! It is probably simpler and faster to work on ranges (but we have to handle the flag).

use std::slice::Iter;
use std::cmp::max;
// use std::opt::Range;

use super::{to_range};
use super::super::{nside_square_unsafe};

/// A very basic and simple BMOC Builder: we push elements in it assuming that we provide them
/// in the write order, without duplicates and small cells included in larger cells.
#[derive(Debug)]
pub struct BMOCBuilderUnsafe { // (super) // removed because of external test
  depth_max: u8,
  entries: Option<Vec<u64>>,
}

impl BMOCBuilderUnsafe {
  
  pub fn new(depth_max: u8, capacity: usize) -> BMOCBuilderUnsafe {
    BMOCBuilderUnsafe {
      depth_max,
      entries: Some(Vec::with_capacity(capacity)),
    }
  }
  
  /* Commented because not used so far
  /// Clear the content and start a fresh builder with the given initial capacity.
  #[warn(dead_code)]
  pub fn re_init(&mut self, capacity: usize) -> &mut BMOCBuilderUnsafe {
    self.entries = Some(Vec::with_capacity(capacity));
    self
  }*/
  
  pub fn push(&mut self, depth: u8, hash: u64, is_full: bool) -> &mut BMOCBuilderUnsafe {
    if let Some(ref mut v) = self.entries {
      v.push(build_raw_value(depth, hash, is_full, self.depth_max));
// println!("push {:?}", Cell::new(*v.last().unwrap(), self.depth_max));
    } else {
      panic!("Empty builder, you have to re-init it before re-using it!");
    }
    self
  }

  fn push_raw_unsafe(&mut self, raw_value: u64) -> &mut BMOCBuilderUnsafe {
// println!("push {:?}", Cell::new(raw_value, self.depth_max));
    if let Some(ref mut v) = self.entries {
      v.push(raw_value);
    } else {
      panic!("Empty builder, you have to re-init it before re-using it!");
    }
    self
  }

  pub fn push_all(&mut self, depth: u8, from_hash: u64, to_hash: u64, are_full: bool) -> &mut BMOCBuilderUnsafe {
    if let Some(ref mut v) = self.entries {
      for h in from_hash..to_hash {
        v.push(build_raw_value(depth, h, are_full, self.depth_max));
      }
    } else {
      panic!("Empty builder, you have to re-init it before re-using it!");
    }
    self
  }
  
  pub fn to_bmoc(&mut self) -> BMOC {
    BMOC::create_unsafe(self.depth_max, self.entries.take().expect("Empty builder!").into_boxed_slice())
  }

  /// We consider that the pushed elements are not ordered, but they come from a valid BMOC (i.e.
  /// no cell included in another cell)
  pub fn to_bmoc_from_unordered(&mut self) -> BMOC {
    let mut res = self.entries.take().expect("Empty builder!");
    res.sort_unstable();
    BMOC::create_unsafe(self.depth_max, res.into_boxed_slice())
  }
  
  fn pack(&mut self) -> Vec<u64> {
    let mut entries = self.entries.take().expect("Empty builder!");
    // On-place pack
    let mut prev_to_index = 0_usize;
    let mut curr_to_index = entries.len();
    while prev_to_index != curr_to_index { // changes occurs
      prev_to_index = curr_to_index;
      let mut i_prev_moc = 0_usize;
      let mut i_curr_moc = 0_usize;
      while i_prev_moc < prev_to_index {
        let mut curr_cell = entries[i_prev_moc];
        i_prev_moc += 1;
        let mut curr_cell_depth = get_depth(curr_cell, self.depth_max);
        let mut curr_cell_hash = get_hash_from_delta_depth(curr_cell, self.depth_max - curr_cell_depth);
        // Look for the first cell of the larger cell (depth - 1)  (=> 2 last bits = 00), the cell must be FULL
        while i_prev_moc < prev_to_index &&
          (curr_cell_depth == 0 || is_partial(curr_cell) || is_not_first_cell_of_larger_cell(curr_cell_hash)) {
          if i_curr_moc != i_prev_moc {
            entries[i_curr_moc] = curr_cell;
            i_curr_moc += 1;
          }
          curr_cell = entries[i_prev_moc];
          i_prev_moc += 1;
          curr_cell_depth = get_depth(curr_cell, self.depth_max);
          curr_cell_hash = get_hash_from_delta_depth(curr_cell, self.depth_max - curr_cell_depth);
        }
        // Look at the 3 siblings
        if i_prev_moc + 2 < prev_to_index
          && entries[i_prev_moc + 0] == build_raw_value(curr_cell_depth, curr_cell_hash | 1, true, self.depth_max)
          && entries[i_prev_moc + 1] == build_raw_value(curr_cell_depth, curr_cell_hash | 2, true, self.depth_max)
          && entries[i_prev_moc + 2] == build_raw_value(curr_cell_depth, curr_cell_hash | 3, true, self.depth_max) {
          entries[i_curr_moc] = build_raw_value(curr_cell_depth - 1, curr_cell_hash >> 2, true, self.depth_max);
          i_curr_moc += 1;
          i_prev_moc += 3;
        } else if i_curr_moc != i_prev_moc {
          entries[i_curr_moc] = curr_cell;
          i_curr_moc += 1;
        }
      }
      curr_to_index = i_curr_moc;
    }
    // We may find a better algorithm doing a single pass on the input MOC
    // Here the number of passes max = mocDepth - smallestDepthOfACellInOutputMoc
    // YEP: new idea: do it like a buffer with a cursor on the last "unmergeable" element!!
    entries.truncate(curr_to_index);
    entries
  }
  
  fn low_depth_raw_val_at_lower_depth(&self, raw_value: u64, new_depth: u8) -> u64 {
    debug_assert!(self.get_depth(raw_value) <= new_depth);
    debug_assert!(new_depth <= self.depth_max);
    let twice_delta_depth = (self.depth_max - new_depth) << 1;
    (raw_value >> twice_delta_depth) | (raw_value & 1_u64)
  }
  
  // We assume the given entries form a valid BMOC (already packef, ordered, ...)
  fn to_lower_depth(&self, new_depth: u8, mut entries: Vec<u64>) -> Vec<u64> {
    if new_depth >= self.depth_max {
      panic!("The given depth must be lower than the depth max of the BMOC");
    }
    let mut i_new = 0_usize;
    let mut prev_hash_at_new_depth = loop {
      if i_new == entries.len() {
        // All cells have a depth <= new_depth
        break None;
      }
      let raw_value = entries[i_new];
      let depth = self.get_depth(raw_value);
      if depth <= new_depth {
        entries[i_new] = self.low_depth_raw_val_at_lower_depth(raw_value, new_depth);
        i_new += 1;
      } else {
        break Some(get_hash_from_delta_depth(raw_value, self.depth_max - new_depth));
      }
    };
    for i in (i_new + 1)..entries.len() {
      let raw_value = entries[i];
      let depth = self.get_depth(raw_value);
      if depth <= new_depth {
        if prev_hash_at_new_depth.is_some() {
          entries[i_new] = (prev_hash_at_new_depth.take().unwrap() << 2) | 2_u64;
          i_new += 1;
        }
        entries[i_new] = self.low_depth_raw_val_at_lower_depth(raw_value, new_depth);
        i_new += 1;
      } else {
        let curr_hash_at_new_depth = get_hash_from_delta_depth(raw_value, self.depth_max - new_depth);
        if let Some(prev_val_at_new_depth) = prev_hash_at_new_depth {
          if prev_val_at_new_depth != curr_hash_at_new_depth {
            entries[i_new] = (prev_val_at_new_depth << 2) | 2_u64; // sentinel bit + flag = 0
            i_new += 1;
            prev_hash_at_new_depth.replace(curr_hash_at_new_depth);
          }
        } else {
          prev_hash_at_new_depth.replace(curr_hash_at_new_depth);
        }
      }
    }
    if prev_hash_at_new_depth.is_some() {
      entries[i_new] = (prev_hash_at_new_depth.take().unwrap() << 2) | 2_u64;
      i_new += 1;
    }
    entries.truncate(i_new);
    entries
  }
  
  pub fn to_bmoc_packing(&mut self) -> BMOC {
    let entries = self.pack();
    BMOC::create_unsafe(self.depth_max, entries.into_boxed_slice())
  }

  pub fn to_lower_depth_bmoc(&mut self, new_depth: u8) -> BMOC {
    let entries = self.entries.take().expect("Empty builder!");
    let entries = self.to_lower_depth(new_depth, entries);
    BMOC::create_unsafe(new_depth, entries.into_boxed_slice())
  }
  
  pub fn to_lower_depth_bmoc_packing(&mut self, new_depth: u8) -> BMOC {
    let entries = self.pack();
    let entries = self.to_lower_depth(new_depth, entries);
    BMOC::create_unsafe(new_depth, entries.into_boxed_slice())
  }

  fn get_depth(&self, raw_value: u64) -> u8 {
    self.get_depth_no_flag(rm_flag(raw_value))
  }
  /// Works both with no flag or with flag set to 0
  fn get_depth_no_flag(&self, raw_value_no_flag: u64) -> u8 {
    self.depth_max - (raw_value_no_flag.trailing_zeros() >> 1) as u8
  }
}

/// Builder taking cell at the MOC maximum depth.
pub struct BMOCBuilderFixedDepth {
  depth: u8,
  bmoc: Option<BMOC>,
  is_full: bool,
  buffer: Vec<u64>,
  sorted: bool,
}

impl BMOCBuilderFixedDepth {
  
  ///  - `is_full`: the flag to be set for each cell number (I expect`true` to be used for example
  ///    when building catalogues MOC.
  /// The results of logical operations between BMOC having the flag of each of their cells 
  /// set to `true` must equal the results of regular MOC logical operations. 
  pub fn new(depth: u8, is_full: bool) -> BMOCBuilderFixedDepth {
    BMOCBuilderFixedDepth::with_capacity(depth, is_full, 10_000_000)
  }
  
  pub fn with_capacity(depth: u8, is_full: bool, buff_capacity: usize) -> BMOCBuilderFixedDepth {
    BMOCBuilderFixedDepth {
      depth,
      bmoc: None,
      is_full,
      buffer: Vec::with_capacity(buff_capacity),
      sorted: true,
    }
  }
  
  /// The hash must be at the builder depth
  pub fn push(&mut self, hash: u64) {
    if let Some(h) = self.buffer.last() {
      if *h == hash {
        return;
      } else if self.sorted && *h > hash {
        self.sorted = false;
      }
    }
    self.buffer.push(hash);
    if self.buffer.len() == self.buffer.capacity() {
      self.drain_buffer();
    }
  }
  
  pub fn to_bmoc(&mut self) -> Option<BMOC> {
    if self.buffer.len() > 0 {
      self.drain_buffer();
    }
    self.bmoc.take()
  }
  
  
  fn drain_buffer(&mut self) {
    if !self.sorted {
      // Sort and remove duplicates
      self.buffer.sort_unstable();
      self.buffer.dedup(); 
    }
    let new_bmoc = self.buff_to_bmoc();
    self.clear_buff();
    self.bmoc = Some(
      match self.bmoc.take() {
        Some(prev_bmoc) => prev_bmoc.or(&new_bmoc),
        None => new_bmoc, 
      }
    )
  }
  
  fn buff_to_bmoc(&mut self) -> BMOC {
    let mut i = 0_usize;
    let mut k = 0_usize;
    while i < self.buffer.len() {
      let h = self.buffer[i];
      let sequence_len = self.largest_lower_cell_sequence_len(h, &self.buffer[i..]);
      /*{
        // Look at the maximum number of cell that could be merge if the hash is the first of a cell
        let delta_depth = (h.trailing_zeros() >> 1).min(self.depth); // low_res_cell_depth = self.depth - delta_depth
        let num_cells = 1_usize << (dd << 1); // number of depth self.depth cells in the low_res_cell = (2^dd)^2 = 2^(2*dd)
        // Look for a sequence
        let mut j = i + 1;
        let mut expected_h = h + 1_u64;

        while j < self.buffer.len() && sequence_len < num_cells && self.buffer[j] == expected_h {
          j += 1;
          sequence_len = 1;
          expected_h += 1;
        }
      }*/
      // Look at the actual low_res_cell the sequence correspond to
      let delta_depth = sequence_len.next_power_of_two();
      let delta_depth = if delta_depth > sequence_len {
        delta_depth.trailing_zeros() >> 2 // take previous value and divide by 2
      } else {
        debug_assert_eq!(delta_depth, sequence_len);
        delta_depth.trailing_zeros() >> 1 // divide by 2
      } as u8;
      let twice_dd = delta_depth << 1;
      let sequence_len = 1_usize << twice_dd;
      // Write the value
      self.buffer[k] = build_raw_value(self.depth - delta_depth, h >> twice_dd, self.is_full, self.depth);
      k += 1;
      i += sequence_len;
    }
    // self.buffer.truncate(k);
    BMOC::create_unsafe_copying(self.depth, &self.buffer[0..k])
  }
  
  #[inline]
  fn largest_lower_cell_sequence_len(&self, mut h: u64, entries: &[u64]) -> usize {
    // Look for the maximum number of cells that could be merged if the hash is the first of a cell
    let dd = ((h.trailing_zeros() >> 1) as u8).min(self.depth); // low_res_cell_depth = self.depth - delta_depth
    let n = 1_usize << (dd << 1); // number of depth self.depth cells in the low_res_cell = (2^dd)^2 = 2^(2*dd)
    // Look for a sequence
    let n = n.min(entries.len());
    for i in 1..n {
      h += 1;
      if entries[i] != h {
        return i;
      }
    }
    n
  }
  
  fn clear_buff(&mut self) {
    self.sorted = true;
    self.buffer.clear();
  }
}


/// Structure defining a simple BMOC.
/// Three different iterators are available:
/// - `bmoc.iter() -> Iterator<u64>` : iterates on the raw value stored in the BMOC (the ordering 
///    follow the z-order-curve order).
/// - `bmoc.into_iter() -> Iterator<Cell>`: same a `iter()` except that it returns Cells, 
///    i.e. decoded raw value containing the `depth`, `order` and `flag`.
/// - `bmoc.flat_iter() -> Iterator<u64>`: iterates on all the cell number at the maximum depth, in
///    ascending order (flag information is lost).
/// - `bmoc.flat_iter_cell() -> Iterator<Cell>` same as `flat_iter()` but conserving then `flag`
///    information (and the depth which must always equals the BMOC depth). 
pub struct BMOC {
  depth_max: u8,
  pub entries: Box<[u64]>,
}

#[derive(Debug)]
pub struct Cell {
  pub raw_value: u64,
  pub depth: u8,
  pub hash: u64,
  pub is_full: bool,
}

impl Cell {
  fn new(raw_value: u64, depth_max: u8) -> Cell {
    // Extract the flag
    let is_full = (raw_value & 1_u64) == 1_u64;
    // Remove the flag bit, then divide by 2 (2 bits per level)
    let delta_depth = ((raw_value >> 1).trailing_zeros() >> 1) as u8;
    // Remove 2 bits per depth difference + 1 sentinel bit + 1 flag bit
    let hash = raw_value >> (2 + (delta_depth << 1));
    let depth = depth_max - delta_depth;
    Cell { raw_value, depth, hash, is_full }
  }
}


impl BMOC {
  
  /* Use this for a BMOC builder!
  pub(super) fn new(depth_max: u8, capacity: usize) -> BMOC {
    BMOC { depth_max, entries: Vec::with_capacity(capacity) }
  }*/

  /// We suppose here that the entries are already sorted (ASC natural ordering) with
  /// no duplicates and no small cells included into larger one's.
  pub(super) fn create_unsafe(depth_max: u8, entries: Box<[u64]>) -> BMOC {
    BMOC { depth_max, entries}
  }

  pub(super) fn create_unsafe_copying(depth_max: u8, entries: &[u64]) -> BMOC {
    let mut entries_copy = Vec::with_capacity(entries.len());
    for e in entries {
      entries_copy.push(*e);
    }
    BMOC { depth_max, entries: entries_copy.into_boxed_slice() }
  }
  
  pub fn get_depth_max(&self) -> u8 {
    self.depth_max
  }
  
  pub fn equals(&self, other: &BMOC) -> bool {
    if self.depth_max == other.depth_max && self.entries.len() == other.entries.len() {
      for (r1, r2) in self.iter().zip(other.iter()) {
        if r1 != r2 {
          return false;
        }
      }
      return true;
    }
    return false;
  }

  pub fn assert_equals(&self, other: &BMOC) {
    if self.depth_max == other.depth_max {
      for (r1, r2) in self.iter().zip(other.iter()) {
        if *r1 != *r2 {
          panic!("Left: {:?}; Right: {:?}", self.from_raw_value(*r1), other.from_raw_value(*r2));
        }
      }
      if self.entries.len() != other.entries.len() {
        panic!("Lengths are different");
      }
    } else {
      panic!("Depths are different");
    }
  }
  
  /// Returns the BMOC complement:
  /// - cells with flag set to 1 (fully covered) are removed
  /// - cells with flag set to 0 (partially covered) are kept
  /// - empty cells are added with flag set to 1
  /// The method as been tested when all flags are `is_full` (i.e. regular MOC case).
  pub fn not(&self) -> BMOC {
    // Worst case: only 1 sub-cell by cell in the MOC (+11 for depth 0)
    let mut builder = BMOCBuilderUnsafe::new(self.depth_max, 3 * self.entries.len() + 12);
    // Empty MOC, easy
    if self.entries.len() == 0 {
      for h in 0..12_u64 {
        builder.push(0_u8, h, true);
      }
      return  builder.to_bmoc();
    }
    // Real case
    let mut d = 0_u8;
    let mut h = 0_u64;
    // Go down to first cell
    let mut cell = self.from_raw_value(self.entries[0]);
    go_down(&mut d, &mut h, cell.depth, cell.hash, true, &mut builder);
    if !cell.is_full {
      builder.push_raw_unsafe(cell.raw_value);
    }
    // Between first and last
    for i in 1..self.entries.len() {
      cell = self.from_raw_value(self.entries[i]);
      let dd = dd_4_go_up(d, h, cell.depth, cell.hash);
      go_up(&mut d, &mut h, dd, true, &mut builder);
      go_down(&mut d, &mut h, cell.depth, cell.hash, true, &mut builder);
      if !cell.is_full {
        builder.push_raw_unsafe(cell.raw_value);
      }
    }
    // After last
    let delta_depth = d;
    go_up(&mut d, &mut h, delta_depth, true, &mut builder); // go up to depth 0
    for h in h..12 { // Complete with base cells if needed
      builder.push(0_u8, h, true);
    }
    builder.to_bmoc()
  }
  
  /// Go to the next hash value:
  /// - if the input hash is not the last one of the super-cell 
  ///   (the cell of depth deph - 1 the hash belongs to), the result is simply
  ///   - output_depth = input_depth
  ///   - output_hash = input_hash + 1
  /// - else, the depth is changed (we go up) until the hash is not the last of the super-cell
  ///   and the result is:
  ///   - output_depth < input_depth
  ///   - output_hash = input_hash_at_outpu_depth + 1
  /*fn go_next(&self, start_depth: &mut u8, start_hash: &mut u64) {
    while *start_depth > 0 && ((*start_hash & 3_u64) == 3_u64) {
      *start_depth -= 1;
      *start_hash >>= 2;
    }
    *start_hash += 1;
  }*/
  

  
  /// Returns the intersection of this BMOC with the given BMOC:
  /// - all non overlapping cells are removed
  /// - when two cells are overlapping, the overlapping part is kept
  ///   - the value of the flag is the result of a logical AND between the flags of the merged cells.
  /// The method as been tested when all flags are `is_full` (i.e. regular MOC case).
  pub fn and(&self, other: &BMOC) -> BMOC {
    let mut builder = BMOCBuilderUnsafe::new(
      max(self.depth_max, other.depth_max), 
      max(self.entries.len(), other.entries.len())
    );
    let mut it_left = self.into_iter();
    let mut it_right = other.into_iter();
    let mut left = it_left.next();
    let mut right = it_right.next();
    // We have 9 cases to take into account:
    // -  3: dL == dR, dL < dR and dR < dL
    // - x3: hL == hR, hL < hR and hR < hL
    while let (Some(l), Some(r)) = (&left, &right) {
      if l.depth < r.depth {
        let hr_at_dl = r.hash >> ((r.depth - l.depth) << 1);
        if l.hash < hr_at_dl {
          left = it_left.next();
        } else if l.hash > hr_at_dl {
          right = it_right.next();
        } else {
          debug_assert_eq!(l.hash, hr_at_dl);
          builder.push(r.depth, r.hash, r.is_full && l.is_full);
          right = it_right.next();
        }
      } else if l.depth > r.depth {
        let hl_at_dr = l.hash >> ((l.depth - r.depth) << 1);
        if hl_at_dr < r.hash {
          left = it_left.next();
        } else if hl_at_dr > r.hash {
          right = it_right.next();
        } else {
          debug_assert_eq!(hl_at_dr, r.hash);
          builder.push(l.depth, l.hash, r.is_full && l.is_full);
          left = it_left.next();
        }
      } else {
        debug_assert_eq!(l.depth, r.depth);
        if l.hash < r.hash {
          left = it_left.next();
        } else if l.hash > r.hash  {
          right = it_right.next();
        } else {
          debug_assert_eq!(l.hash, r.hash);
          builder.push(l.depth, l.hash, r.is_full && l.is_full);
          left = it_left.next();
          right = it_right.next();
        }
      }
    }
    builder.to_bmoc()
  }

  /* Try making operations with as few if as possible, playing on indices
  fn and_v2(&self, other: &BMOC) -> BMOC {
    let mut builder = BMOCBuilderUnsafe::new(
      max(self.depth_max, other.depth_max),
      max(self.entries.len(), other.entries.len())
    );
    let mut left = self.entries;
    let mut right = other.entries;
    let mut ileft = 0_usize;
    let mut iright = 0_usize;
    
  }
  */
  
  
  /// Returns the union of this BMOC with the given BMOC:
  /// - all non overlapping cells in both BMOCs are kept
  /// - overlapping cells are merged, the value of the flag is the result of a logical OR between 
  /// the flags of the merged cells.
  /// The method as been tested when all flags are `is_full` (i.e. regular MOC case).
  pub fn or(&self, other: &BMOC) -> BMOC {
    let mut builder = BMOCBuilderUnsafe::new(
      max(self.depth_max, other.depth_max),
      max(self.entries.len(), other.entries.len())
    );
    let mut it_left = self.into_iter();
    let mut it_right = other.into_iter();
    let mut left = it_left.next();
    let mut right = it_right.next();
    // We have 9 cases to take into account:
    // -  3: dL == dR, dL < dR and dR < dL
    // - x3: hL == hR, hL < hR and hR < hL
    while let (Some(l), Some(r)) = (&left, &right) {
      if l.depth < r.depth {
        let hr_at_dl = r.hash >> ((r.depth - l.depth) << 1);
        if l.hash < hr_at_dl {
          builder.push(l.depth, l.hash, l.is_full);
          left = it_left.next();
        } else if l.hash > hr_at_dl {
          builder.push(r.depth, r.hash, r.is_full);
          right = it_right.next();
        } else if l.is_full {
          debug_assert_eq!(l.hash, hr_at_dl);
          builder.push(l.depth, l.hash, l.is_full);
          right = consume_while_overlapped(l, &mut it_right);
          left = it_left.next();
        } else {
          debug_assert_eq!(l.hash, hr_at_dl);
          debug_assert!(!l.is_full);
          let mut is_overlapped = r.is_full; // the first overlapped cell may already be a full cell
          if !is_overlapped {
            right = consume_while_overlapped_and_partial(l, &mut it_right, &mut is_overlapped);
          }
          if is_overlapped {
            right = self.not_in_cell_4_or(l, right.unwrap(), &mut it_right, &mut builder);
          } else { // all flags set to 0 => put large cell with flag  = 0
            builder.push(l.depth, l.hash, false);
          }
          left = it_left.next();
        }
      } else if l.depth > r.depth {
        let hl_at_dr = l.hash >> ((l.depth - r.depth) << 1);
        if hl_at_dr < r.hash {
          builder.push(l.depth, l.hash, l.is_full);
          left = it_left.next();
        } else if hl_at_dr > r.hash {
          builder.push(r.depth, r.hash, r.is_full);
          right = it_right.next();
        } else if r.is_full {
          debug_assert_eq!(hl_at_dr, r.hash);
          builder.push(r.depth, r.hash, r.is_full);
          left = consume_while_overlapped(r, &mut it_left);
          right = it_right.next();
        } else {
          debug_assert_eq!(hl_at_dr, r.hash);
          debug_assert!(!r.is_full);
          let mut is_overlapped = l.is_full; // the first overlapped cell may already be a full cell
          if !is_overlapped {
            left = consume_while_overlapped_and_partial(r, &mut it_left, &mut is_overlapped);
          }
          if is_overlapped {
            left = self.not_in_cell_4_or(r, left.unwrap(), &mut it_left, &mut builder);
          } else { // all flags set to 0 => put large cell with flag  = 0
            builder.push(r.depth, r.hash, false);
          }
          right = it_right.next();
        }
      } else {
        debug_assert_eq!(l.depth, r.depth);
        if l.hash < r.hash {
          builder.push(l.depth, l.hash, l.is_full);
          left = it_left.next();
        } else if l.hash > r.hash  {
          builder.push(r.depth, r.hash, r.is_full);
          right = it_right.next();
        } else {
          debug_assert_eq!(l.hash, r.hash);
          builder.push(l.depth, l.hash, r.is_full || l.is_full);
          left = it_left.next();
          right = it_right.next();
        }
      }
    }
    while let Some(l) = &left {
      debug_assert!(right.is_none());
      builder.push(l.depth, l.hash, l.is_full);
      left = it_left.next();
    }
    while let Some(r) = &right {
      debug_assert!(left.is_none());
      builder.push(r.depth, r.hash, r.is_full);
      right = it_right.next();
    }
    builder.to_bmoc_packing()
  }

  fn not_in_cell_4_or(&self, low_resolution: &Cell, mut c: Cell,  iter: &mut BMOCIter, builder: &mut BMOCBuilderUnsafe) -> Option<Cell> {
    let mut d = low_resolution.depth;
    let mut h = low_resolution.hash;
    debug_assert_eq!(true, c.is_full);
    go_down(&mut d, &mut h, c.depth, c.hash, false, builder);
    builder.push(c.depth, c.hash, true);
    let mut is_overlapped = false;
    let mut cell;
    while {
      is_overlapped = false; // reset: the flag is only ever raised by `consume_while_overlapped_and_partial`
      cell = consume_while_overlapped_and_partial(low_resolution, iter, &mut is_overlapped);
      is_overlapped
    } {
      c = cell.unwrap(); // if flag => right is not None
      let dd = dd_4_go_up(d, h, c.depth, c.hash);
      go_up(&mut d, &mut h, dd, false, builder);
      go_down(&mut d, &mut h, c.depth, c.hash, false, builder);
      builder.push(c.depth, c.hash, true);
    }
    let dd = d - low_resolution.depth;
    go_up(&mut d, &mut h, dd, false, builder);
    go_down(&mut d, &mut h, low_resolution.depth, low_resolution.hash + 1, false, builder);
    cell
  }
  
  
  /// Returns the symmetric difference of this BMOC with the given BMOC:
  /// - all non overlapping cells in both BMOCs are kept
  /// - when two cells are overlapping, the overlapping part is:
  ///   - removed if both flags = 1
  ///   - kept if one of the flags = 0 (since 0 meas partially covered but O don't know which part)
  /// The method as been tested when all flags are `is_full` (i.e. regular MOC case).
  pub fn xor(&self, other: &BMOC) -> BMOC {
    let mut builder = BMOCBuilderUnsafe::new(
      max(self.depth_max, other.depth_max),
      max(self.entries.len(), other.entries.len())
    );
    let mut it_left = self.into_iter();
    let mut it_right = other.into_iter();
    let mut left = it_left.next();
    let mut right = it_right.next();
    // We have 9 cases to take into account:
    // -  3: dL == dR, dL < dR and dR < dL
    // - x3: hL == hR, hL < hR and hR < hL
    while let (Some(l), Some(r)) = (&left, &right) {
      if l.depth < r.depth {
        let hr_at_dl = r.hash >> ((r.depth - l.depth) << 1);
        if l.hash < hr_at_dl {
          builder.push(l.depth, l.hash, l.is_full);
          left = it_left.next();
        } else if l.hash > hr_at_dl {
          builder.push(r.depth, r.hash, r.is_full);
          right = it_right.next();
        } else if l.is_full {
          debug_assert_eq!(l.hash, hr_at_dl);
          right = self.not_in_cell_4_xor(l, r, &mut it_right, &mut builder);
          left = it_left.next();
        } else {
          debug_assert_eq!(l.hash, hr_at_dl);
          debug_assert!(!l.is_full);
          builder.push(l.depth, l.hash, l.is_full);
          right = consume_while_overlapped(l, &mut it_right);
          left = it_left.next();
        }
      } else if l.depth > r.depth {
        let hl_at_dr = l.hash >> ((l.depth - r.depth) << 1);
        if hl_at_dr < r.hash {
          builder.push(l.depth, l.hash, l.is_full);
          left = it_left.next();
        } else if hl_at_dr > r.hash {
          builder.push(r.depth, r.hash, r.is_full);
          right = it_right.next();
        } else if r.is_full {
          debug_assert_eq!(hl_at_dr, r.hash);
          left = self.not_in_cell_4_xor(r, l, &mut it_left, &mut builder);
          right = it_right.next();
        } else {
          debug_assert_eq!(hl_at_dr, r.hash);
          debug_assert!(!r.is_full);
          builder.push(r.depth, r.hash, r.is_full);
          left = consume_while_overlapped(r, &mut it_left);
          right = it_right.next();
        }
      } else {
        debug_assert_eq!(l.depth, r.depth);
        if l.hash < r.hash {
          builder.push(l.depth, l.hash, l.is_full);
          left = it_left.next();
        } else if l.hash > r.hash  {
          builder.push(r.depth, r.hash, r.is_full);
          right = it_right.next();
        } else {
          debug_assert_eq!(l.hash, r.hash);
          let both_fully_covered = r.is_full && l.is_full;
          if !both_fully_covered {
            builder.push(l.depth, l.hash, both_fully_covered);
          }
          left = it_left.next();
          right = it_right.next();
        }
      }
    }
    while let Some(l) = &left {
      debug_assert!(right.is_none());
      builder.push(l.depth, l.hash, l.is_full);
      left = it_left.next();
    }
    while let Some(r) = &right {
      debug_assert!(left.is_none());
      builder.push(r.depth, r.hash, r.is_full);
      right = it_right.next();
    }
    builder.to_bmoc_packing()
  }

  fn not_in_cell_4_xor(&self, low_resolution: &Cell, c: &Cell,  iter: &mut BMOCIter, builder: &mut BMOCBuilderUnsafe) -> Option<Cell> {
    let mut d = low_resolution.depth;
    let mut h = low_resolution.hash;
    go_down(&mut d, &mut h, c.depth, c.hash, true, builder);
    if !c.is_full {
      builder.push(c.depth, c.hash, false);
    }
    let mut cell = iter.next();
    while let Some(c) = &cell {
      if !is_in(low_resolution,  c) {
        break;
      }
      let dd = dd_4_go_up(d, h, c.depth, c.hash);
      go_up(&mut d, &mut h, dd, true, builder);
      go_down(&mut d, &mut h, c.depth, c.hash, true, builder);
      if !c.is_full {
        builder.push(c.depth, c.hash, false);
      }
      cell = iter.next()
    }
    let dd = d - low_resolution.depth;
    go_up(&mut d, &mut h, dd, true, builder);
    go_down(&mut d, &mut h, low_resolution.depth, low_resolution.hash + 1, true, builder);
    cell
  }
  
  /* KEEP THIS METHOD FOR A MOC
  pub fn from_ranges_unsafe(depth_max: u8, ranges: &[range]) {
    final long dMask = (1L << hhCoder.nBits(d, d)) - 1; // 11 for HEALPix
    final long dNHash = hhCoder.nHash(d, d); // 4 for HEALLPix
    final SortedHHashSet res = new SortedHHashSet(hhCoder);
    // We recall that hM is exclusive!
    // We ignore successive ranges (range_i_max == range_i+1_min)
    for range in ranges {
      width = range.to - range.from;
      // Deal with level 0 range
      if ranges.len() == 1 && width == n_hash_unsafe(depth_max) {
        assert_eq!(range.from, 0_u64);
        for (hm = 0; hm < hhCoder.nHash(0); hm++) {
          res.add(new HHImpl(0, hm));
        }
        hm = hM;
      }
            // ++ pre part
            // While we don't start with the 2 last bits = 00. 
            while ((((hm & dMask) != 0 // Hash don't end by a series of 0
                    || (hM - hm) < dNHash))// Not enough distinct hash to fill the depth 
                    //|| (d == 0 && hM - hm == 12)) // Special case of d=0 and range=0-12
                    && hm < hM) { // Still elements in the range
                final HHash hh = new HHImpl(d, hm);
if (debug) System.out.println("Add1 " + hh + " --> " + hhCoder.hashRange(hh.depth(), hh.hashValue(), d));
                res.add(hh);
                ++hm;
            }
            while (hm < hM) { // Still elements in the range
                // ++ med part
                rangeWidth = hM - hm;
if (debug) System.out.println("hm: " + hm + "; bits: " + Long.toBinaryString(hm));
                // get number of depth fille by the last 0 bits 
                int ddFromMin = hhCoder.nFilledDepthOnLastBits(d, (int) Long.numberOfTrailingZeros(hm));
if (debug) System.out.println("ddFromMin: " + ddFromMin);
                int ddFromRangeWidth = hhCoder.nFilledDepth(d, rangeWidth);
if (debug) System.out.println("ddFromRangeWidth: " + ddFromRangeWidth);
                int dd = ddFromRangeWidth < ddFromMin ? ddFromRangeWidth : ddFromMin;
                final HHash hhh = new HHImpl(d - dd, hhCoder.hash(d, hm, d - dd));
                res.add(hhh);
if (debug) System.out.println("Add2 " + hhh + " --> " + hhCoder.hashRange(hhh.depth(), hhh.hashValue(), d));
if (debug) System.out.println("nHash (from=" + ( d - dd + 1) + ", to= --> " + d + ") =  " + hhCoder.nHash(( d - dd + 1), d));
                hm += hhCoder.nHash(d - dd + 1, d); // 1 << (d << 1) = 2^(2*d) = 4^d
                //System.out.println("dd: " + dd + "; new hm = " + hm);
                //++ post part
                if (hM - hm < dNHash) {
                    while (hm < hM) {
                        final HHash hh = new HHImpl(d, hm);
if (debug) System.out.println("Add3 " + hh);
                        res.add(hh);
                        ++hm;
                    }
                }
            }
        }

  }*/
  
  /*pub(super) fn add(&mut self, depth: u8, hash: u64, is_full: u8) {
    self.entries.push(build_raw_value(depth, hash, is_full, self.depth_max));
  }*/
  
  pub fn from_raw_value(&self, raw_value: u64) -> Cell {
    Cell::new(raw_value, self.depth_max)
  }
  
  /// Returns the number of cells at depth `depth_max` the moc contains, i.e.
  /// the sum for each cell of the number of cells at depth `depth_max`.
  pub fn deep_size(&self) -> usize {
    let mut sum = 0_usize;
    for &raw_value in self.entries.iter() {
      let depth = self.get_depth(raw_value);
      sum += nside_square_unsafe(self.depth_max - depth) as usize;
    }
    sum
  }
  
  /// Iterator on the BMOC raw values
  /// See method `` to extract informations from a raw value
  pub fn iter(&self) -> Iter<u64> {
    self.entries.iter()
  }
  
  /// Returns an iterator iterating over all cells at the BMOC maximum depth
  /// (the iteration is made in the natural cell order).
  pub fn flat_iter(&self) -> BMOCFlatIter {
    BMOCFlatIter::new(self.depth_max, self.deep_size(),self.entries.iter())
  }

  /// Returns an iterator iterating over all cells at the BMOC maximum depth
  /// (the iteration is made in the natural cell order).  
  /// Contrary to [flat_iter](fn.flat_iter.html), the full cell information (the raw BMOC value
  /// it belongs to, its flag) is kept.
  pub fn flat_iter_cell(&self) -> BMOCFlatIterCell {
    BMOCFlatIterCell::new(self.depth_max, self.deep_size(),self.entries.iter())
  }
  
  /// Returns an array containing all the BMOC cells flattened at the maximum depth.
  /// This is an utility methods bascailly calling `deep_size` to initialize an array
  /// and `flat_iter` to retrieve all cells.
  pub fn to_flat_array(&self) -> Box<[u64]> {
    let mut res: Vec<u64> = Vec::with_capacity(self.deep_size());
    for cell in self.flat_iter() {
      res.push(cell);
    }
    res.into_boxed_slice()
  }
  
  fn get_depth(&self, raw_value: u64) -> u8 {
    self.get_depth_no_flag(rm_flag(raw_value))
  }
  
  /// Works both with no flag or with flag set to 0
  fn get_depth_no_flag(&self, raw_value_no_flag: u64) -> u8 {
    self.depth_max - (raw_value_no_flag.trailing_zeros() >> 1) as u8
  }
  
  /// Transform this (B)MOC as a simple (sorted) array of ranges.
  /// During the operation, we loose the `flag` information attached to each BMOC cell.  
  pub fn to_ranges(&self) -> Box<[std::ops::Range<u64>]> {
    let mut ranges: Vec<std::ops::Range<u64>> = Vec::with_capacity(self.entries.len());
    let mut prev_min = 0_u64;
    let mut prev_max = 0_u64;
    for cell in self.into_iter() {
      if cell.depth < self.depth_max {
        let range = to_range(cell.hash, self.depth_max - cell.depth);
        if range.start == prev_max {
          prev_max = range.end;
        } else {
          if prev_min != prev_max { // false only at first call, then always true
            ranges.push(prev_min..prev_max);
          }
          prev_min = range.start;
          prev_max = range.end;
        }
      } else {
        if cell.hash == prev_max {
          prev_max += 1;
        } else {
          if prev_min != prev_max { // false only at first call, then always true
            ranges.push(prev_min..prev_max);
          }
          prev_min = cell.hash;
          prev_max = cell.hash + 1;
        }
      }
    }
    if prev_min != prev_max { // false only at first call, then always true
      ranges.push(prev_min..prev_max);
    }
    ranges.into_boxed_slice()
  }
  
}

#[inline]
fn consume_while_overlapped(low_resolution: &Cell, iter: &mut BMOCIter) -> Option<Cell> {
  let mut cell = iter.next();
  while {
    match &cell {
      Some(c) => is_in(low_resolution,  c),
      None => false,
    }
  } {
    cell = iter.next();
  }
  cell
}

/// Returns boolean:
/// - false = returned cell do not overlap any more
/// - true =  returned cell overlap and its flag is 'full'
#[inline]
fn consume_while_overlapped_and_partial(low_resolution: &Cell, iter: &mut BMOCIter, res_is_overlapped: &mut bool) -> Option<Cell> {
  let mut cell = iter.next();
  while {
    match &cell {
      Some(c) => {
        if is_in(low_resolution,  c) {
          if c.is_full {
            *res_is_overlapped = true;
            false
          } else {
            true
          }
        } else {
          false
        }
      },
      None => false,
    }
  } {
    cell = iter.next();
  }
  cell
  /*let mut cell = iter.next();
  while {
    match &cell {
      Some(c) => is_in(low_res_depth, low_res_hash,  c.depth, c.hash),
      None => false,
    }
  } {
    if cell.is_full {
      *res_is_overlapped = true;
      return cell;
    }
    cell = iter.next();
  }
  *res_is_overlapped = false;
  cell*/
}

#[inline]
fn dd_4_go_up(d: u8, h: u64, next_d: u8, next_h: u64) -> u8 {
  // debug_assert!(d != next_d || h != next_h);
  let target_h_at_d = if next_d < d {
    // previous hash deeper than current hash => need to go up
    next_h << ((d - next_d) << 1)
  } else {
    // current hash deeper then (or equal to) previous hash => need to go up only if current hash
    next_h >> ((next_d - d) << 1)
  };
  // - look at the difference to see if we have to go up to add lower level cells
  // We look at the depth of the deeper common cell (i.e. all most significant bits are the same)
  // With XOR (^), we only set to 1 the bits which are set to 1 in a value and 0 in the other.
  // If number of leading = 64 => the two cell are identical, WRONG :/
  // If number of leading zero = 63 or 62 => are in the same cell => dd = 0
  // If number of leading zero = 60 or 61 => dd = 1
  // We just have to add .min(d) since base cells are coded on 4 bits (not 2)
  let xor = h ^ target_h_at_d;
  if xor != 0 {
    ((63_u8 - (xor.leading_zeros() as u8)) >> 1).min(d)
  } else {
    0
  }
}

/// Returns `true` if the given high resolution cell is in the low resolution cell 
#[inline]
fn is_in(low_resolution: &Cell, high_resolution: &Cell) -> bool {
  low_resolution.depth <= high_resolution.depth 
    && low_resolution.hash == (high_resolution.hash >> ((high_resolution.depth - low_resolution.depth) << 1))
}
/*
fn is_in(low_res_depth: u8, low_res_hash: u64, high_res_depth: u8, high_res_hash: u64) -> bool {
  low_res_depth < high_res_depth
    && low_res_hash == (high_res_hash >> (high_res_depth - low_res_depth) << 1)
}*/

#[inline]
fn rm_flag(raw_value: u64) -> u64 {
  raw_value >> 1
}

#[inline]
fn is_partial(raw_value: u64) -> bool {
  (raw_value & 1_u64) == 0_u64
}

#[inline]
fn is_not_first_cell_of_larger_cell(hash: u64) -> bool {
  (hash & 3_u64) != 0_u64
}

#[inline]
fn get_depth(raw_value: u64, depth_max: u8) -> u8 {
  get_depth_no_flag(rm_flag(raw_value), depth_max)
}

#[inline]
fn get_depth_no_flag(raw_value_no_flag: u64, depth_max: u8) -> u8 {
  depth_max - (raw_value_no_flag.trailing_zeros() >> 1) as u8
}

#[inline]
fn get_hash_from_delta_depth(raw_value: u64, delta_depth: u8) -> u64 {
  raw_value >> (2 + (delta_depth << 1))
}



pub struct BMOCFlatIter<'a> {
  depth_max: u8,
  deep_size: usize,
  raw_val_iter: Iter<'a, u64>,
  curr_val: Option<u64>,
  curr_val_max: u64,
  n_returned: usize,
}

impl<'a> BMOCFlatIter<'a> {
  fn new(depth_max: u8, deep_size: usize, raw_val_iter: Iter<'a, u64>) -> BMOCFlatIter<'a> {
    let mut flat_iter = BMOCFlatIter { 
      depth_max, deep_size, raw_val_iter, 
      curr_val: None, curr_val_max: 0_u64, n_returned: 0_usize
    };
    flat_iter.next_cell();
    flat_iter
  }
  
  pub fn deep_size(&self) -> usize {
    self.deep_size
  }
  
  pub fn depth(&self) -> u8 {
    self.depth_max
  }
  
  fn next_cell(&mut self) -> Option<u64> {
    match self.raw_val_iter.next() {
      None => self.curr_val.take(),
      Some(&raw_value) => {
        // Remove the flag bit, then divide by 2 (2 bits per level)
        let delta_depth = ((raw_value >> 1).trailing_zeros() >> 1) as u8;
        let twice_delta_depth = delta_depth << 1;
        // Remove 2 bits per depth difference + 1 sentinel bit + 1 flag bit
        let hash = raw_value >> (2 + twice_delta_depth);
        let val = hash << twice_delta_depth;
        self.curr_val_max = val | ((1_u64 << twice_delta_depth) - 1_u64);
        self.curr_val.replace(val)
        /*// Remove the flag bit, then divide by 2 (2 bits per level)
        let twice_delta_depth = (raw_value >> 1).trailing_zeros() as u8;
        // Remove 2 bits per depth difference + 1 sentinel bit + 1 flag bit
        let mask = 0xFFFFFFFFFFFFFFFC_u64 << twice_delta_depth;
        let min = raw_value & mask;
        self.curr_val_max = min | ((!mask) >> 1);
        self.curr_val.replace(min)*/
      },
    }
  }

}

impl<'a> Iterator for BMOCFlatIter<'a> {
  type Item = u64;

  fn next(&mut self) -> Option<u64> {
    if let Some(val) = self.curr_val {
      self.n_returned += 1;
      if val < self.curr_val_max {
        self.curr_val.replace(val + 1)
      } else {
        self.next_cell() 
      }
    } else {
      None
    }
  }

  fn size_hint(&self) -> (usize, Option<usize>) {
    let n = self.deep_size - self.n_returned;
    (n, Some(n))
  }
}


pub struct BMOCFlatIterCell<'a> {
  depth_max: u8,
  deep_size: usize,
  raw_val_iter: Iter<'a, u64>,
  
  //curr_raw_val: u64,
  //curr_flag: bool,
  curr_val: Option<Cell>,
  curr_val_max: u64,
  
  n_returned: usize,
}

impl<'a> BMOCFlatIterCell<'a> {
  fn new(depth_max: u8, deep_size: usize, raw_val_iter: Iter<'a, u64>) -> BMOCFlatIterCell<'a> {
    let mut flat_iter = BMOCFlatIterCell {
      depth_max, deep_size, raw_val_iter,
      curr_val: None, curr_val_max: 0_u64, n_returned: 0_usize
    };
    flat_iter.next_cell();
    flat_iter
  }

  pub fn deep_size(&self) -> usize {
    self.deep_size
  }

  pub fn depth(&self) -> u8 {
    self.depth_max
  }

  fn next_cell(&mut self) -> Option<Cell> {
    match self.raw_val_iter.next() {
      None => self.curr_val.take(),
      Some(&raw_value) => {
        // Remove the flag bit, then divide by 2 (2 bits per level)
        let delta_depth = ((raw_value >> 1).trailing_zeros() >> 1) as u8;
        let twice_delta_depth = delta_depth << 1;
        // Remove 2 bits per depth difference + 1 sentinel bit + 1 flag bit
        let hash = raw_value >> (2 + twice_delta_depth);
        let val = hash << twice_delta_depth;
        self.curr_val_max = val | ((1_u64 << twice_delta_depth) - 1_u64);
        self.curr_val.replace(Cell {
          raw_value,
          depth: self.depth_max,
          hash: val,
          is_full: (raw_value & 1_u64) == 1_u64,
        })
      },
    }
  }

}

impl<'a> Iterator for BMOCFlatIterCell<'a> {
  type Item = Cell;

  fn next(&mut self) -> Option<Cell> {
    if let Some(cell) = &self.curr_val {
      self.n_returned += 1;
      if cell.hash < self.curr_val_max {
        let new_cell = Cell {
          raw_value: cell.raw_value,
          depth: self.depth_max,
          hash: cell.hash + 1,
          is_full: cell.is_full,
        };
        self.curr_val.replace(new_cell)
      } else {
        self.next_cell()
      }
    } else {
      None
    }
  }

  fn size_hint(&self) -> (usize, Option<usize>) {
    let n = self.deep_size - self.n_returned;
    (n, Some(n))
  }
}



pub struct BMOCIter<'a> {
  depth_max: u8,
  iter: Iter<'a, u64>,
}

impl<'a> Iterator for BMOCIter<'a> {
  type Item = Cell;

  fn next(&mut self) -> Option<Cell> {
    match self.iter.next() {
      None => None,
      Some(&raw_value) => Some(Cell::new(raw_value, self.depth_max)),
    }
  }
  
  fn size_hint(&self) -> (usize, Option<usize>) {
    self.iter.size_hint()
  }
}

impl<'a> IntoIterator for &'a BMOC {
  type Item = Cell;
  type IntoIter = BMOCIter<'a>;

  fn into_iter(self) -> Self::IntoIter {
    BMOCIter { depth_max: self.depth_max, iter: self.entries.iter() }
  }
}


/// Create a BMOC raw value coding the depth, the hash and a flag in a way such that
/// the natural ordering follow a z-order curve.
///
/// # Inputs
/// - `depth`: depth of the hash value
/// - `hash`: hash value
/// - `is_full`: must be `false` (not full) or `true` (full)
/// - `depth_max`: the depth of the BMOC (we can use 29 for a unique raw value, but it will work
///   only with languages supporting unsigned 64 bit integers)
/// 
/// # Outputs
/// - the value coded like this:
///   - BBBBxx...xxS00...00F if depth < depth_max
///   - BBBBxx...xxxx...xxSF if depth = depht_max
///   - with in bith cases:
///     -  B: the 4 bits coding the base hash [0- 11]
///     - xx: the 2 bits of level x
///     -  S: the sentinel bit coding the depth
///     - 00: if (depth != depht_max) those bits are unused bits
///     -  F: the flag bit (0: partial, 1: full)
#[inline]
fn build_raw_value(depth: u8, hash: u64, is_full: bool, depth_max: u8) -> u64 {
  // Set the sentinel bit
  let mut hash = (hash << 1) | 1_u64;
  // Shift according to the depth and add space for the flag bit
  hash <<= 1 + ((depth_max - depth) << 1);
  // Set the flag bit if needed
  hash | (is_full as u64) // see https://doc.rust-lang.org/std/primitive.bool.html
}



/// Fill with all cells from `start_hash` at `start_depth` to `start_hash_at_target_depth + 1`.
/// with `target_depth` = `start_depth - delta_depth`.
/// - `flag`: value of the is_full flag to be set in cells while going up
/// 
/// The output depth is the input depth minus delta_depth
/// The output hash value is the input hash at the output depth, plus one
fn go_up(start_depth: &mut u8, start_hash: &mut u64, delta_depth: u8, flag: bool, builder: &mut BMOCBuilderUnsafe) {
  // let output_depth = *start_depth - delta_depth;       // For debug only
  // let output_hash = (*start_hash >> (delta_depth << 1)) + 1; // For debug only
  for _ in 0_u8..delta_depth {
    let target_hash = *start_hash | 3_u64;
    for h in (*start_hash + 1)..=target_hash {
      builder.push(*start_depth, h, flag);
    }
    *start_hash >>= 2;
    *start_depth -= 1;
  }
  *start_hash += 1;
  // debug_assert_eq!(*start_depth, output_depth);
  // debug_assert_eq!(*start_hash, output_hash);
}

fn go_down(start_depth: &mut u8, start_hash: &mut u64,
           target_depth: u8, target_hash: u64, flag: bool, builder: &mut BMOCBuilderUnsafe) {
  debug_assert!(target_depth >= *start_depth);
  let mut twice_dd = (target_depth - *start_depth) << 1;
  for d in *start_depth..=target_depth { //range(0, target_depth - start_depth).rev() {
    let target_h_at_d = target_hash >> twice_dd;
    for h in *start_hash..target_h_at_d {
      builder.push(d, h, flag);
    }
    if d != target_depth {
      *start_hash = target_h_at_d << 2;
      twice_dd -= 2;
    }
  }
  *start_depth = target_depth;
  *start_hash  = target_hash;
}
