//! This code is an experiment to be ported in GLSL in order to be used in WebGL.

use std::f32::consts::{PI};

use crate::nside;

pub const TRANSITION_Z: f32 = 2.0 / 3.0;
pub const TRANSITION_Z_INV: f32 = 3.0 / 2.0;

/// Returns the cell number (hash value) associated with the given position on the unit sphere, 
/// together with the offset `(dx, dy)` on the Euclidean plane of the projected position with
/// respect to the origin of the cell (South vertex).
/// # Inputs:
/// - `depth` in `[0, 14]` (so that and HEALPix cell number can be stored on an unsigned integer)
/// - `x`: in `[-1.0, 1.0]`
/// - `y`: in `[-1.0, 1.0]`
/// - `z`: in `[-1.0, 1.0]`
/// # Output
/// - the cell number (hash value) associated with the given position on the unit sphere,
///   in `[0, 12*nside^2[`
/// - `dx`: the positional offset $\in [0, 1[$ along the south-to-east axis
/// - `dy`: the positional offset $\in [0, 1[$ along the south-to-west axis
/// # WARNING
/// - The function assumes, without checking, that the input vector is a unit vector 
///   (hence `x^2 + y^2 + z^2 = 1`) !!
/// - Operations being made on simple precision float, the precision is lower than `~0.2 arcsec` only!!
/// - At depth 13, the precision on `(dx, dy)` is better than `(1/512, 1/512)`, i.e. 2e-3.
pub fn hash_with_dxdy(depth: u8, x: f32, y: f32, z: f32) -> (u32, f32, f32) {
  assert!(depth <= 14);
  assert!(-1.0 <= x && x <= 1.0);
  assert!(-1.0 <= y && y <= 1.0);
  assert!(-1.0 <= z && z <= 1.0);
  // println!("norm: {}", (x *  x + y * y + z * z));
  debug_assert!(1.0 - (x *  x + y * y + z * z) < 1e-5);
  // A f32 mantissa contains 23 bits.
  // - it basically means that when storing (x, y) coordinates,
  //   we can go as deep as depth 24 (or maybe 25)
  let nside = nside(depth);
  let half_nside = nside as f32 * 0.5;
  let (x_pm1, q) = xpm1_and_q(x, y);
  let (d0h, x_in_d0c, y_in_d0c) = if z > TRANSITION_Z {
    // North polar cap, Collignon projection.
    // - set the origin to (PI/4, 0)
    let sqrt_3_one_min_z = (3.0 * one_minus_z_pos(x, y, z)).sqrt();
    let (x_proj, y_proj) = (x_pm1 * sqrt_3_one_min_z, 2.0 - sqrt_3_one_min_z);
    let d0h = q;
    (d0h, x_proj, y_proj)
  } else if z < -TRANSITION_Z {
    // South polar cap, Collignon projection
    // - set the origin to (PI/4, -PI/2)
    let sqrt_3_one_min_z = (3.0 * one_minus_z_neg(x, y, z)).sqrt();
    let (x_proj, y_proj) = (x_pm1 * sqrt_3_one_min_z, sqrt_3_one_min_z);
    let d0h = q + 8;
    (d0h, x_proj, y_proj)
  } else {
    // Equatorial region, Cylindrical equal area projection
    // - set the origin to (PI/4, 0)               if q = 2
    // - set the origin to (PI/4, -PI/2)           if q = 0
    // - set the origin to (0, -TRANSITION_LAT)    if q = 3
    // - set the origin to (PI/2, -TRANSITION_LAT) if q = 1
    // let zero_or_one = (x_cea as u8) & 1;
    let y_pm1 = z * TRANSITION_Z_INV;
    // |\2/|
    // .3X1.
    // |/0\|
    let q01 = (x_pm1 >  y_pm1) as u8;  /* 0/1 */  debug_assert!(q01 == 0 || q01 == 1);
    let q12 = (x_pm1 >= -y_pm1) as u8; /* 0\1 */  debug_assert!(q12 == 0 || q12 == 1);
    let q03 = 1 - q12; /* 1\0 */
    //let q13 = q01 ^ q12;                              debug_assert!(q13 == 0 || q13 == 1);
    let q1  = q01 & q12; /* = 1 if q1, 0 else */      debug_assert!( q1 == 0 ||  q1 == 1);
    // x: x_pm1 + 1 if q3 | x_pm1 - 1 if q1 | x_pm1 if q0 or q2
    let x_proj = x_pm1 - ((q01 + q12) as i8 - 1) as f32;
    // y: y_pm1 + 0 if q2 | y_pm1 + 1 if q1 or q3 | y_pm1 + 2 if q0 
    let y_proj = y_pm1 + (q01 + q03) as f32;
    // d0h: +8 if q0 | +4 if q3 | +5 if q1
    let d0h = ((q01 + q03) << 2) + ((q + q1) & 3);
    (d0h, x_proj, y_proj)
  };
  // Coords inside the base cell
  let x = half_nside * (y_in_d0c + x_in_d0c);    debug_assert!((0.0 - 1e-5) < x && x < (nside as f32 + 1e-5), format!("x: {}, x_proj: {}; y_proj: {}", &x, &x_in_d0c, &y_in_d0c));
  let y = half_nside * (y_in_d0c - x_in_d0c);    debug_assert!((0.0 - 1e-5) < x && y < (nside as f32 + 1e-5), format!("y: {}", &y));
  // Ok to cast on u32 since small negative values due to numerical inaccuracies (like -1e-15), are rounded to 0
  let mut i = x as u32; 
  let mut j = y as u32;
  if i == nside { i -= 1; } // Deal with numerical inaccuracies, rare so branch miss-prediction negligible
  if j == nside { j -= 1; } // Deal with numerical inaccuracies, rare so branch miss-prediction negligible
  (
    ((d0h as u32) << (depth << 1)) | ij2z(i, j),
    (x - (i as f32)),
    (y - (j as f32)),
  )
}

/*pub fn hash_with_dxdy_old(depth: u8, x: f32, y: f32, z: f32) -> (u32, f32, f32) {
  assert!(depth <= 14);
  assert!(-1.0 <= x && x <= 1.0);
  assert!(-1.0 <= y && y <= 1.0);
  assert!(-1.0 <= z && z <= 1.0);
// println!("norm: {}", (x *  x + y * y + z * z));
  debug_assert!(1.0 - (x *  x + y * y + z * z) < 1e-5);
  // A f32 mantissa contains 23 bits.
  // - it basically means that when storing (x, y) coordinates,
  //   we can go as deep as depth 24 (or maybe 25)
  let nside = nside(depth);
  let half_nside = nside as f32 * 0.5;
  let x_cea = x_cea(x, y);    debug_assert!(0.0 <= x_cea && x_cea < 8.0);
  let (d0h, x_proj, y_proj) = if z > TRANSITION_Z { 
    // North polar cap, Collignon projection.
    // - set the origin to (PI/4, 0)
    let offset = ((x_cea as u8) | 1_u8) as f32;
    let x_pm1 = x_cea - offset;    debug_assert!(-1.0 <= x_pm1 && x_pm1 < 1.0);
    let sqrt_3_one_min_z = (3.0 * one_minus_z_pos(x, y, z)).sqrt();
    let (x_proj, y_proj) = (x_pm1 * sqrt_3_one_min_z, 2.0 - sqrt_3_one_min_z);
    let d0h = (offset as u8) >> 1;
// println!("xpm1: {}, d0h: {}", x_pm1, d0h);
    (d0h, x_proj, y_proj)
  } else if z < -TRANSITION_Z { 
    // South polar cap, Collignon projection
    // - set the origin to (PI/4, -PI/2)
    let offset = ((x_cea as u8) | 1_u8) as f32;
    let x_pm1 = x_cea - offset;
    let sqrt_3_one_min_z = (3.0 * one_minus_z_neg(x, y, z)).sqrt();
    let (x_proj, y_proj) = (x_pm1 * sqrt_3_one_min_z, sqrt_3_one_min_z);
    let d0h = 8 + ((offset as u8) >> 1);
    (d0h, x_proj, y_proj)
  } else { 
    // Equatorial region, Cylindrical equal area projection
    // - set the origin to (PI/4, 0)               if q = 2
    // - set the origin to (PI/4, -PI/2)           if q = 0
    // - set the origin to (0, -TRANSITION_LAT)    if q = 3
    // - set the origin to (PI/2, -TRANSITION_LAT) if q = 1
    // let zero_or_one = (x_cea as u8) & 1;
    let offset = ((x_cea as u8) | 1_u8) as f32;
    let x_pm1 = x_cea - offset;
    let y_pm1 = z * TRANSITION_Z_INV;
    // |\2/|
    // .3X1.
    // |/0\|
    let q01 = (x_pm1 >  y_pm1) as u8;  /* 0/1 */  debug_assert!(q01 == 0 || q01 == 1);
    let q12 = (x_pm1 >= -y_pm1) as u8; /* 0\1 */  debug_assert!(q12 == 0 || q12 == 1);
    let q03 = 1 - q12; /* 1\0 */  
    //let q13 = q01 ^ q12;                              debug_assert!(q13 == 0 || q13 == 1);
    let q1  = q01 & q12; /* = 1 if q1, 0 else */      debug_assert!( q1 == 0 ||  q1 == 1);
    // x: xcea - 0 if q3 | xcea - 2 if q1 | xcea - 1 if q0 or q2
    let x_proj = x_cea - (((x_cea as u8) & 14) + (q01 + q12)) as f32;
    // y: y - 0 if q2 | y - 1 if q1 or q3 | y - 2 if q0 
    let y_proj = y_pm1 + (q01 + q03) as f32;
    // d0h: +8 if q0 | +4 if q3 | +5 if q1
    let d0h = ((q01 + q03) << 2) + (((offset as u8 + q1) >> 1) & 3);
    (d0h, x_proj, y_proj)
  };
  // Coords inside the base cell
  let x = (half_nside * (y_proj + x_proj));    debug_assert!(x <= (0.0 - 1e-5) || x < (nside as f32 + 1e-5));
  let y = (half_nside * (y_proj - x_proj));    debug_assert!(y <= (0.0 - 1e-5) || y < (nside as f32 + 1e-5));
  let mut i = x as u32;
  let mut j = y as u32;
  if i == nside { i -= 1; } // Deal with numerical inaccuracies, rare so branch miss-prediction negligible
  if j == nside { j -= 1; } // Deal with numerical inaccuracies, rare so branch miss-prediction negligible
  (
    ((d0h as u32) << (depth << 1)) | ij2z(i, j),
    (x - (i as f32)),
    (y - (j as f32)),
  )
}*/

fn xpm1_and_q(x: f32, y: f32) -> (f32, u8) {
  let x_neg = (x < 0.0) as u8;           debug_assert!(x_neg <= 1);
  let y_neg = (y < 0.0) as u8;           debug_assert!(y_neg <= 1);
  let q = (x_neg + y_neg) | (y_neg << 1);    debug_assert!(y_neg <= 3);
  // The purpose is to have the same numerical precision for each base cell
  // by avoiding subtraction by 1.0 or 3.0 or 5.0 or 7.0
  let lon = y.abs().atan2(x.abs());          debug_assert!(0.0 <= lon && lon <= PI / 2.0);
  let x02 = lon * 4.0 / PI;                  debug_assert!(0.0 <= x02 && x02 <= 2.0);
  if x_neg != y_neg { // Could be replaced by a sign copy from (x_neg ^ y_neg) << 32
    (1.0 - x02, q)
  } else {
    (x02 - 1.0, q)
  }
}

/*fn x_cea(x: f32, y: f32) -> f32 {
  let lon = y.atan2(x);            debug_assert!( -PI <= lon && lon <= PI);
  let mut xpr = lon * 4.0 / PI;    debug_assert!(-4.0 <= xpr && xpr <= 4.0);
  if xpr < 0.0 { 
    xpr += 8.0;                    debug_assert!( 0.0 <= xpr && xpr <  8.0);
  }
  xpr
}*/

fn one_minus_z_pos(x: f32, y: f32, z: f32) -> f32 {
  debug_assert!(z > 0.0);
  let d2: f32 = x * x + y * y; // z = sqrt(1 - d2) AND sqrt(1 - x) = 1 - x / 2 - x^2 / 8 - x^3 / 16 - 5 x^4/128 - 7 * x^5/256
  /*if d2 < 1e-2 { // <=> dec > 84.27 deg
    d2 * (0.5 + d2 * (0.125 + 0.0625 * d2))
  }*/
  if d2 < 1e-1 { // <=> dec > 84.27 deg
    d2 * (0.5 + d2 * (0.125 + d2 * (0.0625 + d2 * (0.0390625 + d2 * 0.02734375))))
  } else {
    1.0 - z
  }
}

fn one_minus_z_neg(x: f32, y: f32, z: f32) -> f32 {
  debug_assert!(z < 0.0);
  let d2: f32 = x * x + y * y; // z = sqrt(1 - d2) AND sqrt(1 - x) = 1 - x / 2 - x^2 / 8 - x^3 / 16 - 5 x^4/128 - 7 * x^5/256
  if d2 < 1e-1 { // <=> dec < -84.27 deg
    // 0.5 * d2 + 0.125 * d2 * d2
    d2 * (0.5 + d2 * (0.125 + d2 * (0.0625 + d2 * (0.0390625 + d2 * 0.02734375))))
  } else {
    z + 1.0
  }
}

/// Z-Order curve projection.
fn ij2z(mut i: u32, mut j: u32) -> u32 {
  i |= j << 16;
  j = (i ^ (i >> 8)) & 0x0000FF00_u32; i = i ^ j ^ (j << 8);
  j = (i ^ (i >> 4)) & 0x00F000F0_u32; i = i ^ j ^ (j << 4);
  j = (i ^ (i >> 2)) & 0x0C0C0C0C_u32; i = i ^ j ^ (j << 2);
  j = (i ^ (i >> 1)) & 0x22222222_u32; i = i ^ j ^ (j << 1);
  i
}

#[cfg(test)]
mod tests {

  use crate::nested;
  use crate::proj;
  use super::*;

  #[test]
  fn testok_hash_gpu_spe_1() {
    const delta_depth: u8 = 1;
    // Input
    let depth = 13; // done with depth 13
    // Computations
    let layer = nested::get_or_create(depth + delta_depth);
    let h = 259907375;
    // for h in 0..layer.n_hash() {
      let (ra, de) = layer.center(h);
    
      println!("{:?}", proj(ra, de));
    
      let (sl, cl) = ra.sin_cos();
      let (sb, cb) = de.sin_cos();
      let (x, y, z) = (cb * cl, cb * sl, sb);
      let (nh, dx, dy) = hash_with_dxdy(depth, x as f32, y as f32, z as f32);
      assert_eq!((h >> (delta_depth << 1)) as u32, nh);
      let prec = 1.0 / 512.0; //512.0; // HiPS images: 512 x 512
      match (h & 3) {
        0 => {
          assert!((dx - 0.25).abs() <= prec, format!("h: {}; ra: {}; dec: {}; dx: {}; dy: {}; prec: {}", h, ra.to_degrees(), de.to_degrees(), dx, dy, (dx - 0.25).abs())); // precision should depends on depth!!
          assert!((dy - 0.25).abs() <= prec, format!("h: {}; ra: {}; dec: {}; dx: {}; dy: {}; prec: {}", h, ra.to_degrees(), de.to_degrees(), dx, dy, (dy - 0.25).abs())); // 1e-3 => images 1000x1000 while HiPS uses 512x512
        },
        1 => {
          assert!((dx - 0.75).abs() <= prec, format!("h: {}; ra: {}; dec: {}; dx: {}; dy: {}; prec: {}", h, ra.to_degrees(), de.to_degrees(), dx, dy, (dx - 0.75).abs()));
          assert!((dy - 0.25).abs() <= prec, format!("h: {}; ra: {}; dec: {}; dx: {}; dy: {}; prec: {}", h, ra.to_degrees(), de.to_degrees(), dx, dy, (dy - 0.25).abs()));
        },
        2 => {
          assert!((dx - 0.25).abs() <= prec, format!("h: {}; ra: {}; dec: {}; dx: {}; dy: {}; prec: {}", h, ra.to_degrees(), de.to_degrees(), dx, dy, (dx - 0.25).abs()));
          assert!((dy - 0.75).abs() <= prec, format!("h: {}; ra: {}; dec: {}; dx: {}; dy: {}; prec: {}", h, ra.to_degrees(), de.to_degrees(), dx, dy, (dy - 0.75).abs()));
        },
        3 => {
          assert!((dx - 0.75).abs() <= prec, format!("h: {}; ra: {}; dec: {}; dx: {}; dy: {}; prec: {}", h, ra.to_degrees(), de.to_degrees(), dx, dy, (dx - 0.75).abs()));
          assert!((dy - 0.75).abs() <= prec, format!("h: {}; ra: {}; dec: {}; dx: {}; dy: {}; prec: {}", h, ra.to_degrees(), de.to_degrees(), dx, dy, (dy - 0.75).abs()));
        },
        _ => unreachable!(),
      }
    // }
  }

  #[test]
  fn testok_hash_gpu_spe_2() {
    const delta_depth: u8 = 1;
    // Input
    let depth = 13; // done with depth 13
    // Computations
    let layer = nested::get_or_create(depth + delta_depth);
    let h = 430712695;
    // for h in 0..layer.n_hash() {
    let (ra, de) = layer.center(h);

    println!("RA: {}; Dec: {}", ra.to_degrees(), de.to_degrees());
    println!("Proj: {:?}", proj(ra, de));

    let (sl, cl) = ra.sin_cos();
    let (sb, cb) = de.sin_cos();
    let (x, y, z) = (cb * cl, cb * sl, sb);
    let (nh, dx, dy) = hash_with_dxdy(depth, x as f32, y as f32, z as f32);
    // let (onh, odx, ody) = hash_with_dxdy_old(depth, x as f32, y as f32, z as f32);
    assert_eq!((h >> (delta_depth << 1)) as u32, nh);
    let prec = 1.0 / 512.0; //512.0; // HiPS images: 512 x 512
    match (h & 3) {
      0 => {
        assert!((dx - 0.25).abs() <= prec, format!("h: {}; ra: {}; dec: {}; dx: {}; dy: {}; prec: {}", h, ra.to_degrees(), de.to_degrees(), dx, dy, (dx - 0.25).abs())); // precision should depends on depth!!
        assert!((dy - 0.25).abs() <= prec, format!("h: {}; ra: {}; dec: {}; dx: {}; dy: {}; prec: {}", h, ra.to_degrees(), de.to_degrees(), dx, dy, (dy - 0.25).abs())); // 1e-3 => images 1000x1000 while HiPS uses 512x512
      },
      1 => {
        assert!((dx - 0.75).abs() <= prec, format!("h: {}; ra: {}; dec: {}; dx: {}; dy: {}; prec: {}", h, ra.to_degrees(), de.to_degrees(), dx, dy, (dx - 0.75).abs()));
        assert!((dy - 0.25).abs() <= prec, format!("h: {}; ra: {}; dec: {}; dx: {}; dy: {}; prec: {}", h, ra.to_degrees(), de.to_degrees(), dx, dy, (dy - 0.25).abs()));
      },
      2 => {
        assert!((dx - 0.25).abs() <= prec, format!("h: {}; ra: {}; dec: {}; dx: {}; dy: {}; prec: {}", h, ra.to_degrees(), de.to_degrees(), dx, dy, (dx - 0.25).abs()));
        assert!((dy - 0.75).abs() <= prec, format!("h: {}; ra: {}; dec: {}; dx: {}; dy: {}; prec: {}", h, ra.to_degrees(), de.to_degrees(), dx, dy, (dy - 0.75).abs()));
      },
      3 => {
        assert!((dx - 0.75).abs() <= prec, format!("h: {}; ra: {}; dec: {}; dx: {}; dy: {}; prec: {}", h, ra.to_degrees(), de.to_degrees(), dx, dy, (dx - 0.75).abs()));
        assert!((dy - 0.75).abs() <= prec, format!("h: {}; ra: {}; dec: {}; dx: {}; dy: {}; prec: {}", h, ra.to_degrees(), de.to_degrees(), dx, dy, (dy - 0.75).abs()));
      },
      _ => unreachable!(),
    }
    // }
  }
  
  #[test]
  fn testok_hash_gpu_sys() {
    const delta_depth: u8 = 1;
    // Input
    let depth = 4; // done with depth 13 (but too long to be tested systematically
    // Computations
    let layer = nested::get_or_create(depth + delta_depth);
    let mut d0h = 0;
    for h in 0..layer.n_hash() {
      if (h >> ((depth + 1) << 1)) != d0h {
        d0h += 1;
        println!("New base cell: {}", d0h);
      }
      // println!("h: {}", &h);
      let (ra, de) = layer.center(h);
      let (sl, cl) = ra.sin_cos();
      let (sb, cb) = de.sin_cos();
      let (x, y, z) = (cb * cl, cb * sl, sb);
      let (nh, dx, dy) = hash_with_dxdy(depth, x as f32, y as f32, z as f32);
      assert_eq!((h >> (delta_depth << 1)) as u32, nh);
      let prec = 1.0 / 512.0; //512.0; // HiPS images: 512 x 512 with level max = 14
      match (h & 3) {
        0 => {
          assert!((dx - 0.25).abs() <= prec, format!("h: {}; ra: {}; dec: {}; dx: {}; dy: {}; prec: {}", h, ra.to_degrees(), de.to_degrees(), dx, dy, (dx - 0.25).abs())); // precision should depends on depth!!
          assert!((dy - 0.25).abs() <= prec, format!("h: {}; ra: {}; dec: {}; dx: {}; dy: {}; prec: {}", h, ra.to_degrees(), de.to_degrees(), dx, dy, (dy - 0.25).abs())); // 1e-3 => images 1000x1000 while HiPS uses 512x512
        },
        1 => {
          assert!((dx - 0.75).abs() <= prec, format!("h: {}; ra: {}; dec: {}; dx: {}; dy: {}; prec: {}", h, ra.to_degrees(), de.to_degrees(), dx, dy, (dx - 0.75).abs()));
          assert!((dy - 0.25).abs() <= prec, format!("h: {}; ra: {}; dec: {}; dx: {}; dy: {}; prec: {}", h, ra.to_degrees(), de.to_degrees(), dx, dy, (dy - 0.25).abs()));
        },
        2 => {
          assert!((dx - 0.25).abs() <= prec, format!("h: {}; ra: {}; dec: {}; dx: {}; dy: {}; prec: {}", h, ra.to_degrees(), de.to_degrees(), dx, dy, (dx - 0.25).abs()));
          assert!((dy - 0.75).abs() <= prec, format!("h: {}; ra: {}; dec: {}; dx: {}; dy: {}; prec: {}", h, ra.to_degrees(), de.to_degrees(), dx, dy, (dy - 0.75).abs()));
        },
        3 => {
          assert!((dx - 0.75).abs() <= prec, format!("h: {}; ra: {}; dec: {}; dx: {}; dy: {}; prec: {}", h, ra.to_degrees(), de.to_degrees(), dx, dy, (dx - 0.75).abs()));
          assert!((dy - 0.75).abs() <= prec, format!("h: {}; ra: {}; dec: {}; dx: {}; dy: {}; prec: {}", h, ra.to_degrees(), de.to_degrees(), dx, dy, (dy - 0.75).abs()));
        },
        _ => unreachable!(),
      }
    }
  }
  
}

