use std::sync::Once;
use std::ops::Shr;

use super::compass_point::*;
use super::external_edge::*;
use super::*;

/// Array storing pre-computed values for each of the 30 possible depth (from 0 to 29)
/// Info: Unfortunately Default::default(); do no work with static arrays :o/
static mut LAYERS: [Option<Layer>; 30] =  [
  None, None, None, None, None, None, None, None, None, None, None, None, None, None, None,
  None, None, None, None, None, None, None, None, None, None, None, None, None, None, None
];
/// See the get_or_create function, each object is used for the lazy instantiation of the 
/// layer of the corresponding depth.
/// Info: Unfortunately Default::default(); do no work with static arrays :o/
static LAYERS_INIT: [Once; 30] = [
  Once::new(), Once::new(), Once::new(), Once::new(), Once::new(), Once::new(), Once::new(),
  Once::new(), Once::new(), Once::new(), Once::new(), Once::new(), Once::new(), Once::new(),
  Once::new(), Once::new(), Once::new(), Once::new(), Once::new(), Once::new(), Once::new(),
  Once::new(), Once::new(), Once::new(), Once::new(), Once::new(), Once::new(), Once::new(),
  Once::new(), Once::new()
];

// const l0: Layer = 

/// Lazy factory method: instantiate a new Layer at the first call for a given depth; after the 
/// first call, returns an already instantiated Layer.
/// # Info
/// This method resort to a double-checked lock, ensuring thread-safety.
pub fn get_or_create(depth: u8) -> &'static Layer {
  unsafe {
    // Inspired from the Option get_or_insert_with method, modified to ensure thread safety with
    // https://doc.rust-lang.org/std/sync/struct.Once.html
    // This implements a double-checked lock
    // The slot must not be read before the `Once` is completed: another thread may be writing it (data race;
    // a partially initialized Layer was observed). `call_once` is a simple atomic load once completed.
    LAYERS_INIT[depth as usize].call_once(|| {
      LAYERS[depth as usize] = Some(Layer::new(depth));
    });
    match LAYERS[depth as usize] {
      Some(ref v) => v,
      _ => unreachable!(),
    }
  }
}

pub const fn to_range(hash: u64, delta_depth: u8) -> std::ops::Range<u64> {
  let twice_delta_depth = delta_depth << 1;
  (hash << twice_delta_depth)..((hash + 1) << twice_delta_depth)
}


/// Transforms the given NESTED hash value into its uniq representation, i.e. the depth
/// is encoded together with the hash value such that each possible (deph, hash) pair 
/// gives a unique number.
/// In practice, the unique representation uses a sentinel bit (set to one) to code the depth.
/// The sentinel bit (set to 1) is the least significant bit (LSB) among the unused bits,
/// i.e. the most significant bit (MSB) located just after the hash MSB.
/// Said differently, the sentinel bit is the `(1 + 4 + 2*depth)^th` MSB
/// The encoding, in the case of the nested scheme, is thus `0...0sbbbb112233...`, with:
/// * `0...0`: unused bits</li>
/// * `s` : sentinel bit</li>
/// * `bbbb`: the 4 bits coding the base cell
/// * `11`: the 2 bits coding depth 1
/// * `22`: the 2 bits coding depth 2
/// * `33`: the 2 bits coding depth 3
/// * ...
/// 
/// # Example
/// 
/// ```rust
/// use cdshealpix::nested::{get_or_create, Layer};
/// let l0 = get_or_create(0);
/// assert_eq!(l0.to_uniq(0), 16);
/// ```
#[inline]
pub fn to_uniq(depth: u8, hash: u64) -> u64 {
  check_depth(depth);
  to_uniq_unsafe(depth, hash)
}
#[inline]
const fn to_uniq_unsafe(depth: u8, hash: u64) -> u64 {
  (16_u64 << (depth << 1)) | hash
}

/// Same as [to_uniq](fn.to_uniq.html), but
/// following the [IVOA](http://ivoa.net/documents/MOC/) convention.
/// It does not rely on a sentinel bit and use one less bit.
#[inline]
pub fn to_uniq_ivoa(depth: u8, hash: u64) -> u64 {
  check_depth(depth);
  to_uniq_ivoa_unsafe(depth, hash)
}
#[inline]
const fn to_uniq_ivoa_unsafe(depth: u8, hash: u64) -> u64 {
  (4_u64 << (depth << 1)) + hash
}

/// Returns the depth and the hash number from the uniq representation.
/// Inverse operation of [to_uniq](fn.to_uniq.html).
pub fn from_uniq(uniq_hash: u64) -> (u8, u64) {
  let depth = (60 - uniq_hash.leading_zeros()) >> 1;
  let hash = uniq_hash & !(16_u64 << (depth << 1));
  // = uniq_hash - (16_u64 << (depth << 1));
  // = uniq_hash & !highest_one_bit(uniq_hash)); also works, but do not benefit from depth
  (depth as u8, hash)
}

/// Returns the depth and the hash number from the uniq representation.
/// Inverse operation of [to_uniq](fn.to_uniq_ivoa.html).
pub fn from_uniq_ivoa(uniq_hash: u64) -> (u8, u64) {
  let depth = (61 - uniq_hash.leading_zeros()) >> 1;
  let hash = uniq_hash - (4_u64 << (depth << 1));
  (depth as u8, hash)
}

const fn highest_one_bit(mut i: u64) -> u64 {
  i |= i >>  1;
  i |= i >>  2;
  i |= i >>  4;
  i |= i >>  8;
  i |= i >> 16;
  i |= i >> 32;
  i - (i >> 1)
}


/// Conveniency function returning the number of hash value in the [Layer] of the given *depth*.
#[inline]
pub fn n_hash(depth: u8) -> u64 {
  get_or_create(depth).n_hash
}

/// Conveniency function simply calling the [hash](struct.Layer.html#method.hash) method
/// of the [Layer] of the given *depth*.
#[inline]
pub fn hash(depth: u8, lon: f64, lat: f64) -> u64 {
  get_or_create(depth).hash(lon, lat)
}

/// Conveniency function simply calling the [hash](struct.Layer.html#method.hash_with_dxdy) method
/// of the [Layer] of the given *depth*.
#[inline]
pub fn hash_with_dxdy(depth: u8, lon: f64, lat: f64) -> (u64, f64, f64) {
  get_or_create(depth).hash_with_dxdy(lon, lat)
}

/// Conveniency function simply calling the [center](struct.Layer.html#method.sph_coo) method
/// of the [Layer] of the given *depth*.
#[inline]
pub fn sph_coo(depth: u8, hash: u64, dx: f64, dy: f64) -> (f64, f64) { 
  get_or_create(depth).sph_coo(hash, dx, dy)
}

/// Conveniency function simply calling the [center](struct.Layer.html#method.center) method
/// of the [Layer] of the given *depth*.
#[inline]
pub fn center(depth: u8, hash: u64) -> (f64, f64) {
  get_or_create(depth).center(hash)
}

/// Conveniency function simply calling the [vertices](struct.Layer.html#method.vertices) method
/// of the [Layer] of the given *depth*.
#[inline]
pub fn vertices(depth: u8, hash: u64) -> [(f64, f64); 4] {
  get_or_create(depth).vertices(hash)
}


/// Conveniency function simply calling the [vertices](struct.Layer.html#method.path_along_cell_side) method
/// of the [Layer] of the given *depth*.
#[inline]
pub fn path_along_cell_side(depth: u8, hash: u64, from_vertex:  &Cardinal, to_vertex: &Cardinal, include_to_vertex: bool, n_segments: u32) -> Box<[(f64, f64)]> {
  get_or_create(depth).path_along_cell_side(hash, from_vertex, to_vertex, include_to_vertex, n_segments)
}

/// Conveniency function simply calling the [vertices](struct.Layer.html#method.path_along_cell_edge) method
/// of the [Layer] of the given *depth*.
#[inline]
pub fn path_along_cell_edge(depth: u8, hash: u64, starting_vertex: &Cardinal, clockwise_direction: bool, n_segments_by_side: u32) -> Box<[(f64, f64)]> {
  get_or_create(depth).path_along_cell_edge(hash, starting_vertex, clockwise_direction, n_segments_by_side)
}

/// Conveniency function simply calling the [vertices](struct.Layer.html#method.grid) method
/// of the [Layer] of the given *depth*.
#[inline]
pub fn grid(depth: u8, hash: u64, n_segments_by_side: u16) -> Box<[(f64, f64)]> {
  get_or_create(depth).grid(hash, n_segments_by_side)
}

/// Conveniency function simply calling the [neighbours](struct.Layer.html#method.neighbours) method
/// of the [Layer] of the given *depth*.
#[inline]
pub fn neighbours(depth: u8, hash: u64, include_center: bool) -> MainWindMap<u64> {
  get_or_create(depth).neighbours(hash, include_center)
}

/// Conveniency function simply calling the [internal_edge](struct.Layer.html#method.internal_edge) method
/// of the [Layer] of the given *depth*.
#[inline]
pub fn internal_edge(depth: u8, hash: u64, delta_depth: u8) -> Box<[u64]> {
  assert!(depth + delta_depth <= DEPTH_MAX);
  Layer::internal_edge(hash, delta_depth)
}

/// Conveniency function simply calling the [internal_edge_sorted](struct.Layer.html#method.internal_edge_sorted) method
/// of the [Layer] of the given *depth*.
#[inline]
pub fn internal_edge_sorted(depth: u8, hash: u64, delta_depth: u8) -> Box<[u64]> {
  assert!(depth + delta_depth <= DEPTH_MAX);
  Layer::internal_edge_sorted(hash, delta_depth)
}

/// Conveniency function simply calling the [external_edge_struct](struct.Layer.html#method.external_edge_struct) method
/// of the [Layer] of the given *depth*.
#[inline]
pub fn external_edge_struct(depth: u8, hash: u64, delta_depth: u8) -> ExternalEdge {
  get_or_create(depth).external_edge_struct(hash, delta_depth)
}

/// Conveniency function simply calling the [external_edge](struct.Layer.html#method.external_edge) method
/// of the [Layer] of the given *depth*.
#[inline]
pub fn external_edge(depth: u8, hash: u64, delta_depth: u8) -> Box<[u64]> {
  get_or_create(depth).external_edge(hash, delta_depth)
}

/// Conveniency function simply calling the [external_edge_sorted](struct.Layer.html#method.external_edge_sorted) method
/// of the [Layer] of the given *depth*.
#[inline]
pub fn external_edge_sorted(depth: u8, hash: u64, delta_depth: u8) -> Box<[u64]> {
  get_or_create(depth).external_edge_sorted(hash, delta_depth)
}

/// Conveniency function simply calling the [bilinear_interpolation](struct.Layer.html#method.bilinear_interpolation) method
/// of the [Layer] of the given *depth*.
#[inline]
pub fn bilinear_interpolation(depth: u8, lon: f64, lat: f64) -> [(u64, f64); 4] {
  get_or_create(depth).bilinear_interpolation(lon, lat)
}

/// Conveniency function simply calling the [cone_coverage_approx](struct.Layer.html#method.cone_coverage_approx) method
/// of the [Layer] of the given *depth*.
#[inline]
pub fn cone_coverage_approx(depth: u8, cone_lon: f64, cone_lat: f64, cone_radius: f64) -> BMOC {
  get_or_create(depth).cone_coverage_approx(cone_lon, cone_lat, cone_radius)
}

/// Conveniency function simply calling the [cone_coverage_flat](struct.Layer.html#method.cone_coverage_approx) method
/// of the [Layer] of the given *depth* and retrieving a flat array.
#[inline]
pub fn cone_coverage_approx_flat(depth: u8, cone_lon: f64, cone_lat: f64, cone_radius: f64) -> Box<[u64]> {
  get_or_create(depth).cone_coverage_approx(cone_lon, cone_lat, cone_radius).to_flat_array()
}

/// Conveniency function simply calling the [cone_coverage_approx_custom](struct.Layer.html#method.cone_coverage_approx_custom) method
/// of the [Layer] of the given *depth*.
#[inline]
pub fn cone_coverage_approx_custom(depth: u8, delta_depth: u8, cone_lon: f64, cone_lat: f64, cone_radius: f64) -> BMOC {
  get_or_create(depth).cone_coverage_approx_custom(delta_depth, cone_lon, cone_lat, cone_radius)
}

/// Conveniency function simply calling the [elliptical_cone_coverage](struct.Layer.html#method.elliptical_cone_coverage) method
/// of the [Layer] of the given *depth*.
#[inline]
pub fn elliptical_cone_coverage(depth: u8, lon: f64, lat: f64, a: f64, b: f64, pa: f64) -> BMOC {
  get_or_create(depth).elliptical_cone_coverage( lon, lat, a, b, pa)
}

/// Conveniency function simply calling the [elliptical_cone_coverage_custom](struct.Layer.html#method.elliptical_cone_coverage_custom) method
/// of the [Layer] of the given *depth*.
#[inline]
pub fn elliptical_cone_coverage_custom(depth: u8, delta_depth: u8, lon: f64, lat: f64, a: f64, b: f64, pa: f64) -> BMOC {
  get_or_create(depth).elliptical_cone_coverage_custom(delta_depth, lon, lat, a, b, pa)
}

/// Conveniency function simply calling the [polygon_coverage_approx](struct.Layer.html#method.polygon_coverage_approx) method
/// of the [Layer] of the given *depth*.
#[inline]
pub fn polygon_coverage(depth: u8, vertices: &[(f64, f64)], exact_solution: bool) -> BMOC {
  get_or_create(depth).polygon_coverage(vertices, exact_solution)
}


pub mod bmoc;
pub mod zordercurve;
mod gpu;

use self::zordercurve::{ZOrderCurve, get_zoc};
use self::bmoc::*;
use super::ring::{triangular_number_x4, polar_ring_index};
use super::sph_geom::coo3d::*;
use super::sph_geom::{Polygon};
use super::sph_geom::cone::{Cone};
use super::sph_geom::elliptical_cone::EllipticalCone;
use super::{proj, direction_from_neighbour, edge_cell_direction_from_neighbour};
use super::compass_point::{Cardinal, CardinalSet, CardinalMap};
use super::compass_point::MainWind::{S, SE, E, SW, C, NE, W, NW, N};
use super::special_points_finder::{arc_special_points};


/// Defines an HEALPix layer in the NESTED scheme.
/// A layer is simply an utility structure containing all constants and methods related
/// to a given depth.
pub struct Layer { // Why not creating all of them at compilation using a macro?!
  depth: u8,
  nside: u32,
  nside_minus_1: u32,
  n_hash: u64,
  twice_depth: u8,
  d0h_mask: u64,
  x_mask: u64,
  y_mask: u64,
  xy_mask: u64,
  nside_remainder_mask: u64, // = nside - 1
  time_half_nside: i64,
  one_over_nside: f64,
  z_order_curve: &'static dyn ZOrderCurve,
}

impl Layer {
  
  fn new(depth: u8) -> Layer {
    #[cfg(cdshealpix_verif)]
    crate::verif_hooks::on_construct(crate::verif_hooks::TABLE_LAYER, depth);
    let twice_depth: u8 = depth << 1u8;
    let nside: u32 = 1u32 << depth;
    let mut x_mask = 0u64;
    let mut xy_mask = 0u64;
    let mut time_half_nside = -1_i64 << 52;
    if depth > 0 {
      x_mask = 0x5555555555555555u64 >> (64 - twice_depth); // ...0101
      xy_mask = (1u64 << twice_depth) - 1u64;
      time_half_nside = ((depth - 1) as i64) << 52;
    }
    Layer {
      depth,
      nside,
      nside_minus_1: nside - 1,
      n_hash: super::n_hash_unsafe(depth),
      twice_depth,
      d0h_mask: 15_u64 << twice_depth,
      x_mask,
      y_mask: x_mask << 1,
      xy_mask,
      nside_remainder_mask: xy_mask >> depth, // = nside - 1
      time_half_nside,
      one_over_nside: 1f64 / super::nside_unsafe(depth) as f64,
      z_order_curve: get_zoc(depth)
    }
  }

  /// Returns the depth of the Layer (i.e. the HEALPix *order*)
  #[inline]
  pub fn depth(&self) -> u8 { self.depth }

  /// Returns the number of hash value of the Layer, i.e. the number of cells.
  #[inline]
  pub fn n_hash(&self) -> u64 {
    self.n_hash
  }
  
  /// Returns the cell number (hash value) associated with the given position on the unit sphere
  /// # Inputs
  /// - `lon`: longitude in radians, support reasonably large positive and negative values
  ///          producing accurate results with a naive range reduction like modulo 2*pi
  ///          (i.e. without having to resort on Cody-Waite or Payne Hanek range reduction).
  /// - `lat`: latitude in radians, must be in `[-pi/2, pi/2]`
  /// # Output
  /// - the cell number (hash value) associated with the given position on the unit sphere,
  ///   in `[0, 12*nside^2[`
  /// # Panics
  ///   If `lat` **not in** `[-pi/2, pi/2]`, this method panics.
  /// # Examples
  /// ```rust
  /// use cdshealpix::{nside};
  /// use cdshealpix::nested::{get_or_create, Layer};
  ///
  /// let depth = 12_u8;
  /// let nside = nside(depth) as u64;
  /// let nested12: &Layer = get_or_create(depth);
  /// assert_eq!(nside * nside - 1, nested12.hash(12.5_f64.to_radians(), 89.99999_f64.to_radians()));
  /// ```
  pub fn hash(&self, lon: f64, lat: f64) -> u64 {
    self.hash_v2(lon, lat)
  }

  pub fn hash_v1(&self, lon: f64, lat: f64) -> u64 {
    let mut xy = proj(lon, lat);
    xy.0 = ensures_x_is_positive(xy.0);
    self.shift_rotate_scale(&mut xy);
    let mut ij = discretize(xy);
    let ij_d0c = self.base_cell_coos(&ij);
    let d0h_bits = self.depth0_bits(ij_d0c.0, ij_d0c.1, ij, xy/*, lon, lat*/);
    self.to_coos_in_base_cell(&mut ij);
    self.build_hash(d0h_bits, ij.0 as u32, ij.1 as u32)
  }

  pub fn hash_v2(&self, lon: f64, lat: f64) -> u64 {
    check_lat(lat);
    let (d0h, l_in_d0c, h_in_d0c) = Layer::d0h_lh_in_d0c(lon, lat);
    // Coords inside the base cell
    //  - ok to cast on u32 since small negative values due to numerical inaccuracies (like -1e-15), are rounded to 0
    let i = f64::from_bits((self.time_half_nside + (h_in_d0c + l_in_d0c).to_bits() as i64) as u64) as u32;
    let j = f64::from_bits((self.time_half_nside + (h_in_d0c - l_in_d0c).to_bits() as i64) as u64) as u32;
    //  - deals with numerical inaccuracies, rare so branch miss-prediction negligible
    let i = if i == self.nside { self.nside_minus_1 } else { i };
    let j = if j == self.nside { self.nside_minus_1 } else { j };
    self.build_hash_from_parts(d0h, i, j)
  }
  
  pub fn hash_dxdy_v2(&self, lon: f64, lat: f64) -> (u64, f64, f64) {
    let (d0h, l_in_d0c, h_in_d0c) = Layer::d0h_lh_in_d0c(lon, lat);
    // Coords inside the base cell time nside/2
    let x = f64::from_bits((self.time_half_nside + (h_in_d0c + l_in_d0c).to_bits() as i64) as u64); 
    debug_assert!(x <= (0.0 - 1e-15) || x < (self.nside as f64 + 1e-15), format!("x: {}, x_proj: {}; y_proj: {}", &x, &h_in_d0c, &l_in_d0c));
    let y = f64::from_bits((self.time_half_nside + (h_in_d0c - l_in_d0c).to_bits() as i64) as u64);
    debug_assert!(y <= (0.0 - 1e-15) || y < (self.nside as f64 + 1e-15), format!("y: {}, x_proj: {}; y_proj: {}", &y, &h_in_d0c, &l_in_d0c));
    // - ok to cast on u32 since small negative values due to numerical inaccuracies (like -1e-15), are rounded to 0
    let i = x as u32;
    let j = y as u32;
    //  - deals with numerical inaccuracies, rare so branch miss-prediction negligible
    let i = if i == self.nside { self.nside_minus_1 } else { i };
    let j = if j == self.nside { self.nside_minus_1 } else { j };
    (
      self.build_hash_from_parts(d0h, i, j),
      (x - (i as f64)),
      (y - (j as f64)),
    )
  }

  #[inline]
  fn d0h_lh_in_d0c(lon: f64, lat: f64) -> (u8, f64, f64) {
    let (x_pm1, q) = Layer::xpm1_and_q(lon);
    if lat > TRANSITION_LATITUDE {
      // North polar cap, Collignon projection.
      // - set the origin to (PI/4, 0)
      let sqrt_3_one_min_z = SQRT6 * (lat / 2.0 + PI_OVER_FOUR).cos();
      let (x_proj, y_proj) = (x_pm1 * sqrt_3_one_min_z, 2.0 - sqrt_3_one_min_z);
      let d0h = q;
      (d0h, x_proj, y_proj)
    } else if lat < -TRANSITION_LATITUDE {
      // South polar cap, Collignon projection
      // - set the origin to (PI/4, -PI/2)
      let sqrt_3_one_min_z = SQRT6 * (lat / 2.0 - PI_OVER_FOUR).cos(); // cos(-x) = cos(x)
      let (x_proj, y_proj) = (x_pm1 * sqrt_3_one_min_z, sqrt_3_one_min_z);
      let d0h = q + 8;
      (d0h, x_proj, y_proj)
    } else {
      // Equatorial region, Cylindrical equal area projection
      // - set the origin to (PI/4, 0)               if q = 2
      // - set the origin to (PI/4, -PI/2)           if q = 0
      // - set the origin to (0, -TRANSITION_LAT)    if q = 3
      // - set the origin to (PI/2, -TRANSITION_LAT) if q = 1
      // let zero_or_one = (x_cea as u8) & 1;
      let y_pm1 = lat.sin() * ONE_OVER_TRANSITION_Z;
      // Inequalities have been carefully chosen so that S->E and S->W axis are part of the cell,
      // and not E->N and W->N
      
      // Version with branch
      // |\3/|
      // .2X1.
      // |/0\|
      /*let q13 = (x_pm1 >= -y_pm1) as u8; /* 0\1 */  debug_assert!(q12 == 0 || q12 == 1);
      let q23 = (x_pm1 <=  y_pm1) as u8; /* 1/0 */  debug_assert!(q23 == 0 || q23 == 1);
      match q13 | (q23 << 1) {
        0 => ( q         , x_pm1      , y_pm1 + 2.0),
        1 => ((q + 5) & 7, x_pm1 - 1.0, y_pm1 + 1.0), // (q + 5) & 7 <=> (q + 1) | 4
        2 => ( q + 4     , x_pm1 + 1.0, y_pm1 + 1.0),
        3 => ( q + 8     , x_pm1      , y_pm1),
        _ => unreachable!(),
      }*/
      // Branch free version
      // |\2/|
      // .3X1.
      // |/0\|
      let q01 = (x_pm1 >   y_pm1) as u8;  /* 0/1 */  debug_assert!(q01 == 0 || q01 == 1);
      let q12 = (x_pm1 >= -y_pm1) as u8; /* 0\1 */  debug_assert!(q12 == 0 || q12 == 1);
      let q1 = q01 & q12; /* = 1 if q1, 0 else */       debug_assert!( q1 == 0 ||  q1 == 1);
      let q013 = q01 + (1 - q12); // = q01 + q03; /* 0/1 + 1\0 +  */
      // x: x_pm1 + 1 if q3 | x_pm1 - 1 if q1 | x_pm1 if q0 or q2
      let x_proj = x_pm1 - ((q01 + q12) as i8 - 1) as f64;
      // y: y_pm1 + 0 if q2 | y_pm1 + 1 if q1 or q3 | y_pm1 + 2 if q0 
      let y_proj = y_pm1 + q013 as f64;
      // d0h: +8 if q0 | +4 if q3 | +5 if q1
      let d0h = (q013 << 2) + ((q + q1) & 3);
      (d0h, x_proj, y_proj)
    }
  }
  
  /// Transform the input longitude, in radians, in a value `x` in `[-1, 1[` plus a quarter in `[0, 3]`,
  /// such that `lon = (x + 1) * PI / 4 + q * PI / 2`. 
  #[inline]
  fn xpm1_and_q(lon: f64) -> (f64, u8) {
    let lon_bits = lon.to_bits();
    let lon_abs = f64::from_bits(lon_bits & F64_BUT_SIGN_BIT_MASK);
    let lon_sign = lon_bits & F64_SIGN_BIT_MASK;
    let x = lon_abs * FOUR_OVER_PI;
    let odd_floor = x as u8 | 1_u8;
    let q = odd_floor & 7_u8;    debug_assert!(q < 8);
    // Remark: to avoid the branch, we could have copied lon_sign on x - q, 
    //         but I so far lack of idea to deal with q efficiently.
    //         And we are not supposed to have negative longitudes in ICRS 
    //         (the most used reference system in astronomy).
    if lon_sign == 0 { // => lon >= 0
      (x - (odd_floor as f64), q >> 1)
    } else { // case lon < 0 should be rare => few risks of branch miss-prediction
      // Since q in [0, 3]: 3 - (q >> 1)) <=> 3 & !(q >> 1)
      // WARNING: BE SURE TO HANDLE THIS CORRECTLY IN THE REMAINING OF THE CODE!
      //  - Case lon =  3/4 pi = 270 deg => x = -1, q=3
      //  - Case lon = -1/2 pi = -90 deg => x =  1, q=2
      (odd_floor as f64 - x, 3 - (q >> 1))
    }
  }
  
  
  /// Returns the cell number (hash value) associated with the given position on the unit sphere, 
  /// together with the offset `(dx, dy)` on the Euclidean plane of the projected position with
  /// respect to the origin of the cell (South vertex).
  /// # Inputs
  /// - `lon`: longitude in radians, support reasonably large positive and negative values
  ///          producing accurate results with a naive range reduction like modulo 2*pi
  ///          (i.e. without having to resort on Cody-Waite or Payne Hanek range reduction).
  /// - `lat`: latitude in radians, must be in `[-pi/2, pi/2]`
  /// # Output
  /// - the cell number (hash value) associated with the given position on the unit sphere,
  ///   in `[0, 12*nside^2[`
  /// - `dx`: the positional offset $\in [0, 1[$ along the south-to-east axis
  /// - `dy`: the positional offset $\in [0, 1[$ along the south-to-west axis
  /// # Panics
  ///   If `lat` **not in** `[-pi/2, pi/2]`, this method panics.
  /// # Examples
  /// ```rust
  /// use cdshealpix::{nside};
  /// use cdshealpix::nested::{get_or_create, Layer};
  ///
  /// let depth = 12_u8;
  /// let nside = nside(depth) as u64;
  /// let nested12: &Layer = get_or_create(depth);
  /// let h_org = nside * nside - 1;
  /// let (h_ra, h_dec) = nested12.center(h_org);
  /// let (h, dx, dy) = nested12.hash_with_dxdy(h_ra, h_dec);
  /// assert_eq!(h_org, h);
  /// assert_eq!(0.5, dx);
  /// assert_eq!(0.5, dy);
  /// ```
  pub fn hash_with_dxdy(&self, lon: f64, lat: f64) -> (u64, f64, f64) {
    let mut xy = proj(lon, lat);
    xy.0 = ensures_x_is_positive(xy.0);
    self.shift_rotate_scale(&mut xy);
    let mut ij = discretize(xy);
    let dx = xy.0 - (ij.0 as f64);
    let dy = xy.1 - (ij.1 as f64);
    let ij_d0c = self.base_cell_coos(&ij);
    // Positions on the border of a polar cap base cell (lon = k * pi/2 in a cap, poles), or just outside the
    // projection domain because of rounding, are not located in the square of a base cell
    let i_plus_j = ij_d0c.0 + ij_d0c.1;
    if i_plus_j < 3 || i_plus_j > 5 {
      return self.hash_with_dxdy_out_of_base_cells(ij_d0c.0, ij_d0c.1, xy);
    }
    let d0h_bits = self.depth0_bits(ij_d0c.0, ij_d0c.1, ij, xy/*, lon, lat*/);
    self.to_coos_in_base_cell(&mut ij);
    (self.build_hash(d0h_bits, ij.0 as u32, ij.1 as u32), dx, dy)
  }

  /// Deals with a position `xy` (in the shifted, rotated, scaled frame of `hash_with_dxdy`) located in the
  /// square `(i, j)` (in base cell size units) which is not the square of a base cell:
  /// - `i + j = 6`: the square lies between the north-east edge of the north polar cap base cell `i - 2` (on its
  ///   left) and the north-west edge of the north polar cap base cell `i - 1` (below it): the position is on one
  ///   of those two edges, which are the same meridian on the sphere;
  /// - `i + j = 7`: the position is the north pole, seen from the base cell `i - 2`;
  /// - `i + j = 2` or `1`: the position is, up to rounding errors, on the south-west or the south-east edge (or the
  ///   south vertex) of a south polar cap base cell.
  /// The returned cell is the cell of the base cell the edge belongs to, the offsets are relative to that cell
  /// (so an offset may be equal to 1, or to 0 when it should be slightly negative).
  fn hash_with_dxdy_out_of_base_cells(&self, i: u8, j: u8, xy: (f64, f64)) -> (u64, f64, f64) {
    let nside = self.nside as f64;
    let last = self.nside_minus_1;
    // offsets in the square (i, j), in [0, nside[
    let gx = xy.0 - (i as f64) * nside;
    let gy = xy.1 - (j as f64) * nside;
    let in_last = |g: f64| (g as u32).min(last); // cell index along an edge
    let (d0h, ci, cj, dx, dy) = match i + j {
      6 => if gx < gy { // north-east edge of the base cell on the left
        let cj = in_last(gy);
        (i.wrapping_sub(2) & 3, last, cj, 1.0 + gx, gy - cj as f64)
      } else { // north-west edge of the base cell below
        let ci = in_last(gx);
        (i.wrapping_sub(1) & 3, ci, last, gx - ci as f64, 1.0 + gy)
      },
      7 => (i.wrapping_sub(2) & 3, last, last, 1.0 + gx, 1.0 + gy),
      2 => if gx > gy { // south-west edge of the base cell on the right
        let cj = in_last(gy);
        (8 + ((i + 1) & 3), 0, cj, 0.0, gy - cj as f64)
      } else { // south-east edge of the base cell above
        let ci = in_last(gx);
        (8 + (i & 3), ci, 0, gx - ci as f64, 0.0)
      },
      1 => (8 + ((i + 1) & 3), 0, 0, 0.0, 0.0),
      k => panic!("Algorithm error: case i + j = {} not supported!", k),
    };
    (self.build_hash_from_parts(d0h, ci, cj), dx, dy)
  }
  
  #[inline]
  fn shift_rotate_scale(&self, xy: &mut (f64, f64)) {
    if self.depth == 0 {
      // nside / 2 = 1/2: the exponent bits arithmetic used below turns 0.0 into a non finite value
      let (x, y) = (xy.0, xy.1 + 1.0);
      *xy = (0.5 * (x + y), 0.5 * (y + (8.0 - x)));
      return;
    }
    let (ref mut x, ref mut y) = *xy;
    let tmp = 8.0 - *x;
    *y += 1.0;
    *x = f64::from_bits((self.time_half_nside + f64::to_bits(*x + *y) as i64) as u64);
    *y = f64::from_bits((self.time_half_nside + f64::to_bits(*y + tmp) as i64) as u64);
  }

  #[inline]
  fn base_cell_coos(&self, ij: &(u64, u64)) -> (u8, u8) {
    (self.div_by_nside_floor_u8((*ij).0), self.div_by_nside_floor_u8((*ij).1))
  }

  #[inline]
  fn div_by_nside_floor_u8(&self, val: u64) -> u8 {
    (val >> self.depth) as u8
  }

  #[inline]
  fn to_coos_in_base_cell(&self, ij: &mut (u64, u64)) {
    let (ref mut i, ref mut j) = *ij;
    *i = self.modulo_nside(*i);
    *j = self.modulo_nside(*j);
  }

  #[inline]
  fn modulo_nside(&self, val: u64) -> u64 {
    val & self.nside_remainder_mask
  }

  #[inline]
  fn build_hash_from_parts(&self, d0h: u8, i: u32, j: u32) -> u64 {
    self.build_hash((d0h as u64) << self.twice_depth, i, j)
  }

  #[inline]
  fn build_hash_from_parts_opt(&self, d0h: u8, i: u32, j: u32) -> Option<u64> {
    Some(self.build_hash_from_parts(d0h, i, j))
  }

  #[inline]
  fn build_hash(&self, d0h_bits: u64, i: u32, j: u32) -> u64 {
    debug_assert!(i < self.nside && j < self.nside);
    d0h_bits | self.z_order_curve.ij2h(i, j)
  }

  ///
  #[inline]
  fn depth0_bits(&self, i: u8, j: u8, mut ij: (u64, u64), xy: (f64, f64)/*, lon: f64, lat: f64*/) -> u64 {
    // self.base_hash_bits_lupt[i as usize][j as usize]
    let k = 5_i8 - (i + j) as i8;
    // The two branches -2 and -1 are extremely rare (north pole, NPC cells upper NE and NW borders),
    // so few risks of branch miss-prediction.
    // println!("k: {}; i: {}; j: {}; ij: {:?}; xy: {:?}", &k, &i, &j, &ij, &xy);
    match k {
      0..=2 => (((k << 2) + ( ((i as i8) + ((k - 1) >> 7)) & 3_i8)) as u64) << self.twice_depth,
      -1 => {
        if xy.0 - ij.0 as f64 > xy.1 - ij.1 as f64 {
          ((((i - 1u8) & 3u8) as u64) << self.twice_depth) | self.y_mask
        } else {
          ((((i + 2u8) & 3u8) as u64) << self.twice_depth) | self.x_mask
        }
      },
      -2 => (((i - 2u8) as u64) << self.twice_depth) | self.xy_mask,
      3 => { // rare case due to lack of numerical precision 
        let d0 = (xy.0 - ij.0 as f64).abs();
        let d1 = (xy.1 - ij.1 as f64).abs();
        if d0 < d1 {
          ij.0 += 1;
          self.depth0_bits(i + 1_u8, j, ij, xy)
        } else {
          ij.1 += 1;
          self.depth0_bits(i, j + 1_u8, ij, xy)
        }
      },
      4 => { // rare case due to lack of numerical precision 
        ij.0 += 1;
        ij.1 += 1;
       self.depth0_bits(i + 1_u8, j + 1_u8, ij, xy)
      },
      /*_ => panic!("Algorithm error: case k = {} not supported! depth: {}, lon: {}, lat: {}, x: {}, y: {}", 
                  k, self.depth, lon, lat, xy.0, xy.1),*/
      _ => panic!("Algorithm error: case k = {} not supported!", k),
    }
  }

  /// Conveniency function simply calling the [hash](fn.to_uniq.html) method with this layer *depth*.
  pub fn to_uniq(&self, hash: u64) -> u64 {
    // depth already tested, so we call the unsafe method
    nested::to_uniq_unsafe(self.depth, hash)
  }

  /// Conveniency function simply calling the [hash](fn.to_uniq_ivoa.html) method with this layer *depth*.
  pub fn to_uniq_ivoa(&self, hash: u64) -> u64 {
    // depth already tested, so we call the unsafe method
    nested::to_uniq_ivoa_unsafe(self.depth, hash)
  }
  
  /// Transforms the given NESTED hash value into the RING hash value.
  /// 
  /// # Examples
  /// 
  /// At depth 0, no differences:
  /// ```rust
  /// use cdshealpix::nested::{get_or_create, Layer};
  /// let depth = 0;
  /// let n0 = get_or_create(depth);
  /// for h in 0..12 {
  ///   assert_eq!(n0.to_ring(h), h);
  /// }
  /// ```
  /// 
  /// At depth 1:
  /// ```rust
  /// use cdshealpix::nested::{get_or_create, Layer};
  /// 
  /// let depth = 1;
  /// let n1 = get_or_create(depth);
  /// 
  /// assert_eq!(n1.to_ring(0),  13);
  /// assert_eq!(n1.to_ring(1),   5);
  /// assert_eq!(n1.to_ring(2),   4);
  /// assert_eq!(n1.to_ring(3),   0);
  /// assert_eq!(n1.to_ring(4),  15);
  /// assert_eq!(n1.to_ring(5),   7);
  /// assert_eq!(n1.to_ring(6),   6);
  /// assert_eq!(n1.to_ring(7),   1);
  /// assert_eq!(n1.to_ring(8),  17);
  /// assert_eq!(n1.to_ring(9),   9);
  /// assert_eq!(n1.to_ring(10),  8);
  /// assert_eq!(n1.to_ring(11),  2);
  /// assert_eq!(n1.to_ring(12), 19);
  /// assert_eq!(n1.to_ring(13), 11);
  /// assert_eq!(n1.to_ring(14), 10);
  /// assert_eq!(n1.to_ring(15),  3);
  /// assert_eq!(n1.to_ring(16), 28);
  /// assert_eq!(n1.to_ring(17), 20);
  /// assert_eq!(n1.to_ring(18), 27);
  /// assert_eq!(n1.to_ring(19), 12);
  /// assert_eq!(n1.to_ring(20), 30);
  /// assert_eq!(n1.to_ring(21), 22);
  /// assert_eq!(n1.to_ring(22), 21);
  /// assert_eq!(n1.to_ring(23), 14);
  /// assert_eq!(n1.to_ring(24), 32);
  /// assert_eq!(n1.to_ring(25), 24);
  /// assert_eq!(n1.to_ring(26), 23);
  /// assert_eq!(n1.to_ring(27), 16);
  /// assert_eq!(n1.to_ring(28), 34);
  /// assert_eq!(n1.to_ring(29), 26);
  /// assert_eq!(n1.to_ring(30), 25);
  /// assert_eq!(n1.to_ring(31), 18);
  /// assert_eq!(n1.to_ring(32), 44);
  /// assert_eq!(n1.to_ring(33), 37);
  /// assert_eq!(n1.to_ring(34), 36);
  /// assert_eq!(n1.to_ring(35), 29);
  /// assert_eq!(n1.to_ring(36), 45);
  /// assert_eq!(n1.to_ring(37), 39);
  /// assert_eq!(n1.to_ring(38), 38);
  /// assert_eq!(n1.to_ring(39), 31);
  /// assert_eq!(n1.to_ring(40), 46);
  /// assert_eq!(n1.to_ring(41), 41);
  /// assert_eq!(n1.to_ring(42), 40);
  /// assert_eq!(n1.to_ring(43), 33);
  /// assert_eq!(n1.to_ring(44), 47);
  /// assert_eq!(n1.to_ring(45), 43);
  /// assert_eq!(n1.to_ring(46), 42);
  /// assert_eq!(n1.to_ring(47), 35);
  /// ```
  /// 
  /// At depth 2 (non exhaustive test):
  /// ```rust
  /// use cdshealpix::nested::{get_or_create, Layer};
  /// 
  /// let depth = 2;
  /// let n2 = get_or_create(depth);
  /// /// NPC
  /// assert_eq!(n2.to_ring(47),  2);
  /// assert_eq!(n2.to_ring(29),  7);
  /// assert_eq!(n2.to_ring(60), 22);
  /// // EQR
  /// assert_eq!(n2.to_ring(51),   54);
  /// assert_eq!(n2.to_ring(88),  107);
  /// assert_eq!(n2.to_ring(174), 129);
  /// // SPC
  /// assert_eq!(n2.to_ring(177), 187);
  /// assert_eq!(n2.to_ring(153), 157);
  /// assert_eq!(n2.to_ring(144), 189);
  /// ```
  pub fn to_ring(&self, hash: u64) -> u64 {
    // Number of isolatitude rings in a base cell: 
    //    nbr rings:   nr = 2 * nside - 1 
    // => index max: hmax = 2 * nside - 2
    // Index of ring at the NPC / EQR interface:
    //   i = nside - 1                                       (number of rings =     nside)
    // Index of ring at lat=0 (in the EQR): 
    //   i = nr = hmax + 1 =  = 2 * nside - 1 => always odd  (number of rings = 2 * nside)
    // Index of ring at the EQR / SPC interface:
    //   i = nr + nside = 3 * nside - 1                      (number of rings = 3 * nside)
    // We note h = x + y (<=> rotation 45 and scale sqrt(2))
    // North polar cap   base cells:   i =  hmax - h              = 2 * nside - 2 - (x + y)
    // Equatorial region base cells:   i = (hmax - h) +     nside = 3 * nside - 2 - (x + y)
    // South polar cap   base cells:   i = (hmax - h) + 2 * nside = 4 * nside - 2 - (x + y)
    let HashParts {d0h, i, j} = self.decode_hash(hash);
    let h: u64 = i as u64 + j as u64;
    let l: i64 = i as i64 - j as i64;
    let i_d0h = div4_remainder(d0h) as u64;
    let j_d0h = div4_quotient(d0h) as u64;    debug_assert!(j_d0h <= 2);
    let i_ring: u64 = self.nside_time(j_d0h + 2) - (h + 2);
    // Number of elements in isolatitude ring of index i (i in [0, 2*(2*nside - 1)]):
    // North polar cap: if (i < nside)         nj = 4 * i
    // South polar cap: if (i >= 3*nside - 1)  nj = 4 * h = 4*((4*nside-2) - i) 
    // Equatorial regi: if (ns <= i < 3*ns-1)  nj = 4 * nside
    // l = x - y; In a base cell, l in [-nside+1, nside-1] => 2*nside - 1 values
    // EQR: j = l / 2 + nside/2 (if not equatorial cell) + nside*(ipix%4) (special case if l<0 && baseCell=4)
    // NPC: j = l / 2 + (i + 1) / 2 + (i+1)*(ipix%4)
    // SPC: j = l / 2 + (h + 1) / 2 + (h+1)*(ipix%4)
    let first_isolat_index;
    let mut i_in_ring = div2_quotient(l); // Quotient such that: 1/2 = 0; -1/2 = -1
    if i_ring < self.nside as u64 { // North polar cap + NPC/EQR tansition
      // sum from i = 1 to ringIndex of 4 * i = 4 * i*(i+1)/2 = 2 * i*(i+1)
      let ip1 = i_ring + 1;
      first_isolat_index = (i_ring * ip1) << 1;
      i_in_ring += (div2_quotient(ip1) + ip1 * i_d0h) as i64;
    } else if i_ring >= self.nside_time(3) - 1 { // South polar cap
      let ip1 = h + 1;
      first_isolat_index = self.n_hash - triangular_number_x4(ip1);
      i_in_ring += (div2_quotient(ip1) + ip1 * i_d0h) as i64;
    } else { // Equatorial region
      // sum from i = 1 to nside of i
      first_isolat_index = self.first_hash_in_eqr() + self.minus_nside_x_4nside(i_ring); 
      i_in_ring += div2_quotient(self.nside_time(div2_remainder(j_d0h + 1))) as i64;
      i_in_ring += self.nside_time(if d0h == 4 && l < 0 { 4 } else { i_d0h }) as i64;
    }
    i_in_ring as u64 + first_isolat_index
  }
  
  /// Transforms the given RING hash value into the NESTED hash value.
  /// 
  /// # WARNING
  /// The RING NSIDE parameter MUST match the NESTED NSIDE parameter!! 
  /// 
  /// # Examples
  /// 
  /// At depth 0, no differences:
  /// ```rust
  /// use cdshealpix::nested::{get_or_create, Layer};
  /// let depth = 0;
  /// let n0 = get_or_create(depth);
  /// for h in 0..12 {
  ///   assert_eq!(n0.from_ring(h), h);
  /// }
  /// ```
  /// At depth 1:
  /// ```rust
  /// use cdshealpix::nested::{get_or_create, Layer};
  /// 
  /// let depth = 1;
  /// let n1 = get_or_create(depth);
  /// 
  /// assert_eq!( 3, n1.from_ring(0));
  /// assert_eq!( 7, n1.from_ring(1));
  /// assert_eq!(11, n1.from_ring(2));
  /// assert_eq!(15, n1.from_ring(3));
  /// assert_eq!( 2, n1.from_ring(4));
  /// assert_eq!( 1, n1.from_ring(5));
  /// assert_eq!( 6, n1.from_ring(6));
  /// assert_eq!( 5, n1.from_ring(7));
  /// assert_eq!(10, n1.from_ring(8));
  /// assert_eq!( 9, n1.from_ring(9));
  /// assert_eq!(14, n1.from_ring(10));
  /// assert_eq!(13, n1.from_ring(11));
  /// assert_eq!(19, n1.from_ring(12));  
  /// assert_eq!( 0, n1.from_ring(13));
  /// assert_eq!(23, n1.from_ring(14));
  /// assert_eq!( 4, n1.from_ring(15));
  /// assert_eq!(27, n1.from_ring(16)); 
  /// assert_eq!( 8, n1.from_ring(17));
  /// assert_eq!(31, n1.from_ring(18));
  /// assert_eq!(12, n1.from_ring(19));
  /// assert_eq!(17, n1.from_ring(20));
  /// assert_eq!(22, n1.from_ring(21));
  /// assert_eq!(21, n1.from_ring(22));
  /// assert_eq!(26, n1.from_ring(23));
  /// assert_eq!(25, n1.from_ring(24));
  /// assert_eq!(30, n1.from_ring(25));
  /// assert_eq!(29, n1.from_ring(26));
  /// assert_eq!(18, n1.from_ring(27));
  /// assert_eq!(16, n1.from_ring(28));
  /// assert_eq!(35, n1.from_ring(29));
  /// assert_eq!(20, n1.from_ring(30));
  /// assert_eq!(39, n1.from_ring(31));
  /// assert_eq!(24, n1.from_ring(32));
  /// assert_eq!(43, n1.from_ring(33));
  /// assert_eq!(28, n1.from_ring(34));
  /// assert_eq!(47, n1.from_ring(35));
  /// assert_eq!(34, n1.from_ring(36));
  /// assert_eq!(33, n1.from_ring(37));
  /// assert_eq!(38, n1.from_ring(38));
  /// assert_eq!(37, n1.from_ring(39));
  /// assert_eq!(42, n1.from_ring(40));
  /// assert_eq!(41, n1.from_ring(41));
  /// assert_eq!(46, n1.from_ring(42));
  /// assert_eq!(45, n1.from_ring(43));
  /// assert_eq!(32, n1.from_ring(44));
  /// assert_eq!(36, n1.from_ring(45));
  /// assert_eq!(40, n1.from_ring(46));
  /// assert_eq!(44, n1.from_ring(47));
  /// ```
  /// 
  /// 
  /// At depth 2 (non exhaustive test):
  /// ```rust
  /// use cdshealpix::nested::{get_or_create, Layer};
  /// 
  /// let depth = 2;
  /// let n2 = get_or_create(depth);
  /// /// NPC
  /// assert_eq!(47, n2.from_ring(2));
  /// assert_eq!(29, n2.from_ring(7));
  /// assert_eq!(60, n2.from_ring(22));
  /// // EQR
  /// assert_eq!(51,  n2.from_ring(54));
  /// assert_eq!(88,  n2.from_ring(107));
  /// assert_eq!(174, n2.from_ring(129));
  /// // SPC
  /// assert_eq!(177, n2.from_ring(187));
  /// assert_eq!(153, n2.from_ring(157));
  /// assert_eq!(144, n2.from_ring(189));
  /// ```
  pub fn from_ring(&self, hash: u64) -> u64 {
    // 4*sum from i=1 to nside of i =  4 * nside(nside+1)/2 = 2*nside*(nside+1)
    let first_hash_in_eqr = self.first_hash_in_eqr();
    let first_hash_on_eqr_spc_transition = self.n_hash - first_hash_in_eqr; // == first_hash_on_eqr_spc_transition
    if hash < first_hash_in_eqr { // North polar cap
      // Solve 2*n(n+1) = x 
      //   => 2n^2+2n-x = 0 => b^2-4ac = 4+8x = 4(1+2x)
      //   => n = [-2+2*sqrt(1+2x)]/4 => n = [sqrt(1+2x) - 1] / 2
      //   => n^2+n-x/2 = 0 => b^2-4ac = 1 + 2x => n = [sqrt(1+2x) - 1] / 2
      // n - 1 = ring index
      // Here we may optimize by finding a good 'isqrt' implementation
      let i_ring: u64 = polar_ring_index(hash);
      let n_in_ring: u64 = i_ring + 1;
      let i_in_ring = hash - triangular_number_x4(i_ring);
      let d0h = i_in_ring / n_in_ring;
      let h = (((self.nside as u64) << 1) - 2) as i64 - i_ring as i64;
      let l = ((i_in_ring - n_in_ring * d0h) << 1) as i64 - i_ring as i64;
      self.build_hash_from_parts (
        d0h as u8,
        ((h + l) >> 1) as u32,
        ((h - l) >> 1) as u32,
      )
    } else if hash >= first_hash_on_eqr_spc_transition { // South polar cap
      let hash = self.n_hash - 1 - hash; // start counting in reverse order from south polar cap
      let i_ring = polar_ring_index(hash);
      let n_in_ring = i_ring + 1;
      let i_in_ring = ((n_in_ring << 2) - 1) - (hash - triangular_number_x4(i_ring));
      let d0h = i_in_ring / n_in_ring;
      let h = i_ring as i64;
      let l = ((i_in_ring - n_in_ring * d0h) << 1) as i64 - i_ring as i64;
      self.build_hash_from_parts (
        d0h as u8 + 8,
        ((h + l) >> 1) as u32,
        ((h - l) >> 1) as u32,
      )
    } else { // Equatorial region
      // Set origin of ring indexes at the center of small cell in north corner of base cell 4 (North to South direction)
      let mut i_ring = hash - first_hash_in_eqr;
      let mut i_in_ring = i_ring;
      // <=> /= 4*nside (number of hash per line) => count the number of line from first equatorial line
      i_ring >>= self.depth + 2;
      // Substract number of hash in previous rings (-= n_rings * 4*nside)
      i_in_ring -= i_ring << (self.depth + 2);
      let l = (i_in_ring << 1) + div2_remainder(i_ring);
      // Set origin of h axis at center of small cell in south corner of base cell 4 (South to North direction)
      let h = (((self.nside as u64) << 1) - 2) - i_ring;
      // Rotation of -45
      let i_in_d0c = (h + l) >> 1;
      let j_in_d0c = (h as i64 - l as i64) >> 1;
      // Offset of 4*nside in j
      let j_in_d0c = (j_in_d0c + ((self.nside as i64) << 2)) as u64;
      let i_d0c = self.div_by_nside_floor_u8(i_in_d0c);
      let j_d0c = self.div_by_nside_floor_u8(j_in_d0c);
      self.build_hash_from_parts (
        depth0_hash_unsafe(i_d0c, j_d0c),
        self.modulo_nside(i_in_d0c) as u32,
        self.modulo_nside(j_in_d0c) as u32,
      )
    }
  }
  
  /// arg * nside
  #[inline]
  fn nside_time(&self, i: u64) -> u64 {
    i << self.depth
  }
  
  /// See the same method (generalized to any NSIDE) in the RING module.
  /// Here we addiionally use the fact that NSIDE is a powrer of two.
  #[inline]
  fn first_hash_in_eqr(&self) -> u64 {
    //   2*nside*(nside + 1)
    // = 2*[nside^2 + nside]
    ((1_u64 << (self.depth << 1)) + self.nside as u64) << 1
  }

  /// (i_ring - nside) * 4 * nside
  #[inline]
  fn minus_nside_x_4nside(&self, i_ring: u64) -> u64 {
    (i_ring - self.nside as u64) << (self.depth + 2)
  }
  
  /// Compute the position on the unit sphere of the center (in the Euclidean projection plane)
  /// of the cell associated to the given hash value.
  /// 
  /// # Input
  /// - `hash`: the hash value of the cell we look for the unprojected center
  /// 
  /// # Output
  /// - `(lon, lat)` in radians, the unprojected position (on the unit sphere) of the center of 
  ///   the cell in the Euclidean plane
  ///   - `lon`, longitude in `[0, 2pi]` radians;
  ///   - `lat`, latitude in `[-pi/2, pi/2]` radians. 
  /// 
  /// # Panics
  /// If the given `hash` value is not in `[0, 12*nside^2[`, this method panics.
  /// 
  /// # Example
  /// ```rust
  /// use std::f64::consts::{PI};
  /// use cdshealpix::{TRANSITION_LATITUDE};
  /// use cdshealpix::nested::{get_or_create, Layer};
  ///
  /// fn dist(p1: (f64, f64), p2: (f64, f64)) -> f64 {
  ///   let sindlon = f64::sin(0.5 * (p2.0 - p1.0));
  ///   let sindlat = f64::sin(0.5 * (p2.1 - p1.1));
  ///   2f64 * f64::asin(f64::sqrt(sindlat * sindlat + p1.1.cos() * p2.1.cos() * sindlon * sindlon))
  /// }
  /// 
  /// let depth = 0u8;
  /// let nested0 = get_or_create(depth);
  /// 
  /// assert!(dist((PI / 4f64, TRANSITION_LATITUDE) , nested0.center(0u64)) < 1e-15);
  /// ```
  ///
  #[inline]
  pub fn center(&self, hash: u64) -> (f64, f64) {
    let (x, y) = self.center_of_projected_cell(hash);
    super::unproj(x, y)
  }

  /// Compute the position on the unit sphere of the position '(dx, dy)' from the south vertex of 
  /// the HEALPix cell associated to the given hash value.
  /// The x-axis is the South-East axis while the y-axis is the south-west axis.
  /// 
  /// # Input
  /// - `hash`: the hash value of the cell in which are defined `dx` and `dy`
  /// - `dx`: the positional offset $\in [0, 1[$ along the south-to-east axis
  /// - `dy`: the positional offset $\in [0, 1[$ along the south-to-west axis
  /// 
  /// # Output
  /// - `(lon, lat)` in radians, the unprojected position (on the unit sphere) of the given position 
  ///   inside the given cell in the Euclidean plane
  ///   - `lon`, longitude in `[0, 2pi]` radians;
  ///   - `lat`, latitude in `[-pi/2, pi/2]` radians. 
  /// 
  /// # Panics
  /// This method panics if either:
  /// - the given `hash` value is not in `[0, 12*nside^2[`, 
  /// - `dx` or `dy` is not $\in [0, 1[$
  /// 
  /// # Example
  /// ```rust
  /// use cdshealpix::nested::{get_or_create, Layer};
  ///
  /// fn dist(p1: (f64, f64), p2: (f64, f64)) -> f64 {
  ///   let sindlon = f64::sin(0.5 * (p2.0 - p1.0));
  ///   let sindlat = f64::sin(0.5 * (p2.1 - p1.1));
  ///   2f64 * f64::asin(f64::sqrt(sindlat * sindlat + p1.1.cos() * p2.1.cos() * sindlon * sindlon))
  /// }
  /// 
  /// let depth = 0u8;
  /// let nested0 = get_or_create(depth);
  /// 
  /// assert!(dist(nested0.sph_coo(0, 0.5, 0.5) , nested0.center(0)) < 1e-15);
  /// ```
  ///
  pub fn sph_coo(&self, hash: u64, dx: f64, dy: f64) -> (f64, f64) {
    assert!(0.0 <= dx && dx < 1.0);
    assert!(0.0 <= dy && dy < 1.0);
    let (mut x, mut y) = self.center_of_projected_cell(hash);
    x += (dx - dy) * self.one_over_nside;
    y += (dx + dy - 1.0) * self.one_over_nside;
    super::unproj(ensures_x_is_positive(x), y)
  }
  
  /// Computes the position on the unit sphere of the cell vertex located at the given *direction*
  /// with respect to the center of the cell.
  ///   
  /// # Input
  /// - `hash`: the hash value of the cell we look for the position of a vertex
  /// - `vertex_direction`: the direction of the wanted vertex coordiantes
  /// 
  /// # Output
  /// - `(lon, lat)` in radians, the position (on the unit sphere) of the vertex
  ///   - `lon`, longitude in `[0, 2pi]` radians;
  ///   - `lat`, latitude in `[-pi/2, pi/2]` radians.
  /// 
  /// # Panics
  /// If the given `hash` value is not in `[0, 12*nside^2[`, this method panics.
  ///
  /// # Example
  /// ```rust
  /// use std::f64::consts::{PI};
  /// use cdshealpix::compass_point::{Cardinal};
  /// use cdshealpix::nested::{get_or_create, Layer};
  ///
  /// fn dist(p1: (f64, f64), p2: (f64, f64)) -> f64 {
  ///   let sindlon = f64::sin(0.5 * (p2.0 - p1.0));
  ///   let sindlat = f64::sin(0.5 * (p2.1 - p1.1));
  ///   2f64 * f64::asin(f64::sqrt(sindlat * sindlat + p1.1.cos() * p2.1.cos() * sindlon * sindlon))
  /// }
  /// 
  /// let depth = 0u8;
  /// let nested0 = get_or_create(depth);
  ///
  /// assert!(dist((PI / 4f64, 0.0) , nested0.vertex(0, Cardinal::S)) < 1e-15);
  /// ```
  #[inline]
  pub fn vertex(&self, hash: u64, vertex_direction: Cardinal) -> (f64, f64) {
    let (x, y) = self.center_of_projected_cell(hash);
    self.vertex_lonlat(x, y, &vertex_direction)
  }

  /// Computes the positions on the unit sphere of the 4 vertices of the given cell.
  /// If you want to access the position for a given direction, use method 
  /// [vertices_map](#method.vertices_map).
  ///   
  /// # Input
  /// - `hash`: the hash value of the cell we look for the positions of its vertices
  /// 
  /// # Output
  /// - `[(lon_S, lat_S), (lon_E, lat_E), (lon_N, lat_N), (lon_W, lat_W)]` in radians, 
  ///   the positions (on the unit sphere) of the vertices
  ///   - `lon`, longitude in `[0, 2pi]` radians;
  ///   - `lat`, latitude in `[-pi/2, pi/2]` radians.
  /// 
  /// # Panics
  /// If the given `hash` value is not in `[0, 12*nside^2[`, this method panics.
  ///
  /// # Example
  /// ```rust
  /// use std::f64::consts::{PI};
  /// use cdshealpix::compass_point::{Cardinal};
  /// use cdshealpix::nested::{get_or_create, Layer};
  ///
  /// fn dist(p1: (f64, f64), p2: (f64, f64)) -> f64 {
  ///   let sindlon = f64::sin(0.5 * (p2.0 - p1.0));
  ///   let sindlat = f64::sin(0.5 * (p2.1 - p1.1));
  ///   2f64 * f64::asin(f64::sqrt(sindlat * sindlat + p1.1.cos() * p2.1.cos() * sindlon * sindlon))
  /// }
  /// 
  /// let depth = 0u8;
  /// let nested0 = get_or_create(depth);
  ///
  /// assert!(dist((PI / 4f64, 0.0) , nested0.vertices(0)[0]) < 1e-15);
  /// ```
  #[inline]
  pub fn vertices(&self, hash: u64) -> [(f64, f64); 4] {
    let (x, y) = self.center_of_projected_cell(hash);
    [
      super::unproj(x, y - self.one_over_nside), // S
      super::unproj(x + self.one_over_nside, y), // E
      super::unproj(x, y + self.one_over_nside), // N
      super::unproj(ensures_x_is_positive(x - self.one_over_nside), y)  // W
    ]
  }

  /// Computes the positions on the unit sphere of the vertices of the given cell which direction 
  /// are in the given set.
  /// If you don't care about the association between position and direction, 
  /// you should use [vertices](#method.vertices).
  ///   
  /// # Input
  /// - `hash`: the hash value of the cell we look for the positions of its vertices
  /// 
  /// # Output
  /// - the vertices position stored in a map associating each vertex direction with its position.
  ///   - `lon`, longitude in `[0, 2pi]` radians;
  ///   - `lat`, latitude in `[-pi/2, pi/2]` radians.
  /// 
  /// # Panics
  /// If the given `hash` value is not in `[0, 12*nside^2[`, this method panics.
  ///
  /// # Example
  /// ```rust
  /// use std::f64::consts::{PI};
  /// use cdshealpix::compass_point::{Cardinal, CardinalSet};
  /// use cdshealpix::nested::{get_or_create, Layer};
  ///
  /// fn dist(p1: (f64, f64), p2: (f64, f64)) -> f64 {
  ///   let sindlon = f64::sin(0.5 * (p2.0 - p1.0));
  ///   let sindlat = f64::sin(0.5 * (p2.1 - p1.1));
  ///   2f64 * f64::asin(f64::sqrt(sindlat * sindlat + p1.1.cos() * p2.1.cos() * sindlon * sindlon))
  /// }
  /// 
  /// let depth = 0u8;
  /// let nested0 = get_or_create(depth);
  ///
  /// assert!(dist((PI / 4f64, 0.0) , *nested0.vertices_map(0, CardinalSet::all()).get(Cardinal::S).unwrap()) < 1e-15);
  /// ```
  #[inline]
  pub fn vertices_map(&self, hash: u64, directions: CardinalSet) -> CardinalMap<(f64, f64)> {
    let (x, y) = self.center_of_projected_cell(hash);
    let mut result_map = CardinalMap::new();
    for direction in directions {
      let vertex = self.vertex_lonlat(x, y, &direction);
      result_map.put(direction, vertex);
    }
    result_map
  }
  
  /// Computes a list of positions on a given side of a given HEALPix cell on the unit sphere.
  /// 
  /// # Input
  /// - `hash`: the hash value of the cell we look for side path on the unit sphere.
  /// - `from_vertex`: direction (from the cell center) of the path starting vertex
  /// - `to_vertex`: direction (from the cell center) of the path ending vertex
  /// - `include_to_vertex`: if set to *false*, the result contains `n_segments` points and do
  ///                        not include the ending vertex.
  ///                        Else the result contains `n_segments + 1` points.
  /// - `n_segments`: number of segments in the path from the starting vertex to the ending vertex
  ///
  /// # Output 
  /// - the list of positions on the given side of the given HEALPix cell on the unit sphere.
  ///
  pub fn path_along_cell_side(&self, hash: u64, from_vertex:  &Cardinal, to_vertex: &Cardinal,
    include_to_vertex: bool, n_segments: u32) -> Box<[(f64, f64)]> {
    let n_points: usize = if include_to_vertex { n_segments + 1 } else { n_segments } as usize;
    let mut path_points: Vec<(f64, f64)> = Vec::with_capacity(n_points);
    let proj_center = self.center_of_projected_cell(hash);
    self.path_along_cell_side_internal(proj_center, from_vertex, to_vertex, include_to_vertex, n_segments, &mut path_points);
    path_points.into_boxed_slice()
  }
  
  fn path_along_cell_side_internal(&self, proj_center: (f64, f64), from_vertex: &Cardinal, to_vertex: &Cardinal,
                                   include_to_vertex: bool, n_segments: u32, path_points: &mut Vec<(f64, f64)>) {
    let n_points: usize = if include_to_vertex { n_segments + 1 } else { n_segments } as usize;
    // Compute starting point offsets
    let from_offset_x = (*from_vertex).offset_we(self.one_over_nside);
    let from_offset_y = (*from_vertex).offset_sn(self.one_over_nside);
    // Compute stepX and stepY
    let step_x = ((*to_vertex).offset_we(self.one_over_nside) - from_offset_x) / (n_segments as f64);
    let step_y = ((*to_vertex).offset_sn(self.one_over_nside) - from_offset_y) / (n_segments as f64);
    // Compute intermediary vertices
    for i in 0..n_points {
      let k = i as f64;
      let x = proj_center.0 + from_offset_x + k * step_x;
      let y = proj_center.1 + from_offset_y + k * step_y;
      path_points.push(super::unproj(ensures_x_is_positive(x), y));
    }
  }

  /// Computes a list of positions on the edge of a given HEALPix cell on the unit sphere.
  /// 
  /// # Input
  /// - `hash`: the hash value of the cell we look for side path on the unit sphere.
  /// - `starting_vertex`: direction (from the cell center) of the path starting vertex
  /// - `clockwise_direction`: tells if the path is in the clockwise or anti-clockwise direction
  /// - `n_segments_by_side`: number of segments in each each side. Hence, the total number of 
  ///                         points in the path equals *4 x n_segments_by_side*.
  /// # Output 
  /// - the list of positions on the given side of the given HEALPix cell on the unit sphere.
  ///
  pub fn path_along_cell_edge(&self, hash: u64, starting_vertex: &Cardinal, clockwise_direction: bool,
                              n_segments_by_side: u32) -> Box<[(f64, f64)]> {
    // Prepare space for the result
    let mut path_points: Vec<(f64, f64)> = Vec::with_capacity((n_segments_by_side << 2) as usize);
    // Compute center
    let proj_center = self.center_of_projected_cell(hash);
    // Unrolled loop over successive sides
    // - compute vertex sequence
    let (v1, v2, v3, v4) =  if clockwise_direction {
      starting_vertex.clockwise_cycle()
    } else {
      starting_vertex.counter_clockwise_cycle()
    };
    // - make the five sides
    self.path_along_cell_side_internal(proj_center, &v1, &v2, false, n_segments_by_side, &mut path_points);
    self.path_along_cell_side_internal(proj_center, &v2, &v3, false, n_segments_by_side, &mut path_points);
    self.path_along_cell_side_internal(proj_center, &v3, &v4, false, n_segments_by_side, &mut path_points);
    self.path_along_cell_side_internal(proj_center, &v4, &v1, false, n_segments_by_side, &mut path_points);
    path_points.into_boxed_slice()
  }
  
  
  /// Computes the positions on the sky of each points located on a regular grid in the projection
  /// plane. The grid x-axis is the South-to-east axis and the y-axis is the south-to-west axis.
  /// The return array contains the square fo n_segments_by_side + 1 elements.
  /// 
  /// # Input
  /// - `hash`: the hash value of the cell we look for the grid on the unit sphere.
  /// - `n_segments_by_side`: number of segments in each each side. Hence, the total number of 
  ///                         points in the path equals *(n_segments_by_side + 1)^2*.
  /// # Output 
  /// - the list of positions on the given side of the given HEALPix cell on the unit sphere.
  ///
  /// # Motivation
  /// - to create a mesh in Unity
  pub fn grid(&self, hash: u64, n_segments_by_side: u16) -> Box<[(f64, f64)]> {
    let n_points_per_side = (n_segments_by_side as usize) + 1;
    // Prepare space for the result
    let mut grid: Vec<(f64, f64)> = Vec::with_capacity(n_points_per_side * n_points_per_side);
    // Compute center
    let proj_center = self.center_of_projected_cell(hash);
    // Compute grid
    for i in 0..n_points_per_side {
      let x = (i as f64) / (n_segments_by_side as f64);   // in [0, 1]
      for j in 0..n_points_per_side {
        let y = (j as f64) / (n_segments_by_side as f64); // in [0, 1]
        let l = x - y;
        let h = x + y - 1.0;
        grid.push(super::unproj(proj_center.0 + l * self.one_over_nside, proj_center.1 + h * self.one_over_nside));
      }
    }
    grid.into_boxed_slice()
  }
  
  //////////////////////////
  // NEIGHBOURS Functions //
  //////////////////////////

  /// Retuns the hash value of the neighbour cell of the cell of given hash, in the given direction.
  /// If the cell do not have a neighbour in the given direction (which is the case of the
  /// eastmost and westmost cells in polar caps base cells and northmost and southmost cells of the
  /// equatorial region base cells), the return Option is None.
  /// 
  /// # Input
  /// - `hash` the hash value of the cell we look for the neighbour
  /// - `direction` the direction of the neighbour we look for the cell number
  /// 
  /// # Output
  /// - the cell number (hash value) of the neighbour of the given cell in the given direction
  ///   (`None` if their is no neighbour in the given direction) .
  /// 
  /// # Panics
  /// If the given `hash` value is not in `[0, 12*nside^2[`, this method panics.
  ///
  /// # Example
  /// ```rust
  /// use cdshealpix::compass_point::{MainWind};
  /// use cdshealpix::nested::{get_or_create, Layer};
  ///
  /// let depth = 0u8;
  /// let nested0 = get_or_create(depth);
  ///
  /// assert_eq!(5 , nested0.neighbour(4, MainWind::E).unwrap());
  /// ```
  #[inline]
  pub fn neighbour(&self, hash: u64, direction: MainWind) -> Option<u64> {
    self.check_hash(hash);
    let h_parts: HashParts = self.decode_hash(hash);
    self.neighbour_from_parts(h_parts.d0h, h_parts.i, h_parts.j, direction)
  }

  /// Returns the hash values of all the neighbour cells of the cell of given hash.
  /// The given cell itself can be included (setting the `include_center` parameters to `true`).
  /// 
  /// # Input
  /// - `hash` the hash value of the cell we look for the neighbours
  /// - `include_center` include (or not) the input cell in the MainWind::C key of the returned map
  /// 
  /// # Output
  /// - the cell number (hash value) of the neighbour of the given cell in the given direction
  ///   (`None` if their is no neighbour in the given direction) .
  /// 
  /// # Panics
  /// If the given `hash` value is not in `[0, 12*nside^2[`, this method panics.
  ///
  /// # Example
  /// ```rust
  /// use cdshealpix::compass_point::{MainWind};
  /// use cdshealpix::nested::{get_or_create, Layer};
  ///
  /// let depth = 0u8;
  /// let nested0 = get_or_create(depth);
  ///
  /// assert_eq!(5 , *nested0.neighbours(4, false).get(MainWind::E).unwrap());
  /// ```
  pub fn neighbours(&self, hash: u64, include_center: bool) -> MainWindMap<u64> {
    self.check_hash(hash);
    let mut result_map = MainWindMap::new();
    if include_center {
      result_map.put(C, hash);
    }
    let h_bits: HashBits = self.pull_bits_appart(hash);
    if self.is_in_base_cell_border(h_bits.i, h_bits.j) {
      self.edge_cell_neighbours(hash, &mut result_map);
    } else {
      self.inner_cell_neighbours(h_bits.d0h, h_bits.i, h_bits.j, &mut result_map);
    }
    result_map
  }
  
  /// Returns the hash values corresponding to the internal bounds of the given `hash` at 
  /// the hash depth + the given `delta_depth`:
  /// - the first quarter contains the southeast border (the z-order curve x-axis with y = 0); 
  /// - the second quarter contains the northeast border (the z-order y-axis with x = xmax - 1);
  /// - the third quarter contains the northwest border (the z-order curve x-axis with y = ymax - 1); 
  /// - the forth quarter contains the southwest border (the y-axis with x = 0).
  /// 
  /// The hashes are ordered consecutively, starting from the south (x=0, y=0) cell in the 
  /// anti-clokwise direction.
  /// 
  /// # Input
  /// - `hash ` the hash for which we look for the internal bounds
  /// - `delta_depth` difference between the depth of the edge cells and the depth of the given cell  
  ///
  /// # Output
  /// - the cell numbers (hash values) of the given hash inner edge ordered consecutively, 
  /// starting from the south (x=0, y=0) cell in the anti-clokwise direction.
  ///
  pub fn internal_edge(mut hash: u64, delta_depth: u8) -> Box<[u64]> {
    // Compute the x and y part masks for deltaDepth.
    let zoc = get_zoc(delta_depth);
    let twice_dd = delta_depth << 1;
    let x_max_bits = x_mask(delta_depth);
    let y_max_bits = x_max_bits << 1;
    // Prepare hashes of depth of (self.depth + delta_depth), switching hash bits of 2 delta_depth to the left.
    hash <<= twice_dd;
    // Prepare filling the result.
    // am1 stands for a - 1, i.e. nSide - 1, i.e. the index of the last cell along the x or y-axis
    let am1 = (1_u32 << delta_depth) - 1; // 2^deltaDepth - 1
    let mut res: Vec<u64> = Vec::with_capacity((am1 << 2) as usize);
    // Southeast axis
    res.push(hash);
    for k in 1..am1 {
      let x_bits = zoc.i02h(k);
      res.push(hash | x_bits);
    }
    // Northeast axis
    res.push(hash | x_max_bits);
    for k in 1..am1 {
      res.push(hash | zoc.oj2h(k) | x_max_bits);
    }
    // Northwest axis
    res.push(hash | y_max_bits | x_max_bits);
    for k in 1..am1 {
      res.push(hash | y_max_bits | zoc.i02h(am1 - k));
    }
    // Southwest axis
    res.push(hash | y_max_bits);
    for k in 1..am1 {
      res.push(hash | zoc.oj2h(am1 - k));
    }
    res.into_boxed_slice()
  }

  /// Same as method [internal_edge](#method.internal_edge) except that the returned array is sorted.
  pub fn internal_edge_sorted(hash: u64, delta_depth: u8) -> Box<[u64]> {
    // The former hand-unrolled filling of the sorted array was wrong for every delta_depth >= 2
    // (duplicated and missing cells, u32 underflow in debug mode): sort the edge instead.
    let mut result = Layer::internal_edge(hash, delta_depth).into_vec();
    result.sort_unstable();
    result.into_boxed_slice()
  }
  
  /// Similar to [external_edge](#method.external_edge) except that the returned structure allow
  /// to access each elements of the external edge: the 4 corners plus the 4 edges.
  pub fn external_edge_struct(&self, hash: u64, delta_depth: u8) -> ExternalEdge {
    self.check_hash(hash);
    let mut res = ExternalEdge::new_empty();
    let h_bits: HashBits = self.pull_bits_appart(hash);
    if self.is_in_base_cell_border(h_bits.i, h_bits.j) {
      // Not easy: opposite directions depends on base cell neighbours
      let mut neighbours = MainWindMap::new();
      self.edge_cell_neighbours(hash, &mut neighbours);
      let h_parts: HashParts = self.decode_hash(hash);
      for (direction, hash_value) in neighbours.entries_vec().drain(..) {
        
       let dir_from_neig = if h_parts.d0h == self.h_2_d0h(hash_value) {
          direction.opposite()
        } else if self.depth == 0 {
	  direction_from_neighbour(h_parts.d0h, &direction)
        } else {
          let dir_in_basce_cell_border = self.direction_in_base_cell_border(h_bits.i, h_bits.j);
          // println!("B: {:?}, {}, {:?}", &direction, &hash_value, &dir_in_basce_cell_border);
          edge_cell_direction_from_neighbour(h_parts.d0h, &dir_in_basce_cell_border, &direction)
        };
        // println!("{:?}, {}, {:?}", &direction, &hash_value, &dir_from_neig);
        add_sorted_internal_edge_element(hash_value, delta_depth, dir_from_neig, &direction,&mut res);
      }
    } else {
      // Easy: always use the opposite direction
      let mut neighbours = MainWindMap::new();
      self.inner_cell_neighbours(h_bits.d0h, h_bits.i, h_bits.j, &mut neighbours);
      for (direction, hash_value) in neighbours.entries_vec().drain(..) {
        let dir_from_neig = direction.opposite();
        add_sorted_internal_edge_element(hash_value, delta_depth, dir_from_neig, &direction,&mut res);
      }
    }
    res
  }
  
  /// Provides the list of all cells of depth this layer depth + the given `delta_depth`
  /// surrounding the cell of given hash value.  
  /// 
  /// Here the result of both following codes:
  /// ![External edge depth 1, cells 10 and 11, delta_depth = +2](external_edge.png)
  /// 
  /// ```rust
  /// use cdshealpix::nested::{external_edge_sorted};
  /// 
  /// let depth = 1;
  /// let delta_depth = 2;
  /// 
  /// let hash = 10;
  /// let actual_res = external_edge_sorted(depth, hash, delta_depth);
  /// let expected_res: [u64; 19] = [85, 87, 93, 95, 117, 138, 139, 142, 143, 154, 176, 178, 184, 186, 415, 437, 439, 445, 447];
  /// for (h1, h2) in actual_res.iter().zip(expected_res.iter()) {
  ///   assert_eq!(h1, h2);
  /// }
  /// assert_eq!(expected_res.len(), actual_res.len());
  /// 
  /// let hash = 11;
  /// let actual_res = external_edge_sorted(depth, hash, delta_depth);
  /// let expected_res: [u64; 20] = [63, 95, 117, 119, 125, 127, 143, 154, 155, 158, 159, 165, 167, 173, 175, 239, 250, 251, 254, 255];
  /// for (h1, h2) in actual_res.iter().zip(expected_res.iter()) {
  ///   assert_eq!(h1, h2);
  /// }
  /// assert_eq!(expected_res.len(), actual_res.len());
  /// 
  /// ```
  pub fn external_edge(&self, hash: u64, delta_depth: u8) -> Box<[u64]> {
    self.external_edge_generic(hash, delta_depth, false)
  }
  
  /// Similar to [external_edge](#method.external_edge) except that the returned list of cells is ordered.
  pub fn external_edge_sorted(&self, hash: u64, delta_depth: u8) -> Box<[u64]> {
    self.external_edge_generic(hash, delta_depth, true)
  }

  fn external_edge_generic(&self, hash: u64, delta_depth: u8, sorted: bool) -> Box<[u64]> {
    self.check_hash(hash);
    let mut edge = Vec::with_capacity((4 + (self.nside << 2)) as usize); // 4 borders (nside) + 4 corners (1)
    let h_bits: HashBits = self.pull_bits_appart(hash);
    if self.is_in_base_cell_border(h_bits.i, h_bits.j) {
      // Not easy: opposite directions depends on base cell neighbours
      let mut neighbours = MainWindMap::new();
      self.edge_cell_neighbours(hash, &mut neighbours);
      let mut neighbours = if sorted { neighbours.sorted_entries_vec() } else { neighbours.entries_vec() };
      let h_parts: HashParts = self.decode_hash(hash);
      for (direction, hash_value) in neighbours.drain(..) {
        let dir_from_neig = if h_parts.d0h == self.h_2_d0h(hash_value) {
          direction.opposite()
        } else if self.depth == 0 {
          direction_from_neighbour(h_parts.d0h, &direction)
        }  else {
          edge_cell_direction_from_neighbour(h_parts.d0h, &self.direction_in_base_cell_border(h_bits.i, h_bits.j), &direction)
        };
        append_sorted_internal_edge_element(hash_value, delta_depth, dir_from_neig, &mut edge);
      }
    } else {
      // Easy: always use the opposite direction
      let mut neighbours = MainWindMap::new();
      self.inner_cell_neighbours(h_bits.d0h, h_bits.i, h_bits.j, &mut neighbours);
      let mut neighbours = if sorted { neighbours.sorted_entries_vec() } else { neighbours.entries_vec() };
      for (direction, hash_value) in neighbours.drain(..) {
        append_sorted_internal_edge_element(hash_value, delta_depth,  direction.opposite(), &mut edge);
      }
    }
    edge.into_boxed_slice()
  }
  
  #[inline]
  fn is_in_base_cell_border(&self, i_in_base_cell_bits: u64, j_in_base_cell_bits: u64) -> bool {
    0_u64 == i_in_base_cell_bits || i_in_base_cell_bits == self.x_mask
      || 0_u64 == j_in_base_cell_bits || j_in_base_cell_bits == self.y_mask
  }

  #[inline]
  fn direction_in_base_cell_border(&self, i_in_base_cell_bits: u64, j_in_base_cell_bits: u64) -> MainWind {
    let i = if 0_u64 == i_in_base_cell_bits {
      0
    } else if i_in_base_cell_bits == self.x_mask {
      2
    } else {
      1
    };
    let j = if 0_u64 == j_in_base_cell_bits {
      0
    } else if j_in_base_cell_bits == self.y_mask {
      2
    } else {
      1
    };
    MainWind::from_index(3 * j + i)
  }

  fn inner_cell_neighbours(&self, d0h_bits: u64, i_in_d0h_bits: u64, j_in_d0h_bits: u64,
                           result_map: &mut MainWindMap<u64>) {
    let ij = self.z_order_curve.h2ij(i_in_d0h_bits | j_in_d0h_bits);
    let i = self.z_order_curve.ij2i(ij);
    let j = self.z_order_curve.ij2j(ij);
    // Compute i-1 and j-1 bits.
    // Depending to the FillingCurve implementation, calling 2 x fc.i02hash(...) twice could result
    // in making fewer operations
    let ij = self.z_order_curve.ij2h(i - 1, j - 1);
    let im1_bits = ij & self.x_mask;
    let jm1_bits = ij & self.y_mask;
    // Compute i+1 and j+1 bits.
    // Again, depending to the FillingCurve implementation, calling 2 x fc.i02hash(...) twice could
    // result in making fewer operations
    let ij = self.z_order_curve.ij2h(i + 1, j + 1);
    let ip1_bits = ij & self.x_mask;
    let jp1_bits = ij & self.y_mask;
    // Unrolled for loop an MainWind enumset
    result_map.put(S, bits_2_hash(d0h_bits, im1_bits, jm1_bits));
    result_map.put(SE, bits_2_hash(d0h_bits, i_in_d0h_bits, jm1_bits));
    result_map.put(E, bits_2_hash(d0h_bits, ip1_bits, jm1_bits));
    result_map.put(SW, bits_2_hash(d0h_bits, im1_bits, j_in_d0h_bits));
    result_map.put(NE, bits_2_hash(d0h_bits, ip1_bits, j_in_d0h_bits));
    result_map.put(W, bits_2_hash(d0h_bits, im1_bits, jp1_bits));
    result_map.put(NW, bits_2_hash(d0h_bits, i_in_d0h_bits, jp1_bits));
    result_map.put(N, bits_2_hash(d0h_bits, ip1_bits, jp1_bits));
  }

  fn edge_cell_neighbours(&self, hash: u64, result_map: &mut MainWindMap<u64>) {
    // Could have simply been edgeCellNeighbours(hash, EnumSet.allOf(MainWind.class) result)
    // but we prefered to unroll the for loop.
    let h_parts: HashParts = self.decode_hash(hash);
    let d0h = h_parts.d0h;
    let i = h_parts.i;
    let j = h_parts.j;
    result_map.put_opt(S, self.neighbour_from_parts(d0h, i, j, S));
    result_map.put_opt(SE, self.neighbour_from_parts(d0h, i, j, SE));
    result_map.put_opt(E, self.neighbour_from_parts(d0h, i, j, E));
    result_map.put_opt(SW, self.neighbour_from_parts(d0h, i, j, SW));
    result_map.put_opt(NE, self.neighbour_from_parts(d0h, i, j, NE));
    result_map.put_opt(W, self.neighbour_from_parts(d0h, i, j, W));
    result_map.put_opt(NW, self.neighbour_from_parts(d0h, i, j, NW));
    result_map.put_opt(N, self.neighbour_from_parts(d0h, i, j, N));
  }

  fn neighbour_from_parts(&self, d0h: u8, i: u32, j: u32, dir: MainWind) -> Option<u64> {
    let i = (i as i32) + (dir.offset_se() as i32);
    let j = (j as i32) + (dir.offset_sw() as i32);
    let d0_neighbour_dir = MainWind::from_offsets(
      self.neighbour_base_cell_offset(i),
      self.neighbour_base_cell_offset(j));
    self.neighbour_from_shifted_coos(d0h, i as u32, j as u32, d0_neighbour_dir)
  }

  /*fn neighbour_base_cell_offset(&self, offset: i8, coo: u32) -> i8 {
    if coo == 0_u32 && offset == -1_i8 {
      -1_i8
    } else if coo == self.nside_minus_1 && offset == 1_i8 {
      1_i8
    } else {
      0_i8
    }
  }*/
  /// This method has a single input parameters `coo` which must be in `[-1, nside]`, and returns:
  /// - -1 if `coo` == -1
  /// -  0 if `coo` in `[0, nside[`
  /// -  1 if `coo` == nside
  #[inline]
  fn neighbour_base_cell_offset(&self, coo_in_base_cell: i32) -> i8 {
    debug_assert!(-1_i32 <= coo_in_base_cell && coo_in_base_cell <= (self.nside as i32));
    let offset = (coo_in_base_cell >> 31 | coo_in_base_cell >> self.depth) as i8;
    debug_assert!(
      (coo_in_base_cell == -1_i32 && offset == -1_i8)
        || (coo_in_base_cell == (self.nside as i32) && offset == 1_i8)
        || (-1_i32 < coo_in_base_cell && coo_in_base_cell < (self.nside as i32) && offset == 0_i8)
    );
    offset
  }

  #[inline]
  fn neighbour_from_shifted_coos(&self, d0h: u8, i: u32, j: u32, base_cell_neighbour_dir: MainWind) -> Option<u64> {
    if base_cell_neighbour_dir == MainWind::C {
      debug_assert!(i < self.nside && j < self.nside);
      self.build_hash_from_parts_opt(d0h, i, j)
    } else {
      let d0h_mod_4 = d0h & 3_u8;  // <=> base_cell modulo 4
      match div4_quotient(d0h) {
        // <=> base_cell / 4
        0 => self.ncp_neighbour(d0h_mod_4, i, j, base_cell_neighbour_dir),
        1 => self.eqr_neighbour(d0h_mod_4, i, j, base_cell_neighbour_dir),
        2 => self.spc_neighbour(d0h_mod_4, i, j, base_cell_neighbour_dir),
        _ => panic!("Base cell must be in [0, 12["),
      }
    }
  }

  #[inline]
  fn ncp_neighbour(&self, d0h_mod_4: u8, i: u32, j: u32, base_cell_neighbour_dir: MainWind) -> Option<u64> {
    let m = self.nside_minus_1;
    match base_cell_neighbour_dir {
      S => self.build_hash_from_parts_opt(base_cell(iden(d0h_mod_4), 2), m, m),
      SE => self.build_hash_from_parts_opt(base_cell(next(d0h_mod_4), 1), i, m),
      SW => self.build_hash_from_parts_opt(base_cell(iden(d0h_mod_4), 1), m, j),
      NE => self.build_hash_from_parts_opt(base_cell(next(d0h_mod_4), 0), j, m),
      NW => self.build_hash_from_parts_opt(base_cell(prev(d0h_mod_4), 0), m, i),
      N => self.build_hash_from_parts_opt(base_cell(oppo(d0h_mod_4), 0), m, m),
      _ => None,
    }
  }

  #[inline]
  fn eqr_neighbour(&self, d0h_mod_4: u8, i: u32, j: u32, base_cell_neighbour_dir: MainWind) -> Option<u64> {
    let m = self.nside_minus_1;
    match base_cell_neighbour_dir {
      SE => self.build_hash_from_parts_opt(base_cell(iden(d0h_mod_4), 2), i, m),
      E => self.build_hash_from_parts_opt(base_cell(next(d0h_mod_4), 1), 0, m),
      SW => self.build_hash_from_parts_opt(base_cell(prev(d0h_mod_4), 2), m, j),
      NE => self.build_hash_from_parts_opt(base_cell(iden(d0h_mod_4), 0), 0, j),
      W => self.build_hash_from_parts_opt(base_cell(prev(d0h_mod_4), 1), m, 0),
      NW => self.build_hash_from_parts_opt(base_cell(prev(d0h_mod_4), 0), i, 0),
      _ => None,
    }
  }

  #[inline]
  fn spc_neighbour(&self, d0h_mod_4: u8, i: u32, j: u32, base_cell_neighbour_dir: MainWind) -> Option<u64> {
    match base_cell_neighbour_dir {
      S => self.build_hash_from_parts_opt(base_cell(oppo(d0h_mod_4), 2), 0, 0),
      SE => self.build_hash_from_parts_opt(base_cell(next(d0h_mod_4), 2), 0, i),
      SW => self.build_hash_from_parts_opt(base_cell(prev(d0h_mod_4), 2), j, 0),
      NE => self.build_hash_from_parts_opt(base_cell(next(d0h_mod_4), 1), 0, j),
      NW => self.build_hash_from_parts_opt(base_cell(iden(d0h_mod_4), 1), i, 0),
      N => self.build_hash_from_parts_opt(base_cell(iden(d0h_mod_4), 0), 0, 0),
      _ => None,
    }
  }
  
  /// Center of the given cell in the Euclidean projection space.
  /// # Output
  /// - `(x, y)` coordinates such that $x \in [0, 8[$ and $y \in [-2, 2]$. 
  pub fn center_of_projected_cell(&self, hash: u64) -> (f64, f64) {
    self.check_hash(hash);
    let h_parts: HashParts = self.decode_hash(hash);
    let mut hl: (i32, i32) = rotate45_scale2(h_parts.i, h_parts.j);
    self.shift_from_small_cell_center_to_base_cell_center(&mut hl);
    let mut xy: (f64, f64) = self.scale_to_proj_dividing_by_nside(hl);
    let (offset_x, offset_y) = compute_base_cell_center_offsets_in_8x3_grid(h_parts.d0h);
    apply_base_cell_center_offsets(&mut xy, offset_x, offset_y);
    xy
  }

  // Computes the position on the unit sphere of the vertex, located at the given direction,
  // of the cell of given center coordinate on the projection plane.
  #[inline]
  fn vertex_lonlat(&self, center_x: f64, center_y: f64, vertex_direction: &Cardinal) -> (f64, f64) {
    let x = center_x + (*vertex_direction).offset_we(self.one_over_nside);
    let y = center_y + (*vertex_direction).offset_sn(self.one_over_nside);
    super::unproj(ensures_x_is_positive(x), y)
  }

  #[inline]
  fn is_hash(&self, hash: u64) -> bool { hash < self.n_hash }

  #[inline]
  fn check_hash(&self, hash: u64) { assert!(self.is_hash(hash), "Wrong hash value: too large."); }

  #[inline]
  fn h_2_d0h(&self, hash: u64) -> u8 {
      (hash >> self.twice_depth) as u8
  }
  
  #[inline]
  fn decode_hash(&self, hash: u64) -> HashParts {
    let ij: u64 = self.z_order_curve.h2ij(hash & self.xy_mask);
    HashParts {
      d0h: self.h_2_d0h(hash),
      i: self.z_order_curve.ij2i(ij),
      j: self.z_order_curve.ij2j(ij),
    }
  }

  #[inline]
  fn pull_bits_appart(&self, hash: u64) -> HashBits {
    HashBits {
      d0h: hash & self.d0h_mask,
      i: hash & self.x_mask,
      j: hash & self.y_mask,
    }
  }

  #[inline]
  fn shift_from_small_cell_center_to_base_cell_center(&self, ij: &mut (i32, i32)) {
    let (ref mut _i, ref mut j) = *ij;
    *j -= self.nside_remainder_mask as i32; // nside_remainder_mask == nside - 1
  }

  #[inline]
  fn scale_to_proj_dividing_by_nside(&self, (x, y): (i32, i32)) -> (f64, f64) {
    (x as f64 * self.one_over_nside, y as f64 * self.one_over_nside)
  }
  
  #[inline]
  fn h_and_shs_to_lower_h(&self, deeper_depth: u8) -> impl Fn((u64, f64)) -> u64 {
    let twice_depth_diff = (deeper_depth - self.depth) << 1;
    move |(h, _)| h >> twice_depth_diff
  }

  ////////////////////////////
  // Bilinear interpolation //
  ////////////////////////////
  
  /// See [wikipeida](https://en.wikipedia.org/wiki/Bilinear_interpolation) about bilinear interpolation.
  /// The main difficulty here are the corners of base cells for which the number of neighbours is not
  /// equals to 8.
  /// In the normal case we have:
  /// ```math
  /// f(x, y) = f(0, 0) (1 - x) (1 - y) 
  ///         + f(1, 0) x (1 - y)         
  ///         + f(0, 1) (1 - x) y
  ///         + f(1, 1) x y
  /// ```
  /// If a neighbour is missing, we share equally its contribution between the 2 cells that do not
  /// contains the given coordinate, and we fill the array with the cell of the given coordinate
  /// with a weight of 0.  
  /// # Output
  /// - `[(cell, weigth), (cell, weigth), (cell, weigth), (cell, weigth)]` the cell number
  ///    together with their weight
  pub fn bilinear_interpolation(&self, lon: f64, lat: f64) -> [(u64, f64); 4] {
    let (h, dx, dy) = self.hash_with_dxdy(lon, lat);
    // We can probably optimize here since we are interested in only 3 neighbours
    let neigbours_map = self.neighbours(h, true);
    // Look at the four pixels
    let xcoo = (dx > 0.5) as u8;
    let ycoo = (dy > 0.5) as u8;
    let quarter: u8 = (ycoo << 1) + xcoo;
    match quarter {
      0 => { // => S => (dx + 0.5, dy + 0.5, S, SE, SW, C)
        match neigbours_map.get(S) {
          Some(nh) => [
            (*nh, (0.5 - dx) * (0.5 - dy)), 
            (*neigbours_map.get(SE).unwrap(), (0.5 + dx) * (0.5 - dy)), 
            (*neigbours_map.get(SW).unwrap(), (0.5 - dx) * (0.5 + dy)), 
            (h, (0.5 + dx) * (0.5 + dy) )
          ],
          None => [
            (h, 0.0),
            (*neigbours_map.get(SE).unwrap(), (0.5 - dy) * (0.75 + 0.5 * dx)),
            (*neigbours_map.get(SW).unwrap(), (0.5 - dx) * (0.75 + 0.5 * dy)),
            (h, (0.5 + dx) * (0.5 + dy))
          ],
        }
      }
      1 => // => E => (dx - 0.5, dy + 0.5, SE, E, C, NE)
        match neigbours_map.get(E) {
          Some(nh) => [
            (*neigbours_map.get(SE).unwrap(), (1.5 - dx) * (0.5 - dy)),
            (*nh, (dx - 0.5) * (0.5 - dy)),
            (h, (1.5 - dx) * (0.5 + dy)),
            (*neigbours_map.get(NE).unwrap(), (dx - 0.5) * (0.5 + dy))
          ],
          None => [
            (*neigbours_map.get(SE).unwrap(), (0.5 - dy) * (1.25 - 0.5 * dx)),
            (h, 0.0),
            (h, (1.5 - dx) * (0.5 + dy)),
            (*neigbours_map.get(NE).unwrap(), (dx - 0.5) * (0.75 + 0.5 * dy))
          ],
        }
      2 => // => W => (dx + 0.5, dy - 0.5, SW, C, W, NW)
        match neigbours_map.get(W) {
          Some(nh) => [
            (*neigbours_map.get(SW).unwrap(), (0.5 - dx) * (1.5 - dy)),
            (h, (dx + 0.5) * (1.5 - dy)),
            (*nh, (0.5 - dx) * (dy - 0.5)),
            (*neigbours_map.get(NW).unwrap(), (0.5 + dx) * (dy - 0.5))
          ],
          None => [
            (*neigbours_map.get(SW).unwrap(), (0.5 - dx) * (1.25 - 0.5 * dy)),
            (h, (dx + 0.5) * (1.5 - dy)),
            (h, 0.0),
            (*neigbours_map.get(NW).unwrap(), (dy - 0.5) * (0.5 * dx + 0.75))
          ],
        }
      3 => // => N => (dx - 0.5, dy - 0.5, C, NE, NW, N)
        match neigbours_map.get(N) {
          Some(nh) => [
            (h, (1.5 - dx) * (1.5 - dy)),
            (*neigbours_map.get(NE).unwrap(), (dx - 0.5) * (1.5 - dy)),
            (*neigbours_map.get(NW).unwrap(), (1.5 - dx) * (dy - 0.5)),
            (*nh, (dx - 0.5) * (dy - 0.5))
          ],
          None => [
            (h, (1.5 - dx) * (1.5 - dy)),
            (*neigbours_map.get(NE).unwrap(), (dx - 0.5) * (1.25 - 0.5 * dy)),
            (*neigbours_map.get(NW).unwrap(), (1.25 - 0.5 * dx) * (dy - 0.5)),
            (h, 0.0)
          ],
        }
      _ => unreachable!(),
    }
  }
  
  //////////////////////
  // Coverage methods //
  //////////////////////
  
  
  /// Returns a hierarchical view of the list of cells overlapped by the given cone.
  /// The BMOC also tells if the cell if fully or partially overlapped by the cone.
  /// The algorithm is fast but approximated: it may return false positive, 
  /// i.e. cells which are near from the cone but do not overlap it.
  /// To control the approximation, see the method 
  /// [cone_coverage_approx_custom](#method.cone_coverage_approx_custom)
  /// 
  /// # Input
  /// - `cone_lon` the longitude of the center of the cone, in radians
  /// - `cone_lat` the latitude of the center of the cone, in radians
  /// - `cone_radius` the radius of the cone, in radians
  /// 
  /// # Output
  /// - the list of cells overlapped by the given cone, in a BMOC (hierarchical view also telling
  ///   if a cell is fully or partially covered).
  ///
  /// # Example
  /// ```rust
  /// use cdshealpix::nested::{get_or_create, Layer};
  ///
  /// let depth = 3_u8;
  /// let nested3 = get_or_create(depth);
  ///
  /// let lon = 13.158329_f64.to_radians();
  /// let lat = -72.80028_f64.to_radians();
  /// let radius = 5.64323_f64.to_radians();
  /// 
  /// let actual_res = nested3.cone_coverage_approx(lon, lat, radius);
  /// let expected_res: [u64; 10] = [512, 514, 515, 520, 521, 522, 544, 705, 708, 709];
  /// for (h1, h2) in actual_res.flat_iter().zip(expected_res.iter()) {
  ///      assert_eq!(h1, *h2);
  /// }
  /// ```
  pub fn cone_coverage_approx(&self, cone_lon: f64, cone_lat: f64, cone_radius: f64) -> BMOC {
    self.cone_coverage_approx_internal(cone_lon, cone_lat, cone_radius).to_bmoc_packing()
  }
  
  /// Returns a hierarchical view of the list of cells overlapped by the given cone.
  /// The BMOC also tells if the cell if fully or partially overlapped by the cone.
  /// The algorithm is fast but approximated: it may return false positive, 
  /// i.e. cells which are near from the cone but do not overlap it.
  /// To control the approximation, you can choose to perform the computations at a deeper depth
  /// using the `delta_depth` parameter.
  /// 
  /// # Input
  /// - `delta_depth` the difference between this Layer depth and the depth at which the computations
  ///   are made (should remain quite small).
  /// - `cone_lon` the longitude of the center of the cone, in radians
  /// - `cone_lat` the latitude of the center of the cone, in radians
  /// - `cone_radius` the radius of the cone, in radians
  /// 
  /// # Output
  /// - the list of cells overlapped by the given cone, in a BMOC (hierarchical view also telling
  ///   if a cell is fully or partially covered).
  ///
  /// # Panics
  /// If this layer depth + `delta_depth` > the max depth (i.e. 29)
  /// 
  /// # Example
  /// ```rust
  /// use cdshealpix::nested::{get_or_create, Layer};
  ///
  /// let depth = 3_u8;
  /// let nested3 = get_or_create(depth);
  ///
  /// let lon = 13.158329_f64.to_radians();
  /// let lat = -72.80028_f64.to_radians();
  /// let radius = 5.64323_f64.to_radians();
  /// 
  /// let actual_res = nested3.cone_coverage_approx_custom(2, lon, lat, radius);
  /// let expected_res: [u64; 8] = [514, 515, 520, 521, 522, 705, 708, 709];
  /// for (h1, h2) in actual_res.flat_iter().zip(expected_res.iter()) {
  ///     assert_eq!(h1, *h2);
  /// }
  /// ```
  pub fn cone_coverage_approx_custom(&self, delta_depth: u8, cone_lon: f64, cone_lat: f64, cone_radius: f64) -> BMOC {
    if delta_depth == 0 {
      self.cone_coverage_approx(cone_lon, cone_lat, cone_radius)
    } else {
      // TODO: change the algo not to put all cell in the MOC and pruning it
      get_or_create(self.depth + delta_depth)
        .cone_coverage_approx_internal(cone_lon, cone_lat, cone_radius)
        //.to_lower_depth_bmoc(self.depth)
        .to_lower_depth_bmoc_packing(self.depth)
    }
  }
  
  fn cone_coverage_approx_internal(&self, cone_lon: f64, cone_lat: f64, cone_radius: f64) -> BMOCBuilderUnsafe {
    // Special case: the full sky is covered
    if cone_radius >= PI {
      return self.allsky_bmoc_builder();
    }
    // Common variable
    let cos_cone_lat = cone_lat.cos();
    // Special case of very large radius: test the 12 base cells
    if !has_best_starting_depth(cone_radius) {
      let distances: Box<[f64]> = largest_center_to_vertex_distances_with_radius(
        0, self.depth + 1, cone_lon, cone_lat, cone_radius);
      let minmax_array: Box<[MinMax]> = to_shs_min_max_array(cone_radius, distances);
      let mut bmoc_builder = BMOCBuilderUnsafe::new(self.depth, self.n_moc_cell_in_cone_upper_bound(cone_radius));
      for h in 0..12 {
        self.cone_coverage_approx_recur(0, h,
                                &shs_computer(cone_lon, cone_lat, cos_cone_lat),
                                &minmax_array, 0, &mut bmoc_builder);
      }
      return bmoc_builder; //.to_bmoc_packing();
    }
    // Normal case
    let depth_start = best_starting_depth(cone_radius);
    if depth_start >= self.depth {
      let shs_max = to_squared_half_segment(cone_radius
        + largest_center_to_vertex_distance_with_radius(depth_start, cone_lon, cone_lat, cone_radius));
      let root_layer = get_or_create(depth_start);
      let mut neigs: Vec<u64> = root_layer.neighbours(root_layer.hash(cone_lon, cone_lat), true)
        .values_vec().iter()
        .map(h_to_h_and_shs(cone_lon, cone_lat, cos_cone_lat, root_layer))
        .filter(shs_lower_than(shs_max))
        .map(self.h_and_shs_to_lower_h(depth_start))
        .collect();
      neigs.sort_unstable(); // sort the array (unstable is ok since we remove duplicates)
      neigs.dedup();         // remove duplicates (vector must be sorted first)
      // return BMOC::create_unsafe(self.depth, neigs.into_boxed_slice());
      let mut bmoc_builder = BMOCBuilderUnsafe::new(self.depth, neigs.len());
      for neig in neigs {
        bmoc_builder.push(self.depth,neig, false); 
      }
      return bmoc_builder;
    } else {
      let distances: Box<[f64]> = largest_center_to_vertex_distances_with_radius(
        depth_start, self.depth + 1, cone_lon, cone_lat, cone_radius);
      let minmax_array: Box<[MinMax]> = to_shs_min_max_array(cone_radius, distances);
      let root_layer = get_or_create(depth_start);
      let root_center_hash = root_layer.hash(cone_lon, cone_lat);
      let neigs = root_layer.neighbours(root_center_hash, true);
      let mut bmoc_builder = BMOCBuilderUnsafe::new(self.depth, self.n_moc_cell_in_cone_upper_bound(cone_radius));
      for &root_hash in neigs.sorted_values().into_iter() {
        self.cone_coverage_approx_recur(depth_start, root_hash,
                                &shs_computer(cone_lon, cone_lat, cos_cone_lat),
                                &minmax_array, 0, &mut bmoc_builder);
      }
      return bmoc_builder; //.to_bmoc_packing();
    }
  }
  fn cone_coverage_approx_recur<F>(&self, depth: u8, hash: u64, shs_computer: &F, shs_minmax: &[MinMax],
                           recur_depth: u8, bmoc_builder: &mut BMOCBuilderUnsafe)
    where F: Fn((f64, f64)) -> f64  {
    let center = get_or_create(depth).center(hash);
    let shs = shs_computer(center);
    let MinMax{min, max} = shs_minmax[recur_depth as usize];
    if shs <= min {
      bmoc_builder.push(depth, hash, true);
    } else if shs <= max {
      if depth == self.depth {
        bmoc_builder.push(depth, hash, false);
      } else {
        let hash = hash << 2;
        let depth = depth + 1;
        let recur_depth = recur_depth + 1;
        self.cone_coverage_approx_recur(depth, hash, shs_computer, shs_minmax, recur_depth, bmoc_builder);
        self.cone_coverage_approx_recur(depth, hash | 1_u64, shs_computer, shs_minmax, recur_depth, bmoc_builder);
        self.cone_coverage_approx_recur(depth, hash | 2_u64, shs_computer, shs_minmax, recur_depth, bmoc_builder);
        self.cone_coverage_approx_recur(depth, hash | 3_u64, shs_computer, shs_minmax, recur_depth, bmoc_builder);
      }
    }
  }
  
  /// cone_radius in radians
  /// TODO: find a better function!!
  #[inline]
  fn ncell_in_cone_upper_bound(&self, cone_radius: f64) -> usize {
    // cell_area = 4 pi / ncell
    // cone_area = pi r^2
    // => area_ratio = cone_area / cell_area = r^2 * ncell / 4 = r^2 * (ncell >> 2)
    let mut area_ratio = pow2(cone_radius) * ((self.n_hash >> 2) as f64);
    area_ratio += 1.0_f64; // to be sure the minimum = 1
    // We want:
    //  - ratio = 1    --> n = 9
    //  - ratio = +inf --> n = 1.25 (125% => + 25%) 
    //  - function shape = a/x + b
    // => a / 1 + b = 9  and a / +inf + b = 1.25 
    // => b = 1.25 and a = 7.75
    let correction_factor = 1.25_f64 + 7.75_f64 / area_ratio; 
    (correction_factor * area_ratio) as usize
  }

  #[inline]
  fn n_moc_cell_in_cone_upper_bound(&self, cone_radius: f64) -> usize {
    const TWICE_SQRT_3: f64 = 2.0_f64 * 1.73205080756887729352_f64; // sqrt(3)
    // cell_area = 4 * pi / ncell = 4 * pi / (3 * 4 * nside^2) = pi / (3 * nside^2) =  pi * r^2
    // cell_radius = r = 1 / (sqrt(3) * nside)
    // As a very simple and naive rule, we take 4x the number of cells needed to cover
    // the cone external annulus
    // Annulus area = 4 pi ((R + r)^2 - R^2) = 4 pi (r^2 + 2rR)
    // N cells = 4 pi (r^2 + 2rR) / 4 pi r^2 = 1 + 2 R/r = 1 + 2 * sqrt(3) * nside * R
    4_usize * (1_usize + (self.nside as f64 * TWICE_SQRT_3 * cone_radius + 0.99_f64) as usize)
  }



  /*pub fn cone_coverage(&self, cone_lon: f64, cone_lat: f64, cone_radius: f64) -> BMOC {
    // Special case: the full sky is covered
    if cone_radius >= PI {
      return self.allsky_bmoc();
    }
    // Common variable
    let cos_cone_lat = cone_lat.cos();
    // Special case of very large radius: test the 12 base cells
    if !has_best_starting_depth(cone_radius) {
      
    }
    // Normal case
    
  }*/
  
  /// Returns a hierarchical view of the list of cells overlapped by the given elliptical cone.
  /// The BMOC also tells if the cell if fully or partially overlapped by the elliptical cone.
  /// The algorithm is approximated: it may return false positive, 
  /// i.e. cells which are near from the elliptical cone but do not overlap it.
  /// To control the approximation, see the method 
  /// [cone_coverage_approx_custom](#method.elliptical_cone_coverage_custom)
  /// 
  /// # Input
  /// - `lon` the longitude of the center of the elliptical cone, in radians
  /// - `lat` the latitude of the center of the elliptical cone, in radians
  /// - `a` the semi-major axis of the elliptical cone, in radians
  /// - `b` the semi-minor axis of the elliptical cone, in radians
  /// - `pa` the position angle (i.e. the angle between the north and the semi-major axis, east-of-north), in radians
  /// 
  /// # Output
  /// - the list of cells overlapped by the given elliptical cone, in a BMOC 
  ///   (hierarchical view also telling if a cell is fully or partially covered).
  ///
  /// # Panics
  /// - if the semi-major axis is > PI/2
  /// 
  /// # Example
  /// ```rust
  /// use cdshealpix::nested::{get_or_create, Layer};
  ///
  /// let depth = 3_u8;
  /// let nested3 = get_or_create(depth);
  ///
  /// let lon = 36.80105218_f64.to_radians();
  /// let lat = 56.78028536_f64.to_radians();
  /// let a = 14.93_f64.to_radians();
  /// let b = 4.93_f64.to_radians();
  /// let pa = 75.0_f64.to_radians();
  /// 
  /// let actual_res = nested3.elliptical_cone_coverage(lon, lat, a, b, pa);
  /// let expected_res: [u64; 16] = [27, 30, 39, 43, 44, 45, 46, 47, 48, 49, 50, 51, 52, 54, 56, 57];
  /// for (h1, h2) in actual_res.flat_iter().zip(expected_res.iter()) {
  ///     assert_eq!(h1, *h2);
  /// }
  /// ```
  pub fn elliptical_cone_coverage(&self, lon: f64, lat: f64, a: f64, b: f64, pa: f64) -> BMOC {
    self.elliptical_cone_coverage_internal(lon, lat, a, b, pa).to_bmoc_packing()
  }
  
  /// Returns a hierarchical view of the list of cells overlapped by the given elliptical cone.
  /// The BMOC also tells if the cell if fully or partially overlapped by the elliptical cone.
  /// The algorithm is approximated: it may return false positive, 
  /// i.e. cells which are near from the cone but do not overlap it.
  /// To control the approximation, you can choose to perform the computations at a deeper depth
  /// using the `delta_depth` parameter.
  /// 
  /// # Input
  /// - `delta_depth` the difference between this Layer depth and the depth at which the computations
  ///   are made (should remain quite small).
  /// - `lon` the longitude of the center of the elliptical cone, in radians
  /// - `lat` the latitude of the center of the elliptical cone, in radians
  /// - `a` the semi-major axis of the elliptical cone, in radians
  /// - `b` the semi-minor axis of the elliptical cone, in radians
  /// - `pa` the position angle (i.e. the angle between the north and the semi-major axis, east-of-north), in radians
  /// 
  /// # Output
  /// - the list of cells overlapped by the given elliptical cone, in a BMOC 
  ///   (hierarchical view also telling if a cell is fully or partially covered).
  ///
  /// # Panics
  /// - if the semi-major axis is > PI/2
  /// - if this layer depth + `delta_depth` > the max depth (i.e. 29)
  ///
  pub fn elliptical_cone_coverage_custom(&self, delta_depth: u8, lon: f64, lat: f64, a: f64, b: f64, pa: f64) -> BMOC {
    if delta_depth == 0 {
      self.elliptical_cone_coverage(lon, lat, a, b, pa)
    } else {
      // TODO: change the algo not to put all cell in the MOC and pruning it
      get_or_create(self.depth + delta_depth)
        .elliptical_cone_coverage_internal(lon, lat, a, b, pa)
        .to_lower_depth_bmoc_packing(self.depth)
    }
  }

  pub fn elliptical_cone_coverage_internal(&self, lon: f64, lat: f64, a: f64, b: f64, pa: f64) -> BMOCBuilderUnsafe {
    if a >= HALF_PI {
      panic!("Unable to handle ellipses with a semi-major axis > PI/2");
    }
    // Special case: the full sky is covered
    if b >= PI {
      return self.allsky_bmoc_builder();
    }
    // Common variable
    let sph_ellipse = EllipticalCone::new(lon, lat, a, b, pa);
    // Special case of very large radius: test the 12 base cells
    if !has_best_starting_depth(a) {
      let mut bmoc_builder = BMOCBuilderUnsafe::new(self.depth, self.n_moc_cell_in_cone_upper_bound(a));
      let distances: Box<[f64]> = largest_center_to_vertex_distances_with_radius(
        0, self.depth + 1, lon, lat, a);
      for h in 0..12 {
        self.elliptical_cone_coverage_recur(0, h ,&sph_ellipse, &distances, 0, &mut bmoc_builder);
      }
      return bmoc_builder;
    }
    // Normal case
    let depth_start = best_starting_depth(a);
    let root_layer = get_or_create(depth_start);
    let root_center_hash = root_layer.hash(lon, lat);
    // Small ellipse case
    if depth_start >= self.depth {
      let distance = largest_center_to_vertex_distance_with_radius(depth_start, lon, lat, a);
      let mut neigs: Vec<u64> = root_layer.neighbours(root_center_hash, true)
        .values_vec()
        .into_iter()
        .filter(|h| {
          let (l, b) = root_layer.center(*h);
          sph_ellipse.contains(l, b) || sph_ellipse.overlap_cone(l, b, distance)
        })
        .map(|h| h >> ((depth_start - &self.depth) << 1)) // h_to_lower_depth
        .collect();
      neigs.sort_unstable(); // sort the array (unstable is ok since we remove duplicates)
      neigs.dedup();         // remove duplicates (vector must be sorted first)
      let mut bmoc_builder = BMOCBuilderUnsafe::new(self.depth, neigs.len());
      for neig in neigs {
        bmoc_builder.push(self.depth,neig, false);
      }
      return bmoc_builder;
    } else {
      let distances: Box<[f64]> = largest_center_to_vertex_distances_with_radius(
        depth_start, self.depth + 1, lon, lat, a);
      let neigs = root_layer.neighbours(root_center_hash, true);
      let mut bmoc_builder = BMOCBuilderUnsafe::new(self.depth, self.n_moc_cell_in_cone_upper_bound(a));
      for &root_hash in neigs.sorted_values().into_iter() {
        self.elliptical_cone_coverage_recur(depth_start, root_hash, &sph_ellipse, &distances, 0, &mut bmoc_builder);
      }
      return bmoc_builder;
    }
  }
  
  fn elliptical_cone_coverage_recur(&self, depth: u8, hash: u64, 
                                       ellipse: &EllipticalCone, distances: &[f64],
                                       recur_depth: u8, bmoc_builder: &mut BMOCBuilderUnsafe) {
    let (lon, lat) = get_or_create(depth).center(hash);
    let distance = distances[recur_depth as usize];
    /*eprintln!("d: {}; h: {}; lon: {}, lat: {}; dist: {}; contains: {}; overlap: {}", 
             &depth, &hash, &lon.to_degrees(), &lat.to_degrees(), &distance.to_degrees(),
             &ellipse.contains_cone(lon, lat, distance),
             &ellipse.overlap_cone(lon, lat, distance));*/
    if ellipse.contains_cone(lon, lat, distance) {
      bmoc_builder.push(depth, hash, true);
    } else if ellipse.contains(lon, lat) || ellipse.overlap_cone(lon, lat, distance) {
      if depth == self.depth {
        let mut is_full = true;
        for (lon, lat) in self.vertices(hash).into_iter() {
          is_full &= ellipse.contains(*lon, *lat); // Not sure computation not done if is_full==false, to be verfied
        }
        bmoc_builder.push(depth, hash, is_full);
      } else {
        let hash = hash << 2;
        let depth = depth + 1;
        let recur_depth = recur_depth + 1;
        self.elliptical_cone_coverage_recur(depth,      hash        , ellipse, distances, recur_depth, bmoc_builder);
        self.elliptical_cone_coverage_recur(depth, hash | 1_u64, ellipse, distances, recur_depth, bmoc_builder);
        self.elliptical_cone_coverage_recur(depth, hash | 2_u64, ellipse, distances, recur_depth, bmoc_builder);
        self.elliptical_cone_coverage_recur(depth, hash | 3_u64, ellipse, distances, recur_depth, bmoc_builder);
      }
    }
  }
  
  /// Returns a hierarchical view of the list of cells overlapped by the given polygon.
  /// Self intersecting polygons are supported.
  /// The BMOC also tells if the cell if fully or partially overlapped by the polygon.
  /// 
  /// If you want the complementary solution, apply the NOT operator on the BMOC.
  /// 
  /// This method supports both an *exact* (need more tests) and an *approximated* solution.
  /// The second one being faster (TODO: measure and provided perf differences as a function of the
  /// number of vertices in the polygon).
  /// 
  /// The approximation is the following one: 
  /// > when testing the intersection between a polygon segment and an HEALPix cell edge
  /// > we consider that each edge of the HEALPix cell is on a great-circle arc (which is not
  /// > true, especially a low resolutions).
  /// 
  /// For the exact solution:
  /// > for each polygon segment, we first test if the segment contains a 'special point', 
  /// > if it is the case, we add it to the list of cell number computed from each polygin vertex
  /// > A 'special point' is a point such that in the HEALPix projection Euclidean plane
  /// ```math
  /// \mathrm{d}\DeltaX(z) / \mathrm{d}Y = \pm 1
  /// ``` 
  ///
  /// # Input
  /// - `vertices` the list of vertices (in a slice) coordinates, in radians
  ///              `[(lon, lat), (lon, lat), ..., (lon, lat)]`
  /// - `exact_solution` if set 
  /// 
  /// # Output
  /// - the list of cells overlapped by the given polygon, in a BMOC (hierarchical view also telling
  ///   if a cell is fully or partially covered).
  /// 
  /// # Example
  /// ```rust
  /// use cdshealpix::compass_point::{MainWind};
  /// use cdshealpix::nested::{get_or_create, Layer};
  ///
  /// let depth = 3_u8;
  /// let nested3 = get_or_create(depth);
  /// 
  /// let actual_res =nested3.polygon_coverage(&[(0.0, 0.0), (0.0, 0.5), (0.25, 0.25)], false);
  /// let expected_res: [u64; 8] = [304, 305, 306, 307, 308, 310, 313, 316];
  /// 
  /// for (h1, h2) in actual_res.flat_iter().zip(expected_res.iter()) {
  ///     assert_eq!(h1, *h2);
  /// }
  /// ```
  pub fn polygon_coverage(&self, vertices: &[(f64, f64)], exact_solution: bool) -> BMOC {
    let poly = Polygon::new(
      vertices.iter().map(|(lon, lat)| LonLat { lon: *lon, lat: *lat} )
        .collect::<Vec<LonLat>>().into_boxed_slice()
    );
    let bounding_cone: Cone = Cone::bounding_cone(poly.vertices());
    let mut depth_start = 0;
    let neigs: Vec<u64> = if !has_best_starting_depth(bounding_cone.radius()) {
      (0..12).collect()
    } else {
      depth_start = best_starting_depth(bounding_cone.radius()).min(self.depth);
      let root_layer = get_or_create(depth_start);
      let LonLat{lon, lat} = bounding_cone.center().lonlat();
      let center_hash = root_layer.hash(lon, lat);
      let mut neigs: Vec<u64> = root_layer.neighbours(center_hash, true).values_vec();
      neigs.sort_unstable();
      neigs
    };
    // Compute and sort the list of cells containing at least one polygon vertex
    let mut sorted_poly_vertices_hash = self.hashs_vec(poly.vertices());
    // Special treatment for the exact solution
    if exact_solution {
      let vertices= poly.vertices();
      let mut left= &vertices[vertices.len() - 1];
      for right in vertices {
        let special_lonlats = arc_special_points(left, right, 1.0e-14, 20);
        // println!("special_lonlats: {:?}", &special_lonlats);
        sorted_poly_vertices_hash.append(&mut self.hashs_vec(&special_lonlats));
        left = right;
      }
    }
    // Back to general case
    sorted_poly_vertices_hash.sort_unstable();
    sorted_poly_vertices_hash.dedup();
    let sorted_poly_vertices_hash = sorted_poly_vertices_hash.into_boxed_slice();
    // Build the list (removing duplicated) for all deltaDepth?
    let mut bmoc_builder = BMOCBuilderUnsafe::new(self.depth, 10_000_usize);
    for root_hash in neigs { 
      self.polygon_coverage_recur(&mut bmoc_builder, depth_start, root_hash, &poly, &sorted_poly_vertices_hash);
    }
    bmoc_builder.to_bmoc()
  }

  fn polygon_coverage_recur(&self, moc_builder: &mut BMOCBuilderUnsafe, depth: u8, hash: u64,
  poly: &Polygon, sorted_poly_vertices_hash: &[u64]) {
    if is_in_list(depth, hash, self.depth, sorted_poly_vertices_hash) {
      if depth == self.depth {
        moc_builder.push(depth, hash, false);
      } else {
        let hash = hash << 2;
        let depth = depth + 1;
        self.polygon_coverage_recur(moc_builder, depth, hash    , poly, sorted_poly_vertices_hash);
        self.polygon_coverage_recur(moc_builder, depth, hash | 1, poly, sorted_poly_vertices_hash);
        self.polygon_coverage_recur(moc_builder, depth, hash | 2, poly, sorted_poly_vertices_hash);
        self.polygon_coverage_recur(moc_builder, depth, hash | 3, poly, sorted_poly_vertices_hash);
      }
    } else {
      let (n_vertices_in_poly, poly_vertices) = n_vertices_in_poly(depth, hash, poly);
      if n_vertices_in_poly == 4 {
        moc_builder.push(depth, hash, true);
      } else if n_vertices_in_poly > 0 || has_intersection(poly, poly_vertices) {
        if depth == self.depth {
          moc_builder.push(depth, hash, false);
        } else {
          // I known, I don't like this code repetition, TODO: see how to remove it
          let hash = hash << 2;
          let depth = depth + 1;
          self.polygon_coverage_recur(moc_builder, depth, hash    , poly, sorted_poly_vertices_hash);
          self.polygon_coverage_recur(moc_builder, depth, hash | 1, poly, sorted_poly_vertices_hash);
          self.polygon_coverage_recur(moc_builder, depth, hash | 2, poly, sorted_poly_vertices_hash);
          self.polygon_coverage_recur(moc_builder, depth, hash | 3, poly, sorted_poly_vertices_hash);
        }
      }
    }
  }

  fn hashs<T: LonLatT>(&self, poly_vertices: &[T]) -> Box<[u64]> {
    poly_vertices.iter().map(|coo| self.hash(coo.lon(), coo.lat()))
      .collect::<Vec<u64>>().into_boxed_slice()
  }

  fn hashs_vec<T: LonLatT>(&self, poly_vertices: &[T]) -> Vec<u64> {
    poly_vertices.iter().map(|coo| self.hash(coo.lon(), coo.lat()))
      .collect::<Vec<u64>>()
  }
  
  fn allsky_bmoc(&self) -> BMOC {
    self.allsky_bmoc_builder().to_bmoc()
  }

  fn allsky_bmoc_builder(&self) -> BMOCBuilderUnsafe {
    let mut bmoc_builder = BMOCBuilderUnsafe::new(self.depth, 12);
    bmoc_builder.push_all(0_u8, 0_u64, 12_u64, true);
    bmoc_builder
  }
}

/// Returns the hash value of the base cell (the depth 0 cell hash value) given its '(i, j)'
/// coordinates in the projected, rotated, scaled plane.
/// Here we suppose that we get `(i, j)` from the center of a cell, so that we do not have to take
/// care of border effects (see `depth0_bits` accounting for border effects).
#[inline]
fn depth0_hash_unsafe(i: u8, j: u8) -> u8 {
  let k = 5_i8 - (i + j) as i8;
  (((k << 2) + ( ((i as i8) + ((k - 1) >> 7)) & 3_i8)) as u8)
}

/// Returns the hash value of the cell of depth this layer depth + the given `delta_depth`
/// located in the corner of given direction in the given cell.
/// ```rust
/// use cdshealpix::compass_point::{Cardinal};
/// use cdshealpix::nested::{internal_corner};
///
/// let delta_depth = 1;
/// assert_eq!(0 , internal_corner(0, delta_depth, &Cardinal::S));
/// assert_eq!(1 , internal_corner(0, delta_depth, &Cardinal::E));
/// assert_eq!(2 , internal_corner(0, delta_depth, &Cardinal::W));
/// assert_eq!(3 , internal_corner(0, delta_depth, &Cardinal::N));
/// ```
pub fn internal_corner(hash: u64, delta_depth: u8, direction: &Cardinal) -> u64 {
  match *direction {
    Cardinal::S => internal_corner_south(hash, delta_depth),
    Cardinal::E => internal_corner_east(hash, delta_depth),
    Cardinal::N => internal_corner_north(hash, delta_depth),
    Cardinal::W => internal_corner_west(hash, delta_depth),
  }
}

/// Returns the hash value of the cell of depth the given hash depth + the given `delta_depth`
/// located in the south corner of the given cell.
pub fn internal_corner_south(hash: u64, delta_depth: u8) -> u64 {
  hash << (delta_depth << 1)
}

/// Returns the hash value of the cell of depth the given hash depth + the given `delta_depth`
/// located in the east corner of the given cell.
pub fn internal_corner_east(hash: u64, delta_depth: u8) -> u64 {
  (hash << (delta_depth << 1)) | x_mask(delta_depth)
}

/// Returns the hash value of the cell of depth the given hash depth + the given `delta_depth`
/// located in the west corner of the given cell.
pub fn internal_corner_west(hash: u64, delta_depth: u8) -> u64 {
  (hash << (delta_depth << 1)) | y_mask(delta_depth)
}

/// Returns the hash value of the cell of depth the given hash depth + the given `delta_depth`
/// located in the north corner of the given cell.
pub fn internal_corner_north(hash: u64, delta_depth: u8) -> u64 {
  (hash << (delta_depth << 1)) | xy_mask(delta_depth)
}


/// Returns the hash values of the cells of depth this layer depth + the given `delta_depth`
/// located in the internal edge of given direction in the given cell.
/// 
/// # Info
/// The returned vector is sorted.
/// 
/// ```rust
/// use cdshealpix::compass_point::{Ordinal};
/// use cdshealpix::nested::{internal_edge_part};
///
/// 
/// let delta_depth = 1;
/// assert_eq!(vec![0, 1].into_boxed_slice() , internal_edge_part(0, delta_depth, &Ordinal::SE));
/// assert_eq!(vec![0, 2].into_boxed_slice() , internal_edge_part(0, delta_depth, &Ordinal::SW));
/// assert_eq!(vec![1, 3].into_boxed_slice() , internal_edge_part(0, delta_depth, &Ordinal::NE));
/// assert_eq!(vec![2, 3].into_boxed_slice() , internal_edge_part(0, delta_depth, &Ordinal::NW));
/// 
/// let delta_depth = 2;
/// assert_eq!(vec![ 0,  1,  4,  5].into_boxed_slice() , internal_edge_part(0, delta_depth, &Ordinal::SE));
/// assert_eq!(vec![ 0,  2,  8, 10].into_boxed_slice() , internal_edge_part(0, delta_depth, &Ordinal::SW));
/// assert_eq!(vec![ 5,  7, 13, 15].into_boxed_slice() , internal_edge_part(0, delta_depth, &Ordinal::NE));
/// assert_eq!(vec![10, 11, 14, 15].into_boxed_slice() , internal_edge_part(0, delta_depth, &Ordinal::NW));
/// ```
pub fn internal_edge_part(hash: u64, delta_depth: u8, direction: &Ordinal) -> Box<[u64]> {
  match *direction {
    Ordinal::SE => internal_edge_southeast(hash, delta_depth),
    Ordinal::SW => internal_edge_southwest(hash, delta_depth),
    Ordinal::NE => internal_edge_northeast(hash, delta_depth),
    Ordinal::NW => internal_edge_northwest(hash, delta_depth),
  }
}

/// Returns the hash values of the cells of depth the given hash depth + the given `delta_depth`
/// located in the southeast internal edge of the given cell.
/// # Info
/// The returned vector is sorted.
pub fn internal_edge_southeast(mut hash: u64, delta_depth: u8) -> Box<[u64]> {
  let nside = 1_u32 << delta_depth; // 2^deltaDepth
  let mut v: Vec<u64> = Vec::with_capacity(nside as usize);
  hash <<= delta_depth << 1;
  for x in 0..nside {
    v.push(hash | get_zoc(delta_depth).i02h(x));
  }
  v.into_boxed_slice()
}

/// Returns the hash values of the cells of depth the given hash depth + the given `delta_depth`
/// located in the southwest internal edge of the given cell.
/// # Info
/// The returned vector is sorted.
pub fn internal_edge_southwest(mut hash: u64, delta_depth: u8) -> Box<[u64]> {
  let nside = 1_u32 << delta_depth; // 2^deltaDepth
  let mut v: Vec<u64> = Vec::with_capacity(nside as usize);
  hash <<= delta_depth << 1;
  for y in 0..nside {
    v.push(hash | get_zoc(delta_depth).oj2h(y));
  }
  v.into_boxed_slice()
}

/// Returns the hash values of the cells of depth the given hash depth + the given `delta_depth`
/// located in the northeast internal edge of the given cell.
/// # Info
/// The returned vector is sorted.
pub fn internal_edge_northeast(mut hash: u64, delta_depth: u8) -> Box<[u64]> {
  let nside = 1_u32 << delta_depth; // 2^deltaDepth
  let mut v: Vec<u64> = Vec::with_capacity(nside as usize);
  hash <<= delta_depth << 1;
  let x_bits = get_zoc(delta_depth).i02h(nside - 1);
  for y in 0..nside {
    v.push(hash | get_zoc(delta_depth).oj2h(y) | x_bits);
  }
  v.into_boxed_slice()
}

/// Returns the hash values of the cells of depth the given hash depth + the given `delta_depth`
/// located in the northwest internal edge of the given cell.
/// # Info
/// The returned vector is sorted.
pub fn internal_edge_northwest(mut hash: u64, delta_depth: u8) -> Box<[u64]> {
  let nside = 1_u32 << delta_depth; // 2^deltaDepth
  let mut v: Vec<u64> = Vec::with_capacity(nside as usize);
  hash <<= delta_depth << 1;
  let y_bits = get_zoc(delta_depth).oj2h(nside - 1);
  for x in 0..nside {
    v.push(hash | get_zoc(delta_depth).i02h(x) | y_bits);
  }
  v.into_boxed_slice()
}

/// Same as [internal_edge_part](fn.internal_edge_part.html) except that the result is appended
/// to the given vec.
pub fn append_internal_edge_part(hash: u64, delta_depth: u8, direction: &Ordinal, result: &mut Vec<u64>) {
  match *direction {
    Ordinal::SE => append_internal_edge_southeast(hash, delta_depth, result),
    Ordinal::SW => append_internal_edge_southwest(hash, delta_depth, result),
    Ordinal::NE => append_internal_edge_northeast(hash, delta_depth, result),
    Ordinal::NW => append_internal_edge_northwest(hash, delta_depth, result),
  }
}

/// Same as [internal_edge_southeast](fn.internal_edge_southeast.html) except that
/// the result is appended to the given vec.
pub fn append_internal_edge_southeast(mut hash: u64, delta_depth: u8, result: &mut Vec<u64>) {
  hash <<= delta_depth << 1;
  let nside = 1_u32 << delta_depth; // 2^deltaDepth
  for x in 0..nside {
    result.push(hash | get_zoc(delta_depth).i02h(x));
  }
}

/// Same as [internal_edge_southwest](fn.internal_edge_southwest.html) except that
/// the result is appended to the given vec.
pub fn append_internal_edge_southwest(mut hash: u64, delta_depth: u8, result: &mut Vec<u64>) {
  hash <<= delta_depth << 1;
  let nside = 1_u32 << delta_depth; // 2^deltaDepth
  for y in 0..nside {
    result.push(hash | get_zoc(delta_depth).oj2h(y));
  }
}

/// Same as [internal_edge_northeast](fn.internal_edge_northeast.html) except that
/// the result is appended to the given vec.
pub fn append_internal_edge_northeast(mut hash: u64, delta_depth: u8, result: &mut Vec<u64>) {
  hash <<= delta_depth << 1;
  let nside = 1_u32 << delta_depth; // 2^deltaDepth
  let x_bits = get_zoc(delta_depth).i02h(nside - 1);
  for y in 0..nside {
    result.push(hash | get_zoc(delta_depth).oj2h(y) | x_bits);
  }
}

/// Same as [internal_edge_northwest](fn.internal_edge_northwest.html) except that
/// the result is appended to the given vec.
pub fn append_internal_edge_northwest(mut hash: u64, delta_depth: u8, result: &mut Vec<u64>) {
  hash <<= delta_depth << 1;
  let nside = 1_u32 << delta_depth; // 2^deltaDepth
  let y_bits = get_zoc(delta_depth).oj2h(nside - 1);
  for x in 0..nside {
    result.push(hash | get_zoc(delta_depth).i02h(x) | y_bits);
  }
}


/// # Panics
/// If the given Main Wind is the Center (i.e. is neither Ordinal nor Cardinal).
fn add_sorted_internal_edge_element(hash: u64, delta_depth: u8, direction: MainWind, ext_direction: &MainWind, result: &mut ExternalEdge) {
  if direction.is_cardinal() {
    let cardinal = direction.to_cardinal();
    result.set_corner(&ext_direction.to_cardinal(), 
                      internal_corner(hash, delta_depth, &cardinal));
  } else if direction.is_ordinal() {
    let ordinal = direction.to_ordinal();
    result.set_edge(&ext_direction.to_ordinal(), 
                    internal_edge_part(hash, delta_depth, &ordinal));
  } else {
    panic!("Main wind {:?} is neither ordinal not cardinal", &direction);
  }
}

/// # Panics
/// If the given Main Wind is the Center (i.e. is neither Ordinal nor Cardinal).
fn append_sorted_internal_edge_element(hash: u64, delta_depth: u8, direction: MainWind, result: &mut Vec<u64>) {
  if direction.is_cardinal() {
    result.push(internal_corner(hash, delta_depth, &direction.to_cardinal()));
  } else if direction.is_ordinal() {
    append_internal_edge_part(hash, delta_depth, &direction.to_ordinal(), result);
  } else {
    panic!("Main wind {:?} is neither ordinal not cardinal", &direction);
  }
}





fn is_in_list(depth: u8, hash: u64, depth_hashs: u8, sorted_hashs: &[u64]) -> bool {
  let twice_delta_depth = (depth_hashs - depth) << 1;
  let hash_at_depth_max = hash << twice_delta_depth;
  match sorted_hashs.binary_search(&hash_at_depth_max) {
    Ok(_) => true,
    Err(i) => {
           (i < sorted_hashs.len() && (sorted_hashs[i] >> twice_delta_depth) == hash)
        || (i > 0_usize && (sorted_hashs[i - 1] >> twice_delta_depth) == hash)
    },
  }
}

fn n_vertices_in_poly(depth: u8, hash: u64, poly: &Polygon) -> (u8, [Coo3D; 4]) {
  let [(l_south, b_south), (l_east, b_east), (l_north, b_north), (l_west, b_west)] = vertices(depth, hash);
  let vertices = [
    Coo3D::from_sph_coo(l_south, b_south),
    Coo3D::from_sph_coo(l_east, b_east),
    Coo3D::from_sph_coo(l_north, b_north),
    Coo3D::from_sph_coo(l_west, b_west)
  ];
  let n_vertices_in_poly = 
      (poly.contains(&vertices[0]) as u8)
    + (poly.contains(&vertices[1]) as u8)
    + (poly.contains(&vertices[2]) as u8)
    + (poly.contains(&vertices[3]) as u8);
  (n_vertices_in_poly, vertices)
}

fn has_intersection(poly: &Polygon, vertices: [Coo3D; 4]) -> bool {
       poly.intersect_great_circle_arc(&vertices[2], &vertices[1]) // N vs E
    || poly.intersect_great_circle_arc(&vertices[0], &vertices[1]) // S vs E
    || poly.intersect_great_circle_arc(&vertices[3], &vertices[2]) // W vs N
    || poly.intersect_great_circle_arc(&vertices[3], &vertices[0]) // W vs S
}


struct MinMax {
  min: f64,
  max: f64,
}

struct HashParts {
  d0h: u8, // base cell number (depth 0 hash value)
  i: u32, // in the base cell, z-order curve coordinate along the x-axis
  j: u32, // in the base cell, z-order curve coordinate along the x-axis
}

struct HashBits {
  d0h: u64, // base cell number (depth 0 hash value) bits
  i: u64,   // in the base cell, z-order curve coordinate along the x-axis bits
  j: u64,   // in the base cell, z-order curve coordinate along the y-axis bits
}

#[inline]
const fn discretize(xy: (f64, f64)) -> (u64, u64) {
  (xy.0 as u64, xy.1 as u64)
}

#[inline]
const fn rotate45_scale2(i_in_d0h: u32, j_in_d0h: u32) -> (i32, i32) {
  (i_in_d0h as i32 - j_in_d0h as i32, (i_in_d0h + j_in_d0h) as i32)
}

/// offset_x in [0, 7], odd for polar caps, even for equatorial region
/// offset_y in [-1, 1], -1 or 1 for polar caps, 0 for equatorial region
#[inline]
const fn compute_base_cell_center_offsets_in_8x3_grid(d0h: u8) -> (u8, i8) { 
  let offset_y = 1 - div4_quotient(d0h) as i8;
  let mut offset_x = (div4_remainder(d0h)) << 1u8;
  // +1 if the base cell is not equatorial
  offset_x |= (offset_y & 1_i8) as  u8;
  (offset_x, offset_y)
}

#[inline]
fn apply_base_cell_center_offsets(xy: &mut (f64, f64), offset_x: u8, offset_y: i8) {
  let (ref mut x, ref mut y) = *xy;
  *x += offset_x as f64;
  *y += offset_y as f64;
  // If x < 0, then x += 8; (happens only in case of base cell 4)
  *x += ((f64::to_bits(*x) & super::F64_SIGN_BIT_MASK) >> 60) as f64;
}

#[inline]
const fn bits_2_hash(d0h_bits: u64, i_in_d0h_bits: u64, j_in_d0h_bits: u64) -> u64 {
  d0h_bits | i_in_d0h_bits | j_in_d0h_bits
}

/// x / 2
#[inline]
fn div2_quotient<T: Shr<u8, Output=T>>(x: T) -> T {
  // x >> 1
  x.shr(1)
}

/// x modulo 2
#[inline]
const fn div2_remainder(x: u64) -> u64 {
  x & 1
}

/// x / 4
#[inline]
const fn div4_quotient(x: u8) -> u8 {
  x >> 2
}

/// x modulo 4
#[inline]
const fn div4_remainder(x: u8) -> u8 {
  x & 3
}

/// mask ...010101
/// ```rust
/// use cdshealpix::nested::{x_mask};
/// assert_eq!(x_mask(3), 0b00010101);
/// ```
#[inline]
pub const fn x_mask(depth: u8) -> u64 {
  0x5555555555555555_u64 >> (64 - (depth << 1))
}

/// mask ...101010
/// ```rust
/// use cdshealpix::nested::{y_mask, x_mask};
/// assert_eq!(y_mask(3), 0b00101010);
/// assert_eq!(y_mask(3), x_mask(3) << 1);
/// ```
#[inline]
pub const fn y_mask(depth: u8) -> u64{
  0xAAAAAAAAAAAAAAAA_u64 >> (64 - (depth << 1))
}

/// mask ...111111
/// ```rust
/// use cdshealpix::nested::{xy_mask};
/// assert_eq!(xy_mask(3), 0b00111111);
/// let depth = 3_u8;
/// assert_eq!(0xFFFFFFFFFFFFFFFF_u64 >> (64 - (depth << 1)), (1_u64 << (depth << 1)) - 1_u64);
/// ```
#[inline]
pub const fn xy_mask(depth: u8) -> u64 {
  0xFFFFFFFFFFFFFFFF_u64 >> (64 - (depth << 1))
}

#[inline]
fn to_shs_min_max_array(cone_radius: f64, distances: Box<[f64]>) -> Box<[MinMax]> {
  let v: Vec<MinMax> = distances.iter()
    .map(|d| to_shs_min_max(cone_radius, *d))
    .collect();
  v.into_boxed_slice()
}
#[inline]
fn to_shs_min_max(cone_radius: f64, distance: f64) -> MinMax {
  MinMax {
    min: if cone_radius < distance { 
      -1.0 // no cell can be fully inside the cone (a squared half segment is never <= -1)
    } else {
      to_squared_half_segment(cone_radius - distance)
    },
    max: to_squared_half_segment((cone_radius + distance).min(PI)), // sin^2(d/2) is not monotonic beyond pi
  }
}

/// - `h` stands for `hash`
/// - `shs` stands for `squared half segment`
#[inline]
fn h_to_h_and_shs(cone_lon: f64, cone_lat: f64, cos_cone_lat:f64, layer: &'static Layer)
                  -> impl FnMut(&u64) -> (u64, f64) {
  move |&hash| {
    let (lon, lat) = layer.center(hash);
    (hash, squared_half_segment(lon - cone_lon, lat - cone_lat, lat.cos(), cos_cone_lat))
  }
}

/// - `shs` stands for `squared half segment`
#[inline]
fn shs_lower_than(shs_max: f64) -> impl FnMut(&(u64, f64)) -> bool {
  move |&(_, shs)| shs <= shs_max
}

/// The returned closure computes the 
#[inline]
fn shs_computer(cone_lon: f64, cone_lat: f64, cos_cone_lat: f64) -> impl Fn((f64, f64)) -> f64 {
  move |(lon, lat)| {
    squared_half_segment(lon - cone_lon, lat - cone_lat, lat.cos(), cos_cone_lat)
  }
}

/* Commented because not used so far
/// The returned closure computes the squared half segment between 
/// the center of a given hash (the closure parameter) ,at the depth of the given layer,
/// and the given point on the unit sphere.
/// We ask in argument the cosine of the latitude since it is a costly operation that may have already
/// been performed.
#[inline]
fn shs_computer_4layer(lon: f64, lat: f64, cos_lat: f64, layer: &'static Layer) -> impl Fn(u64) -> (f64) {
  debug_assert!(cos_lat == lat.cos());
  let func = shs_computer(lon, lat, cos_lat);
  move |hash| {
    func(layer.center(hash))
  }
}*/

#[cfg(test)]
mod tests {
  use super::*;

  fn build_lupt(depth: u8) -> [[u64; 6]; 6] {
    let depth_x2: u8= depth << 1u8;
    let mut y_mask = 0u64;
    let mut xy_mask = 0u64;
    if depth > 0 {
      xy_mask = (1u64 << depth_x2) - 1u64;
      y_mask = 0x5555555555555555u64 >> (64 - depth_x2); // ...0101
      y_mask <<= 1;                                      // ...1010
    }
    let null = 0xFFFFFFFFFFFFFFFFu64;
    let bc00 =  0u64 << depth_x2;
    let bc01 =  1u64 << depth_x2;
    let bc02 =  2u64 << depth_x2;
    let bc03 =  3u64 << depth_x2;
    let bc04 =  4u64 << depth_x2;
    let bc05 =  5u64 << depth_x2;
    let bc06 =  6u64 << depth_x2;
    let bc07 =  7u64 << depth_x2;
    let bc08 =  8u64 << depth_x2;
    let bc09 =  9u64 << depth_x2;
    let bc10 = 10u64 << depth_x2;
    let bc11 = 11u64 << depth_x2;
    let mg0y = (0u64 << depth_x2) | y_mask;
    let mg1y = (1u64 << depth_x2) | y_mask;
    let mg2y = (2u64 << depth_x2) | y_mask;
    let mg3y = (3u64 << depth_x2) | y_mask;
    let m0xy = (0u64 << depth_x2) | xy_mask;
    let m1xy = (1u64 << depth_x2) | xy_mask;
    let m2xy = (2u64 << depth_x2) | xy_mask;
    let m3xy = (3u64 << depth_x2) | xy_mask;
    [
      [null, null, null, bc08, bc04, null], //   ----> y-axis
      [null, null, bc09, bc05, bc00, mg0y], //  |
      [null, bc10, bc06, bc01, mg1y, m0xy], //  |
      [bc11, bc07, bc02, mg2y, m1xy, null], //  v
      [bc04, bc03, mg3y, m2xy, null, null], // x-axis
      [null, mg0y, m3xy, null, null, null]
    ]
  }
  
  /*#[test]
  fn testok_d0h_bits() {
    let depth = 0_u8;
    let layer = get_or_create(depth);
    let lupm = build_lupt(depth);
    let ijs = [
      (0_u8, 3_u8), (0_u8, 4_u8),
      (1_u8, 2_u8), (1_u8, 3_u8), (1_u8, 4_u8), (1_u8, 5_u8),
      (2_u8, 1_u8), (2_u8, 2_u8), (2_u8, 3_u8), (2_u8, 4_u8), (2_u8, 5_u8),
      (3_u8, 0_u8), (3_u8, 1_u8), (3_u8, 2_u8), (3_u8, 3_u8), (3_u8, 4_u8),
      (4_u8, 0_u8), (4_u8, 1_u8), (4_u8, 2_u8), (4_u8, 3_u8),
      (5_u8, 1_u8), (5_u8, 2_u8),
    ];
    for (i, j) in ijs.iter() {
      assert_eq!(lupm[*i as usize][*j as usize], layer.depth0_bits(*i, *j/*, &mut (0_u64, 0_u64)*/, (*i as f64, *j as f64 + 1e-14)/*, 0.0, 0.0*/));
    }
  }*/
  
  #[test]
  fn testok_hash_d0() {
    let layer = get_or_create(0);
    assert_eq!(4_u64, layer.hash(0.0_f64.to_radians(), 0.0_f64.to_radians()));
    assert_eq!(5_u64, layer.hash(90.0_f64.to_radians(), 0.0_f64.to_radians()));
    assert_eq!(6_u64, layer.hash(180.0_f64.to_radians(), 0.0_f64.to_radians()));
    assert_eq!(7_u64, layer.hash(270.0_f64.to_radians(), 0.0_f64.to_radians()));
    
    assert_eq!(0_u64, layer.hash(45.0_f64.to_radians(), 41.0_f64.to_radians()));
    assert_eq!(1_u64, layer.hash(135.0_f64.to_radians(), 41.0_f64.to_radians()));
    assert_eq!(2_u64, layer.hash(225.0_f64.to_radians(), 41.0_f64.to_radians()));
    assert_eq!(3_u64, layer.hash(315.0_f64.to_radians(), 41.0_f64.to_radians()));

    assert_eq!(8_u64, layer.hash(45.0_f64.to_radians(), -41.0_f64.to_radians()));
    assert_eq!(9_u64, layer.hash(135.0_f64.to_radians(), -41.0_f64.to_radians()));
    assert_eq!(10_u64, layer.hash(225.0_f64.to_radians(), -41.0_f64.to_radians()));
    assert_eq!(11_u64, layer.hash(315.0_f64.to_radians(), -41.0_f64.to_radians()));
  }
  
  #[test]
  fn testok_hash() {
    let layer = get_or_create(3);
    let hash = layer.hash(333.5982493968911_f64.to_radians(), -25.919634217871433_f64.to_radians());
    assert_eq!(735_u64, hash);
  }

  #[test]
  fn testok_hash_2() {
    let layer = get_or_create(0);
    // ra = 179.99999999999998633839 deg
    // de = -48.13786699999999889561 deg
    let hash = layer.hash(3.141592653589793, -0.8401642740371252);
    // The difference comes from the fact that:
    //   ra * 4/pi = 4.0 instead of 3.99999999999999969640 due to numerical approximations.
    // In v1, it is a particular case (k=3) in depth0_bits, but we do not handle all of them
    if hash == 9_u64 {
      assert_eq!(9_u64, hash);   // with hash_v1
    } else {
      assert_eq!(10_u64, hash);  // with hash_v2
    }
  }

  #[test]
  fn testok_hash_3() {
    let layer = get_or_create(0);
    // ra = 89.99999999999999889877 deg
    // de = -42.68491599999999973256 deg
    let hash = layer.hash(1.5707963267948966, -0.7449923251372079);
    // The difference comes from the fact that:
    //   ra * 4/pi = 2.0 instead of 1.99999999999999997552 due to numerical approximations.
    // In v1, it is a particular case (k=3) in depth0_bits, but we do not handle all of them
    if hash == 8_u64 {
      assert_eq!(8_u64, hash);
    } else {
      assert_eq!(9_u64, hash);
    }
  }

  #[test]
  fn testok_hash_4() {
    let layer = get_or_create(3);
    let ra = 180.0_f64;
    let dec = -45.85_f64;
    let hash = layer.hash(ra.to_radians(), dec.to_radians());
    assert_eq!(682_u64, hash);
  }
  
  #[test]
  fn testok_neighbour_d0() {
    let layer = get_or_create(0);
    // North polar cap
    // - 0
    assert_eq!(0_u64, layer.neighbour(0,  C).unwrap());
    assert_eq!(2_u64, layer.neighbour(0,  N).unwrap());
    assert_eq!(1_u64, layer.neighbour(0, NE).unwrap());
    assert_eq!(3_u64, layer.neighbour(0, NW).unwrap());
    assert_eq!(8_u64, layer.neighbour(0,  S).unwrap());
    assert_eq!(5_u64, layer.neighbour(0, SE).unwrap());
    assert_eq!(4_u64, layer.neighbour(0, SW).unwrap());
    assert_eq!( None, layer.neighbour(0,  E));
    assert_eq!( None, layer.neighbour(0,  W));
    // - 1
    assert_eq!(1_u64, layer.neighbour(1,  C).unwrap());
    assert_eq!(3_u64, layer.neighbour(1,  N).unwrap());
    assert_eq!(2_u64, layer.neighbour(1, NE).unwrap());
    assert_eq!(0_u64, layer.neighbour(1, NW).unwrap());
    assert_eq!(9_u64, layer.neighbour(1,  S).unwrap());
    assert_eq!(6_u64, layer.neighbour(1, SE).unwrap());
    assert_eq!(5_u64, layer.neighbour(1, SW).unwrap());
    assert_eq!( None, layer.neighbour(1,  E));
    assert_eq!( None, layer.neighbour(1,  W));
    // - 2
    assert_eq!(2_u64, layer.neighbour(2,  C).unwrap());
    assert_eq!(0_u64, layer.neighbour(2,  N).unwrap());
    assert_eq!(3_u64, layer.neighbour(2, NE).unwrap());
    assert_eq!(1_u64, layer.neighbour(2, NW).unwrap());
    assert_eq!(10_u64, layer.neighbour(2,  S).unwrap());
    assert_eq!(7_u64, layer.neighbour(2, SE).unwrap());
    assert_eq!(6_u64, layer.neighbour(2, SW).unwrap());
    assert_eq!( None, layer.neighbour(2,  E));
    assert_eq!( None, layer.neighbour(2,  W));
    // - 3
    assert_eq!( 3_u64, layer.neighbour(3,  C).unwrap());
    assert_eq!( 1_u64, layer.neighbour(3,  N).unwrap());
    assert_eq!( 0_u64, layer.neighbour(3, NE).unwrap());
    assert_eq!( 2_u64, layer.neighbour(3, NW).unwrap());
    assert_eq!(11_u64, layer.neighbour(3,  S).unwrap());
    assert_eq!( 4_u64, layer.neighbour(3, SE).unwrap());
    assert_eq!( 7_u64, layer.neighbour(3, SW).unwrap());
    assert_eq!(  None, layer.neighbour(3,  E));
    assert_eq!(  None, layer.neighbour(3,  W));
    // Equatorial region
    // - 4
    assert_eq!( 4_u64, layer.neighbour(4,  C).unwrap());
    assert_eq!(  None, layer.neighbour(4,  N));
    assert_eq!( 0_u64, layer.neighbour(4, NE).unwrap());
    assert_eq!( 3_u64, layer.neighbour(4, NW).unwrap());
    assert_eq!(  None, layer.neighbour(4,  S));
    assert_eq!( 8_u64, layer.neighbour(4, SE).unwrap());
    assert_eq!(11_u64, layer.neighbour(4, SW).unwrap());
    assert_eq!( 5_u64, layer.neighbour(4,  E).unwrap());
    assert_eq!( 7_u64, layer.neighbour(4,  W).unwrap());
    // - 5
    assert_eq!(5_u64, layer.neighbour(5,  C).unwrap());
    assert_eq!(  None, layer.neighbour(5,  N));
    assert_eq!(1_u64, layer.neighbour(5, NE).unwrap());
    assert_eq!(0_u64, layer.neighbour(5, NW).unwrap());
    assert_eq!(  None, layer.neighbour(5,  S));
    assert_eq!(9_u64, layer.neighbour(5, SE).unwrap());
    assert_eq!(8_u64, layer.neighbour(5, SW).unwrap());
    assert_eq!(6_u64, layer.neighbour(5,  E).unwrap());
    assert_eq!(4_u64, layer.neighbour(5,  W).unwrap());
    // - 6
    assert_eq!( 6_u64, layer.neighbour(6,  C).unwrap());
    assert_eq!(  None, layer.neighbour(6,  N));
    assert_eq!( 2_u64, layer.neighbour(6, NE).unwrap());
    assert_eq!( 1_u64, layer.neighbour(6, NW).unwrap());
    assert_eq!(  None, layer.neighbour(6,  S));
    assert_eq!(10_u64, layer.neighbour(6, SE).unwrap());
    assert_eq!( 9_u64, layer.neighbour(6, SW).unwrap());
    assert_eq!( 7_u64, layer.neighbour(6,  E).unwrap());
    assert_eq!( 5_u64, layer.neighbour(6,  W).unwrap());
    // - 7
    assert_eq!( 7_u64, layer.neighbour(7,  C).unwrap());
    assert_eq!(  None, layer.neighbour(7,  N));
    assert_eq!( 3_u64, layer.neighbour(7, NE).unwrap());
    assert_eq!( 2_u64, layer.neighbour(7, NW).unwrap());
    assert_eq!(  None, layer.neighbour(7,  S));
    assert_eq!(11_u64, layer.neighbour(7, SE).unwrap());
    assert_eq!(10_u64, layer.neighbour(7, SW).unwrap());
    assert_eq!( 4_u64, layer.neighbour(7,  E).unwrap());
    assert_eq!( 6_u64, layer.neighbour(7,  W).unwrap());
    //  South polar cap
    // - 8
    assert_eq!( 8_u64, layer.neighbour(8,  C).unwrap());
    assert_eq!( 0_u64, layer.neighbour(8,  N).unwrap());
    assert_eq!( 5_u64, layer.neighbour(8, NE).unwrap());
    assert_eq!( 4_u64, layer.neighbour(8, NW).unwrap());
    assert_eq!(10_u64, layer.neighbour(8,  S).unwrap());
    assert_eq!( 9_u64, layer.neighbour(8, SE).unwrap());
    assert_eq!(11_u64, layer.neighbour(8, SW).unwrap());
    assert_eq!(  None, layer.neighbour(8,  E));
    assert_eq!(  None, layer.neighbour(8,  W));
    // - 9
    assert_eq!( 9_u64, layer.neighbour(9,  C).unwrap());
    assert_eq!( 1_u64, layer.neighbour(9,  N).unwrap());
    assert_eq!( 6_u64, layer.neighbour(9, NE).unwrap());
    assert_eq!( 5_u64, layer.neighbour(9, NW).unwrap());
    assert_eq!(11_u64, layer.neighbour(9,  S).unwrap());
    assert_eq!(10_u64, layer.neighbour(9, SE).unwrap());
    assert_eq!( 8_u64, layer.neighbour(9, SW).unwrap());
    assert_eq!(  None, layer.neighbour(9,  E));
    assert_eq!(  None, layer.neighbour(9,  W));
    // - 10
    assert_eq!(10_u64, layer.neighbour(10,  C).unwrap());
    assert_eq!( 2_u64, layer.neighbour(10,  N).unwrap());
    assert_eq!( 7_u64, layer.neighbour(10, NE).unwrap());
    assert_eq!( 6_u64, layer.neighbour(10, NW).unwrap());
    assert_eq!( 8_u64, layer.neighbour(10,  S).unwrap());
    assert_eq!(11_u64, layer.neighbour(10, SE).unwrap());
    assert_eq!( 9_u64, layer.neighbour(10, SW).unwrap());
    assert_eq!(  None, layer.neighbour(10,  E));
    assert_eq!(  None, layer.neighbour(10,  W));
    // - 11
    assert_eq!(11_u64, layer.neighbour(11,  C).unwrap());
    assert_eq!( 3_u64, layer.neighbour(11,  N).unwrap());
    assert_eq!( 4_u64, layer.neighbour(11, NE).unwrap());
    assert_eq!( 7_u64, layer.neighbour(11, NW).unwrap());
    assert_eq!( 9_u64, layer.neighbour(11,  S).unwrap());
    assert_eq!( 8_u64, layer.neighbour(11, SE).unwrap());
    assert_eq!(10_u64, layer.neighbour(11, SW).unwrap());
    assert_eq!(  None, layer.neighbour(11,  E));
    assert_eq!(  None, layer.neighbour(11,  W));
  }

  #[test]
  fn testok_neighbours_d0() {
    let layer = get_or_create(0);
    // North polar cap
    check_equals(layer.neighbours(0_u64, false), [1, 2, 3, 4, 5, 8]);
    check_equals(layer.neighbours(1_u64, false), [0, 2, 3, 5, 6, 9]);
    check_equals(layer.neighbours(2_u64, false), [0, 1, 3, 6, 7, 10]);
    check_equals(layer.neighbours(3_u64, false), [0, 1, 2, 4, 7, 11]);
    // Equatorial region
    check_equals(layer.neighbours(4_u64, false), [0, 3, 5, 7, 8, 11]);
    check_equals(layer.neighbours(5_u64, false), [0, 1, 4, 6, 8, 9]);
    check_equals(layer.neighbours(6_u64, false), [1, 2, 5, 7, 9, 10]);
    check_equals(layer.neighbours(7_u64, false), [2, 3, 4, 6, 10, 11]);
    //  South polar cap
    check_equals(layer.neighbours(8_u64, false), [0, 4, 5, 9, 10, 11]);
    check_equals(layer.neighbours(9_u64, false), [1, 5, 6, 8, 10, 11]);
    check_equals(layer.neighbours(10_u64, false), [2, 6, 7, 8, 9, 11]);
    check_equals(layer.neighbours(11_u64, false), [3, 4, 7, 8, 9, 10]);
  }
  
  #[test]
  fn test_ok_neighbours_t1() {
    let depth = 2_u8;
    let hash = 130;
    
    let layer = get_or_create(depth);
    check_equals_all(layer.neighbours(hash, true), [128, 129, 130, 131, 136, 137, 176, 177, 180]);
  }
  
  fn check_equals(map: MainWindMap<u64>, array: [u64; 6]) {
    array.iter().zip(map.sorted_values_vec().iter())
      .for_each(|(h1, h2)| assert_eq!(h1, h2) );
  }

  fn check_equals_all(map: MainWindMap<u64>, array: [u64; 9]) {
    array.iter().zip(map.sorted_values_vec().iter())
      .for_each(|(h1, h2)| assert_eq!(h1, h2) );
  }
  
  /*#[test]
  fn testok_cone_flat() {
    let res = cone_overlap_flat(3, 13.158329_f64.to_radians(), -72.80028_f64.to_radians(), 5.64323_f64.to_radians());
    // println!("@@@@@@@@@@@@@@ {:?}", &res);
  }*/
  
  
  #[test]
  fn testok_external_edge_struct() {
    let depth = 1;
    let hash = 10;
    let delta_depth = 2;
    // draw moc 3/117,138,139,142,143,437,439,445,447,176, 178, 184, 186,85, 87, 93, 95,415,154
    // let e = external_edge_struct(depth, hash, delta_depth);
    // println!("{:?}", &e);
    let actual_res = external_edge_sorted(depth, hash, delta_depth);
    let expected_res: [u64; 19] = [85, 87, 93, 95, 117, 138, 139, 142, 143, 154, 176, 178, 184, 186, 415, 437, 439, 445, 447];
    // println!("{:?}", &actual_res);
    for (h1, h2) in actual_res.iter().zip(expected_res.iter()) {
      assert_eq!(h1, h2);
    }
    assert_eq!(expected_res.len(), actual_res.len());
  }

  #[test]
  fn testok_external_edge_struct_v2() {
    let depth = 1;
    let hash = 11;
    let delta_depth = 2;
    // draw moc 3/63, 95, 117, 119, 125, 127, 143, 154, 155, 158, 159, 165, 167, 173, 175, 239, 250, 251, 254, 255
    let actual_res = external_edge_sorted(depth, hash, delta_depth);
    let expected_res: [u64; 20] = [63, 95, 117, 119, 125, 127, 143, 154, 155, 158, 159, 165, 167, 173, 175, 239, 250, 251, 254, 255];
    // println!("{:?}", &actual_res);
    for (h1, h2) in actual_res.iter().zip(expected_res.iter()) {
      assert_eq!(h1, h2);
    }
    assert_eq!(expected_res.len(), actual_res.len());
  }
 
  #[test]
  fn testok_external_edge_struct_v3() {
    let depth = 0;
    let hash = 0;
    let delta_depth = 2;
    // draw moc 3/63, 95, 117, 119, 125, 127, 143, 154, 155, 158, 159, 165, 167, 173, 175, 239, 250, 251, 254, 255
    let actual_res = external_edge_sorted(depth, hash, delta_depth);
    //let expected_res: [u64; 20] = [63, 95, 117, 119, 125, 127, 143, 154, 155, 158, 159, 165, 167, 173, 175, 239, 250, 251, 254, 255];
    println!("{:?}", &actual_res);
    /*for (h1, h2) in actual_res.iter().zip(expected_res.iter()) {
      assert_eq!(h1, h2);
    }
    assert_eq!(expected_res.len(), actual_res.len());*/
  }
 
  #[test]
  fn testok_cone_approx_bmoc() {
    // let res = cone_overlap_approx(5, 0.01, 0.02, 0.05);
    // let res = cone_overlap_approx(6, 160.771389_f64.to_radians(), 64.3813_f64.to_radians(), 0.8962_f64.to_radians());
    let actual_res = cone_coverage_approx(3, 13.158329_f64.to_radians(), -72.80028_f64.to_radians(), 5.64323_f64.to_radians());
    let expected_res: [u64; 10] = [512, 514, 515, 520, 521, 522, 544, 705, 708, 709];
    for (h1, h2) in actual_res.flat_iter().zip(expected_res.iter()) {
      assert_eq!(h1, *h2);
    }
    /*for cell in actual_res.into_iter() {
      println!("@@@@@ cell a: {:?}", cell);
    }
    println!("@@@@@ FLAT VIEW");
    for cell in actual_res.flat_iter() {
      println!("@@@@@ cell a: {:?}", cell);
    }*/
  }

  #[test]
  fn testok_cone_approx_custom_bmoc_2() {
    // let res = cone_overlap_approx(5, 0.01, 0.02, 0.05);
    // let res = cone_overlap_approx(6, 160.771389_f64.to_radians(), 64.3813_f64.to_radians(), 0.8962_f64.to_radians());
    let actual_res = cone_coverage_approx_custom(3, 2,36.80105218_f64.to_radians(), 56.78028536_f64.to_radians(), 14.93_f64.to_radians());
    let expected_res: [u64; 22] = [26, 27, 30, 36, 37, 38, 39, 44, 45, 46, 47, 48, 49, 50, 51, 52, 54, 56, 57, 58, 59, 60];
    for (h1, h2) in actual_res.flat_iter().zip(expected_res.iter()) {
      assert_eq!(h1, *h2);
    }
    /*println!("@@@@@ HIERARCH VIEW");
    for cell in actual_res.into_iter() {
      println!("@@@@@ cell a: {:?}", cell);
    }*/
    /*println!("@@@@@ FLAT VIEW");
    for cell in actual_res.flat_iter() {
      println!("@@@@@ cell a: {:?}", cell);
    }*/
  }
  
  #[test]
  fn testok_cone_approx_custom_bmoc() {
    let actual_res = cone_coverage_approx_custom(3, 2,13.158329_f64.to_radians(), -72.80028_f64.to_radians(), 5.64323_f64.to_radians());
    let expected_res: [u64; 8] = [514, 515, 520, 521, 522, 705, 708, 709];
    for (h1, h2) in actual_res.flat_iter().zip(expected_res.iter()) {
      assert_eq!(h1, *h2);
    }
  }
  
  #[test]
  fn testok_cone_approx_custom_bmoc_dbg() {
    let actual_res = cone_coverage_approx_custom(2, 1,20_f64.to_radians(), 0.0_f64.to_radians(), 50.0_f64.to_radians());
    let expected_res: [u64; 50] = [0, 1, 2, 3, 4, 6, 8, 9, 10, 11, 12, 49, 52, 53, 64, 65, 66, 67, 68, 69, 70, 71, 72, 73, 74, 75, 76, 77, 78, 79, 82, 88, 89, 90, 91, 94, 131, 134, 135, 136, 137, 138, 139, 140, 141, 142, 143, 181, 183, 189];
    for (h1, h2) in actual_res.flat_iter().zip(expected_res.iter()) {
      assert_eq!(h1, *h2);
    }
  }
  
  
  #[test]
  fn testok_elliptical_cone() {
    let lon = 36.80105218_f64.to_radians();
    let lat = 56.78028536_f64.to_radians();
    let a = 14.93_f64.to_radians();
    let b = 4.93_f64.to_radians();
    let pa = 75.0_f64.to_radians();
    let actual_res = elliptical_cone_coverage(3, lon, lat, a, b, pa);
    let expected_res: [u64; 16] = [27, 30, 39, 43, 44, 45, 46, 47, 48, 49, 50, 51, 52, 54, 56, 57];
    to_aladin_moc(&actual_res);
    /*println!("@@@@@ FLAT VIEW");
    for cell in actual_res.flat_iter() {
      println!("@@@@@ cell a: {:?}", cell);
    }
    to_aladin_moc(&actual_res);
    println!("@@@@@ HIERARCH VIEW");
    for cell in actual_res.into_iter() {
      println!("@@@@@ cell a: {:?}", cell);
    }*/
    for (h1, h2) in actual_res.flat_iter().zip(expected_res.iter()) { 
      assert_eq!(h1, *h2);
    }
    assert_eq!(expected_res.len(), actual_res.flat_iter().count());
  }

  #[test]
  fn testok_elliptical_cone_2() {
    let lon = 0.0_f64.to_radians();
    let lat = 0.0_f64.to_radians();
    let a = 30.0_f64.to_radians();
    let b = 5.0_f64.to_radians();
    let pa = 30.0_f64.to_radians();
    let actual_res = elliptical_cone_coverage(4, lon, lat, a, b, pa);
    let expected_res: [u64; 112] = [130, 136, 138, 1035, 1038, 1039, 1050, 1051, 1056, 1057, 1058,
      1059, 1060, 1061, 1062, 1063, 1064, 1065, 1066, 1067, 1068, 1069, 1070, 1071, 1072, 1073, 
      1074, 1075, 1076, 1077, 1078, 1079, 1080, 1081, 1082, 1083, 1084, 1085, 1086, 1087, 1120,
      1122, 1123, 1126, 1128, 1129, 1130, 1131, 1132, 1133, 1134, 1135, 1144, 1146, 1147, 1150,
      1153, 1156, 1157, 1159, 1168, 1169, 1170, 1171, 1172, 1173, 1174, 1175, 1177 ,1180, 1181,
      1183, 1216, 1217, 1218, 1219, 1220, 1221, 1222, 1223, 1224, 1225 ,1226, 1227 ,1228 ,1229,
      1230, 1231, 1232, 1233, 1234, 1235, 1236, 1237, 1238, 1239, 1240, 1241, 1242, 1243, 1244,
      1245, 1246, 1247, 1252, 1253, 1264, 1265, 1268, 2933, 2935, 2941];
    /*76 [130, 136, 1056, 1057, 1058, 1059, 1060, 1061, 1062, 1063, 1064,
      1065, 1067, 1068, 1069, 1070, 1071, 1072, 1074, 1075, 1078, 1079, 1080, 1081, 1082, 1083, 
      1084, 1085, 1086, 1087, 1128, 1129, 1130, 1131, 1132, 1134, 1135, 1146, 1157, 1168, 1169,
      1171, 1172, 1173, 1174, 1175, 1216, 1217, 1218, 1219, 1220, 1221, 1222, 1223, 1224, 1225, 
      1228, 1229, 1231, 1232, 1233, 1234, 1235, 1236, 1238, 1239, 1240, 1241, 1242, 1243, 1244,
      1245, 1246, 1247, 2935, 2941];*/
    // to_aladin_moc(&actual_res);
    for (h1, h2) in actual_res.flat_iter().zip(expected_res.iter()) {
      assert_eq!(h1, *h2);
    }
    assert_eq!(expected_res.len(), actual_res.flat_iter().count());
  }
  
  #[test]
  fn testok_elliptical_cone_3() {
    let lon = 0.0_f64.to_radians();
    let lat = 0.0_f64.to_radians();
    let a = 50.0_f64.to_radians();
    let b = 5.0_f64.to_radians();
    let pa = 30.0_f64.to_radians();
    let actual_res = elliptical_cone_coverage(3, lon, lat, a, b, pa);
    let expected_res: [u64; 70] = [10, 11, 32, 33, 34, 35, 36, 37, 38, 39, 40, 41, 256, 257, 258,
      259, 260, 262, 263, 264, 265, 266, 267, 268, 269, 270, 271, 274, 280, 281, 282, 283, 284, 
      286, 287, 288, 289, 291, 292, 293, 294, 295, 301, 304, 305, 306, 307, 308, 309, 310, 311, 312,
      313, 315, 316, 317, 318, 319, 726, 727, 728, 729, 730, 731, 732, 733, 734, 735, 756, 757];
    /*40 [32, 33, 34, 35, 36, 38, 40, 258, 264, 265, 266, 267, 268, 269,
      270, 271, 280, 282, 283, 286, 289, 292, 293, 295, 304, 305, 306, 307, 308, 309, 310, 311, 317,
      727, 729, 731, 732, 733, 734, 735];*/
    // to_aladin_moc(&actual_res);
    for (h1, h2) in actual_res.flat_iter().zip(expected_res.iter()) {
      assert_eq!(h1, *h2);
    }
    assert_eq!(expected_res.len(), actual_res.flat_iter().count());
  }

  #[test]
  fn testok_elliptical_cone_4() {
    let lon = 0.0_f64.to_radians();
    let lat = 0.0_f64.to_radians();
    let a = 50.0_f64.to_radians();
    let b = 5.0_f64.to_radians();
    let pa = 20.0_f64.to_radians();
    let actual_res = elliptical_cone_coverage(3, lon, lat, a, b, pa);
    let expected_res: [u64; 62] = [32, 34, 35, 38, 40, 41, 42, 43, 44, 256, 257, 258, 259, 260,
      262, 263, 264, 265, 266, 267, 268, 269, 270, 271, 274, 280, 281, 282, 283, 286, 287, 288, 289,
      292, 293, 294, 295, 301, 304, 305, 306, 307, 308, 309, 310, 311, 312, 313, 315, 316 ,317, 318,
      319, 723, 724, 725, 726, 727, 729, 732, 733, 735];
    /*40 [34, 35, 38, 40, 41, 44, 258, 259, 262, 264, 265, 266, 267, 268, 
      269, 270, 271, 280, 282, 283, 292, 293, 295, 304, 305, 306, 307, 308, 309, 310, 311, 313, 
      316, 317, 723, 726, 727, 729, 732, 733];*/
    // to_aladin_moc(&actual_res);
    for (h1, h2) in actual_res.flat_iter().zip(expected_res.iter()) {
      assert_eq!(h1, *h2);
    }
    assert_eq!(expected_res.len(), actual_res.flat_iter().count());
  }

  #[test]
  fn testok_elliptical_cone_5() {
    let lon = 0.0_f64.to_radians();
    let lat = 0.0_f64.to_radians();
    let a = 42.0_f64.to_radians();
    let b = 10.0_f64.to_radians();
    let pa = 20.0_f64.to_radians();
    let actual_res = elliptical_cone_coverage(2, lon, lat, a, b, pa);
    let expected_res: [u64; 26] = [8, 9, 10, 11, 52, 53, 64, 65, 66, 67, 68, 70, 71, 72, 73, 75, 
      76, 77, 78, 79, 138, 139, 180, 181, 182, 183];
    /*20 [8, 9, 10, 64, 65, 66, 67, 68, 70, 71, 72, 73, 75, 76, 77, 78, 79,
      181 ,182 ,183];*/
    to_aladin_moc(&actual_res);
    for (h1, h2) in actual_res.flat_iter().zip(expected_res.iter()) {
      assert_eq!(h1, *h2);
    }
    assert_eq!(expected_res.len(), actual_res.flat_iter().count());
  }

  #[test]
  fn testok_elliptical_cone_6() {
    let lon = 360.0_f64.to_radians();
    let lat = 0.0_f64.to_radians();
    let a = 50.0_f64.to_radians();
    let b = 5.0_f64.to_radians();
    let pa = 0.0_f64.to_radians();
    let actual_res = elliptical_cone_coverage(2, lon, lat, a, b, pa);
    let expected_res: [u64; 18] = [10, 11, 53, 55, 64, 65, 66, 67, 70, 73, 76, 77, 78, 79, 136, 
      138, 180, 181];
    // to_aladin_moc(&actual_res);
    for (h1, h2) in actual_res.flat_iter().zip(expected_res.iter()) {
      assert_eq!(h1, *h2);
    }
    assert_eq!(expected_res.len(), actual_res.flat_iter().count());
  }

  #[test]
  fn testok_elliptical_cone_7() {
    let lon = 0.0_f64.to_radians();
    let lat = 0.0_f64.to_radians();
    let a = 50.0_f64.to_radians();
    let b = 5.0_f64.to_radians();
    let pa = 90.0_f64.to_radians();
    let actual_res = elliptical_cone_coverage(3, lon, lat, a, b, pa);
    let expected_res: [u64; 40] = [0, 192, 269, 270, 271, 273, 274, 275, 276, 277, 278, 279, 280, 
      281, 282, 283, 284, 285, 286, 289, 290, 291, 292, 293, 294, 295, 296, 297, 298, 299, 300, 301,
      302, 304, 305, 306, 362, 469, 575, 767];
    // to_aladin_moc(&actual_res);
    for (h1, h2) in actual_res.flat_iter().zip(expected_res.iter()) {
      assert_eq!(h1, *h2);
    }
    assert_eq!(expected_res.len(), actual_res.flat_iter().count());
  }

  #[test]
  fn testok_elliptical_cone_8() {
    let lon = 50.0_f64.to_radians();
    let lat = 50.0_f64.to_radians();
    let a = 60.0_f64.to_radians();
    let b = 2.0_f64.to_radians();
    let pa = 35.0_f64.to_radians();
    let actual_res = elliptical_cone_coverage(6, lon, lat, a, b, pa);
    /*let expected_res: [u64; 40] = [0, 192, 269, 270, 271, 273, 274, 275, 276, 277, 278, 279, 280,
      281, 282, 283, 284, 285, 286, 289, 290, 291, 292, 293, 294, 295, 296, 297, 298, 299, 300, 301,
      302, 304, 305, 306, 362, 469, 575, 767];*/
    to_aladin_moc(&actual_res);
    /*for (h1, h2) in actual_res.flat_iter().zip(expected_res.iter()) {
      assert_eq!(h1, *h2);
    }
    assert_eq!(expected_res.len(), actual_res.flat_iter().count());*/
  }
  
  fn to_aladin_moc(bmoc: &BMOC) {
    print!("draw moc {}/", bmoc.get_depth_max());
    for cell in bmoc.flat_iter() {
      print!("{},", cell);
    }
  }
  
  #[test]
  fn testok_polygone_approx() {
    let actual_res = polygon_coverage(3, &[(0.0, 0.0), (0.0, 0.5), (0.25, 0.25)], false);
    /*let expected_res: [u64; 8] = [514, 515, 520, 521, 522, 705, 708, 709];
    for (h1, h2) in actual_res.flat_iter().zip(expected_res.iter()) {
      assert_eq!(h1, *h2);
    }*/
    println!("@@@@@ FLAT VIEW");
    for cell in actual_res.flat_iter() {
      println!("@@@@@ cell a: {:?}", cell);
    }
  }

  #[test]
  fn testok_polygone_exact_npc() {
    // Aladin: draw polygon(65.11781779000003, 85.012424, 89.70533626000001, 87.06130188, 60.23667431000001, 85.609882)
    let depth = 6;
    let mut vertices = [(65.11781779000003, 85.012424), (89.70533626000001, 87.06130188), (60.23667431000001, 85.609882)];
    let expected_res_approx: [u64; 2] = [4062, 4063];
    let expected_res_exact: [u64; 4] = [4062, 4063, 4084, 4085];

    to_radians(&mut vertices);
    
    let actual_res_approx = polygon_coverage(depth, &vertices, false);
    assert_eq!(expected_res_approx.len(), actual_res_approx.deep_size());
    for (h1, h2) in actual_res_approx.flat_iter().zip(expected_res_approx.iter()) {
      assert_eq!(h1, *h2);
    }    
    
    let actual_res_exact = polygon_coverage(depth, &vertices, true);
    assert_eq!(expected_res_exact.len(), actual_res_exact.deep_size());
    for (h1, h2) in actual_res_exact.flat_iter().zip(expected_res_exact.iter()) {
      assert_eq!(h1, *h2);
    }
  }

  #[test]
  fn testok_polygone_exact_npc_2() {
    // Aladin: draw polygon(359.70533626,+87.06130188, 330.23667431,+85.60988200, 335.11781779,+85.01242400)
    let depth = 6;
    let mut vertices = [(359.70533626, 87.06130188), (330.23667431, 85.60988200), (335.11781779, 85.01242400)];
    let expected_res_approx: [u64; 2] = [16350, 16351];
    let expected_res_exact: [u64; 4] = [16350, 16351, 16372, 16373];
    
    to_radians(&mut vertices);

    let actual_res_approx = polygon_coverage(depth, &vertices, false);
    assert_eq!(expected_res_approx.len(), actual_res_approx.deep_size());
    for (h1, h2) in actual_res_approx.flat_iter().zip(expected_res_approx.iter()) {
      assert_eq!(h1, *h2);
    }

    let actual_res_exact = polygon_coverage(depth, &vertices, true);
    assert_eq!(expected_res_exact.len(), actual_res_exact.deep_size());
    for (h1, h2) in actual_res_exact.flat_iter().zip(expected_res_exact.iter()) {
      assert_eq!(h1, *h2);
    }
  }

  #[test]
  fn testok_polygone_exact_npc_3() {
    // Aladin:  draw polygon(224.86211710,+78.10924662, 176.91129363 +83.92878811, 135.81578643,+78.24840426, 200.73574863,+73.58038790)
    let depth = 3;
    let mut vertices = [(224.86211710, 78.10924662), (176.91129363, 83.92878811), (135.81578643, 78.24840426), (200.73574863, 73.58038790)];
    let expected_res_approx: [u64; 5] = [119, 125, 187, 188, 190];
    let expected_res_exact: [u64; 7] =  [119, 125, 127, 187, 188, 190, 191];

    // Pb pour cell 127:
    // from (180, +83) --> (224, +78)=> 191
    // from (135, +78) --> (176, +83) => 127
    
    to_radians(&mut vertices);

    let actual_res_approx = polygon_coverage(depth, &vertices, false);
    println!("draw moc 3/ {:?}", actual_res_approx.to_flat_array());
    assert_eq!(expected_res_approx.len(), actual_res_approx.deep_size());
    for (h1, h2) in actual_res_approx.flat_iter().zip(expected_res_approx.iter()) {
      assert_eq!(h1, *h2);
    }
    
    let actual_res_exact = polygon_coverage(depth, &vertices, true);
    println!("draw moc 3/ {:?}", actual_res_exact.to_flat_array());
    assert_eq!(expected_res_exact.len(), actual_res_exact.deep_size());
    for (h1, h2) in actual_res_exact.flat_iter().zip(expected_res_exact.iter()) {
      assert_eq!(h1, *h2);
    }
  }

  #[test]
  fn testok_polygone_exact_spc() {
    // Aladin: draw polygon(359.70533626,-87.06130188, 330.23667431,-85.60988200, 335.11781779,-85.01242400)
    let depth = 6;
    let mut vertices = [(359.70533626, -87.06130188), (330.23667431, -85.60988200), (335.11781779, -85.01242400)];
    let expected_res_approx: [u64; 2] = [45072, 45074];
    let expected_res_exact: [u64; 4] = [45061, 45063, 45072, 45074];

    to_radians(&mut vertices);

    let actual_res_approx = polygon_coverage(depth, &vertices, false);
    assert_eq!(expected_res_approx.len(), actual_res_approx.deep_size());
    for (h1, h2) in actual_res_approx.flat_iter().zip(expected_res_approx.iter()) {
      assert_eq!(h1, *h2);
    }

    let actual_res_exact = polygon_coverage(depth, &vertices, true);
    assert_eq!(expected_res_exact.len(), actual_res_exact.deep_size());
    for (h1, h2) in actual_res_exact.flat_iter().zip(expected_res_exact.iter()) {
      assert_eq!(h1, *h2);
    }
  }

  #[test]
  fn testok_polygone_exact_eqr() {
    // In Aladin: draw polygon(180.08758393,-41.43289179, 191.00310758,-29.99207687, 181.59160475,-34.21976170)
    let depth = 3;
    let mut vertices = [(180.08758393,-41.43289179), (191.00310758,-29.99207687), (181.59160475,-34.219761700)];
    let expected_res_approx: [u64; 2] = [384, 385];
    let expected_res_exact: [u64; 4] = [384, 385, 682, 683];

    to_radians(&mut vertices);

    let actual_res_approx = polygon_coverage(depth, &vertices, false);
    assert_eq!(expected_res_approx.len(), actual_res_approx.deep_size());
    for (h1, h2) in actual_res_approx.flat_iter().zip(expected_res_approx.iter()) {
      assert_eq!(h1, *h2);
    }

    let actual_res_exact = polygon_coverage(depth, &vertices, true);
    assert_eq!(expected_res_exact.len(), actual_res_exact.deep_size());
    for (h1, h2) in actual_res_exact.flat_iter().zip(expected_res_exact.iter()) {
      assert_eq!(h1, *h2);
    }
  }

  #[test]
  fn testok_polygone_exact_2() {
    // In Aladin: draw polygon(174.75937396073138, -49.16744206799886, 185.24062603926856, -49.16744206799887, 184.63292896369916, -42.32049830486584, 175.3670710363009, -42.32049830486584)
    let depth = 10;
    
    let mut vertices = [(174.75937396073138, -49.16744206799886), 
      (185.24062603926856, -49.16744206799887), 
      (184.63292896369916, -42.32049830486584),
      (175.3670710363009, -42.32049830486584)];
    //let expected_res_approx: [u64; 2] = [384, 385];
    //let expected_res_exact: [u64; 4] = [384, 385, 682, 683];

    to_radians(&mut vertices);

    /*let actual_res_approx = polygon_coverage(depth, &vertices, false);
    assert_eq!(expected_res_approx.len(), actual_res_approx.deep_size());
    for (h1, h2) in actual_res_approx.flat_iter().zip(expected_res_approx.iter()) {
      assert_eq!(h1, *h2);
    }*/

    let actual_res_exact = polygon_coverage(depth, &vertices, false);

    println!("@@@@@ FLAT VIEW");
    for cell in actual_res_exact.flat_iter() {
      println!("@@@@@ cell a: {:?}", cell);
    }
    
    assert!(actual_res_exact.deep_size() > 0);
    
    /*assert_eq!(expected_res_exact.len(), actual_res_exact.deep_size());
    for (h1, h2) in actual_res_exact.flat_iter().zip(expected_res_exact.iter()) {
      assert_eq!(h1, *h2);
    }*/
  }
  
  fn to_radians(lonlats: &mut [(f64, f64)]) {
    for (lon, lat) in lonlats.iter_mut() {
      *lon = lon.to_radians();
      *lat = lat.to_radians();
    }
  }
  
  /*fn test_polygone(depth: u8, lonlats: &[(f64, f64)]) {
    let bmoc = polygon_coverage(depth, lonlats, true);
    
  }*/
  
  #[test]
  fn testok_bmoc_not() {
    let actual_res = cone_coverage_approx_custom(3, 4, 36.80105218_f64.to_radians(), 56.78028536_f64.to_radians(), 14.93_f64.to_radians());
    println!("@@@@@ HIERARCH VIEW");
    for cell in actual_res.into_iter() {
      println!("@@@@@ cell a: {:?}", cell);
    }
    println!("@@@@@ HIERARCH VIEW, NOT");
    let complement: BMOC = actual_res.not();
    for cell in complement.into_iter() {
      println!("@@@@@ cell a: {:?}", cell);
    }
    let org = complement.not();
    assert!(actual_res.equals(&org));
    /*println!("@@@@@ FLAT VIEW");
    for cell in actual_res.flat_iter() {
      println!("@@@@@ cell a: {:?}", cell);
    }*/
  }
  
  #[test]
  fn test_prec_1() {
    let lon_deg = 179.99999999999997_f64;
    let lat_deg = 41.813964843754924_f64;
    /*let mut xy = proj(lon_deg.to_radians(), lat_deg.to_radians());
    xy.0 = ensures_x_is_positive(xy.0);
    let layer_0 = get_or_create(0);
    layer_0.shift_rotate_scale(&mut xy);
    println!("x: {}, y: {}", xy.0, xy.1);
    let mut ij = discretize(xy);
    println!("i: {}, j: {}", ij.0, ij.1);
    let ij_d0c = layer_0.base_cell_coos(&ij);
    println!("i0: {}, j0: {}", ij_d0c.0, ij_d0c.1);
    let d0h_bits = layer_0.depth0_bits(ij_d0c.0, ij_d0c.1/*, &mut ij, xy, lon, lat*/);
    println!("d0h_bits: {}", d0h_bits);*/
    let layer_0 = get_or_create(0);
    assert_eq!(1, layer_0.hash(lon_deg.to_radians(), lat_deg.to_radians()));
  }

  #[test]
  fn test_prec_2() {
    let lon_deg = 359.99999999999994_f64;
    let lat_deg = 41.81031502783791_f64;
    /*let mut xy = proj(lon_deg.to_radians(), lat_deg.to_radians());
    xy.0 = ensures_x_is_positive(xy.0);
    let layer_1 = get_or_create(1);
    layer_1.shift_rotate_scale(&mut xy);
    println!("x: {}, y: {}", xy.0, xy.1);
    let mut ij = discretize(xy);
    println!("i: {}, j: {}", ij.0, ij.1);
    let ij_d0c = layer_1.base_cell_coos(&ij);
    println!("i0: {}, j0: {}", ij_d0c.0, ij_d0c.1);*/
    let layer_1 = get_or_create(1);
    assert_eq!(13, layer_1.hash(lon_deg.to_radians(), lat_deg.to_radians()));
  }

  #[test]
  fn test_prec_3() {
    let lon_deg = 359.99999999999994_f64; //359.99999999999994_f64;
    let lat_deg = 41.81031489577861_f64; //41.81031489577857_f64;

    /*let mut xy = proj(lon_deg.to_radians(), lat_deg.to_radians());
    xy.0 = ensures_x_is_positive(xy.0);
    let layer_0 = get_or_create(6);
    layer_0.shift_rotate_scale(&mut xy);
    println!("x: {}, y: {}", xy.0, xy.1);
    let mut ij = discretize(xy);
    println!("i: {}, j: {}", ij.0, ij.1);
    let ij_d0c = layer_0.base_cell_coos(&ij);
    println!("i0: {}, j0: {}", ij_d0c.0, ij_d0c.1);/*
    let d0h_bits = layer_0.depth0_bits(ij_d0c.0, ij_d0c.1/*, &mut ij, xy, lon, lat*/);
    println!("d0h_bits: {}", d0h_bits);*/
    println!("hash: {}", layer_0.hash(lon_deg.to_radians(), lat_deg.to_radians()));*/
    
    let layer_6 = get_or_create(6);
    assert_eq!(13653, layer_6.hash(lon_deg.to_radians(), lat_deg.to_radians()));
  }

  #[test]
  fn test_prec_4() {
    let lon_deg = 292.49999999999994_f64; //359.99999999999994_f64;
    let lat_deg = 41.810314895778546_f64; //41.81031489577857_f64;

    let mut xy = proj(lon_deg.to_radians(), lat_deg.to_radians());
    println!("proj_x: {:.17}, proj_y: {:.17}", xy.0, xy.1);
    xy.0 = ensures_x_is_positive(xy.0);
    let layer_0 = get_or_create(0);
    layer_0.shift_rotate_scale(&mut xy);
    println!("x: {}, y: {}", xy.0, xy.1);
    let ij = discretize(xy);
    println!("i: {}, j: {}", ij.0, ij.1);
    let ij_d0c = layer_0.base_cell_coos(&ij);
    println!("i0: {}, j0: {}", ij_d0c.0, ij_d0c.1);/*
    let d0h_bits = layer_0.depth0_bits(ij_d0c.0, ij_d0c.1/*, &mut ij, xy, lon, lat*/);
    println!("d0h_bits: {}", d0h_bits);*/
    println!("hash: {}", layer_0.hash(lon_deg.to_radians(), lat_deg.to_radians()));

    let layer_2 = get_or_create(2);
    assert_eq!(56, layer_2.hash(lon_deg.to_radians(), lat_deg.to_radians()));
  }

  #[test]
  fn test_ring() {
    for depth in 0..10 {
      let layer = get_or_create(depth);
      for h in 0..layer.n_hash {
        assert_eq!(layer.from_ring(layer.to_ring(h)), h);
      }
    }
  }

  #[test]
  fn test_bilinear_interpolation() {
    let lon_deg = 89.18473162_f64; // 322.99297784_f64;// 324.8778822_f64
    let lat_deg = -28.04159707_f64;// 39.9302924_f64;// -41.08635508_f64
    let res = bilinear_interpolation(1, lon_deg.to_radians(), lat_deg.to_radians());
    // println!("{:?}", res);
    assert_eq!(res, [
      (20, 0.0), 
      (38, 0.1661686383097217), 
      (33, 0.2024027885319438), 
      (20, 0.6314285731583344)
    ]);
  }
  
  #[test]
  fn test_bilinear_interpolation_2() {
    let lon_deg = 83.633478_f64;
    let lat_deg = 22.015110_f64;
    let res = bilinear_interpolation(18, lon_deg.to_radians(), lat_deg.to_radians());
    // println!("{:?}", res);
    assert_eq!(res, [
      (405766747916, 0.5757471135241182), 
      (405766747917, 0.3604806280107034), 
      (405766747918, 0.039217694696856834), 
      (405766747919, 0.024554563768321474)
    ]);
  }

  #[test]
  fn test_gen_file() -> std::io::Result<()> {
    use std::fs::File;
    use std::io::prelude::*;
    
    let depth = 8;
    let layer = get_or_create(depth);
    let n_cells = layer.n_hash();
    
    let mut s = String::with_capacity(8 * 1024);
    s.push_str("i,ra,dec\n");
    for h in 0..n_cells {
      let (lon, lat) = layer.center(h);
      s.push_str(&format!("{},{},{}\n", &h, &lon.to_degrees(), &lat.to_degrees()));
    }
    
    let mut file = std::fs::File::create(format!("hpx.{}.csv", depth))?;
    file.write_all(s.as_bytes())?;
    Ok(())
  }


  #[test]
  fn test_to_uniq() {
    for depth in 0..8 {
      for idx in 0..n_hash(depth) {
        assert_eq!((depth, idx), from_uniq(to_uniq(depth, idx)));
      }
    }
  }

  #[test]
  fn test_to_uniq_ivoa() {
    for depth in 0..8 {
      for idx in 0..n_hash(depth) {
        assert_eq!((depth, idx), from_uniq_ivoa(to_uniq_ivoa(depth, idx)));
      }
    }
  }
}
