//! 2D Morton code implementation.
//! For BMI 2.0 references, see:
//! - [here](https://github.com/gnzlbg/bitwise/blob/master/src/word/morton.rs) to use BMI 2.0 pdep/pext instructions.
//! - [here](https://stackoverflow.com/questions/4909263/how-to-efficiently-de-interleave-bits-inverse-morton) another example with BMI2.0 instructions 
//! - [here](https://docs.rs/bitintr/0.2.0/src/bitintr/pdep.rs.html#68-87) code using BMI 2.0 and Rust macro 
//! - [The rust doc](https://doc.rust-lang.org/beta/core/arch/x86_64/) for the X86_64 architecture
//! - See also the comment of Julien Bilalte [here](https://www.forceflow.be/2013/10/07/morton-encodingdecoding-through-bit-interleaving-implementations/):
//! > If you can afford the luxury of compiling for BMI2-enabled CPUs, it just boils down to one 
//! > pdep / pext instruction per dimension`
//! > These instructions have latency/troughput of 3/1 on Haswell, so it ends up being much faster 
//! > than the LUT methods as well.
//! > (and also faster than a SIMD implementation that processes 4 morton codes at a time, 
//! > although one could probably avoid pipeline starvations by intertwining a SIMD implementation 
//! > with a few iterations of the pext/pdep versions to get even further speed out of it,
//! > if you’ve got the need to generate a stream of morton codes for some reason… :) )
// If needed one day, to encore 3D data (from one of the above ref, I think), from Julien Bilalte:
// encode3(u32 x, u32 y, u32 z) return _pdep_u32(z, 0x24924924) | _pdep_u32(y, 0x12492492) | _pdep_u32(x, 0x09249249);
// decode3(u32 code, u32 &outX, u32 &outY, u32 &outZ)
//  outX = _pext_u32(code, 0x09249249);
//  outY = _pext_u32(code, 0x12492492);
//  outZ = _pext_u32(code, 0x24924924);
use std::mem;

static LUPT_TO_HASH: [u16; 256] = [
  0x0000, 0x0001, 0x0004, 0x0005, 0x0010, 0x0011, 0x0014, 0x0015, 0x0040, 0x0041, 0x0044,
  0x0045, 0x0050, 0x0051, 0x0054, 0x0055, 0x0100, 0x0101, 0x0104, 0x0105, 0x0110, 0x0111,
  0x0114, 0x0115, 0x0140, 0x0141, 0x0144, 0x0145, 0x0150, 0x0151, 0x0154, 0x0155, 0x0400,
  0x0401, 0x0404, 0x0405, 0x0410, 0x0411, 0x0414, 0x0415, 0x0440, 0x0441, 0x0444, 0x0445,
  0x0450, 0x0451, 0x0454, 0x0455, 0x0500, 0x0501, 0x0504, 0x0505, 0x0510, 0x0511, 0x0514,
  0x0515, 0x0540, 0x0541, 0x0544, 0x0545, 0x0550, 0x0551, 0x0554, 0x0555, 0x1000, 0x1001,
  0x1004, 0x1005, 0x1010, 0x1011, 0x1014, 0x1015, 0x1040, 0x1041, 0x1044, 0x1045, 0x1050,
  0x1051, 0x1054, 0x1055, 0x1100, 0x1101, 0x1104, 0x1105, 0x1110, 0x1111, 0x1114, 0x1115,
  0x1140, 0x1141, 0x1144, 0x1145, 0x1150, 0x1151, 0x1154, 0x1155, 0x1400, 0x1401, 0x1404,
  0x1405, 0x1410, 0x1411, 0x1414, 0x1415, 0x1440, 0x1441, 0x1444, 0x1445, 0x1450, 0x1451,
  0x1454, 0x1455, 0x1500, 0x1501, 0x1504, 0x1505, 0x1510, 0x1511, 0x1514, 0x1515, 0x1540,
  0x1541, 0x1544, 0x1545, 0x1550, 0x1551, 0x1554, 0x1555, 0x4000, 0x4001, 0x4004, 0x4005,
  0x4010, 0x4011, 0x4014, 0x4015, 0x4040, 0x4041, 0x4044, 0x4045, 0x4050, 0x4051, 0x4054,
  0x4055, 0x4100, 0x4101, 0x4104, 0x4105, 0x4110, 0x4111, 0x4114, 0x4115, 0x4140, 0x4141,
  0x4144, 0x4145, 0x4150, 0x4151, 0x4154, 0x4155, 0x4400, 0x4401, 0x4404, 0x4405, 0x4410,
  0x4411, 0x4414, 0x4415, 0x4440, 0x4441, 0x4444, 0x4445, 0x4450, 0x4451, 0x4454, 0x4455,
  0x4500, 0x4501, 0x4504, 0x4505, 0x4510, 0x4511, 0x4514, 0x4515, 0x4540, 0x4541, 0x4544,
  0x4545, 0x4550, 0x4551, 0x4554, 0x4555, 0x5000, 0x5001, 0x5004, 0x5005, 0x5010, 0x5011,
  0x5014, 0x5015, 0x5040, 0x5041, 0x5044, 0x5045, 0x5050, 0x5051, 0x5054, 0x5055, 0x5100,
  0x5101, 0x5104, 0x5105, 0x5110, 0x5111, 0x5114, 0x5115, 0x5140, 0x5141, 0x5144, 0x5145,
  0x5150, 0x5151, 0x5154, 0x5155, 0x5400, 0x5401, 0x5404, 0x5405, 0x5410, 0x5411, 0x5414,
  0x5415, 0x5440, 0x5441, 0x5444, 0x5445, 0x5450, 0x5451, 0x5454, 0x5455, 0x5500, 0x5501,
  0x5504, 0x5505, 0x5510, 0x5511, 0x5514, 0x5515, 0x5540, 0x5541, 0x5544, 0x5545, 0x5550,
  0x5551, 0x5554, 0x5555];

static LUPT_TO_IJ_BYTE: [u16; 256] = [
  0x000, 0x001, 0x100, 0x101, 0x002, 0x003, 0x102, 0x103, 0x200, 0x201, 0x300, 0x301, 0x202,
  0x203, 0x302, 0x303, 0x004, 0x005, 0x104, 0x105, 0x006, 0x007, 0x106, 0x107, 0x204, 0x205,
  0x304, 0x305, 0x206, 0x207, 0x306, 0x307, 0x400, 0x401, 0x500, 0x501, 0x402, 0x403, 0x502,
  0x503, 0x600, 0x601, 0x700, 0x701, 0x602, 0x603, 0x702, 0x703, 0x404, 0x405, 0x504, 0x505,
  0x406, 0x407, 0x506, 0x507, 0x604, 0x605, 0x704, 0x705, 0x606, 0x607, 0x706, 0x707, 0x008,
  0x009, 0x108, 0x109, 0x00A, 0x00B, 0x10A, 0x10B, 0x208, 0x209, 0x308, 0x309, 0x20A, 0x20B,
  0x30A, 0x30B, 0x00C, 0x00D, 0x10C, 0x10D, 0x00E, 0x00F, 0x10E, 0x10F, 0x20C, 0x20D, 0x30C,
  0x30D, 0x20E, 0x20F, 0x30E, 0x30F, 0x408, 0x409, 0x508, 0x509, 0x40A, 0x40B, 0x50A, 0x50B,
  0x608, 0x609, 0x708, 0x709, 0x60A, 0x60B, 0x70A, 0x70B, 0x40C, 0x40D, 0x50C, 0x50D, 0x40E,
  0x40F, 0x50E, 0x50F, 0x60C, 0x60D, 0x70C, 0x70D, 0x60E, 0x60F, 0x70E, 0x70F, 0x800, 0x801,
  0x900, 0x901, 0x802, 0x803, 0x902, 0x903, 0xA00, 0xA01, 0xB00, 0xB01, 0xA02, 0xA03, 0xB02,
  0xB03, 0x804, 0x805, 0x904, 0x905, 0x806, 0x807, 0x906, 0x907, 0xA04, 0xA05, 0xB04, 0xB05,
  0xA06, 0xA07, 0xB06, 0xB07, 0xC00, 0xC01, 0xD00, 0xD01, 0xC02, 0xC03, 0xD02, 0xD03, 0xE00,
  0xE01, 0xF00, 0xF01, 0xE02, 0xE03, 0xF02, 0xF03, 0xC04, 0xC05, 0xD04, 0xD05, 0xC06, 0xC07,
  0xD06, 0xD07, 0xE04, 0xE05, 0xF04, 0xF05, 0xE06, 0xE07, 0xF06, 0xF07, 0x808, 0x809, 0x908,
  0x909, 0x80A, 0x80B, 0x90A, 0x90B, 0xA08, 0xA09, 0xB08, 0xB09, 0xA0A, 0xA0B, 0xB0A, 0xB0B,
  0x80C, 0x80D, 0x90C, 0x90D, 0x80E, 0x80F, 0x90E, 0x90F, 0xA0C, 0xA0D, 0xB0C, 0xB0D, 0xA0E,
  0xA0F, 0xB0E, 0xB0F, 0xC08, 0xC09, 0xD08, 0xD09, 0xC0A, 0xC0B, 0xD0A, 0xD0B, 0xE08, 0xE09,
  0xF08, 0xF09, 0xE0A, 0xE0B, 0xF0A, 0xF0B, 0xC0C, 0xC0D, 0xD0C, 0xD0D, 0xC0E, 0xC0F, 0xD0E,
  0xD0F, 0xE0C, 0xE0D, 0xF0C, 0xF0D, 0xE0E, 0xE0F, 0xF0E, 0xF0F];

static LUPT_TO_IJ_SHORT: [u32; 256] = [
  0x00000, 0x00001, 0x10000, 0x10001, 0x00002, 0x00003, 0x10002, 0x10003, 0x20000, 0x20001,
  0x30000, 0x30001, 0x20002, 0x20003, 0x30002, 0x30003, 0x00004, 0x00005, 0x10004, 0x10005,
  0x00006, 0x00007, 0x10006, 0x10007, 0x20004, 0x20005, 0x30004, 0x30005, 0x20006, 0x20007,
  0x30006, 0x30007, 0x40000, 0x40001, 0x50000, 0x50001, 0x40002, 0x40003, 0x50002, 0x50003,
  0x60000, 0x60001, 0x70000, 0x70001, 0x60002, 0x60003, 0x70002, 0x70003, 0x40004, 0x40005,
  0x50004, 0x50005, 0x40006, 0x40007, 0x50006, 0x50007, 0x60004, 0x60005, 0x70004, 0x70005,
  0x60006, 0x60007, 0x70006, 0x70007, 0x00008, 0x00009, 0x10008, 0x10009, 0x0000A, 0x0000B,
  0x1000A, 0x1000B, 0x20008, 0x20009, 0x30008, 0x30009, 0x2000A, 0x2000B, 0x3000A, 0x3000B,
  0x0000C, 0x0000D, 0x1000C, 0x1000D, 0x0000E, 0x0000F, 0x1000E, 0x1000F, 0x2000C, 0x2000D,
  0x3000C, 0x3000D, 0x2000E, 0x2000F, 0x3000E, 0x3000F, 0x40008, 0x40009, 0x50008, 0x50009,
  0x4000A, 0x4000B, 0x5000A, 0x5000B, 0x60008, 0x60009, 0x70008, 0x70009, 0x6000A, 0x6000B,
  0x7000A, 0x7000B, 0x4000C, 0x4000D, 0x5000C, 0x5000D, 0x4000E, 0x4000F, 0x5000E, 0x5000F,
  0x6000C, 0x6000D, 0x7000C, 0x7000D, 0x6000E, 0x6000F, 0x7000E, 0x7000F, 0x80000, 0x80001,
  0x90000, 0x90001, 0x80002, 0x80003, 0x90002, 0x90003, 0xA0000, 0xA0001, 0xB0000, 0xB0001,
  0xA0002, 0xA0003, 0xB0002, 0xB0003, 0x80004, 0x80005, 0x90004, 0x90005, 0x80006, 0x80007,
  0x90006, 0x90007, 0xA0004, 0xA0005, 0xB0004, 0xB0005, 0xA0006, 0xA0007, 0xB0006, 0xB0007,
  0xC0000, 0xC0001, 0xD0000, 0xD0001, 0xC0002, 0xC0003, 0xD0002, 0xD0003, 0xE0000, 0xE0001,
  0xF0000, 0xF0001, 0xE0002, 0xE0003, 0xF0002, 0xF0003, 0xC0004, 0xC0005, 0xD0004, 0xD0005,
  0xC0006, 0xC0007, 0xD0006, 0xD0007, 0xE0004, 0xE0005, 0xF0004, 0xF0005, 0xE0006, 0xE0007,
  0xF0006, 0xF0007, 0x80008, 0x80009, 0x90008, 0x90009, 0x8000A, 0x8000B, 0x9000A, 0x9000B,
  0xA0008, 0xA0009, 0xB0008, 0xB0009, 0xA000A, 0xA000B, 0xB000A, 0xB000B, 0x8000C, 0x8000D,
  0x9000C, 0x9000D, 0x8000E, 0x8000F, 0x9000E, 0x9000F, 0xA000C, 0xA000D, 0xB000C, 0xB000D,
  0xA000E, 0xA000F, 0xB000E, 0xB000F, 0xC0008, 0xC0009, 0xD0008, 0xD0009, 0xC000A, 0xC000B,
  0xD000A, 0xD000B, 0xE0008, 0xE0009, 0xF0008, 0xF0009, 0xE000A, 0xE000B, 0xF000A, 0xF000B,
  0xC000C, 0xC000D, 0xD000C, 0xD000D, 0xC000E, 0xC000F, 0xD000E, 0xD000F, 0xE000C, 0xE000D,
  0xF000C, 0xF000D, 0xE000E, 0xE000F, 0xF000E, 0xF000F];

static LUPT_TO_IJ_INT: [u64; 256] = [
  0x000000000, 0x000000001, 0x100000000, 0x100000001, 0x000000002, 0x000000003,
  0x100000002, 0x100000003, 0x200000000, 0x200000001, 0x300000000, 0x300000001,
  0x200000002, 0x200000003, 0x300000002, 0x300000003, 0x000000004, 0x000000005,
  0x100000004, 0x100000005, 0x000000006, 0x000000007, 0x100000006, 0x100000007,
  0x200000004, 0x200000005, 0x300000004, 0x300000005, 0x200000006, 0x200000007,
  0x300000006, 0x300000007, 0x400000000, 0x400000001, 0x500000000, 0x500000001,
  0x400000002, 0x400000003, 0x500000002, 0x500000003, 0x600000000, 0x600000001,
  0x700000000, 0x700000001, 0x600000002, 0x600000003, 0x700000002, 0x700000003,
  0x400000004, 0x400000005, 0x500000004, 0x500000005, 0x400000006, 0x400000007,
  0x500000006, 0x500000007, 0x600000004, 0x600000005, 0x700000004, 0x700000005,
  0x600000006, 0x600000007, 0x700000006, 0x700000007, 0x000000008, 0x000000009,
  0x100000008, 0x100000009, 0x00000000A, 0x00000000B, 0x10000000A, 0x10000000B,
  0x200000008, 0x200000009, 0x300000008, 0x300000009, 0x20000000A, 0x20000000B,
  0x30000000A, 0x30000000B, 0x00000000C, 0x00000000D, 0x10000000C, 0x10000000D,
  0x00000000E, 0x00000000F, 0x10000000E, 0x10000000F, 0x20000000C, 0x20000000D,
  0x30000000C, 0x30000000D, 0x20000000E, 0x20000000F, 0x30000000E, 0x30000000F,
  0x400000008, 0x400000009, 0x500000008, 0x500000009, 0x40000000A, 0x40000000B,
  0x50000000A, 0x50000000B, 0x600000008, 0x600000009, 0x700000008, 0x700000009,
  0x60000000A, 0x60000000B, 0x70000000A, 0x70000000B, 0x40000000C, 0x40000000D,
  0x50000000C, 0x50000000D, 0x40000000E, 0x40000000F, 0x50000000E, 0x50000000F,
  0x60000000C, 0x60000000D, 0x70000000C, 0x70000000D, 0x60000000E, 0x60000000F,
  0x70000000E, 0x70000000F, 0x800000000, 0x800000001, 0x900000000, 0x900000001,
  0x800000002, 0x800000003, 0x900000002, 0x900000003, 0xA00000000, 0xA00000001,
  0xB00000000, 0xB00000001, 0xA00000002, 0xA00000003, 0xB00000002, 0xB00000003,
  0x800000004, 0x800000005, 0x900000004, 0x900000005, 0x800000006, 0x800000007,
  0x900000006, 0x900000007, 0xA00000004, 0xA00000005, 0xB00000004, 0xB00000005,
  0xA00000006, 0xA00000007, 0xB00000006, 0xB00000007, 0xC00000000, 0xC00000001,
  0xD00000000, 0xD00000001, 0xC00000002, 0xC00000003, 0xD00000002, 0xD00000003,
  0xE00000000, 0xE00000001, 0xF00000000, 0xF00000001, 0xE00000002, 0xE00000003,
  0xF00000002, 0xF00000003, 0xC00000004, 0xC00000005, 0xD00000004, 0xD00000005,
  0xC00000006, 0xC00000007, 0xD00000006, 0xD00000007, 0xE00000004, 0xE00000005,
  0xF00000004, 0xF00000005, 0xE00000006, 0xE00000007, 0xF00000006, 0xF00000007,
  0x800000008, 0x800000009, 0x900000008, 0x900000009, 0x80000000A, 0x80000000B,
  0x90000000A, 0x90000000B, 0xA00000008, 0xA00000009, 0xB00000008, 0xB00000009,
  0xA0000000A, 0xA0000000B, 0xB0000000A, 0xB0000000B, 0x80000000C, 0x80000000D,
  0x90000000C, 0x90000000D, 0x80000000E, 0x80000000F, 0x90000000E, 0x90000000F,
  0xA0000000C, 0xA0000000D, 0xB0000000C, 0xB0000000D, 0xA0000000E, 0xA0000000F,
  0xB0000000E, 0xB0000000F, 0xC00000008, 0xC00000009, 0xD00000008, 0xD00000009,
  0xC0000000A, 0xC0000000B, 0xD0000000A, 0xD0000000B, 0xE00000008, 0xE00000009,
  0xF00000008, 0xF00000009, 0xE0000000A, 0xE0000000B, 0xF0000000A, 0xF0000000B,
  0xC0000000C, 0xC0000000D, 0xD0000000C, 0xD0000000D, 0xC0000000E, 0xC0000000F,
  0xD0000000E, 0xD0000000F, 0xE0000000C, 0xE0000000D, 0xF0000000C, 0xF0000000D,
  0xE0000000E, 0xE0000000F, 0xF0000000E, 0xF0000000F];

pub trait ZOrderCurve: Sync + Send {

  fn ij2h(&self, i: u32, j: u32) -> u64 {
    self.i02h(i) | self.oj2h(j)
  }

  fn i02h(&self, i: u32) -> u64;
  fn oj2h(&self, j: u32) -> u64 {
    self.i02h(j) << 1
  }
  fn h2ij(&self, h: u64) -> u64;

  fn h2i0(&self, h: u64) -> u64 {
    self.h2ij(h)
  }

  fn ij2i(&self, ij: u64) -> u32;
  fn ij2j(&self, ij: u64) -> u32;

  fn xy2h(&self, x: f64, y: f64) -> u64 {
    self.ij2h(x as u32, y as u32)
  }

}

struct EmptyZOC;
impl ZOrderCurve for EmptyZOC {
  fn ij2h(&self, _i: u32, _j: u32) -> u64 { 0 }
  fn i02h(&self, _i: u32) -> u64 { 0 }
  fn h2ij(&self, _h: u64) -> u64 { 0 }
  fn h2i0(&self, _h: u64) -> u64 { 0 }
  fn ij2i(&self, _ij: u64) -> u32 { 0 }
  fn ij2j(&self, _ij: u64) -> u32 { 0 }
}

struct SmallZOC;
impl ZOrderCurve for SmallZOC {
  fn i02h(&self, i: u32) -> u64 {
    LUPT_TO_HASH[(i as u8) as usize] as u64
  }
  fn h2ij(&self, h: u64) -> u64 {
    let bytes:  [u8; 2] = to_bytes_u16((h as u16).to_le()); //.to_bytes();
    (   LUPT_TO_IJ_BYTE[bytes[0] as usize]
      | LUPT_TO_IJ_BYTE[bytes[1] as usize] << 4
    ) as u64
  }
  fn ij2i(&self, ij: u64) -> u32 {
    (ij as u32) & 0x000000FF
  }
  fn ij2j(&self, ij: u64) -> u32 {
    (ij as u32) >> 8
  }
}

struct MediuZOC;
impl ZOrderCurve for MediuZOC {
  fn i02h(&self, i: u32) -> u64 {
    let bytes: [u8; 2] = to_bytes_u16((i as u16).to_le());// .to_bytes();
       LUPT_TO_HASH[bytes[0] as usize] as u64
    | (LUPT_TO_HASH[bytes[1] as usize] as u64) << 16
  }
  fn h2ij(&self, h: u64) -> u64 {
    let bytes: [u8; 4] = to_bytes_u32((h as u32).to_le()); //.to_bytes();
    (   LUPT_TO_IJ_SHORT[bytes[0] as usize]
      | LUPT_TO_IJ_SHORT[bytes[1] as usize] <<  4
      | LUPT_TO_IJ_SHORT[bytes[2] as usize] <<  8
      | LUPT_TO_IJ_SHORT[bytes[3] as usize] << 12
    ) as u64
  }
  fn ij2i(&self, ij: u64) -> u32 {
    (ij as u32) & 0x0000FFFF
  }
  fn ij2j(&self, ij: u64) -> u32 {
    (ij as u32) >> 16
  }
}

pub struct LargeZOC;
impl ZOrderCurve for LargeZOC {
  fn i02h(&self, i: u32) -> u64 {
    // to/from_le do nothing on x86 architectures (which are in LE), so not perf penalty
    // WARNING: to_bytes not stable yet, see https://github.com/rust-lang/rust/pull/51919
    let bytes: [u8; 4] = to_bytes_u32(i.to_le()); //.to_bytes();
    /*(     LUPT_TO_HASH[bytes[0] as usize] as u64
				| (LUPT_TO_HASH[bytes[1] as usize] as u64) << 16
				| (LUPT_TO_HASH[bytes[2] as usize] as u64) << 32
				| (LUPT_TO_HASH[bytes[3] as usize] as u64) << 48
		) as u64*/
    // Portability on BE architecture to be tested!! (is not portable, use the above formulation)
    u64::from_le(
      unsafe {
        mem::transmute::<[u16; 4], u64>([
          LUPT_TO_HASH[bytes[0] as usize],
          LUPT_TO_HASH[bytes[1] as usize],
          LUPT_TO_HASH[bytes[2] as usize],
          LUPT_TO_HASH[bytes[3] as usize]])
      }
    )
  }
  fn h2ij(&self, h: u64) -> u64 {
    let bytes: [u8; 8] = to_bytes_u64(h.to_le()); //.to_bytes();
      LUPT_TO_IJ_INT[bytes[0] as usize] as u64
    | LUPT_TO_IJ_INT[bytes[1] as usize] <<  4
    | LUPT_TO_IJ_INT[bytes[2] as usize] <<  8
    | LUPT_TO_IJ_INT[bytes[3] as usize] << 12
    | LUPT_TO_IJ_INT[bytes[4] as usize] << 16
    | LUPT_TO_IJ_INT[bytes[5] as usize] << 20
    | LUPT_TO_IJ_INT[bytes[6] as usize] << 24
    | LUPT_TO_IJ_INT[bytes[7] as usize] << 28
  }
  fn ij2i(&self, ij: u64) -> u32 {
    ij as u32
  }
  fn ij2j(&self, ij: u64) -> u32 {
    (ij >> 32) as u32
  }
}

fn to_bytes_u16(v: u16) -> [u8; 2]{
  unsafe { mem::transmute(v) }
}
fn to_bytes_u32(v: u32) -> [u8; 4]{
  unsafe { mem::transmute(v) }
}
fn to_bytes_u64(v: u64) -> [u8; 8]{
  unsafe { mem::transmute(v) }
}


#[cfg(test)]
struct SmallZOCxor;
#[cfg(test)]
impl ZOrderCurve for SmallZOCxor {
  fn ij2h(&self, i: u32, j: u32) -> u64 {
    let mut i = i as u16;
    let mut j = j as u16;
    i |= j << 8;
    j = (i ^ (i >> 4)) & 0x00F0u16; i = i ^ j ^ (j << 4);
    j = (i ^ (i >> 2)) & 0x0C0Cu16; i = i ^ j ^ (j << 2);
    j = (i ^ (i >> 1)) & 0x2222u16; i = i ^ j ^ (j << 1);
    i as u64
  }
  fn i02h(&self, i: u32) -> u64 {
    let mut i = i as u16;
    i = ((i << 4) | i) & 0x0F0Fu16;
    i = ((i << 2) | i) & 0x3333u16;
    i = ((i << 1) | i) & 0x5555u16;
    i as u64
  }
  fn h2ij(&self, h: u64) -> u64 {
    let mut h = h as u16;
    let mut t
      = (h ^ (h >> 1)) & 0x2222u16; h = h ^ t ^ (t << 1);
    t = (h ^ (h >> 2)) & 0x0C0Cu16; h = h ^ t ^ (t << 2);
    t = (h ^ (h >> 4)) & 0x00F0u16; h = h ^ t ^ (t << 4);
    h as u64
  }
  fn h2i0(&self, h: u64) -> u64 {
    let mut h = h as u16;
    h = ((h >> 1) | h) & 0x3333u16;
    h = ((h >> 2) | h) & 0x0F0Fu16;
    h = ((h >> 4) | h) & 0x00FFu16;
    h as u64
  }
  fn ij2i(&self, ij: u64) -> u32 {
    (ij as u32) & 0x000000FF
  }
  fn ij2j(&self, ij: u64) -> u32 {
    (ij as u32) >> 8
  }
}

#[cfg(test)]
struct MediuZOCxor;
#[cfg(test)]
impl ZOrderCurve for MediuZOCxor {
  fn ij2h(&self, mut i: u32, mut j: u32) -> u64 {
    i |= j << 16;
    j = (i ^ (i >> 8)) & 0x0000FF00u32; i = i ^ j ^ (j << 8);
    j = (i ^ (i >> 4)) & 0x00F000F0u32; i = i ^ j ^ (j << 4);
    j = (i ^ (i >> 2)) & 0x0C0C0C0Cu32; i = i ^ j ^ (j << 2);
    j = (i ^ (i >> 1)) & 0x22222222u32; i = i ^ j ^ (j << 1);
    i as u64
  }
  fn i02h(&self, mut i: u32) -> u64 {
    i = ((i << 8) | i) & 0x00FF00FFu32;
    i = ((i << 4) | i) & 0x0F0F0F0Fu32;
    i = ((i << 2) | i) & 0x33333333u32;
    i = ((i << 1) | i) & 0x55555555u32;
    i as u64
  }
  fn h2ij(&self, h: u64) -> u64 {
    let mut h = h as u32;
    let mut t
      = (h ^ (h >> 1)) & 0x22222222u32; h = h ^ t ^ (t << 1);
    t = (h ^ (h >> 2)) & 0x0C0C0C0Cu32; h = h ^ t ^ (t << 2);
    t = (h ^ (h >> 4)) & 0x00F000F0u32; h = h ^ t ^ (t << 4);
    t = (h ^ (h >> 8)) & 0x0000FF00u32; h = h ^ t ^ (t << 8);
    h as u64
  }
  fn h2i0(&self, mut h: u64) -> u64 {
    h = ((h >> 1) | h) & 0x33333333u64;
    h = ((h >> 2) | h) & 0x0F0F0F0Fu64;
    h = ((h >> 4) | h) & 0x00FF00FFu64;
    h = ((h >> 8) | h) & 0x0000FFFFu64;
    h
  }
  fn ij2i(&self, ij: u64) -> u32 {
    (ij as u32) & 0x0000FFFF
  }
  fn ij2j(&self, ij: u64) -> u32 { (ij as u32) >> 16 }
}

// #[cfg(any(test, bench))]
pub struct LargeZOCxor;
// #[cfg(any(test, bench))]
impl ZOrderCurve for LargeZOCxor {
  fn ij2h(&self, i: u32, j: u32) -> u64 {
    let mut h = ((j as u64) << 32) | (i as u64);
    let mut t
      = (h ^ (h >> 16)) & 0x00000000FFFF0000u64; h = h ^ t ^ (t << 16);
    t = (h ^ (h >>  8)) & 0x0000FF000000FF00u64; h = h ^ t ^ (t <<  8);
    t = (h ^ (h >>  4)) & 0x00F000F000F000F0u64; h = h ^ t ^ (t <<  4);
    t = (h ^ (h >>  2)) & 0x0C0C0C0C0C0C0C0Cu64; h = h ^ t ^ (t <<  2);
    t = (h ^ (h >>  1)) & 0x2222222222222222u64; h = h ^ t ^ (t <<  1);
    h
  }
  fn i02h(&self, i: u32) -> u64 {
    let mut i = i as u64;
    i = ((i << 16) | i) & 0x0000FFFF0000FFFFu64;
    i = ((i <<  8) | i) & 0x00FF00FF00FF00FFu64;
    i = ((i <<  4) | i) & 0x0F0F0F0F0F0F0F0Fu64;
    i = ((i <<  2) | i) & 0x3333333333333333u64;
    i = ((i <<  1) | i) & 0x5555555555555555u64;
    i
  }
  fn h2ij(&self, mut h: u64) -> u64 {
    let mut t
      = (h ^ (h >>  1)) & 0x2222222222222222u64; h = h ^ t ^ (t <<  1);
    t = (h ^ (h >>  2)) & 0x0C0C0C0C0C0C0C0Cu64; h = h ^ t ^ (t <<  2);
    t = (h ^ (h >>  4)) & 0x00F000F000F000F0u64; h = h ^ t ^ (t <<  4);
    t = (h ^ (h >>  8)) & 0x0000FF000000FF00u64; h = h ^ t ^ (t <<  8);
    t = (h ^ (h >> 16)) & 0x00000000FFFF0000u64; h = h ^ t ^ (t << 16);
    h
  }
  fn h2i0(&self, mut h: u64) -> u64 {
    h = ((h >>  1) | h) & 0x3333333333333333u64;
    h = ((h >>  2) | h) & 0x0F0F0F0F0F0F0F0Fu64;
    h = ((h >>  4) | h) & 0x00FF00FF00FF00FFu64;
    h = ((h >>  8) | h) & 0x0000FFFF0000FFFFu64;
    h = ((h >> 16) | h) & 0x00000000FFFFFFFFu64;
    h
  }
  fn ij2i(&self, ij: u64) -> u32 {
    ij as u32
  }
  fn ij2j(&self, ij: u64) -> u32 { (ij >> 32) as u32 }
}

// Instead of multiplying the #[cfg()], I should learn how to write macros... 

#[cfg(all(any(target_arch = "x86", target_arch = "x86_64"), target_feature = "bmi2"))]
pub struct SmallZOCbmi;
#[cfg(all(any(target_arch = "x86", target_arch = "x86_64"), target_feature = "bmi2"))]
impl ZOrderCurve for SmallZOCbmi {
  
  fn ij2h(&self, i: u32, j: u32) -> u64 {
    #[cfg(target_arch = "x86")]
    use std::arch::x86::_pdep_u32;
    #[cfg(target_arch = "x86_64")]
    use std::arch::x86_64::_pdep_u32;
    unsafe {
      (_pdep_u32(i, 0x00005555u32) | _pdep_u32(j, 0x0000AAAAu32)) as u64
    }
  }
  fn i02h(&self, i: u32) -> u64 {
    #[cfg(target_arch = "x86")]
    use std::arch::x86::_pdep_u32;
    #[cfg(target_arch = "x86_64")]
    use std::arch::x86_64::_pdep_u32;
    unsafe {
      _pdep_u32(i, 0x00005555u32) as u64
    }
  }
  fn oj2h(&self, i: u32) -> u64 {
    #[cfg(target_arch = "x86")]
    use std::arch::x86::_pdep_u32;
    #[cfg(target_arch = "x86_64")]
    use std::arch::x86_64::_pdep_u32;
    unsafe {
      _pdep_u32(i, 0x0000AAAAu32) as u64
    }
  }
  fn h2ij(&self, h: u64) -> u64 {
    #[cfg(target_arch = "x86")]
    use std::arch::x86::_pext_u32;
    #[cfg(target_arch = "x86_64")]
    use std::arch::x86_64::_pext_u32;
    unsafe {
      (_pext_u32(h as u32, 0x00005555u32) | (_pext_u32(h as u32, 0x0000AAAAu32) << 8)) as u64
    }
  }
  fn h2i0(&self, h: u64) -> u64 {
    #[cfg(target_arch = "x86")]
    use std::arch::x86::_pext_u32;
    #[cfg(target_arch = "x86_64")]
    use std::arch::x86_64::_pext_u32;
    unsafe {
      _pext_u32(h as u32, 0x00005555u32) as u64
    }
  }
  fn ij2i(&self, ij: u64) -> u32 { (ij as u32) & 0x000000FFu32 }
  fn ij2j(&self, ij: u64) -> u32 {
    (ij as u32) >> 8
  }
}

#[cfg(all(any(target_arch = "x86", target_arch = "x86_64"), target_feature = "bmi2"))]
struct MediuZOCbmi;
#[cfg(all(any(target_arch = "x86", target_arch = "x86_64"), target_feature = "bmi2"))]
impl ZOrderCurve for MediuZOCbmi {
  
  fn ij2h(&self, i: u32, j: u32) -> u64 {
    #[cfg(target_arch = "x86")]
    use std::arch::x86::_pdep_u32;
    #[cfg(target_arch = "x86_64")]
    use std::arch::x86_64::_pdep_u32;
    unsafe {
      (_pdep_u32(i, 0x55555555u32) | _pdep_u32(j, 0xAAAAAAAAu32)) as u64
    }
  }
  fn i02h(&self, i: u32) -> u64 {
    #[cfg(target_arch = "x86")]
    use std::arch::x86::_pdep_u32;
    #[cfg(target_arch = "x86_64")]
    use std::arch::x86_64::_pdep_u32;
    unsafe {
      _pdep_u32(i, 0x55555555u32) as u64
    }
  }
  fn oj2h(&self, i: u32) -> u64 {
    #[cfg(target_arch = "x86")]
    use std::arch::x86::_pdep_u32;
    #[cfg(target_arch = "x86_64")]
    use std::arch::x86_64::_pdep_u32;
    unsafe {
      _pdep_u32(i, 0xAAAAAAAAu32) as u64
    }
  }
  fn h2ij(&self, h: u64) -> u64 {
    #[cfg(target_arch = "x86")]
    use std::arch::x86::_pext_u32;
    #[cfg(target_arch = "x86_64")]
    use std::arch::x86_64::_pext_u32;
    unsafe {
      (_pext_u32(h as u32, 0x55555555u32) | (_pext_u32(h as u32, 0xAAAAAAAAu32) << 16)) as u64
    }
  }
  fn h2i0(&self, h: u64) -> u64 {
    #[cfg(target_arch = "x86")]
    use std::arch::x86::_pext_u32;
    #[cfg(target_arch = "x86_64")]
    use std::arch::x86_64::_pext_u32;
    unsafe {
      _pext_u32(h as u32, 0x55555555u32) as u64
    }
  }
  fn ij2i(&self, ij: u64) -> u32 { (ij as u32) & 0x0000FFFFu32 }
  fn ij2j(&self, ij: u64) -> u32 { (ij as u32) >> 16 }
}

#[cfg(all(any(target_arch = "x86", target_arch = "x86_64"), target_feature = "bmi2"))]
pub struct LargeZOCbmi;
#[cfg(all(any(target_arch = "x86", target_arch = "x86_64"), target_feature = "bmi2"))]
impl ZOrderCurve for LargeZOCbmi {
  
  fn ij2h(&self, i: u32, j: u32) -> u64 {
    #[cfg(target_arch = "x86")]
    use std::arch::x86::_pdep_u32;
    #[cfg(target_arch = "x86")]
    unsafe {
          (_pdep_u32(i & 0x0000FFFFu32, 0x55555555u32) as u64) 
        | (_pdep_u32(j & 0x0000FFFFu32, 0xAAAAAAAAu32) as u64) 
        | (_pdep_u32(i >> 16, 0x55555555u32) as u64) << 32
        | (_pdep_u32(j >> 16, 0xAAAAAAAAu32) as u64) << 32
    }
    #[cfg(target_arch = "x86_64")]
    use std::arch::x86_64::_pdep_u64;
    #[cfg(target_arch = "x86_64")]
    unsafe {
        _pdep_u64(i as u64, 0x5555555555555555u64) | _pdep_u64(j as u64, 0xAAAAAAAAAAAAAAAAu64)
    }
  }
  fn i02h(&self, i: u32) -> u64 {
    #[cfg(target_arch = "x86")]
    use std::arch::x86::_pdep_u32;
    #[cfg(target_arch = "x86")]
    unsafe {
          (_pdep_u32(i & 0x0000FFFFu32, 0x55555555u32) as u64)
        | (_pdep_u32(i >> 16, 0x55555555u32) as u64) << 32
    }
    #[cfg(target_arch = "x86_64")]
    use std::arch::x86_64::_pdep_u64;
    #[cfg(target_arch = "x86_64")]
    unsafe {
      _pdep_u64(i as u64, 0x5555555555555555u64)
    }
  }
  fn oj2h(&self, i: u32) -> u64 {
    #[cfg(target_arch = "x86")]
    use std::arch::x86::_pdep_u32;
    #[cfg(target_arch = "x86")]
    unsafe {
      (_pdep_u32(i & 0x0000FFFFu32, 0xAAAAAAAAu32) as u64)
        | (_pdep_u32(i >> 16, 0xAAAAAAAAu32) as u64) << 32
    }
    #[cfg(target_arch = "x86_64")]
    use std::arch::x86_64::_pdep_u64;
    #[cfg(target_arch = "x86_64")]
      unsafe {
        _pdep_u64(i as u64, 0xAAAAAAAAAAAAAAAAu64)
      }
  }
  fn h2ij(&self, h: u64) -> u64 {
    #[cfg(target_arch = "x86")]
    use std::arch::x86::_pext_32;
    #[cfg(target_arch = "x86")]
    unsafe {
          (_pext_u32(h as u32, 0x55555555u32) as u64)
        | (_pext_u32(h >> 32, 0x55555555u32) as u64) << 16
        | (_pext_u32(h as u32, 0xAAAAAAAAu32) as u64) << 32
        | (_pext_u32(h >> 32, 0xAAAAAAAAu32) as u64) << 48
    }
    #[cfg(target_arch = "x86_64")]
    use std::arch::x86_64::_pext_u64;
    #[cfg(target_arch = "x86_64")]
    unsafe {
      _pext_u64(h, 0x5555555555555555u64) | (_pext_u64(h, 0xAAAAAAAAAAAAAAAAu64) << 32)
    }
  }
  fn h2i0(&self, h: u64) -> u64 {
    #[cfg(target_arch = "x86")]
    use std::arch::x86::_pext_u32;
    #[cfg(target_arch = "x86")]
    unsafe {
          (_pext_u32(h as u32, 0x55555555u32) as u64) 
        | (_pext_u32(h >> 32, 0x55555555u32) as u64) << 16
    }
    #[cfg(target_arch = "x86_64")]
    use std::arch::x86_64::_pext_u64;
    #[cfg(target_arch = "x86_64")]
    unsafe {
      _pext_u64(h, 0x5555555555555555u64)
    }
  }
  fn ij2i(&self, ij: u64) -> u32 {
    ij as u32
  }
  fn ij2j(&self, ij: u64) -> u32 { (ij >> 32) as u32 }
}


static EMPTY_ZOC: EmptyZOC = EmptyZOC;

static SMALL_ZOC_LUT: SmallZOC = SmallZOC;
static MEDIU_ZOC_LUT: MediuZOC = MediuZOC;
pub static LARGE_ZOC_LUT: LargeZOC = LargeZOC;

#[cfg(test)]
static SMALL_ZOC_XOR: SmallZOCxor = SmallZOCxor;
#[cfg(test)]
static MEDIU_ZOC_XOR: MediuZOCxor = MediuZOCxor;
// #[cfg(any(test, bench))]
pub static LARGE_ZOC_XOR: LargeZOCxor = LargeZOCxor;

#[cfg(all(any(target_arch = "x86", target_arch = "x86_64"), target_feature = "bmi2"))]
static SMALL_ZOC_BMI: SmallZOCbmi = SmallZOCbmi;
#[cfg(all(any(target_arch = "x86", target_arch = "x86_64"), target_feature = "bmi2"))]
static MEDIU_ZOC_BMI: MediuZOCbmi = MediuZOCbmi;
#[cfg(all(any(target_arch = "x86", target_arch = "x86_64"), target_feature = "bmi2"))]
pub static LARGE_ZOC_BMI: LargeZOCbmi = LargeZOCbmi;

/// Returns a zorder curve trait implementation according to the given depth.
pub fn get_zoc(depth: u8) -> &'static dyn ZOrderCurve { // on day, It would be possible to add 'const'
  super::super::check_depth(depth);
  #[cfg(all(any(target_arch = "x86", target_arch = "x86_64"), target_feature = "bmi2"))]
  {
    match depth {
           0  => &EMPTY_ZOC,
       1..=8  => &SMALL_ZOC_BMI, // 2 bits *  8 = 16 bits
       9..=16 => &MEDIU_ZOC_BMI, // 2 bits * 16 = 32 bits
      17..=29 => &LARGE_ZOC_BMI,
      _ => unreachable!(),
    }
  }
  #[cfg(not(all(any(target_arch = "x86", target_arch = "x86_64"), target_feature = "bmi2")))]
    {
      match depth {
             0  => &EMPTY_ZOC,
         1..=8  => &SMALL_ZOC_LUT, // 2 bits *  8 = 16 bits
         9..=16 => &MEDIU_ZOC_LUT, // 2 bits * 16 = 32 bits
        17..=29 => &LARGE_ZOC_LUT,
        _ => unreachable!(),
      }
    }
}


// see config: rustc --print cfg

#[cfg(test)]
mod tests {
  use super::*;
  
  #[test]
  fn test_small(){
    let n = 256u32;
    for i in 0..n {
      for j in 0..n {
        let m1 = SMALL_ZOC_LUT.ij2h(i, j);
        let m2 = SMALL_ZOC_XOR.ij2h(i, j);
        #[cfg(all(any(target_arch = "x86", target_arch = "x86_64"), target_feature = "bmi2"))]
        let m3 = SMALL_ZOC_BMI.ij2h(i, j);
        assert_eq!(m1, m2);
        #[cfg(all(any(target_arch = "x86", target_arch = "x86_64"), target_feature = "bmi2"))]
        assert_eq!(m2, m3);
      }
    }
  }

  #[test]
  fn test_mediu(){
    let n = 65536u32;
    for i in (0..n).step_by(7) {
      for j in (0..n).step_by(9) {
        let m1 = MEDIU_ZOC_LUT.ij2h(i, j);
        let m2 = MEDIU_ZOC_XOR.ij2h(i, j);
        #[cfg(all(any(target_arch = "x86", target_arch = "x86_64"), target_feature = "bmi2"))]
        let m3 = MEDIU_ZOC_BMI.ij2h(i, j);
        // println!("i: {}; j: {}; m1: {}; m2: {}; m3: {}", i, j, m1, m2, m3);
        assert_eq!(m1, m2);
        #[cfg(all(any(target_arch = "x86", target_arch = "x86_64"), target_feature = "bmi2"))]
        assert_eq!(m2, m3);
      }
    }
  }

  #[test]
  fn test_large(){
    let n = 0xFFFFFFFFu32;
    for i in (0..n).step_by(14999991) {
      for j in (0..n).step_by(1499991) {
        let m1 = LARGE_ZOC_LUT.ij2h(i, j);
        let m2 = LARGE_ZOC_XOR.ij2h(i, j);
        #[cfg(all(any(target_arch = "x86", target_arch = "x86_64"), target_feature = "bmi2"))]
        let m3 = LARGE_ZOC_BMI.ij2h(i, j);
        assert_eq!(m1, m2);
        #[cfg(all(any(target_arch = "x86", target_arch = "x86_64"), target_feature = "bmi2"))]
        assert_eq!(m2, m3)
      }
    }
  }
}
