use super::*;

pub const fn nside_max() -> u64 {
  1 << 29
}

/// Returns the number of distinct hash values (i.e. the number if cells the sphere is divided in)
/// at the gicen NSIDE.
pub const fn n_hash(nside: u32) -> u64 {
  let nside = nside as u64;
  12 * nside * nside
}

/// Returns the number of isolatitude in the whole sphere at the given `nside`, 
/// i.e. the number of small circles parallel to the equator containing HEALPix cell centers.
/// 
/// # Input
/// - `nside`: the sub-division of a base cell along both the South-East and the South-West axis
/// 
/// # Output
/// -  $4 * nside - 1$: $2 * nside - 1$ ring for the NPC cell, $2 * nside - 1$ for the SPC cell
/// $+1$ for the equator.
/// 
/// # Remark
/// Contrary to the NESTED scheme, `nside` here is not necessarily a power of 2.
/// The smallest possible value is `1`.
/// 
/// # Example
/// ```rust
/// use cdshealpix::ring::{n_isolatitude_rings};
/// 
/// assert_eq!(n_isolatitude_rings(1),  3);
/// assert_eq!(n_isolatitude_rings(2),  7);
/// assert_eq!(n_isolatitude_rings(3), 11);
/// assert_eq!(n_isolatitude_rings(4), 15);
/// assert_eq!(n_isolatitude_rings(5), 19);
/// assert_eq!(n_isolatitude_rings(6), 23);
/// ```
pub const fn n_isolatitude_rings(nside: u32) -> u32 {
  // Not yet stable in const fn: debug_assert!(nside > 0);
  (nside << 2) - 1
}

/// Index of the first cell which is fully in the Equatorial Region, 
/// i.e. number of cells in the 4 polar cap triangles, 
/// i.e. four time the $nside^{\mathrm{th}}$ [triangular number](https://en.wikipedia.org/wiki/Triangular_number).
/// ```math
/// 4 * \sum_{i=1}^{nside} i = 4 * \frac{nside (nside + 1)}{2} = 2 nside (nside + 1)
/// ```
/// 
/// # Warning
/// To obtain the index of the first cell on the NPC/EQR transition latitude, call the
/// `first_hash_on_npc_eqr_transition` method.
/// 
/// # Example
/// ```rust
/// use cdshealpix::ring::first_hash_in_eqr;
/// 
/// assert_eq!(first_hash_in_eqr(1),  4);
/// assert_eq!(first_hash_in_eqr(2), 12);
/// assert_eq!(first_hash_in_eqr(3), 24);
/// assert_eq!(first_hash_in_eqr(4), 40);
/// assert_eq!(first_hash_in_eqr(5), 60);
/// assert_eq!(first_hash_in_eqr(6), 84);
/// assert_eq!(first_hash_in_eqr(7), 112);
/// assert_eq!(first_hash_in_eqr(8), 144);
/// ```
#[inline]
pub const fn first_hash_in_eqr(nside: u32) -> u64 {
  // Not yet stable in const fn: debug_assert!(nside > 0);
  triangular_number_x4(nside as u64)
}

/// Index of the first cell on the North polar cap / Equatorial Region transition latitude. 
/// I.e. number of cells in the 4 polar cap triangles of side = nside - 1, 
/// I.e. four time the $(nside - 1)^{\mathrm{th}}$ [triangular number](https://en.wikipedia.org/wiki/Triangular_number).
/// ```math
/// 4 * \sum_{i=1}^{nside - 1} i = 4 * \frac{nside (nside - 1)}{2} = 2 nside (nside - 1)
/// ```
/// 
/// # Warning
/// To obtain the index of the first cell fully in the EQR, call the
/// `first_hash_in_eqr` method.
/// 
/// # Example
/// ```rust
/// use cdshealpix::ring::first_hash_on_npc_eqr_transition;
/// 
/// assert_eq!(first_hash_on_npc_eqr_transition(1),  0);
/// assert_eq!(first_hash_on_npc_eqr_transition(2),  4);
/// assert_eq!(first_hash_on_npc_eqr_transition(3), 12);
/// assert_eq!(first_hash_on_npc_eqr_transition(4), 24);
/// assert_eq!(first_hash_on_npc_eqr_transition(5), 40);
/// assert_eq!(first_hash_on_npc_eqr_transition(6), 60);
/// assert_eq!(first_hash_on_npc_eqr_transition(7), 84);
/// assert_eq!(first_hash_on_npc_eqr_transition(8), 112);
/// assert_eq!(first_hash_on_npc_eqr_transition(9), 144);
/// ```
#[inline]
pub const fn first_hash_on_npc_eqr_transition(nside: u32) -> u64 {
  // Not yet stable in const fn: debug_assert!(nside > 0);
  triangular_number_x4((nside - 1) as u64)
}

/// Index of the first cell on the Equatorial Region / South polar cap transition latitude.
/// # Warning
/// To obtain the index of the first cell fully in the SPC, call the
/// `first_hash_in_spc` method.
/// 
/// # Example
/// ```rust
/// use cdshealpix::ring::first_hash_on_eqr_spc_transition;
/// 
/// assert_eq!(first_hash_on_eqr_spc_transition(1),   8);
/// assert_eq!(first_hash_on_eqr_spc_transition(2),  36);
/// assert_eq!(first_hash_on_eqr_spc_transition(4), 152);
/// ```
#[inline]
pub const fn first_hash_on_eqr_spc_transition(nside: u32) -> u64 {
  let n = nside as u64;
  // 8n^2 + (2*n^2 - 2n) = 2n(5n - 1)
  (n * (5 * n - 1)) << 1
}

/// Index of the first cell fully in the South polar cap.
/// # Warning
/// To obtain the index of the first cell on the EQR/SPC transition latitude, call the
/// `first_hash_on_eqr_spc_transition` method.
/// 
/// # Example
/// ```rust
/// use cdshealpix::ring::{first_hash_in_spc};
/// 
/// assert_eq!(first_hash_in_spc(1),  12);
/// assert_eq!(first_hash_in_spc(2),  44);
/// assert_eq!(first_hash_in_spc(4), 168);
/// ```
#[inline]
pub const fn first_hash_in_spc(nside: u32) -> u64 {
  let n = nside as u64;
  // 8n^2 + (2*n^2 + 2n) = 2n(5n + 1)
  (n * (5 * n + 1)) << 1
}

/// Four time the [triangular number](https://en.wikipedia.org/wiki/Triangular_number), i.e.
/// ```math
/// 4 * \sum_{i=1}^{n} i = 4 * \frac{n (n + 1)}{2} = 2 n (n + 1)
/// ```
#[inline]
pub(crate) const fn triangular_number_x4(n: u64) -> u64 {
  (n * (n + 1)) << 1
}

/// Index (starting at 0 at the pole) of the polar cap ring containing the cell of given index `hash`
/// counted from the pole, i.e. the `n` such that `2n(n+1) <= hash < 2(n+1)(n+2)`.
/// The `f64` square root is not exact for arguments larger than 2^53 (nside >~ 2^26), so its result
/// is corrected with integer arithmetic.
#[inline]
pub(crate) fn polar_ring_index(hash: u64) -> u64 {
  let mut i_ring = (((1 + (hash << 1)) as f64).sqrt() as u64 - 1) >> 1;
  while triangular_number_x4(i_ring) > hash {
    i_ring -= 1;
  }
  while triangular_number_x4(i_ring + 1) <= hash {
    i_ring += 1;
  }
  i_ring
}

// TODO: remove the previous method and the '_u32' below
/// Four time the [triangular number](https://en.wikipedia.org/wiki/Triangular_number), i.e.
/// ```math
/// 4 * \sum_{i=1}^{n} i = 4 * \frac{n (n + 1)}{2} = 2 n (n + 1)
/// ```
#[inline]
pub(crate) const fn triangular_number_x4_u32(n: u32) -> u64 {
  let n = n as u64;
  (n * (n + 1)) << 1
}

/// Returns the cell number (hash value) associated with the given position on the unit sphere
/// # Inputs
/// - `nside`: the NSIDE of the RING scheme
/// - `lon`: longitude in radians, support reasonably large positive and negative values
///          producing accurate results with a naive range reduction like modulo 2*pi
///          (i.e. without having to resort on Cody-Waite or Payne Hanek range reduction).
/// - `lat`: latitude in radians, must be in `[-pi/2, pi/2]`
/// # Output
/// - the cell number (hash value) associated with the given position on the unit sphere,
///   in `[0, 12*nside^2[`
/// # Panics
///   If `lat` **not in** `[-pi/2, pi/2]`, this method panics.
/// # Examples
/// ```rust
/// use cdshealpix::ring::hash;
/// 
/// let nside = 1;
/// // Easy
/// assert_eq!(hash(nside,  40.0_f64.to_radians(),  45.0_f64.to_radians()),  0);
/// assert_eq!(hash(nside, 130.0_f64.to_radians(),  45.0_f64.to_radians()),  1);
/// assert_eq!(hash(nside, 220.0_f64.to_radians(),  45.0_f64.to_radians()),  2);
/// assert_eq!(hash(nside, 310.0_f64.to_radians(),  45.0_f64.to_radians()),  3);
/// assert_eq!(hash(nside,   0.0_f64.to_radians(),   0.0_f64.to_radians()),  4);
/// assert_eq!(hash(nside,  90.0_f64.to_radians(),   0.0_f64.to_radians()),  5);
/// assert_eq!(hash(nside, 180.0_f64.to_radians(),   0.0_f64.to_radians()),  6);
/// assert_eq!(hash(nside, 270.0_f64.to_radians(),   0.0_f64.to_radians()),  7);
/// assert_eq!(hash(nside,  40.0_f64.to_radians(), -45.0_f64.to_radians()),  8);
/// assert_eq!(hash(nside, 130.0_f64.to_radians(), -45.0_f64.to_radians()),  9);
/// assert_eq!(hash(nside, 220.0_f64.to_radians(), -45.0_f64.to_radians()), 10);
/// assert_eq!(hash(nside, 310.0_f64.to_radians(), -45.0_f64.to_radians()), 11);
/// // Particular points
/// // - north pole
/// assert_eq!(hash(nside,  40.0_f64.to_radians(), 90.0_f64.to_radians()), 0);
/// assert_eq!(hash(nside, 130.0_f64.to_radians(), 90.0_f64.to_radians()), 1);
/// assert_eq!(hash(nside, 220.0_f64.to_radians(), 90.0_f64.to_radians()), 2);
/// assert_eq!(hash(nside, 310.0_f64.to_radians(), 90.0_f64.to_radians()), 3);
/// // - south pole
/// assert_eq!(hash(nside,  40.0_f64.to_radians(), -90.0_f64.to_radians()),  8);
/// assert_eq!(hash(nside, 130.0_f64.to_radians(), -90.0_f64.to_radians()),  9);
/// assert_eq!(hash(nside, 220.0_f64.to_radians(), -90.0_f64.to_radians()), 10);
/// assert_eq!(hash(nside, 310.0_f64.to_radians(), -90.0_f64.to_radians()), 11);
/// // - around the (45, 0) corner
/// assert_eq!(hash(nside, 44.0_f64.to_radians(),  0.0_f64.to_radians()), 4);
/// assert_eq!(hash(nside, 46.0_f64.to_radians(),  0.0_f64.to_radians()), 5);
/// assert_eq!(hash(nside, 45.0_f64.to_radians(),  1.0_f64.to_radians()), 0);
/// assert_eq!(hash(nside, 45.0_f64.to_radians(), -1.0_f64.to_radians()), 8);
/// ```
pub fn hash(nside: u32, lon: f64, lat: f64) -> u64 {
  hash_with_dldh(nside, lon, lat).0
}

/// Returns the cell number (hash value) associated with the given position on the unit sphere, 
/// together with the offset `(dx, dy)` on the Euclidean plane of the projected position with
/// respect to the origin of the cell (South vertex).
/// # Inputs
/// - `nside`: the NSIDE of the RING scheme
/// - `lon`: longitude in radians, support reasonably large positive and negative values
///          producing accurate results with a naive range reduction like modulo 2*pi
///          (i.e. without having to resort on Cody-Waite or Payne Hanek range reduction).
/// - `lat`: latitude in radians, must be in `[-pi/2, pi/2]`
/// # Output
/// - the cell number (hash value) associated with the given position on the unit sphere,
///   in `[0, 12*nside^2[`
/// - `dx`: the positional offset $\in [0, 1[$ along the south-to-east axis
/// - `dy`: the positional offset $\in [0, 1[$ along the south-to-west axis
/// # Panics
///   If `lat` **not in** `[-pi/2, pi/2]`, this method panics.
/// # Examples
/// TODO
pub fn hash_with_dxdy(nside: u32, lon: f64, lat: f64) -> (u64, f64, f64) {
  let (h, _dl, _dh) = hash_with_dldh(nside, lon, lat);
  // The offsets are computed from the center of the selected cell, so that they are always consistent with it
  // (and with `sph_coo`), including for positions on a cell border or within rounding errors of a vertex
  // (deriving them from the fractional parts `dl`, `dh` may wrap an offset of ~1 to 0, or conversely).
  let (xc, yc) = center_of_projected_cell(nside, h);
  let (x, y) = proj(lon, lat);
  let mut ddx = ensures_x_is_positive(x) - xc;
  if ddx > 4.0 { ddx -= 8.0; } else if ddx < -4.0 { ddx += 8.0; }
  // In a polar cap, a position on the meridian bordering two base cells has two images in the projection plane,
  // separated by the gap between the two triangles: use the image on the side of the selected cell
  let ddy = y - yc;
  let gap = 2.0 * (y.abs() - 1.0);
  // (+ 1e-14: the rounding errors on x and y, a few 1e-15, are not small with respect to 1e-9 / nside for nside > ~1e6; a
  // position on the border of the cell must not be sent to the other image, which is then not even an image of the position)
  if gap > 0.0 && ddx.abs() + ddy.abs() > (1.0 + 1e-9) / (nside as f64) + 1e-14 { // not in the cell: look at the other image
    if (ddx - gap).abs() < ddx.abs() { ddx -= gap; } else if (ddx + gap).abs() < ddx.abs() { ddx += gap; }
  }
  let half_nside = 0.5 * (nside as f64);
  (h, 0.5 + half_nside * (ddy + ddx), 0.5 + half_nside * (ddy - ddx))
}

fn hash_with_dldh(nside: u32, lon: f64, lat: f64) -> (u64, f64, f64) {
  let nside = nside as u64;
  let half_nside = 0.5 * (nside as f64);
  // Project and ensure that x is positive (in case input lon < 0)
  let mut xy = proj(lon, lat);
  xy.0 = ensures_x_is_positive(xy.0);
  // Set the origin to (x=0, y=-3) in the projection plane, scale both axis by a factor  1/2 * nside
  let mut dl = half_nside * xy.0;          debug_assert!(0.0 <= dl && dl <= 4.0 * nside as f64); // == 4 nside if x = 8 (lon = -epsilon)
  let mut dh = half_nside * (xy.1 + 3.0);  debug_assert!(0.0 <= dh && dh <= 2.5 * nside as f64);
  let mut i_ring = (dh as u64) << 1;
  let mut i_in_ring = dl as u64;
  dl -= i_in_ring as f64;      debug_assert!(0.0 <= dl && dl < 1.0);
  dh -= (i_ring >> 1) as f64;  debug_assert!(0.0 <= dh && dh < 1.0);
  deal_with_1x1_box(dl, dh, &mut i_ring, &mut i_in_ring);
  // Those tests are already performed in the proj, so if we have to improve performances we may
  // merge this code with the projection code (loosing readability).
  if i_ring >= 5 * nside { // North pole, rare case
    return ((i_in_ring / nside) & 3, 1.0, 1.0); // & 3: i_in_ring may be equal to 4 * nside (lon = 2 * pi)
  }
  // In the polar caps, a position on the border of the triangle of its base cell (lon = k * pi/2, or a
  // corner on the transition latitude) may be attributed to a "cell" lying in the gap between two
  // triangles of the projection plane, where there is no cell. Such a position is on the south-east or
  // south-west edge (north polar cap; north-east or north-west edge in the south polar cap) of the
  // non-existing cell: use instead the cell sharing this edge, i.e. the first (west border) or the last
  // (east border) cell of the base cell in the next ring toward the equator.
  let n_in_ring = if i_ring >= 4 * nside { 5 * nside - i_ring } else if i_ring < 2 * nside { i_ring - nside } else { nside };
  if n_in_ring < nside { // polar cap ring made of `n_in_ring` cells by base cell
    let off = nside - n_in_ring;
    let first = (off >> 1) + (off & 1); // index, in the base cell, of the first cell of the ring
    let i_in_d0h = i_in_ring % nside;
    if i_in_d0h < first || i_in_d0h >= first + n_in_ring {
      let off = off - 1;
      let first_in_next_ring = (off >> 1) + (off & 1);
      let is_west_border = i_in_d0h < first;
      let is_north_cap = i_ring >= 4 * nside;
      i_in_ring = ((i_in_ring / nside) & 3) * nside + first_in_next_ring + if is_west_border { 0 } else { n_in_ring };
      if is_north_cap { i_ring -= 1; } else { i_ring += 1; }
      // offsets of the position on the shared edge, seen from the cell finally selected
      let (dx, dy) = dldh_to_dxdy(dl, dh);
      let (dx, dy) = match (is_north_cap, is_west_border) {
        (true, true) => (dx, 1.0),   // SE edge of the non-existing cell = NW edge of the selected cell
        (true, false) => (1.0, dy),  // SW edge                         = NE edge
        (false, true) => (0.0, dy),  // NE edge                         = SW edge
        (false, false) => (dx, 0.0), // NW edge                         = SE edge
      };
      dl = 0.5 * (dx - dy + 1.0);
      dh = 0.5 * (dx + dy + 1.0);
    }
  }
  i_ring = 5 * nside - 1 - i_ring;
  let hash = if i_ring < nside { // North polar cap
    let off = nside - 1 - i_ring;
    i_in_ring -= (off >> 1) + (off & 1) + off * (i_in_ring / nside);
    triangular_number_x4(i_ring) + i_in_ring
  } else if i_ring >= 3 * nside { // South polar cap
    let off = i_ring + 1 - 3 * nside;
    i_in_ring -= (off >> 1) + (off & 1) + off * (i_in_ring / nside);
    n_hash(nside as u32) - triangular_number_x4(n_isolatitude_rings(nside as u32) as u64 - i_ring) + i_in_ring
  } else { // Equatorial region
    first_hash_in_eqr(nside as u32)
      + (i_ring - nside) * (nside << 2)
      + if i_in_ring == nside << 2 { 0 } else { i_in_ring }
  };
  (hash, dl, dh)
}

///    NORTH   
///  h ^           Deals with a box of size 1x1, with: 
/// W  |_._    E   - dl in `[0, 1[` along the x-axis
/// E  |\2/|   A   - dh in `[0, 1[` along the y-axis
/// S  .3X1.   S   The box is divided in 4 quarters (q in [0, 3[) 
/// T  |/0\|   T   - q = 0 => nothing to do
///    --.----> l  - q = 1 => increase `i_ring` of  +1 and increase `i_in_ring` of +1
///                - q = 2 => increase `i_ring` of  +2
///    SOUTH       - q = 3 => increase `i_ring` of  +1
/// Warning, the inequalities are important to decide if an edge is in a cell or its neighbour!!
fn deal_with_1x1_box(dl: f64, dh: f64, i_ring: &mut u64, i_in_ring: &mut u64) {
  debug_assert!(0.0 <= dl && dl < 1.0);
  debug_assert!(0.0 <= dh && dh < 1.0);
  let in1 = (dl <= dh) as u64;       /* 1/0 */  debug_assert!(in1 == 0 || in1 == 1);
  let in2 = (dl >= 1.0 - dh) as u64; /* 0\1 */  debug_assert!(in2 == 0 || in2 == 1);
  *i_ring += in1 + in2;
  *i_in_ring += in2 >> in1; // <=> in2 & (1 - in1)
}

/// Build the hash value from the ring index (starting at the North pole, increasing southward)
/// and the index inside the ring (starting at the West, increasing eastward).
/// WARNING: the index in the ring in polar caps is provided like the index in ring in the euqatorial
/// region, i.e. like if the projection rectangle was full (no missing triangles).
// TODO: REMOVE DUPLICATE CODE IN RING HASH() AND NESTED TO_RING() 
fn build_hash(nside: u32, i_ring: u32, mut i_in_ring: u32) -> u64 {
  debug_assert!(i_ring < n_isolatitude_rings(nside));
  debug_assert!(i_in_ring <= n_isolatitude_rings(nside));
  if i_ring < nside { // North polar cap
    let off = nside - 1 - i_ring;
    i_in_ring -= (off >> 1) + (off & 1) + off * (i_in_ring / nside);
    triangular_number_x4_u32(i_ring) + i_in_ring as u64
  } else if i_ring >= 3 * nside { // South polar cap
    let off = i_ring + 1 - 3 * nside;
    i_in_ring -= (off >> 1) + (off & 1) + off * (i_in_ring / nside);
    n_hash(nside) - triangular_number_x4_u32(n_isolatitude_rings(nside) - i_ring) + i_in_ring as u64
  } else { // Equatorial region
    first_hash_in_eqr(nside)
      + (i_ring - nside) as u64 * (nside << 2) as u64
      + if i_in_ring == nside << 2 { 0 } else { i_in_ring } as u64
  }
}

/*
// Return i_ring and i_in_ring
fn decode_hash(nside: u32, hash: u64) -> (u32, u32) {

}*/

/*
/// Build the hash value from the ring index (starting at the North pole, increasing southward)
/// and the index inside the ring (starting at the West, increasing eastward)
/// ** counted in the first quarter, i.e. in [0, pi/2]**.
/// WARNING: the index in the ring in polar caps is provided like the index in ring in the euqatorial
/// region, i.e. like if the projection rectangle was full (no missing triangles).
/// - `q` simply equals i_in_ring / nside
/// - `q` = 0 if $lon \in [0, pi/2[$
/// - `q` = 1 if $lon \in [pi/2, pi[$
/// - `q` = 2 if $lon \in [pi, 3pi/2[$
/// - `q` = 3 if $lon \in [3pi/2, 2pi[$
/// Simply equals 
fn build_hash(nside: u32, i_ring: u32, mut i_in_ring: u32, q: u32) -> u64 {
  debug_assert!(0 <= i_ring && i_ring < n_isolatitude_rings(nside));
  debug_assert!(0 <= i_ring && i_ring < nside);
  if i_ring < nside { // North polar cap
    let off = nside - 1 - i_ring;
    i_in_ring -= (off >> 1) + (off & 1) + (off - nside) * q;
    triangular_number_x4_u32(i_ring) as u64 + i_in_ring as u64
  } else if i_ring >= 3 * nside { // South polar cap
    let off = i_ring + 1 - 3 * nside;
    i_in_ring -= (off >> 1) + (off & 1) + (off - nside) * q;
    n_hash(nside) - triangular_number_x4_u32(n_isolatitude_rings(nside) - i_ring) + i_in_ring as u64
  } else { // Equatorial region
    i_in_ring += q * nside;
      first_hash_in_eqr(nside)
      + (i_ring - nside) as u64 * (nside << 2) as u64
      + if i_in_ring == nside << 2 { 0 } else { i_in_ring } as u64
  }
}*/

fn dldh_to_dxdy(dl: f64, dh: f64) -> (f64, f64) {
  /*let dl = dl - 0.5;
  let dh = dh - 0.5;
  let dx = dh + dl;
  let dy = dh - dl;
  q = 0 => dx + 1, dy + 1
  q = 1 => dx    , dy + 1
  q = 2 => dx, dy
  q = 3 => dx + 1, dy
  */
  let dx = dh + dl - 1.0;
  let dy = dh - dl;
  (dx + ((dx < 0.0) as u8) as f64, dy + ((dy < 0.0) as u8) as f64)
}


/* THE IDEE WOULD BE TO AVOID HAVING TO BLOCK OF IF CONDITION (ONE IN PROJ AND ONE AFTER PROJ)
fn hash_v2(nside: u32, lon: f64, lat: f64) -> u64 {
  check_lat(lat);
  let lon = abs_sign_decompose(lon);
  let lat = abs_sign_decompose(lat);
  let x = pm1_offset_decompose(lon.abs * FOUR_OVER_PI);
  let mut xy = (x.pm1, lat.abs);
  if is_in_equatorial_region(lat.abs) {
    proj_cea(&mut xy);
  } else {
    proj_collignon(&mut xy);
  }
  
  if lat.sign == F64_SIGN_BIT_MASK {
    n_hash(nside_u32) - val
  } else {
    val 
  }
  apply_offset_and_signs(&mut xy, x.offset, lon.sign, lat.sign);
}*/

/*
THE IDEE WOULD BE TO USE THE 45deg ROTATION INSTEAD OF dela_with_1x1_box to compare perfs
fn hash_v2(nside: u32, lon: f64, lat: f64) -> u64
*/

#[inline]
fn is_hash(nside: u32, hash: u64) -> bool {
  hash < n_hash(nside)
}

#[inline]
fn check_hash(nside: u32, hash: u64) { 
  assert!(is_hash(nside, hash), "Wrong hash value: too large.");
}

/// Center of the given cell in the Euclidean projection space.
/// # Input
/// - `nside`: the NSIDE of the RING scheme
/// - `hash`: the hash value of the cell we look for the unprojected center
/// 
/// # Output
/// - `(x, y)` coordinates such that $x \in [0, 8[$ and $y \in [-2, 2]$.
pub fn  center_of_projected_cell(nside: u32, hash: u64) -> (f64, f64) {
  check_hash(nside, hash);
  if hash < first_hash_on_npc_eqr_transition(nside) { // North polar cap
    // Ring index from the northmost ring, increasing southward
    let i_ring = polar_ring_index(hash);
    // Number of cells in the ring for each base cell (Remark: n_in_ring = nside in the EQR)
    let n_in_ring = i_ring + 1;
    // Index in the ring
    let i_in_ring = hash - triangular_number_x4(i_ring);
    // Base cell containing the hash (0, 1, 2 or 3)
    let q = i_in_ring / n_in_ring;    debug_assert!(q < 4);
    // Position of the center of the first cell on the ring cell, in [0, nside] <=> x in [0, 1], (i.e. inside a base cell) 
    let off_in_d0h = nside as u64 - i_ring;
    // Ring index in a base cell
    let i_in_d0h_ring = i_in_ring - q * n_in_ring;
    // x inside a base cell, between 0 and 2 * nside
    let x = ((i_in_d0h_ring) << 1) as f64 + off_in_d0h as f64;
    let y = 1.0 + (nside as u64 - 1 - i_ring) as f64 / (nside as f64);
    ((q << 1) as f64 + x as f64 / nside as f64, y)
  } else if hash >= first_hash_in_spc(nside) { // South polar cap
    let hash = n_hash(nside) - 1 - hash; // start counting in reverse order from south polar cap
    let i_ring = polar_ring_index(hash);
    let n_in_ring = i_ring + 1;
    let i_in_ring = ((n_in_ring << 2) - 1) - (hash - triangular_number_x4(i_ring));
    let q = i_in_ring / n_in_ring;
    let off_in_d0h = nside as u64 - i_ring;
    let i_in_d0h_ring = i_in_ring - q * n_in_ring;
    let x = ((i_in_d0h_ring) << 1) as f64 + off_in_d0h as f64;
    let y = 1.0 + (nside as u64 - 1 - i_ring) as f64 / (nside as f64);
    ((q << 1) as f64 + x as f64 / nside as f64, -y)
  } else { // Equatorial region
    let nsidex4 = (nside << 2) as u64;
    let i_ring = (hash - first_hash_on_npc_eqr_transition(nside)) / nsidex4;
    let i_in_ring = (hash - first_hash_on_npc_eqr_transition(nside)) - i_ring * nsidex4;
    let x = ((i_in_ring << 1) + ((i_ring + 1) & 1)) as f64 / (nside as f64);
    let y = (nside as i64 - i_ring as i64) as f64 / (nside as f64);
    (x, y)
  }
}

/// Compute the position on the unit sphere of the center (in the Euclidean projection plane)
/// of the cell associated to the given hash value.
/// 
/// # Input
/// - `nside`: the NSIDE of the RING scheme
/// - `hash`: the hash value of the cell we look for the unprojected center
/// 
/// # Output
/// - `(lon, lat)` in radians, the unprojected position (on the unit sphere) of the center of 
///   the cell in the Euclidean plane
///   - `lon`, longitude in `[0, 2pi]` radians;
///   - `lat`, latitude in `[-pi/2, pi/2]` radians. 
/// 
/// # Panics
/// If the given `hash` value is not in `[0, 12*nside^2[`, this method panics.
/// 
/// # Example
/// TODO
///
pub fn center(nside: u32, hash: u64) -> (f64, f64) {
  let (x, y) = center_of_projected_cell(nside, hash);
  super::unproj(x, y)
}

/// Compute the position on the unit sphere of the position '(dx, dy)' from the south vertex of 
/// the HEALPix cell associated to the given hash value.
/// The x-axis is the South-East axis while the y-axis is the south-west axis.
/// 
/// # Input
/// - `nside`: the NSIDE of the RING scheme
/// - `hash`: the hash value of the cell in which are defined `dx` and `dy`
/// - `dx`: the positional offset $\in [0, 1[$ along the south-to-east axis
/// - `dy`: the positional offset $\in [0, 1[$ along the south-to-west axis
/// 
/// # Output
/// - `(lon, lat)` in radians, the unprojected position (on the unit sphere) of the given position 
///   inside the given cell in the Euclidean plane
///   - `lon`, longitude in `[0, 2pi]` radians;
///   - `lat`, latitude in `[-pi/2, pi/2]` radians. 
/// 
/// # Panics
/// This method panics if either:
/// - the given `hash` value is not in `[0, 12*nside^2[`, 
/// - `dx` or `dy` is not $\in [0, 1[$
/// 
/// # Example
/// TODO
///
pub fn sph_coo(nside: u32, hash: u64, dx: f64, dy: f64) -> (f64, f64) {
  assert!(0.0 <= dx && dx < 1.0);
  assert!(0.0 <= dy && dy < 1.0);
  let (mut x, mut y) = center_of_projected_cell(nside, hash);
  x += (dx - dy) / (nside as f64);
  y += (dx + dy - 1.0) / (nside as f64);
  super::unproj(ensures_x_is_positive(x), y)
}

/// Computes the positions on the unit sphere of the 4 vertices of the given cell.
/// If you want to access the position for a given direction, use method 
/// [vertices_map](#method.vertices_map).
///   
/// # Input
/// - `nside`: the NSIDE of the RING scheme
/// - `hash`: the hash value of the cell we look for the positions of its vertices
/// 
/// # Output
/// - `[(lon_S, lat_S), (lon_E, lat_E), (lon_N, lat_N), (lon_W, lat_W)]` in radians, 
///   the positions (on the unit sphere) of the vertices
///   - `lon`, longitude in `[0, 2pi]` radians;
///   - `lat`, latitude in `[-pi/2, pi/2]` radians.
/// 
/// # Panics
/// If the given `hash` value is not in `[0, 12*nside^2[`, this method panics.
/// 
/// # Example
/// TODO
///
#[inline]
pub fn vertices(nside: u32, hash: u64) -> [(f64, f64); 4] {
  let one_over_nside = 1.0 / (nside as f64);
  let (x, y) = center_of_projected_cell(nside, hash);
  [
    super::unproj(x, y - one_over_nside), // S
    super::unproj(x + one_over_nside, y), // E
    super::unproj(x, y + one_over_nside), // N
    super::unproj(ensures_x_is_positive(x - one_over_nside), y)  // W
  ]
}

// TODO: implement path_along_cell_edge
// TODO: implement neighbours
// TODO: implement cone_coverage (will return RANGES) => need the exact cone impl in NESTED
// TODO: implement interpolation

// For polygon and elliptical_cone, I don't know yet how to do
// (we can't return MOC/BMOC since we have no guarantee that NSIDE is a power of 2)!!

#[cfg(test)]
mod tests {
  
  use crate::ring::*;
  
  #[test]
  fn test_hash() {
    // TODO: remove this (already in the doc) and test peciliar points!
    let nside = 1;
    // Easy
    assert_eq!(hash(nside,  40.0_f64.to_radians(),  45.0_f64.to_radians()),  0);
    assert_eq!(hash(nside, 130.0_f64.to_radians(),  45.0_f64.to_radians()),  1);
    assert_eq!(hash(nside, 220.0_f64.to_radians(),  45.0_f64.to_radians()),  2);
    assert_eq!(hash(nside, 310.0_f64.to_radians(),  45.0_f64.to_radians()),  3);
    assert_eq!(hash(nside,   0.0_f64.to_radians(),   0.0_f64.to_radians()),  4);
    assert_eq!(hash(nside,  90.0_f64.to_radians(),   0.0_f64.to_radians()),  5);
    assert_eq!(hash(nside, 180.0_f64.to_radians(),   0.0_f64.to_radians()),  6);
    assert_eq!(hash(nside, 270.0_f64.to_radians(),   0.0_f64.to_radians()),  7);
    assert_eq!(hash(nside,  40.0_f64.to_radians(), -45.0_f64.to_radians()),  8);
    assert_eq!(hash(nside, 130.0_f64.to_radians(), -45.0_f64.to_radians()),  9);
    assert_eq!(hash(nside, 220.0_f64.to_radians(), -45.0_f64.to_radians()), 10);
    assert_eq!(hash(nside, 310.0_f64.to_radians(), -45.0_f64.to_radians()), 11);
    // Particular points
    // - north pole
    assert_eq!(hash(nside,  40.0_f64.to_radians(), 90.0_f64.to_radians()), 0);
    assert_eq!(hash(nside, 130.0_f64.to_radians(), 90.0_f64.to_radians()), 1);
    assert_eq!(hash(nside, 220.0_f64.to_radians(), 90.0_f64.to_radians()), 2);
    assert_eq!(hash(nside, 310.0_f64.to_radians(), 90.0_f64.to_radians()), 3);
    // - south pole
    assert_eq!(hash(nside,  40.0_f64.to_radians(), -90.0_f64.to_radians()),  8);
    assert_eq!(hash(nside, 130.0_f64.to_radians(), -90.0_f64.to_radians()),  9);
    assert_eq!(hash(nside, 220.0_f64.to_radians(), -90.0_f64.to_radians()), 10);
    assert_eq!(hash(nside, 310.0_f64.to_radians(), -90.0_f64.to_radians()), 11);
    // - around the (45, 0) corner
    assert_eq!(hash(nside, 44.0_f64.to_radians(),  0.0_f64.to_radians()), 4);
    assert_eq!(hash(nside, 46.0_f64.to_radians(),  0.0_f64.to_radians()), 5);
    assert_eq!(hash(nside, 45.0_f64.to_radians(),  1.0_f64.to_radians()), 0);
    assert_eq!(hash(nside, 45.0_f64.to_radians(), -1.0_f64.to_radians()), 8);
  }

  #[test]
  fn test_hash_2() {
    for depth in 0..10 {
      let nside = nside(depth);
      let layer = nested::get_or_create(depth);
      for icell in 0..layer.n_hash() {
        let (lon, lat) = layer.center(icell);
        assert_eq!(hash(nside, lon, lat), layer.to_ring(icell));
      }
    }
  }

  #[test]
  fn test_hash_3() {
    let nside = 4_u32;
    let lon = 4.71238898;
    let lat = -1.15965846;
    let h = hash(nside, lon, lat);
    println!("h: {}", &h);
  }
  
  #[test]
  fn test_deal_with_1x1_box() {
    let mut i_ring = 0;
    let mut i_in_ring = 0;

    deal_with_1x1_box(0.0, 0.0, &mut i_ring, &mut i_in_ring);
    assert_eq!(i_ring, 1);
    assert_eq!(i_in_ring, 0);

    i_ring = 0;
    i_in_ring = 0;
    deal_with_1x1_box(0.5, 0.0, &mut i_ring, &mut i_in_ring);
    assert_eq!(i_ring, 0);
    assert_eq!(i_in_ring, 0);

    i_ring = 0;
    i_in_ring = 0;
    deal_with_1x1_box(0.9, 0.5, &mut i_ring, &mut i_in_ring);
    assert_eq!(i_ring, 1);
    assert_eq!(i_in_ring, 1);

    i_ring = 0;
    i_in_ring = 0;
    deal_with_1x1_box(0.5, 0.9, &mut i_ring, &mut i_in_ring);
    assert_eq!(i_ring, 2);
    assert_eq!(i_in_ring, 0);

    i_ring = 0;
    i_in_ring = 0;
    deal_with_1x1_box(0.5, 0.5, &mut i_ring, &mut i_in_ring);
    assert_eq!(i_ring, 2);
    assert_eq!(i_in_ring, 0);

    i_ring = 0;
    i_in_ring = 0;
    deal_with_1x1_box(0.25, 0.75, &mut i_ring, &mut i_in_ring);
    assert_eq!(i_ring, 2);
    assert_eq!(i_in_ring, 0);

    i_ring = 0;
    i_in_ring = 0;
    deal_with_1x1_box(0.75, 0.75, &mut i_ring, &mut i_in_ring);
    assert_eq!(i_ring, 2);
    assert_eq!(i_in_ring, 0);

    i_ring = 0;
    i_in_ring = 0;
    deal_with_1x1_box(0.75, 0.25, &mut i_ring, &mut i_in_ring);
    assert_eq!(i_ring, 1);
    assert_eq!(i_in_ring, 1);

    i_ring = 0;
    i_in_ring = 0;
    deal_with_1x1_box(0.25, 0.25, &mut i_ring, &mut i_in_ring);
    assert_eq!(i_ring, 1);
    assert_eq!(i_in_ring, 0);
  }
  
  #[test]
  fn test_dldh_to_dxdy() {
    assert_eq!(dldh_to_dxdy(0.0, 0.0), (0.0, 0.0));
    assert_eq!(dldh_to_dxdy(0.5, 0.0), (0.5, 0.5));
    assert_eq!(dldh_to_dxdy(0.0, 0.5), (0.5, 0.5));
    assert_eq!(dldh_to_dxdy(0.5, 1.0), (0.5, 0.5));
    assert_eq!(dldh_to_dxdy(1.0, 0.5), (0.5, 0.5));

    assert_eq!(dldh_to_dxdy(0.25, 0.25), (0.5, 0.0));
    assert_eq!(dldh_to_dxdy(0.75, 0.25), (0.0, 0.5));
    assert_eq!(dldh_to_dxdy(0.75, 0.75), (0.5, 0.0));
    assert_eq!(dldh_to_dxdy(0.25, 0.75), (0.0, 0.5));
  }
  
  #[test]
  fn test_center() {
    let nside = 2;
    let ipix = 33;
    // let center = 
    println!("{:?}", center_of_projected_cell(nside, ipix));
    let (lon, lat) = center(nside, ipix);
    println!("(lon: {}, lat: {})", lon.to_degrees(), lat.to_degrees());
    /* dx 0.5 dy 0.5*/
  }
  
  #[test]
  fn test_center_2() {
    let nside = 2;
    assert_eq!(center_of_projected_cell(nside,  2), (5.0,  1.5));
    assert_eq!(center_of_projected_cell(nside, 46), (5.0, -1.5));

  }

  #[test]
  fn test_center_3() {
    let nside = 4;
    let l2 = nested::get_or_create(2);
    // NPC
    let ipix = 7;
    assert_eq!(
      center_of_projected_cell(nside, ipix),
      l2.center_of_projected_cell(l2.from_ring(ipix))
    );
    // SPC
    let ipix = 183;
    assert_eq!(
      center_of_projected_cell(nside, ipix),
      l2.center_of_projected_cell(l2.from_ring(ipix))
    );
    
    // let center = 
    //let (lon, lat) = center(nside, ipix);
    //println!("(lon: {}, lat: {})", lon.to_degrees(), lat.to_degrees());

    // println!("hash: {}", hash(nside, lon, lat));
  }
  
}
