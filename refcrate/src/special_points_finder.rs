use std::f64::consts::PI;

use super::{Customf64, HALF_PI, PI_OVER_FOUR, TRANSITION_Z, ONE_OVER_TRANSITION_Z};
use super::sph_geom::coo3d::*;
// use super::sph_geom::{Polygon};


/// Returns the coordinates (lon, lat) of the "special points" the given great-circle arc contains
/// (if any). Most of the time the result will be empty or will contains a single value.
/// A list is returned for the (rare?) cases in which an great-circle arc overlap both the 
/// equatorial region and a polar cap(s), and contains a special point in both.
/// # Inputs
/// - `p1` first point of the great-circle arc
/// - `p2` second point of the great_-circle arc
/// - `z_eps_max` the target precision on z (used to stop the Newton-Raphson method), 
///               a reasonable choice may be `|p2.z - p1.z|/ 1000`.
///               Internally, the value can't be higher than `|z2 - z1| / 50`
///               nor lower than `1e-15`.
/// - `n_iter_max` upper limit on the number of iteration to be used in the Newton-Raphson method
///               a reasonable choice may be 20.
pub fn arc_special_points<'a>(mut p1: &'a Coo3D, mut p2: &'a Coo3D, z_eps_max: f64, n_iter_max: u8) -> Box<[LonLat]> {
  // Ensure p1.z() < p2.z()
  if p1.z() > p2.z() {
    let tmp = p1;
    p1 = p2;
    p2 = tmp;
  }
  if TRANSITION_Z <= p1.z() || p2.z() <= -TRANSITION_Z { // NPC only or SPC only
    match arc_special_point_in_pc(p1, p2, z_eps_max, n_iter_max) {
      Some(lonlat) => Box::new([lonlat; 1]),
      None => Vec::new().into_boxed_slice(),
    }
  } else if -TRANSITION_Z <= p1.z() && p2.z() <= TRANSITION_Z { // EQR only
    match arc_special_point_in_eqr(p1, p2, z_eps_max, n_iter_max) {
      Some(lonlat) => Box::new([lonlat; 1]),
      None => Vec::new().into_boxed_slice(), 
    }
  } else if p1.z() < -TRANSITION_Z { // SPC, EQR (and maybe NPC)
    let mut res: Vec<LonLat> = Vec::with_capacity(3);
    let v_eqr_south = Coo3D::from(intersect_with_transition_lat_spc(p1, p2).unwrap());
    if let Some(lonlat) = arc_special_point_in_pc(p1, &v_eqr_south, z_eps_max, n_iter_max) {
      res.push(lonlat);
    }
    if p2.z() <= TRANSITION_Z {
      if let Some(lonlat) = arc_special_point_in_eqr(&v_eqr_south, p2, z_eps_max, n_iter_max) {
        res.push(lonlat);
      }
    } else {
      let v_eqr_north = Coo3D::from(intersect_with_transition_lat_npc(p1, p2).unwrap());
      if let Some(lonlat) = arc_special_point_in_eqr(&v_eqr_south, &v_eqr_north, z_eps_max, n_iter_max) {
        res.push(lonlat);
      }
      if let Some(lonlat) = arc_special_point_in_pc(&v_eqr_north, p2, z_eps_max, n_iter_max) {
        res.push(lonlat);
      }
    }
    res.into_boxed_slice()
  } else { // both EQR and NPC
    let mut res: Vec<LonLat> = Vec::with_capacity(2);
    let v_eqr_north = Coo3D::from(intersect_with_transition_lat_npc(p1, p2).unwrap());
    if let Some(lonlat) = arc_special_point_in_eqr(p1, &v_eqr_north, z_eps_max, n_iter_max) {
      res.push(lonlat);
    }
    if let Some(lonlat) = arc_special_point_in_pc(&v_eqr_north, p2, z_eps_max, n_iter_max) {
      res.push(lonlat);
    }
    res.into_boxed_slice()
  }
}


///////////////////////
// EQUATORIAL REGION //
///////////////////////

/// Returns the coordinate `z` (= sin(lat)) of the point such that the tangent line to the cone
/// on the projection plane has a slope equals to `+-1`, i.e. `d(DeltaX)/dY = +-1`.
/// The longitude can then be computed by solving the equation of the cone.
/// The sign of the slope is given by the parameter `positive_slope`.
/// 
/// This method is valid on the Equatorial Zone only (cylindrical equal area projection). 
/// It is ok for radius > 20 mas:
///  - if radius < 20 mas = 1e-7 rad, then 1 - 2*sin^2(r/2) = 1 - 1e-14 which is close from the 
/// precision of a double floating point.
///
/// The function rely on the Newton-Raphson method to solve `(DeltaX)/dY -+ 1 = 0`.
///
// TEST
// ```math
// \boxed{
//   \left\{
//     \begin{array}{lcl}
//       X & = & \alpha \times \frac{4}{\pi} \\
//       Y & = & \sin(\delta) \times \frac{3}{2}
//     \end{array}
//   \right.
// }
// \Rightarrow
// \left\{
//   \begin{array}{lcl}
//     \alpha \in [0, 2\pi] & \leadsto &  X \in [0, 8] \\
//     \sin\delta \in [-\frac{2}{3}, \frac{2}{3}] & \leadsto & Y \in [-1, 1]
//   \end{array}
// \right.
// ```
/// 
/// # Inputs
/// - `z` the Newton-Raphson method starting point. Reasonable choices are
///   - `sin(lat + 0.8 * radius)` when looking for the north special points (returned `z` > `z_cone_centre`)   
///   - `sin(lat - 0.8 * radius)` when looking for the south special points (returned `z` < `z_cone_centre`)
/// - `z0` the sine of the latitude of the center of the cone (= z_0)
/// - `eucl_cone_radius` the euclidean radius of the cone, i.e. $`2\sin(\frac{\theta}{2})`$
/// - `north_point`:
///   - `true`  if you look for `z` > `z_cone_centre` (i.e. equations Y = -X + b, north part of the cone)  
///   - `false` if you look for `z` < `z_cone_centre` (i.e. equations Y =  X + b, south part of the cone)
/// - `z_eps_max` the target precision on z (used to stop the Newton-Raphson method), 
///               a reasonable choice may be `eucl_cone_radius / 1000`.
///               Internally, the value can't be higher than `eucl_cone_radius / 50`
///               nor lower than `1e-15`.
/// - `n_iter_max` upper limit on the number of iteration to be used in the Newton-Raphson method
///               a reasonable choice may be 20.
/// # Output
/// - `Some(z)` the sine of the latitude of the point such that the tangent line to the cone
///       on the projection plane has a slope equals to `+-1`.
/// - `None` if the computed latitude is out of the Equatorial Region
pub fn cone_special_point_in_eqr(mut z: f64, z0: f64, eucl_cone_radius: f64, north_point: bool,
  z_eps_max: f64, n_iter_max: u8) -> Option<f64> {
  // Compute constants
  let cte = if north_point { // negative slope
    -ONE_OVER_TRANSITION_Z * PI_OVER_FOUR
  } else { // positive slope
    ONE_OVER_TRANSITION_Z * PI_OVER_FOUR
  };
  let w0 = 1.0 - z0.pow2();
  let r = 1.0 - eucl_cone_radius.pow2().half();
  //  Newton-Raphson method
  let z_eps_max = z_eps_max.min(0.2e-1 * eucl_cone_radius).max(1.0e-15);
  let mut z_eps = 1.0_f64;
  let mut n_iter = 0_u8;
  while n_iter < n_iter_max && z_eps.abs() > z_eps_max {
    z_eps = f_over_df_eqr(z, z0, w0, cte, r);
    z -= z_eps;
    n_iter += 1;
  }
  debug_assert!(z.is_finite());
  if z.abs() < TRANSITION_Z {
    debug_assert!((north_point && z >= z0) || (!north_point && z <= z0));
    Some(z)
  } else {
    None
  }
}

/// Check if the great-circle arc (defined by the smallest distance between the two
/// given points) contains a 'special point', i.e. a point such such that a tangent line
/// arc on the projection plane has a slope equals to `+-1`, i.e. `d(DeltaX)/dY = +-1`.
/// 
/// # Inputs
/// - `p1` first point of the great-circle arc
/// - `p2` second point of the great_-circle arc
/// - `p1_cross_p2` the (not necessarily normalized) cross-product `p1 x p2` (we pass it as a 
///   parameter since it is already computed when working on polygons, the cross product can be
///   indifferently `p1 x p2` or `p2 x p1`)
/// - `z_eps_max` the target precision on z (used to stop the Newton-Raphson method), 
///               a reasonable choice may be `|p2.z - p1.z|/ 1000`.
///               Internally, the value can't be higher than `|z2 - z1| / 50`
///               nor lower than `1e-15`.
/// - `n_iter_max` upper limit on the number of iteration to be used in the Newton-Raphson method
///               a reasonable choice may be 20.
/// # Output
/// - `Some(z)` the sine of the latitude of the point such that the tangent line to great-circle
///   arc (if it exists) has a slope equals to `+-1`.
/// - `None` if the arc do not contains a tangent line of slope '+-1', or if the result
///   if not in the equatorial region.
pub fn arc_special_point_in_eqr(p1: &Coo3D, p2: &Coo3D, 
                                             z_eps_max: f64, n_iter_max: u8) -> Option<LonLat> {
  let cone_center = cross_product(&p1, &p2).normalized();
  let z0 = cone_center.z();
  let z1 = p1.z();
  let z2 = p2.z();
  let north_point = z0 < 0.0;
  // Compute constants
  let cte = if north_point {
    -ONE_OVER_TRANSITION_Z * PI_OVER_FOUR
  } else {
    ONE_OVER_TRANSITION_Z * PI_OVER_FOUR
  };
  // Remark: r = 1 - 2 sin^2(pi/2 / 2) = 1 - 2 * (sqrt(2)/2)^2 = 0
  let w0 = 1.0 - z0.pow2();
  // Test if we start the method or not.
  let d1 = f_eqr(z1, z0, w0, cte, 0.0);
  let d2 = f_eqr(z2, z0, w0, cte, 0.0);
  if have_same_sign(d1, d2) {
    return None;
  }
  // Newton-Raphson method
  let z_eps_max = z_eps_max.min(0.2e-1 * (z2 - z1).abs()).max(1.0e-15);
  let mut z = (z1 + z2).half(); // mean of z1 and z2
  let mut z_eps = 1.0_f64;
  let mut n_iter = 0_u8;
  while n_iter < n_iter_max && z_eps.abs() > z_eps_max {
    z_eps = f_over_df_eqr(z, z0, w0, cte, 0.0);
    z -= z_eps;
    n_iter += 1;
  }
  // z must be in the [z1, z2] range
  debug_assert!((z1 <= z2 && z1 <= z && z <= z2) || (z2 < z1 &&  z2 <= z && z <= z1));
  if z.abs() < TRANSITION_Z {
    let v = intersect_small_circle(p1, p2, z).unwrap();
    Some(v.lonlat())
  } else {
    None
  }
}

/// Computes dX / dY in the equatorial region
#[inline]
fn f_eqr(z: f64, z0: f64, w0: f64, cte: f64, r: f64) -> f64 {
  let w = 1.0 - z.pow2(); // in equatortial region, -2/3 < z < 2/3
  let q = z / w;          // so q is always defined
  let n = r - z * z0;
  (z0 - q * n) / (w0 * w - n.pow2()).sqrt() - cte
}

/// Computes the ratio (dX / dY) / (d^2X / dY^2) in the equatorial region
#[inline]
fn f_over_df_eqr(z: f64, z0: f64, w0: f64, cte: f64, r: f64) -> f64 {
  let w = 1.0 - z.pow2();
  let q = z / w;
  let n = r - z * z0;
  let sqrt_d2_minus_n2 = (w0 * w - n.pow2()).sqrt();
  let qn = q * n;
  let dalphadz = (z0 - qn) / sqrt_d2_minus_n2;
  let f = dalphadz - cte;
  let df = (q * (z0.twice() - 3.0 * qn) - n * (1.0 / w + dalphadz.pow2())) / sqrt_d2_minus_n2;
  f / df
}

////////////////
// POLAR CAPS //
////////////////

/// Returns the coordinate `z` (=sin(lat)) of the point such that the tangent line to the cone
/// on the projection plane has a slope equals to `+-1`, i.e. `d(DeltaX)/dY = +-1`.
/// 
/// This method is valid on the polar caps only (Collignon projection). 
/// It is ok for radius > 20 mas:
///  - if radius < 20 mas = 1e-7 rad, then 1 - 2*sin^2(r/2) = 1 - 1e-14 which is close from the 
/// precision of a double floating point.
///
/// The function rely on the Newton-Raphson method to solve `(DeltaX)/dY -+ 1 = 0`.
///
/// # Inputs
/// - `z` the Newton-Raphson method starting point. Reasonable choices are
///   - `sin(lat - 0.9 * radius)` for positive slopes (returned `z` < `z_cone_centre`)
///   - `sin(lat + 0.9 * radius)` for negative slopes (returned `z` > `z_cone_centre`) 
/// - `z0` the sine of the latitude of the center of the cone (= z_0)
/// - `eucl_cone_radius` the euclidean radius of the cone, i.e. `2*sin(ang_radius / 2)`
/// - `positive_slope`:
///   - `true`  if you look for `z` < `z_cone_centre` (i.e. equations Y =  X + b, south part of the cone)
///   - `false` if you look for `z` > `z_cone_centre` (i.e. equations Y = -X + b, north part of the cone)
/// - `z_eps_max` the target precision on z (used to stop the Newton-Raphson method), 
///               a reasonable choice may be `cone_radius_rad / 1000`.
///               Internally, the value can't be higher than `eucl_cone_radius / 50`
///               nor lower than `1e-15`.
/// - `n_iter_max` upper limit on the number of iteration to be used in the Newton-Raphson method
/// 
/// # Output
/// - `Some(z)` the sine of the latitude of the point such that the tangent line to the cone
///       on the projection plane has a slope equals to `+-1`.
/// - `None` if the computed latitude is out of the North Polar Cap
///
/// 
/// # Warning
/// - if the longitude computed from the returned `z` is
///   - `> pi/2` in case of `east_value = true`
///   - `< 0` in case of `east_value = false` 
/// - then the solution must be rejected and re-computed considering:
///   - case `north_value = true`
///     - `cone_center_lon_mod_half_pi - pi/2` and still North-East in case of `east_value = true`
///     - `cone_center_lon_mod_half_pi + pi/2` and still North-West in case of `east_value = false`
///   - case `north_value = false`
///     - `cone_center_lon_mod_half_pi - pi/2` and still South-East in case of `east_value = true`
///     - `cone_center_lon_mod_half_pi + pi/2` and still South-West in case of `east_value = false`
pub fn cone_special_point_in_pc(mut z: f64, cone_center_lon_mod_half_pi: f64,
  mut z0: f64, eucl_cone_radius: f64, east_value: bool, mut north_value: bool,
  z_eps_max: f64, n_iter_max: u8) -> Option<f64> {
  let spc =  z < 0.0; // south polar cap
  if spc {
    z = -z;
    z0 = -z0;
    north_value = !north_value;
  }
  // Compute constants
  let cte = if north_value { -PI_OVER_FOUR.half() } else { PI_OVER_FOUR.half() };
  let  w0 = 1.0 - z0.pow2();
  let r = 1.0 - eucl_cone_radius.pow2().half();
  let direction = if east_value { 1.0 } else { -1.0 };
  // Newton-Raphson method
  let z_eps_max = z_eps_max.min(0.2e-1 * eucl_cone_radius).max(1.0e-15);
  let mut n_iter = 0_u8;
  let mut z_eps = 1.0_f64;
  while n_iter < n_iter_max && z_eps.abs() > z_eps_max {
    z_eps = f_over_df_npc(z, cone_center_lon_mod_half_pi, z0, w0, cte, direction, r);
    z -= z_eps;
    n_iter += 1;
  }
  // Cas cone contient le pole ou deborde sur les autres quarter A TRAITER ICI ?!
  if z.is_finite() && z > TRANSITION_Z {
    Some(if spc { -z } else { z })
  } else {
    None
  }
}

// check_multi_base_cells: must be set to true at first call!!
pub fn arc_special_point_in_pc<'a>(
  mut p1: &'a Coo3D, mut p2: &'a Coo3D, z_eps_max: f64, n_iter_max: u8) -> Option<LonLat> {
  // Ensure p1.lon() < p2.lon()
  if p1.lon() > p2.lon() {
    let tmp = p1;
    p1 = p2;
    p2 = tmp;
  }
  // Check if great-circle arc overlap several base cells
  debug_assert!(p1.lon() % HALF_PI >= 0.0);
  debug_assert!(p2.lon() % HALF_PI >= 0.0);
  let lon1_div_half_pi = p1.lon().div_eucl(HALF_PI) as u8;
  let lon2_div_half_pi = p2.lon().div_eucl(HALF_PI) as u8;
  debug_assert!(lon1_div_half_pi < 4);
  debug_assert!(lon2_div_half_pi < 4);
  debug_assert!(lon1_div_half_pi <= lon2_div_half_pi);
  // TODO: clean the code to make it more compact: i.e., method larger plane / smaller plane
  if lon1_div_half_pi != lon2_div_half_pi {
    let mut res_z1 = None;
    let mut res_z2 = None;
    // Info to understand the code
    // - the normal to the plane ra = q * pi/2, with q = 0 or 2 is n = (0, 1, 0)
    // - the normal to the plane ra = q * pi/2, with q = 1 or 3 is n = (1, 0, 0)
    if p2.lon() - p1.lon() > PI {
      // Cross lon = 0
      let p2p1_n = cross_product(p2, p1).normalized();
      if p2.lon() % HALF_PI > 0.0 { // First quarter, [p2.lon, ((p2.lon % PI/2) + 1) * PI/2]
        debug_assert!(lon2_div_half_pi > 0);
        let n2_y = lon2_div_half_pi & 1;
        let n2 = Coo3D::from_vec3((n2_y ^ 1) as f64, n2_y as f64, 0.0);
        let intersect2 = Coo3D::from(intersect_point_pc(&p1, p2, &p2p1_n, &n2));
        debug_assert!(p2.lon() < intersect2.lon());
        res_z2 = arc_special_point_in_pc_same_quarter(p2, &intersect2, z_eps_max, n_iter_max);
      }
      // Second quarter [(p1.lon % PI/2) * PI/2, p1.lon]
      debug_assert!(lon1_div_half_pi < 3);
      let n1_y = lon1_div_half_pi & 1;
      let n1 = Coo3D::from_vec3((n1_y ^ 1) as f64, n1_y as f64, 0.0);
      let intersect1 = Coo3D::from(intersect_point_pc(&p1, &p2, &p2p1_n, &n1));
      debug_assert!(p1.lon() < intersect1.lon());
      res_z1 = arc_special_point_in_pc_same_quarter(p1, &intersect1, z_eps_max, n_iter_max);
    } else {
      let p1p2_n = cross_product(p1, p2).normalized();
      if p1.lon() % HALF_PI > 0.0 { // First quarter, [p1.lon, ((p1.lon % PI/2) + 1) * PI/2]
        debug_assert!(lon1_div_half_pi < 3);
        let n1_y = lon1_div_half_pi & 1;
        let n1 = Coo3D::from_vec3((n1_y ^ 1) as f64, n1_y as f64, 0.0);
        let intersect1 = Coo3D::from(intersect_point_pc(&p1, &p2, &p1p2_n, &n1));
        debug_assert!(p1.lon() < intersect1.lon());
        res_z1 = arc_special_point_in_pc_same_quarter(p1, &intersect1, z_eps_max, n_iter_max);
      }
      // Last quarter [(p2.lon % PI/2) * PI/2, p2.lon]: empty if p2 is on the meridian separating the two quarters
      if p2.lon() % HALF_PI > 0.0 {
        debug_assert!(lon2_div_half_pi > 0);
        let n2_x = lon2_div_half_pi & 1;
        let n2 = Coo3D::from_vec3(n2_x as f64, (n2_x ^ 1) as f64, 0.0);
        let intersect2 = Coo3D::from(intersect_point_pc(&p1, &p2, &p1p2_n, &n2));
        debug_assert!(intersect2.lon() < p2.lon());
        res_z2 = arc_special_point_in_pc_same_quarter(&intersect2,  p2, z_eps_max, n_iter_max);
      }
    }
    if res_z1.is_some() {
      res_z1
    } else {
      res_z2
    }
  } else { // Same quarter
    arc_special_point_in_pc_same_quarter(p1, p2, z_eps_max, n_iter_max)
  }
}

// Here we assume that the great-circle arc is in a same quarter
// (i.e. (p1.lon % pi/2) == (p2.lon % pi/2) (except if one of the two point is on a border n * pi/2)  
fn arc_special_point_in_pc_same_quarter( 
  p1: &Coo3D, p2: &Coo3D, z_eps_max: f64, n_iter_max: u8) -> Option<LonLat> {
  debug_assert!(p1.lon() < p2.lon());
  let mut p2_mod_half_pi = p2.lon() % HALF_PI;
  if p2_mod_half_pi == 0.0 {
    p2_mod_half_pi = HALF_PI;
  }
  let v1 = Coo3D::from_sph_coo(p1.lon() % HALF_PI, p1.lat());
  let v2 = Coo3D::from_sph_coo(p2_mod_half_pi, p2.lat());
  let mut cone_center = cross_product(&v1, &v2).normalized();
  let lonlat = cone_center.lonlat();
  if lonlat.lon() > PI {
    cone_center = cone_center.opposite();
  }
  let cone_center_lon = cone_center.lonlat().lon();
  //debug_assert!(0 <= cone_center_lon && cone_center_lon <= );
  let mut z0 = cone_center.z();
  let mut z1 = v1.z();
  let mut z2 = v2.z();
  let mut north_value = z0 < 0.0;
  // ( here we could have but do not use the fact that we previously ensure that p1.lon() < p2.lon() )
  let east_value = ((v1.lat() > v2.lat()) ^ (v1.lon() > v2.lon())) ^ !north_value;
  // Deal with NPC / SPC
  let mut  z = (z1 + z2).half(); // (0.1 * z1 + 0.9 * z2); //(z1 + z2).half(); // mean of z1 and z2
  let spc =  z < 0.0;   // south polar cap
  if spc {
    z = -z;
    z1 = -z1;
    z2 = -z2;
    z0 = -z0;
    north_value = !north_value;
  }
  // Compute constants
  //  - remark: r = 1 - 2 sin^2(pi/2 / 2) = 1 - 2 * (sqrt(2)/2)^2 = 0
  let cte = if north_value { -PI_OVER_FOUR.half() } else { PI_OVER_FOUR.half() };
  let w0 = 1.0 - z0.pow2();
  let direction = if east_value { 1.0 } else { -1.0 };
  // Test if we start the method or not
  let d1 = f_npc(z1, cone_center_lon, z0, w0, cte, direction, 0.0);
  let d2 = f_npc(z2, cone_center_lon, z0, w0, cte, direction, 0.0);
  if have_same_sign(d1, d2) {
    return None;
  }
  // Choose an initial value
  let dz = f_over_df_npc(z, cone_center_lon, z0, w0, cte, direction, 0.0);
  z -= dz;
  if !((z1 < z && z < z2) || (z2 < z && z < z1)) {
    z = z2 - f_over_df_npc(z2, cone_center_lon, z0, w0, cte, direction, 0.0);
    if !((z1 < z && z < z2) || (z2 < z && z < z1)) {
      z = z1 - f_over_df_npc(z1, cone_center_lon, z0, w0, cte, direction, 0.0);
    }
  }
  // Newton-Raphson method
  let z_eps_max = z_eps_max.min(0.2e-1 * (z2 - z1).abs()).max(1.0e-15);
  let mut n_iter = 0_u8;
  let mut z_eps = 1.0_f64;
  while n_iter < n_iter_max && z_eps.abs() > z_eps_max {
    z_eps = f_over_df_npc(z, cone_center_lon, z0, w0, cte, direction, 0.0);
    z -= z_eps;
    n_iter += 1;
  }
  // Return result if seems correct
  if z.is_finite() && z > TRANSITION_Z && ((z1 < z && z < z2) || (z2 < z && z < z1)) {
    if spc {
      let v = intersect_small_circle(p1, p2, -z).unwrap();
      Some(v.lonlat())
    } else {
      let v = intersect_small_circle(p1, p2, z).unwrap();
      Some(v.lonlat())
    }
  } else {
    None
  }
}

/// Returns the intersection point between the given arc (of given normal vector)
/// and the plane of given normal vector
/// WARNING: only valid in polar caps since we use 'z' to determine if we have to take the 
/// result of (p1 x p2) x n or its complements (here we have the guarantee that 
/// sign(p1.z) = sign(p2.z) must be = sign(res.z)
#[inline]
fn intersect_point_pc(p1: &Coo3D, p2: &Coo3D, p1_x_p2: &UnitVect3, n: &Coo3D) -> UnitVect3 {
  debug_assert!(p1.z().abs() >= TRANSITION_Z  && p2.z().abs() >= TRANSITION_Z);
  debug_assert_eq!(p1.z() > 0.0, p2.z() > 0.0);
  let intersect = cross_product(p1_x_p2, n).normalized();
  if !have_same_sign(intersect.z(), p1.z()) {
    intersect.opposite()
  } else {
    intersect
  }
}

/// Computes dX / dY in the north polar cap
#[inline]
fn f_npc(z: f64, cone_center_lon_mod_half_pi: f64, z0: f64, w0: f64, cte: f64, direction: f64, r: f64) -> f64 {
  let w = 1.0 - z ;
  let w2 = 1.0 - z.pow2();
  let q = z / w2;
  let n = r - z * z0;
  let d2 = w0 * w2;
  let sqrt_d2_minus_n2 = (d2 - n.pow2()).sqrt();
  let qn = q * n;
  let arccos = (n / d2.sqrt()).acos();
  let dalphadz = (z0 - qn) / sqrt_d2_minus_n2;
  let f = direction * w * dalphadz
    - 0.5 * (direction * arccos + cone_center_lon_mod_half_pi - PI_OVER_FOUR) + cte;
  f
}

/// Computes the ratio (dX / dY) / (d^2X / dY^2) in the north polar cap
#[inline]
fn f_over_df_npc(z: f64, cone_center_lon_mod_half_pi: f64, z0: f64, w0: f64, cte: f64, direction: f64, r: f64) -> f64 {
  let w = 1.0 - z ;
  let w2 = 1.0 - z.pow2();
  let q = z / w2;
  let n = r - z * z0;
  let d2 = w0 * w2;
  let sqrt_d2_minus_n2 = (d2 - n.pow2()).sqrt();
  let qn = q * n;
  let arccos = (n / d2.sqrt()).acos();
  let dalphadz = (z0 - qn) / sqrt_d2_minus_n2;
  let f = direction * w * dalphadz
    - 0.5 * (direction * arccos + cone_center_lon_mod_half_pi - PI_OVER_FOUR) + cte;
  let df = -ONE_OVER_TRANSITION_Z * direction * dalphadz
    + (direction * w / sqrt_d2_minus_n2)
    * (q * (z0.twice() - 3.0 * qn) - n * (1.0 / w2 + dalphadz.pow2()));
  f / df
}

/// Returns the intersection of the given great-circle arc (defined by the smallest distance 
/// between the two given points) and the small circle of given z (equation $`z=cte`$).
/// Let's use the following notations:
/// - Coordinates of $`\vec{a}\times\vec{b} = (x_0, y_0, z_0)`$
/// - Coordinates of the points we are looking for $`\vec{i} = (x, y, z=cte)`$ 
/// We look for `x` and `y` solving 
/// ```math
/// \left\{
///   \begin{array}{rcl}
///     x^2 + y^2 + z^2 & = & 1 \\
///     xx_0 + yy_0 + zz_0 & = & 0 \\
///     (x - x_0)^2 + (y - y_0)^2 + (z - z_0)^2 & = & 2 \mathrm(unused)
///   \end{array}
/// \right.
/// ```
/// It leads to
/// ```math
/// \left\{
///   \begin{array}{rcl}
///     y & = & - \left(x\frac{x_0}{y_0} - \frac{zz_0}{y_0}\right) \\
///     0 & = & x^2(1+\frac{x_0^2}{y_0^2}) + x\frac{2x_0zz_0}{y_0^2} + (\frac{zz_0}{y_0})^2 - (x_0^2 + y_0^2)
///   \end{array}
/// \right.
/// ```
/// We solve the quadratic equation
/// ```math
/// \left\{
///   \begin{array}{rcl}
///     ax^2 + bx + c & = & 0 \\
///     \Delta & = & b^2 - 4ac \\
///     x & = & \frac{-b\pm \sqrt{\Delta}}{2a} 
///   \end{array}
/// \right.
/// ```
/// If $`y_0 = 0`$, we directly derive the result:
/// ```math
/// \left\{
///   \begin{array}{rcl}
///     x & = & -\frac{zz_0}{x_0} \\
///     y & = & \pm\sqrt{1 - x^2 - z^2} = \pm\sqrt{1 - z^2(1 + \frac{z_0^2}{x_0^2})}
///   \end{array}
/// \right.
/// ```
/// In both cases, two solutions are available.
/// We select the pair $`(x, y)`$ such that both scalar products with the two great-circle arc 
/// points are higher than the two points scalar product.
pub fn intersect_small_circle<T1, T2>(p1: &T1, p2: &T2, z: f64) -> Option<UnitVect3>
  where T1: UnitVec3, T2: UnitVec3 {
  debug_assert!(-1.0 <= z && z <= 1.0);
  if  (p1.z() < z && z < p2.z()) || (p2.z() < z && z < p1.z()) {
    let p1_dot_p2 = dot_product(p1, p2);
    let p1_x_p2 = cross_product(p1, p2).normalized();
    let x0= p1_x_p2.x();
    let y0= p1_x_p2.y();
    let z0= p1_x_p2.z();
    if y0.abs() <= 1e-14 {
      let x = -(z * z0) / x0;
      let y1 = (1.0 - (x.pow2() + z.pow2())).sqrt();
      let y2 = -y1;
      if p1.x() * x + p1.y() * y1 + p1.z() * z >= p1_dot_p2
        && p2.x() * x + p2.y() * y1 + p2.z() * z >= p1_dot_p2 {
        return Some(UnitVect3::new_unsafe(x, y1, z));
      } else if p1.x() * x + p1.y() * y2 + p1.z() * z >= p1_dot_p2
             && p2.x() * x + p2.y() * y2 + p2.z() * z >= p1_dot_p2 {
        return Some(UnitVect3::new_unsafe(x, y2, z));
      } else {
        // Numerical inaccuracies (very small arc: the scalar products differ by less than their rounding errors):
        // the solution on the arc is the one closest to the arc middle, i.e. having the largest y * (y1 + y2)
        let y = if (p1.y() + p2.y()) * y1 >= 0.0 { y1 } else { y2 };
        return Some(UnitVect3::new_unsafe(x, y, z));
      }
    } else {
      let x0_y0 = x0 / y0;
      let zz0_y0 = z * z0 / y0;
      let a = 1.0 + x0_y0.pow2();
      let b = 2.0 * x0_y0 * zz0_y0;
      let c = zz0_y0.pow2() + z.pow2() - 1.0;
      let sqrt_delta = (b.pow2() - 4.0 * a * c).sqrt();
      let x1 = (-b + sqrt_delta) / a.twice();
      let y1 = -x1 * x0_y0 - zz0_y0;
      let x2 = (-b - sqrt_delta) / a.twice();
      let y2 = -x2 * x0_y0 - zz0_y0;
      if   p1.x() * x1 + p1.y() * y1 + p1.z() * z >= p1_dot_p2
        && p2.x() * x1 + p2.y() * y1 + p2.z() * z >= p1_dot_p2 {
        return Some(UnitVect3::new_unsafe(x1, y1, z));
      } else if p1.x() * x2 + p1.y() * y2 + p1.z() * z >= p1_dot_p2
             && p2.x() * x2 + p2.y() * y2 + p2.z() * z >= p1_dot_p2 {
        return Some(UnitVect3::new_unsafe(x2, y2, z));
      } else {
        // Numerical inaccuracies (very small arc: the scalar products differ by less than their rounding errors):
        // the solution on the arc is the one closest to the arc middle, i.e. having the largest scalar product with p1 + p2
        let (mx, my) = (p1.x() + p2.x(), p1.y() + p2.y());
        return Some(if mx * x1 + my * y1 >= mx * x2 + my * y2 {
          UnitVect3::new_unsafe(x1, y1, z)
        } else {
          UnitVect3::new_unsafe(x2, y2, z)
        });
      }
    }
  } else {
    None
  }
}

#[inline]
fn have_same_sign(d1: f64, d2: f64) -> bool {
  d1 == 0.0 || d2 == 0.0 || ((d1 > 0.0) == (d2 > 0.0))
}

/// Returns the intersection of the given great-circle arc (defined by the smallest distance 
/// between the two given points) and the small circle of equation $`z=2/3`$.
/// (Internally, we simply call [intersect_small_circle](fn.intersect_small_circle.html) with
/// z = 2/3).
#[inline]
fn intersect_with_transition_lat_npc<T1, T2>(p1: &T1, p2: &T2) -> Option<UnitVect3>
  where T1: UnitVec3, T2: UnitVec3 {
  intersect_small_circle(p1, p2, TRANSITION_Z)
}

/// Returns the intersection of the given great-circle arc (defined by the smallest distance 
/// between the two given points) and the small circle of equation $`z=-2/3`$.
/// (Internally, we simply call [intersect_small_circle](fn.intersect_small_circle.html) with
/// z = -2/3).
#[inline]
fn intersect_with_transition_lat_spc<T1, T2>(p1: &T1, p2: &T2) -> Option<UnitVect3>
  where T1: UnitVec3, T2: UnitVec3 {
  intersect_small_circle(p1, p2, -TRANSITION_Z)
}
