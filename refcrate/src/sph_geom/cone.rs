
// use rand::{thread_rng, Rng};

use super::coo3d::*;

#[derive(Debug)]
pub struct Cone {
  center: UnitVect3,
  radius: f64, // in radians
}

impl Cone {
  
  /*pub fn new<T: UnitVec3>(center: T, radius: f64) {
    
  }*/

  pub fn new(center: UnitVect3, radius: f64) -> Cone {
    Cone {center, radius}
  }

  /* Commented because not used so far
  /// Returns the smallest cone enclosing the given input points.
  /// Retuns `None` if the radius is > to ~48.7 deg (since for a higher value we have to test the 
  /// 12 base cells). We use this since the algorithm is not made to work with nonreflex cones (i.e.
  /// if input points are distributed on more than an hemisphere).
  /// For a more general algorithm working with reflex cones, one should have a look at the 
  /// very similar "minimum enclosing sphere" problem (which is probably more efficient since
  /// the code here use angular distances and thus computes trigonometric functions).
  /// We use the algorithm of 
  /// Barequet & Elber (2005) "Optimal bounding cones of vectors in three dimensions",
  /// [see here](https://www.sciencedirect.com/science/article/pii/S0020019004002911?via%3Dihub).
  pub fn mec(points: &[UnitVec3]) -> Option<Cone> {
    match points.len() {
      0 | 1 => None,
      2 => mec_2(points[0], points[1]),
      3 => mec_3(points[0], points[1], points[2]),
      _ => mec_n(points),
    }    
  }*/

/// Returns a bounding cone (not the smalles one), i.e. a cone containing all the given points.
pub fn bounding_cone<T: UnitVec3>(points: &[T]) -> Cone {
  // Comppute center
  let mut x = 0.0;
  let mut y = 0.0;
  let mut z = 0.0;
  for coo in points {
    x += coo.x();
    y += coo.y();
    z += coo.z();
  }
  let n = points.len() as f64;
  x /= n;
  y /= n;
  z /= n;
  let norm = (pow2(x) + pow2(y) + pow2(z)).sqrt();
  let center = UnitVect3::new(x / norm, y / norm, z / norm);
  // Compute dmax
  let mut d2_max = center.squared_euclidean_dist(&points[0]);
  for k in 1..points.len() {
    let d2 = center.squared_euclidean_dist(&points[k]);
    if d2 > d2_max {
      d2_max = d2;
    }
  }
  Cone::new(center, 2.0 * (0.5 * d2_max.sqrt()).asin())
}

pub fn radius(&self) -> f64 {
  self.radius
}

pub fn center(&self) -> &UnitVect3 {
  &self.center
}

/* Commented because not used so far
/// Returns `true` if the given point is inside the cone.
pub fn contains<T: Vec3 + UnitVec3>(&self, point: &T) -> bool {
  self.center.ang_dist(point) <= self.radius
}
*/

}


/* Commented because not used so far
/// Returns the minimum enclosing cone, i.e. the cone containig the two given points and having
/// the smallest possible radius. In this trivial case, the diameter of the cone is the arc (ab).
#[inline]
fn mec_2<T: Vec3 + UnitVec3>(a: &T, b: &T) -> Cone {
  let radius = 0.5 * a.ang_dist(b);
  let center = a.arc_center(b);
  Cone::new(center, radius)
}
*/

/* Commented because not used so far
///  Returns the Minimum Enclosing Cone, i.e. the cone containig the three given points and having
/// the smallest possible radius.
fn mec_3<T: Vec3 + UnitVec3>(a: &T, b: &T, c: &T) -> Cone {
let da = b.ang_dist(c);
let db = a.ang_dist(c);
let dc = a.ang_dist(b);
let mut radius = dc;
let mut center = if da > db && da > dc {
  radius = da;
  b.arc_center(c)
} else if db > dc {
  radius = db;
  a.arc_center(c)
} else {
  a.arc_center(b)
};
radius *= 0.5;
if c.ang_dist(&center) > radius {
  radius = circum_radius(da, db, dc);
  center = circum_center(a, b, c, radius);
}
Cone::new(center, radius)
}
*/


// We remove the dependance to rand
/*fn mec_n(entry_points: &[UnitVec3]) -> Option<Cone> {
const R_MAX: f64 = SMALLER_EDGE2OPEDGE_DIST[0];
let mut rng = thread_rng();
let mut points: Vec<&UnitVec3> = points.iter().map(|v| v).collect();
rng.shuffle(points[0..points.len()]);
let mut cone = mec_2(points[0], points[1]);
if cone.radius > R_MAX { return None; }
for i in 2..p.len() {
  if !cone.contains(points[i]) {
    rng.shuffle(points[0..i]); // try without this and compare performances
    cone = mec_2(points[0], points[i]);
    if cone.radius > R_MAX { return None; }
    for j in 1..i {
      if !cone.contains(points[j]) {
        rng.shuffle(points[0..j]); // try without this and compare performances
        cone = mec_2(points[j], points[i]);
        if cone.radius > R_MAX { return None; }
        for k in 0..j {
          if !cone.contains(points[k]) {
            cone = mec_3(points[k], points[j], points[i]);
            if cone.radius > R_MAX { return None; }
          }
        }
      }
    }
  }
}
return Some(cone);
}*/

/* Commented because not used so far
/// Returns the angular radius (in radians) of the circumcircle of a
/// spherical triangle of given side lengths a, b and c.
/// # Inputs:
/// - `a` first size length (in radians)
/// - `b` second size length (in radians)
/// - `c` third size length (in radians)
/// # Output: 
/// - the circumcircle angular radius (in radians)
#[inline]
fn circum_radius(a: f64, b: f64, c: f64) -> f64 {
  let sin_half_a = (0.5 * a).sin();
  let sin_half_b = (0.5 * b).sin();
  let sin_half_c = (0.5 * c).sin();
  let n = pow2(sin_half_a * sin_half_b * sin_half_c);
  let d = 0.25 
    * (sin_half_a + sin_half_b + sin_half_c) 
    * (sin_half_a + sin_half_b - sin_half_c)
    * (sin_half_a - sin_half_b + sin_half_c) 
    * (sin_half_b + sin_half_c - sin_half_a);
  (n / d).sqrt().asin()
}
*/


/* Commented because not used so far
/// Computes the center on the unit sphere of the circumcircle of radius r of a spherical triangle 
/// of given vertices a, b and c.
/// # Inputs:
/// - `a` first vertex
/// - `b` second vertex
/// - `c` third vertex
/// - `radius` spherical radius of the circumcircle
/// # Output: 
/// - the center on the unit sphere of the circumcircle of radius r of a spherical triangle of given
///   vertices a, b and c.
fn circum_center<T: Vec3 + UnitVec3>(a: &T, b: &T, c: &T, radius: f64) -> UnitVect3 {
  let e = 1.0 - 0.5 * pow2(radius);
  // Simple cramer resolution of AX = E (here A --> X)
  let d = a.x() * (b.y() * c.z() - c.y() * b.z())
        - b.x() * (a.y() * c.z() - c.y() * a.z())
        + c.x() * (a.y() * b.z() - b.y() * a.z());
  let  x = b.y() * c.z() - c.y() * b.z() 
         - a.y() * c.z() + c.y() * a.z() 
         + a.y() * b.z() - b.y() * a.z();
  let y = a.x() * (c.z() - b.z()) - b.x() * (c.z() - a.z()) + c.x() * (b.z() - a.z());
  let z = a.x() * (b.y() - c.y()) - b.x() * (a.y() - c.y()) + c.x() * (a.y() - b.y());
  UnitVect3::new((e * x) / d, (e * y) / d, (e * z) / d)
}
*/

#[inline]
fn pow2(x: f64) -> f64 {
x * x
}

