
use std::f64::{EPSILON};
use std::f64::consts::{PI};

use super::super::Customf64;

const TWO_PI: f64 = 2.0 * PI;
const HALF_PI: f64 = 0.5 * PI;

// see https://www.nalgebra.org/


// Euclidean coordinates

pub trait Vec3 {
  
  fn new(x: f64, y: f64, z: f64) -> Self where Self: Sized;
  
  fn x(&self) -> f64;
  fn y(&self) -> f64;
  fn z(&self) -> f64;
  
  fn norm(&self) -> f64 { 
    self.squared_norm().sqrt()
  }
  
  fn squared_norm(&self) -> f64 {
    // squared_norm_of(Vec3::x(self), Vec3::y(self), Vec3::z(self))
    squared_norm_of(self.x(), self.y(), self.z())
  }
  
  fn dot_product<V: Vec3>(&self, other: &V) -> f64 {
    // Vec3::x(self) * vec3.x() + Vec3::y(self) * vec3.y() + Vec3::z(self) * vec3.z()
    self.x() * other.x() + self.y() * other.y() + self.z() * other.z()
  }
  
  fn lonlat(&self) -> (f64, f64) {
    // lonlat_of(Vec3::x(self), Vec3::y(self), Vec3::z(self))
    lonlat_of(self.x(), self.y(), self.z())
  }
  
  fn opposite(&self) -> Self where Self: Sized{
    Self::new(-self.x(), -self.y(), -self.z())
  }

  fn squared_euclidean_dist<V: Vec3>(&self, other: &V) -> f64 {
    pow2(self.x() - other.x()) + pow2(self.y() - other.y()) + pow2(self.z() - other.z())
  }

  fn euclidean_dist<V: Vec3>(&self, other: &V) -> f64 {
    self.squared_euclidean_dist(other).sqrt()
  }

  #[inline]
  fn normalized(&self) -> UnitVect3 {
    let norm = self.norm();
    UnitVect3 {
      x: self.x() / norm,
      y: self.y() / norm,
      z: self.z() / norm,
     }
  }

  /*#[inline]
  fn normalized_opposite(&self) -> UnitVect3 {
    let norm = self.norm();
    UnitVect3 {
      x: -self.x() / norm,
      y: -self.y() / norm,
      z: -self.z() / norm,
    }
  }*/
}

// Apply to all references to a type that implements the Vec3 trait
impl<'a, T> Vec3 for &'a T where T: Vec3 {
  
  fn new(_x: f64, _y: f64, _z: f64) -> Self { // Voir si ca marche en pratique
    panic!("Method must be defined for each implementor!");
  }
  
  #[inline]
  fn x(&self) -> f64 { Vec3::x(*self) }

  #[inline]
  fn y(&self) -> f64 { Vec3::y(*self) }

  #[inline]
  fn z(&self) -> f64 { Vec3::z(*self) }
}

// impl<'a, T> Vec3 for &'a mut T where T: Vec3 {}




pub trait UnitVec3: Vec3 {

  /*#[inline]
  fn check_is_unit(&self) {
    assert!(UnitVect3D::is_unit_from_squared_norm(self.squared_norm()));
  }*/
  
  fn cross_prod_norm<T: Vec3 + UnitVec3>(&self, other: &T) -> f64 {
    let nx = self.y() * other.z() - self.z() * other.y();
    let ny = self.z() * other.x() - self.x() * other.z();
    let nz = self.x() * other.y() - self.y() * other.x();
    (nx.pow2() + ny.pow2() + nz.pow2()).sqrt()
  }
  
  /// Compute the angular distance between this vector and the other given vector
  fn ang_dist<T: Vec3 + UnitVec3>(&self, other: &T) -> f64 {
    let cos = self.dot_product(other);
    let sin = self.cross_prod_norm(other);
    debug_assert!(sin >= 0.0);
    sin.atan2(cos)
    /* As noticed by M. Reinecke, the folowing formula is numerically unstable for angles near PI.
    let half_eucl = 0.5 * self.euclidean_dist(other);
    2.0 * half_eucl.asin()*/
    // One can use also use the Vincenty formula from (lon_a, lat_a), (lon_b, lat_b)
  }
  
  /// Returns the angular
  fn arc_center<T: Vec3 + UnitVec3>(&self, other: &T) -> UnitVect3 {
    let one_over_twice_norm = 1.0 / (1.0 + self.dot_product(other));
    if one_over_twice_norm.is_infinite() {
      UnitVect3 {x: 1.0, y: 0.0, z: 0.0} // any Unit vector is ok
    } else {
      // Check for numerical inaccuracy in cases where one_over_twice_norm 
      // is very large but not infinite?
      UnitVect3 {
        x: one_over_twice_norm * (self.x() + other.x()),
        y: one_over_twice_norm * (self.y() + other.y()),
        z: one_over_twice_norm * (self.z() + other.z()),
      }
    }
  }
  
  fn to_struct(&self) -> UnitVect3 {
    UnitVect3{x: self.x(), y: self.y(), z: self.z() }
  }

  /*fn to_opposite(&self) -> UnitVect3 {
    UnitVect3{x: -self.x(), y: -self.y(), z: -self.z() }
  }*/
}

#[inline]
fn pow2(x: f64) -> f64 {
  x * x
}

/* Commented beacause not used so far
#[inline]
pub fn norm_of(x: f64, y: f64, z: f64) -> f64 {
  squared_norm_of(x, y, z).sqrt()
}
*/

#[inline]
pub fn squared_norm_of(x: f64, y: f64, z: f64) -> f64 {
  x.pow2() + y.pow2() + z.pow2()
}

/* Commented beacause not used so far
#[inline]
pub fn is_unit(x: f64, y: f64, z: f64) -> bool {
  is_unit_from_squared_norm(x.pow2() + y.pow2() + z.pow2())
}*/

#[inline]
pub fn is_unit_from_norm(norm: f64) -> bool {
  (norm - 1.0_f64).abs() <= EPSILON
}

#[inline]
pub fn is_unit_from_squared_norm(squared_norm: f64) -> bool {
  is_unit_from_norm(squared_norm)
}


/*#[inline]
pub fn dot_product(v1: &Vec3, v2: &Vec3) -> f64 {
  v1.x() * v2.x() + v1.y() * v2.y() + v1.z() * v2.z()
}*/

#[inline]
pub fn dot_product<T1, T2>(v1: &T1, v2: &T2) -> f64 
  where T1: Vec3, T2: Vec3 {
  v1.x() * v2.x() + v1.y() * v2.y() + v1.z() * v2.z()
}

#[inline]
pub fn cross_product<T1, T2>(v1: T1, v2: T2) -> Vect3
  where T1: Vec3, T2: Vec3 {
  Vect3::new(
    v1.y() * v2.z() - v1.z() * v2.y(),
    v1.z() * v2.x() - v1.x() * v2.z(),
    v1.x() * v2.y() - v1.y() * v2.x()
  )
}

/* Commented beacause not used so far
#[inline]
pub fn cross_product_opt<T1, T2>(o1: Option<T1>, o2: Option<T2>) -> Option<Vect3>
  where T1: Vec3, T2: Vec3 {
  if o1.is_none() || o2.is_none() {
    None
  } else {
    Some(cross_product(o1.unwrap(), o2.unwrap()))
  }
}*/

/*#[inline]
WE CAN COMPUTE THE coo OF NON UNIT VECTS!!
pub fn lonlat_of(mut x: f64, mut y: f64, mut z: f64) -> (f64, f64) {
  let squared_norm = squared_norm_of(x, y, z);
  if !is_unit_from_squared_norm(squared_norm) {
    let norm = squared_norm.sqrt();
    x /= norm;
    y /= norm;
    z /= norm;
  }
  lonlat_of_unsafe(x, y, z)
}*/

#[inline]
pub fn lonlat_of(x: f64, y: f64, z: f64) -> (f64, f64) {
  let mut lon = y.atan2(x);
  if lon < 0.0_f64 {
    lon += TWO_PI;
  } else if lon == TWO_PI {
    lon = 0.0;
  }
  let lat = z.atan2((x.pow2() + y.pow2()).sqrt());
  debug_assert!(0.0 <= lon && lon <= TWO_PI);
  debug_assert!(-HALF_PI <= lat && lat < HALF_PI);
  (lon, lat)
}

#[derive(Debug)]
pub struct Vect3 {
  x: f64,
  y: f64,
  z: f64,
}

/*impl Vect3 {
  pub fn new(x: f64, y: f64, z: f64) -> Vect3 {
    Vect3{ x, y, z }
  }
}*/

impl Vec3 for Vect3 {
  #[inline]
  fn new(x: f64, y: f64, z: f64) -> Vect3 { // Self where Self: Sized;
    Vect3{ x, y, z }
  }
  #[inline]
  fn x(&self) -> f64 { self.x }

  #[inline]
  fn y(&self) -> f64 { self.y }

  #[inline]
  fn z(&self) -> f64 { self.z }
}

// pub struct UnitVect3 (f64, f64, f64);
#[derive(Debug)]
pub struct UnitVect3 {
  x: f64,
  y: f64,
  z: f64,
}

impl UnitVect3 {
  /*pub fn new(x: f64, y: f64, z: f64) -> UnitVect3 {
    let norm2 = squared_norm_of(x, y, z);
    if is_unit_from_squared_norm(norm2) {
      UnitVect3::new_unsafe(x, y, z)
    } else {
      let norm = norm2.sqrt();
      UnitVect3::new_unsafe(x / norm, y / norm, z / norm)
    }
    
  }*/
  
  #[inline]
  pub fn new_unsafe(x: f64, y: f64, z: f64) -> UnitVect3 {
    UnitVect3{ x, y, z }
  }
  
  #[inline]
  pub fn lonlat(&self) -> LonLat {
    let mut lon = f64::atan2(self.y(), self.x());
    if lon < 0.0_f64 {
      lon += TWO_PI;
    }
    let lat = f64::atan2(self.z(), (self.x.pow2() + self.y.pow2()).sqrt());
    LonLat {lon, lat}
  }
}

impl Vec3 for UnitVect3 {
  
  fn new(x: f64, y: f64, z: f64) -> UnitVect3 {
    let norm2 = squared_norm_of(x, y, z);
    if is_unit_from_squared_norm(norm2) {
      UnitVect3::new_unsafe(x, y, z)
    } else {
      let norm = norm2.sqrt();
      UnitVect3::new_unsafe(x / norm, y / norm, z / norm)
    }
  }
  
  #[inline]
  fn x(&self) -> f64 { self.x }

  #[inline]
  fn y(&self) -> f64 { self.y }

  #[inline]
  fn z(&self) -> f64 { self.z }
}


impl UnitVec3 for UnitVect3 {

}

// Geographic coordinates

pub trait LonLatT {
  fn lon(&self) -> f64;
  fn lat(&self) -> f64;
  fn vec3(&self) -> UnitVect3 {
    vec3_of(self.lon(), self.lat())
  }
}

// Apply to all references to a type that implements the Vec3 trait
impl<'a, T> LonLatT for &'a T where T: LonLatT {
  #[inline]
  fn lon(&self) -> f64 { LonLatT::lon(*self) }

  #[inline]
  fn lat(&self) -> f64  { LonLatT::lat(*self) }

  #[inline]
  fn vec3(&self) -> UnitVect3 {
    LonLatT::vec3(*self)
  }
}

// pub const fn vec3_of(lon: f64, lat: f64) -> UnitVect3 {
pub fn vec3_of(lon: f64, lat: f64) -> UnitVect3 {
  let (sin_lon, cos_lon) = lon.sin_cos();
  let (sin_lat, cos_lat) = lat.sin_cos();
  UnitVect3 {
    x: cos_lat * cos_lon,
    y: cos_lat * sin_lon,
    z: sin_lat,
  }
} 

#[derive(Debug)]
pub struct LonLat {
  pub lon: f64, 
  pub lat: f64,
}

impl LonLatT for LonLat {
  #[inline]
  fn lon(&self) -> f64 {
    self.lon
  }
  #[inline]
  fn lat(&self) -> f64 {
    self.lat
  }
}

// Specific Coo3D

#[derive(Debug)]
pub struct Coo3D {
  x: f64,
  y: f64,
  z: f64,
  lon: f64,
  lat: f64,
}

impl Coo3D {

  pub fn from<T: UnitVec3>(v: T) -> Coo3D {
    Coo3D::from_vec3(v.x(), v.y(), v.z())
  }
  
  pub fn from_vec3(x: f64, y: f64, z: f64) -> Coo3D {
    let (lon, lat) = lonlat_of(x, y, z);
    Coo3D {x, y, z, lon, lat}
  }
  
  /// lon and lat in radians
  pub fn from_sph_coo(lon: f64, lat: f64) -> Coo3D {
    let v = vec3_of(lon, lat);
    if lon < 0.0 || TWO_PI <= lon || lat < -HALF_PI || HALF_PI < lat {
      let (new_lon, new_lat) = lonlat_of(v.x(), v.y(), v.z());
      Coo3D {x: v.x(), y: v.y(), z: v.z(), lon: new_lon, lat: new_lat}
    } else {
      Coo3D {x: v.x(), y: v.y(), z: v.z(), lon, lat}
    }
  }
  
}

impl LonLatT for Coo3D {

  #[inline]
  fn lon(&self) -> f64 { self.lon }

  #[inline]
  fn lat(&self) -> f64 { self.lat }
}

impl Vec3 for Coo3D {
  
  #[inline]
  fn new(x: f64, y: f64, z: f64) -> Coo3D {
    Coo3D::from_vec3(x, y, z)
  }
  
  #[inline]
  fn x(&self) -> f64 { self.x }
  
  #[inline]
  fn y(&self) -> f64 { self.y }
  
  #[inline]
  fn z(&self) -> f64 { self.z }
}

impl UnitVec3 for Coo3D { }


