use std::f64::NAN;

use super::proj::*;
use super::super::HALF_PI;
use super::super::xy_geom::ellipse::*;
use super::super::Customf64;

#[derive(Debug)]
pub struct EllipticalCone {
  center: ProjSIN, // the center of the projection is the center of the cone 
  ellipse: Ellipse,
  // Ellipse parameters
  a: f64,  // semi-major axis, in radians
  b: f64,  // semi-minor axis, in radians
  theta_sin_cos: (f64, f64), // (pi/2 - position angle).sin_cos()
}

impl EllipticalCone {
  
  /// #Inputs
  /// - `lon` longitude of the ellipse center, in radians
  /// - `lat` latitude of the ellipse center, in radians
  /// - `a` semi-major axis of the ellipse, in radians
  /// - `b` semi-minor axis of the ellipse, in radians
  /// - `pa` position angle (east of north), in radians
  pub fn new(lon: f64, lat: f64, a: f64, b: f64, pa: f64) -> EllipticalCone {
    let center = ProjSIN::new(lon, lat);
    let theta_sin_cos = (HALF_PI - pa).sin_cos();
    let ellipse = Ellipse::from_oriented(a.sin(), b.sin(), theta_sin_cos);
    EllipticalCone {
      center,
      ellipse,
      a,
      b,
      theta_sin_cos,
    }
  }

  /// Returns `true` if the given point on the unit sphere is inside the elliptical cone.
  /// # Inputs
  /// - `lon` longitude of the point we want to test, in radians
  /// - `lat` latitude of the point we want to test, in radians
  pub fn contains(&self, lon: f64, lat: f64) -> bool {
    match self.center.proj(lon, lat) {
      Some((x, y)) => self.ellipse.contains(x, y),
      None => false,
    }
  }
  
  /// Returns `true` if the given cone overlap the elliptical cone.
  /// # Inputs
  /// - `lon` longitude of the center of the cone, in radians
  /// - `lat` latitude of the center of the cone, in radians
  /// - `radius` cone radius, in radians
  /// 
  /// # Info
  /// To properly address the question, one should try to see if the following equations system has
  /// at least one solution:
  /// ```math
  /// \frac{x^2}{\tan^2a} + \frac{y^2}{\tan^2b} = z^2
  /// (x - x_0)^2 + (y - y_0)^2 + (z - z_0)^2  = 4\sin^2\frac{\theta}{2}
  /// x^2 + y^2 + z^2 = 0
  /// ```
  /// with `a` and `b` which are angles and
  /// ```math
  /// x = \cos\delta\cos\alpha
  /// y = \cos\delta\sin\alpha
  /// z = \sin\delta
  /// ```
  /// This system can be replaced by (the second equation being the angular distance formula):
  /// ```math
  /// \frac{\cos^2\alpha}{\tan^2a} + \frac{\sin^2\alpha}{\tan^2b} = \tan^2\delta
  /// \sin\delta\sin\delta_0 + \cos\delta\cos\delta_0\cos(\alpha-\alpha_0) = \cos\theta
  /// ```
  /// - The first equation is the elliptical cone equation
  /// - The second is the classical cone equation
  /// - $(x_ 0, y_ 0, z_ 0)$ are obtained by rotation of the original cone center such that the 
  ///   elliptical cone is center is $(x = 0, y = 0, z = 1)$, and the x-axis is along the semi-major
  ///   axis.
  /// 
  /// # Info 2
  /// Contrary to the above Info, another (the best?) approach is to compute the coordinates of the
  /// two ellipse foci F0 and F1. The sum of the distances f0 and f1 to both foci is constant with:
  /// ```math
  /// f0 + f1 = 2a
  /// ```
  /// 
  pub fn overlap_cone(&self, lon: f64, lat: f64, radius: f64) -> bool {
    assert!(radius > 0.0);
    let ((x, y), ang_dist, top_hemisphere) =  self.center.forced_proj_and_distance(lon, lat);
    if self.a + radius < ang_dist { // Quick rejection test
        return false;
    }
    // The projection of a cone on a plane is an ellipse
    let proj_d_min = (ang_dist - radius).sin();
    let proj_d_max = (ang_dist + radius).sin();
    let proj_a = radius.sin();                          // projected ellipse semi-major axis
    let proj_b = 0.5 * (proj_d_max - proj_d_min).abs(); // projected ellipse semi-minor axis
    let one_over_norm = 1.0 / (x.pow2() + y.pow2()).sqrt(); // distance from (0, 0) to the cone projected center (!= ellipse center)
    if !one_over_norm.is_finite() {
       // Special case: the center of the HEALPix cell is the center of the ellipse
       return radius <= self.b;
    }
    // phi = angle of the (x, y) position in the euclidean plane
    let cos_phi = x * one_over_norm;
    let sin_phi = y * one_over_norm;
    let sin_cos_angle = if sin_phi >= 0.0 {
      (-cos_phi, sin_phi)
    } else {
      (cos_phi, -sin_phi)
    };
    let proj_ell = Ellipse::from_oriented(proj_a, proj_b, sin_cos_angle);
    let proj_ell_dist = 0.5 * (proj_d_max + proj_d_min); // distance from (0, 0) to ellipse center
    let proj_ell_x = proj_ell_dist * cos_phi;
    let proj_ell_y = proj_ell_dist * sin_phi;
    if top_hemisphere {
      self.ellipse.overlap(proj_ell_x, proj_ell_y, &proj_ell)
    } else {
      // The projection of the center of the cone is in the back hemisphere
      // so the area to be considered looks like a crescent moon.
      // So far we apply the same algo, knowing that at deeper depth cells will have less changes
      // to spuriously overlap
      self.ellipse.overlap(proj_ell_x, proj_ell_y, &proj_ell)
    }
  }

  /// Returns `true` if the given cone is fully inside the elliptical cone.
  /// # Inputs
  /// - `lon` longitude of the center of the cone, in radians
  /// - `lat` latitude of the center of the cone, in radians
  /// - `radius` cone radius, in radians
  pub fn contains_cone(&self, lon: f64, lat: f64, radius: f64) -> bool {
    if radius >= self.b {
      false
    } else {
      match self.center.proj(lon, lat) {
        Some((x, y)) => {
          let eucl_a = (self.a - radius).sin();
          let eucl_b = (self.b - radius).sin();
          // WARNING: not sure this is a 100% reliable for large distances!
          // A 100% reliable solution would be to compute the distance to both foci:
          //   (f0 + f1)/2 <= a - r
          Ellipse::from_oriented(eucl_a, eucl_b, self.theta_sin_cos).contains(x, y)
        },
        None => false,
        }
    }
  }

  pub fn path_along_edge(lon: f64, lat: f64, a: f64, b: f64, theta: f64, half_num_points: usize) -> Box<[(f64, f64)]> {
    let center = ProjSIN::new(lon, lat);
    let mut ar = Ellipse::path_along_edge(a.sin(), b.sin(), HALF_PI - theta, half_num_points);
    for coo in ar.iter_mut() {
      *coo = match center.unproj(coo.0, coo.1) {
        Some(lonlat) => lonlat,
        None => (NAN, NAN),
      };
    }
    ar
  }

}
