//! Module containing spherical geometry structures and methods like 3D vectors, 
//! polygon or cone on the unit sphere...

pub mod coo3d; // made public for polygon query et webasembly
pub(super) mod cone;
pub(super) mod elliptical_cone;
pub(super) mod proj;

use std::f64::consts::{PI};
use super::TWICE_PI;



use self::coo3d::{Vect3, Vec3, UnitVect3, LonLat, LonLatT, Coo3D, cross_product, dot_product};


trait ContainsSouthPoleComputer {
  fn contains_south_pole(&self, vertices: &Box<[Coo3D]>, cross_products: &Box<[Vect3]>) -> bool;
}
/// We explicitly tell that the south pole is inside the polygon.
struct ProvidedTrue;
impl ContainsSouthPoleComputer for ProvidedTrue {
  #[inline]
  fn contains_south_pole(&self, _vertices: &Box<[Coo3D]>, _cross_products: &Box<[Vect3]>) -> bool {
    true
  }
}
/// We explicitly tell that the south pole is NOT inside the polygon.
struct ProvidedFalse;
impl ContainsSouthPoleComputer for ProvidedFalse {
  #[inline]
  fn contains_south_pole(&self, _vertices: &Box<[Coo3D]>, _cross_products: &Box<[Vect3]>) -> bool {
    false
  }
}
/// Consider the south pole to be inside the polygon if the sum of consecutive longitude
/// differences equals 2pi and if there is more vertices in the south hemisphere than in the 
/// north hemisphere.
struct Basic;
impl ContainsSouthPoleComputer for Basic {
  fn contains_south_pole(&self, vertices: &Box<[Coo3D]>, _cross_products: &Box<[Vect3]>) -> bool {
    let mut n_vertices_in_south_hemisphere = 0_usize;
    let mut sum_delta_lon = 0.0_f64;
    let mut j = (vertices.len() - 1) as usize;
    for i in 0..=j {
      let delta_lon = vertices[i].lon() - vertices[j].lon();
      let abs_delta_lon = delta_lon.abs();
      if abs_delta_lon <= PI {
        sum_delta_lon += delta_lon;
      } else if delta_lon > 0.0 {
        sum_delta_lon -= TWICE_PI - abs_delta_lon;
      } else {
        sum_delta_lon += TWICE_PI - abs_delta_lon;
      }
      if vertices[i].lat() < 0.0 {
        n_vertices_in_south_hemisphere += 1;
      }
      j = i;
    }
    return sum_delta_lon.abs() > PI // sumDeltaLon = 0 or -2PI or 2PI
      && (n_vertices_in_south_hemisphere << 1) > vertices.len(); // more vertices in south than in north  
  }
}

static PROVIDED_TRUE: ProvidedTrue = ProvidedTrue;
static PROVIDED_FALSE: ProvidedFalse = ProvidedFalse;
static BASIC: Basic = Basic;

pub enum ContainsSouthPoleMethod {
  TRUE,
  FALSE,
  DEFAULT,
}

impl ContainsSouthPoleComputer for ContainsSouthPoleMethod {
  fn contains_south_pole(&self, vertices: &Box<[Coo3D]>, cross_products: &Box<[Vect3]>) -> bool {
    match self {
      ContainsSouthPoleMethod::TRUE    => PROVIDED_TRUE.contains_south_pole(vertices, cross_products),
      ContainsSouthPoleMethod::FALSE   => PROVIDED_FALSE.contains_south_pole(vertices, cross_products),
      ContainsSouthPoleMethod::DEFAULT => BASIC.contains_south_pole(vertices, cross_products),
    }
  }
}

// static NORTH_POLE: Coo3D = Coo3D::from_sph_coo(PI, HALF_PI);
// static NORTH_POLE: Vect3 = Vect3::vec3_of(PI, HALF_PI);

pub struct Polygon {
  vertices: Box<[Coo3D]>,
  cross_products: Box<[Vect3]>,
  contains_south_pole: bool,  
}

impl Polygon {
  
  pub fn new(vertices: Box<[LonLat]>) -> Polygon {
    Polygon::new_custom(vertices, ContainsSouthPoleMethod::DEFAULT)
  }

  pub fn new_custom(vertices: Box<[LonLat]>, method: ContainsSouthPoleMethod) -> Polygon {
    let vertices: Box<[Coo3D]> = lonlat2coo3d(vertices);
    let cross_products: Box<[Vect3]> = compute_cross_products_v2(&vertices);
    let contains_south_pole = method.contains_south_pole(&vertices, &cross_products);
    Polygon {
      vertices,
      cross_products,
      contains_south_pole,
    }
  }

  pub fn vertices(&self) -> &[Coo3D] {
    &self.vertices
  } 
  
  /// Returns `true` if the polygon contain the point of given coordinates `coo`.
  #[inline]
  pub fn contains(&self, coo: &Coo3D) -> bool {
    self.contains_south_pole ^ self.odd_num_intersect_going_south(coo)
  }
  
  
  /// Returns `true` if an edge of the polygon intersects the great-circle arc defined by the 
  /// two given points (we consider the arc having a length < PI).
  pub fn intersect_great_circle_arc(&self, a: &Coo3D, b: &Coo3D) -> bool {
    // double ua, ub;
    // Ensure a < b in longitude
    let mut a = a;
    let mut b = b;
    if a.lon() > b.lon() {
      let swp = a;
      a = b;
      b = swp;
    }
    // 
    let n_vertices = self.vertices.len();
    let mut left = &self.vertices[n_vertices - 1];
    for i in 0..n_vertices {
      let right = &self.vertices[i];
      {
        // Ensures pA < pB in longitude
        let mut pa = left;
        let mut pb = right;
        if pa.lon() > pb.lon() {
          let swp = pa;
          pa = pb;
          pb = swp;
        }
        if great_circle_arcs_are_overlapping_in_lon(a, b, pa, pb) {
          let ua = dot_product(a, &self.cross_products[i]);
          let ub = dot_product(b, &self.cross_products[i]);
          if polygon_edge_intersects_great_circle(ua, ub)
              && intersect_point_in_polygon_great_circle_arc(a, b, pa, pb, ua, ub) {
            return true;
          }
        }
      }
      left = right;
    }
    false
  }
  
  
  #[inline]
  fn odd_num_intersect_going_south(&self, coo: &Coo3D) -> bool {
    let mut c = false;
    let n_vertices = self.vertices.len();
    let mut left = &self.vertices[n_vertices - 1];
    for i in 0..n_vertices {
      let right = &self.vertices[i];
      if is_in_lon_range(coo,  &left,  &right)
        && cross_plane_going_south(coo, &self.cross_products[i]) {
        c = !c;
      }
      left = right;
    }
    c
  }
  
}

#[inline]
fn lonlat2coo3d(vertices: Box<[LonLat]>) -> Box<[Coo3D]> {
  vertices.iter().map(|lonlat| Coo3D::from_sph_coo(lonlat.lon, lonlat.lat))
    .collect::<Vec<Coo3D>>().into_boxed_slice()
}

#[cfg(test)]
#[inline]
fn lonlat2coo3d_v2(vertices: Box<[LonLat]>) -> Vec<Coo3D> {
  let mut res = Vec::with_capacity(vertices.len());
  for i in 0..vertices.len() {
    let ll = &vertices[i];
    res.push(
      Coo3D::from_sph_coo(ll.lon, ll.lat)
    );
  }
  res
}

#[cfg(test)]
#[inline]
fn compute_cross_products(vertices: &Box<[Coo3D]>) -> Box<[Vect3]> {
  let cross_products: Vec<Vect3> = (0..vertices.len()).into_iter()
    .map(|i| cross_product(
      vertices.get(i).unwrap(),
      vertices.get((i + 1) % vertices.len()).unwrap()))
    .map(|v| 
      if v.z() < 0.0 {
        v.opposite()
      } else {
        v
      })
    .collect();
  cross_products.into_boxed_slice()
}


#[inline]
fn compute_cross_products_v2(vertices: &Box<[Coo3D]>) -> Box<[Vect3]> {
  let mut i = (vertices.len() - 1) as usize;
  let cross_products: Vec<Vect3> = (0..=i).into_iter()
    .map(|j| {
      let v1 = vertices.get(i).unwrap();
      let v2 = vertices.get(j).unwrap();
      i = j;
      cross_product(v1, v2)
    })
    .map(|v|
      if v.z() < 0.0 {
        v.opposite()
      } else {
        v
      })
    .collect();
  cross_products.into_boxed_slice()
}



/// Returns `true` if the given point `p` longitude is between the given vertices `v1` and `v2`
/// longitude range
#[inline]
fn is_in_lon_range(coo: &Coo3D, v1: &Coo3D, v2: &Coo3D) -> bool {
  // First version of the code: 
  //   ((v2.lon() - v1.lon()).abs() > PI) != ((v2.lon() > coo.lon()) != (v1.lon() > coo.lon()))
  // 
  // Lets note 
  //   - lonA = v1.lon()
  //   - lonB = v2.lon()
  //   - lon0 = coo.lon()
  // When (lonB - lonA).abs() <= PI 
  //   => lonB > lon0 != lonA > lon0  like in PNPOLY
  //   A    B    lonA <= lon0 && lon0 < lonB
  // --[++++[--
  //   B    A    lonB <= lon0 && lon0 < lonA
  //
  // But when (lonB - lonA).abs() > PI, then the test should be 
  //  =>   lonA >= lon0 == lonB >= lon0 
  // <=> !(lonA >= lon0 != lonB >= lon0)
  //    A  |  B    (lon0 < lonB) || (lonA <= lon0)
  //  --[++|++[--
  //    B  |  A    (lon0 < lonA) || (lonB <= lon0)
  //
  // Instead of lonA > lon0 == lonB > lon0,
  //     i.e. !(lonA > lon0 != lonB > lon0).
  //    A  |  B    (lon0 <= lonB) || (lonA < lon0)
  //  --]++|++]--
  //    B  |  A    (lon0 <= lonA) || (lonB < lon0)
  //
  // So the previous code was bugged in this very specific case: 
  // - `lon0` has the same value as a vertex being part of:
  // - one segment that do not cross RA=0
  //   - plus one segment crossing RA=0.
  //   - the point have an odd number of intersections with the polygon 
  //     (since it will be counted 0 or 2 times instead of 1).
  let dlon = v2.lon() - v1.lon();
  if dlon < 0.0 {
    (dlon >= -PI) == (v2.lon() <= coo.lon() && coo.lon() < v1.lon())
  } else {
    (dlon <=  PI) == (v1.lon() <= coo.lon() && coo.lon() < v2.lon())
  }
}

/// Returns `true` if the two given great_circle arcs have their longitudes ranges which overlaps.
fn great_circle_arcs_are_overlapping_in_lon(a: &Coo3D, b: &Coo3D, pa: &Coo3D, pb: &Coo3D) -> bool {
 (pb.lon() - pa.lon() > PI) ^ (a.lon() <= pb.lon() && b.lon() >= pa.lon() && (b.lon() - a.lon()) <= PI)
}

/// Returns `true` if the line at constant `(x, y)` and decreasing `z` going from the given point
/// toward south intersect the plane of given normal vector. The normal vector must have a positive
/// z coordinate (=> must be in the north hemisphere)
#[inline]
fn cross_plane_going_south<T1, T2>(coo: &T1, plane_normal_dir_in_north_hemisphere: &T2) -> bool
  where T1: Vec3, T2: Vec3 {
  dot_product(coo, plane_normal_dir_in_north_hemisphere) > 0.0
}

/// Tells if the great-circle arc from vector a to vector b intersects the plane of the 
/// great circle defined by its normal vector N.
/// # Inputs:
/// - `a_dot_edge_normal` the dot product of vector a with the great circle normal vector N.
/// - `b_dot_edge_normal` the dot product of vector b with the great circle normal vector N.
/// # Output:
///  - `true` if vectors a and b are in opposite part of the plane having for normal vector vector N.
#[inline]
fn polygon_edge_intersects_great_circle(a_dot_edge_normal: f64, b_dot_edge_normal: f64) -> bool {
  (a_dot_edge_normal > 0.0) != (b_dot_edge_normal > 0.0)
}


/// Tells if the intersection line (i) between the two planes defined by vector a, b and pA, pB
/// respectively is inside the zone `[pA, pB]`.
fn intersect_point_in_polygon_great_circle_arc(
  a: &Coo3D, b: &Coo3D, pa: &Coo3D, pb: &Coo3D, a_dot_edge_normal: f64, b_dot_edge_normal: f64) -> bool {
  let intersect = normalized_intersect_point(a, b, a_dot_edge_normal, b_dot_edge_normal);
  let papb = dot_product(pa, pb);
  dot_product(pa,&intersect).abs() > papb && dot_product(pb, &intersect).abs() > papb
}


fn normalized_intersect_point(a: &Coo3D, b: &Coo3D, a_dot_edge_normal: f64, b_dot_edge_normal: f64) -> UnitVect3 {
  // We note u = a x b
  // Intersection vector i defined by
  // i = (pA x pB) x (a x b)
  //   = u x (a x b)
  //   = (u.b)a - (u.a)b
  // i = i / ||i|| 
  let x = b_dot_edge_normal * a.x() - a_dot_edge_normal * b.x();
  let y = b_dot_edge_normal * a.y() - a_dot_edge_normal * b.y();
  let z = b_dot_edge_normal * a.z() - a_dot_edge_normal * b.z();
  let norm = (x * x + y * y + z * z).sqrt();
  // Warning, do not consider the opposite vector!!
  return UnitVect3::new_unsafe(x / norm, y / norm, z / norm);
}



#[cfg(test)]
mod tests {
  use super::*;
  use super::super::nested::{vertices};
  // use test::Bencher;
  // extern crate test;
  use std::f64::consts::{PI};

  #[test]
  fn test_vec3() {
    let mut v = Vect3::new(1.0, 2.0, 3.0);
    assert_eq!("x: 1; y: 2; z: 3", format!("x: {}; y: {}; z: {}", Vec3::x(&v), Vec3::y(&v), Vec3::z(&v)));
    {
      let vref = &v;
      assert_eq!("x: 1; y: 2; z: 3", format!("x: {}; y: {}; z: {}", vref.x(), vref.y(), vref.z()));
    }
    let vrefmut = &mut v;
    assert_eq!("x: 1; y: 2; z: 3", format!("x: {}; y: {}; z: {}", vrefmut.x(), vrefmut.y(), vrefmut.z()));
  }
  
  #[test]
  fn testok_is_in_polygon() {
    let v = [(0.0, 0.0), (0.0, 0.5), (0.25, 0.25)];
    let poly = Polygon::new(
      v.iter().map(|(lon, lat)| LonLat { lon: *lon, lat: *lat} )
        .collect::<Vec<LonLat>>().into_boxed_slice()
    );
    let depth = 3_u8;
    let hash = 305_u64;
    let [(l_south, b_south), (l_east, b_east), (l_north, b_north), (l_west, b_west)] = vertices(depth, hash);
    let v = [
      Coo3D::from_sph_coo(l_south, b_south),
      Coo3D::from_sph_coo(l_east, b_east),
      Coo3D::from_sph_coo(l_north, b_north),
      Coo3D::from_sph_coo(l_west, b_west)
    ];
    assert_eq!(poly.contains(&v[0]), false);
    assert_eq!(poly.contains(&v[1]), false);
    assert_eq!(poly.contains(&v[2]), true);
    assert_eq!(poly.contains(&v[3]), true);
    
  }
  
  fn make_bench_data(n: u32) -> Box<[LonLat]> {
    let n2 = n * n;
    // buil the box
    let l_min = 0.0_f64;
    let l_max = 2.0_f64 * PI;
    let l_step = (l_max - l_min) / n as f64;
    let b_min = -PI / 2.0_f64;
    let b_max =  PI / 2.0_f64;
    let b_step = (b_max - b_min) / n as f64;

    (0..n2).into_iter().map(|k| {
      let i = k / n;
      let j = (k - i) as f64;
      let i = i as f64;
      LonLat {
        lon: l_min + l_step * i,
        lat: b_min + b_step * j,
      }
    })
    .collect::<Vec<LonLat>>()
    .into_boxed_slice()
  }

  /*#[bench]
  fn bench_make_data(b: &mut Bencher) {
    b.iter(|| {
      let n = test::black_box(20_u32);
      make_bench_data(n)
    });
  }
  
  #[bench]
  fn bench_iterator(b: &mut Bencher) {
    b.iter(|| {
      let n = test::black_box(20_u32);
      let vertices = make_bench_data(n);
      lonlat2coo3d(vertices)
    });
  }


  #[bench]
  fn bench_forloop(b: &mut Bencher) {
    b.iter(|| {
      let n = test::black_box(20_u32);
      let vertices = make_bench_data(n);
      lonlat2coo3d_v2(vertices)
    });
  }*/
  
  /*#[test]
  fn toto_v2() {
    let n = test::black_box(20_u32);
    let vertices = make_bench_data(n);
    let vertices = lonlat2coo3d(vertices);
    let cross_products_v1 = compute_cross_products_v2(&vertices);
    let cross_products_v2 = compute_cross_products(&vertices);
    cross_products_v1.iter().zip(cross_products_v2.iter())
      .map(|(v1, v2)| assert_eq!(dot_product(v1, v2), v1.norm() * v2.norm()));
  }*/
  
  /*#[bench]
  fn bench_crossprod_1(b: &mut Bencher) {
    b.iter(|| {
      let n = test::black_box(20_u32);
      let vertices = make_bench_data(n);
      let vertices = lonlat2coo3d(vertices);
      let cross_products = compute_cross_products(&vertices);
      assert_eq!(vertices.len(),cross_products.len());
    });
  }

  #[bench]
  fn bench_crossprod_2(b: &mut Bencher) {
    b.iter(|| {
      let n = test::black_box(20_u32);
      let vertices = make_bench_data(n);
      let vertices = lonlat2coo3d(vertices);
      let cross_products = compute_cross_products_v2(&vertices);
      assert_eq!(vertices.len(), cross_products.len());
    });
  }*/
  
}