use super::super::HALF_PI;
use super::super::TWICE_PI;
use super::super::Customf64;

/// Represents a spherical projection, i.e. the projection of spherical coordinates
/// (on the unit sphere) on a two dimensional plane.
pub trait Proj: Default {
  /// Set the center of the projection
  /// # Inputs
  /// - `lon` longitude of the centre of the projection, in `[0, 2pi]` radians
  /// - `lat` latitude of the centre of the projection, in `[-pi/2, pi/2]` radians
  /// # info
  ///  If the longitude or the latitude is out of bounds, a time consuming normalization may be performed 
  fn set_center(&mut self, lon: f64, lat :f64);
  
  /// Computes the projected coordinates of the given position on the unit sphere
  /// # Inputs
  /// - `lon` longitude of the coordinate we want to project
  /// - `lat` latitude of the coordinate we want to project
  /// # Output
  /// - `(x, y)` the coordinates in the projection plane (if they exists)
  fn proj(&self, lon: f64, lat: f64) -> Option<(f64, f64)>;
  
  /// Computes the position in the unit sphere of the given coordinates on the projection plane
  /// # Inputs
  /// - `x` coordinates along the x-axis on the projection plane
  /// - `y` coordinates along the y-axis on the projection plane
  /// # Output
  /// - `(lon, lat)` the position on the unit sphere (in radians), if the input coordinates `(x, y)`
  ///    are valid
  fn unproj(&self, x: f64, y: f64) -> Option<(f64, f64)>;
}

/// Normalize the given longitude and latitude so that their values are in `[0, 2pi]` and  `[-pi/2, pi/2]`.
/// WARNING: the normalization (without a priori) is time consuming and should be avoided as much as possible
fn normalize_lonlat(lon: &mut f64, lat: &mut f64) {
  if *lon < 0.0 || TWICE_PI <= *lon || *lat < -HALF_PI || HALF_PI < *lat {
    let (sin_l, cos_l) = (*lon).sin_cos();
    let (sin_b, cos_b) = (*lat).sin_cos();
    let x = cos_b * cos_l;
    let y = cos_b * sin_l;
    let z = sin_b;
    *lon = y.atan2(x);
    if *lon < 0.0_f64 {
      *lon += TWICE_PI;
    }
    *lat = z.atan2((x.pow2() + y.pow2()).sqrt()); 
  }
}

/// Orthographic projection
#[derive(Debug)]
pub struct ProjSIN {
  center_lon: f64,
  center_lat: f64,
  // derived quantities
  pub cos_center_lat: f64,
  pub sin_center_lat: f64,
}

impl ProjSIN {
  
  /// # Inputs
  /// - `lon` longitude of the centre of the projection, in `[0, 2pi]` radians
  /// - `lat` latitude of the centre of the projection, in `[-pi/2, pi/2]` radians
  /// # info
  ///  If the longitude or the latitude is out of bounds, a time consuming normalization is performed 
  pub fn new(lon: f64, lat :f64) -> ProjSIN {
    let mut proj: ProjSIN = Default::default();
    proj.set_center(lon, lat);
    proj
  }
  
  /// Returns the (x, y) projected position, even if the source is in the opposite hemisphere.
  /// Also returns the angular distance (computed for large values, not using the Haversine formula).
  /// The boolean tells is the projected point is in the visible hemisphere.
  pub fn forced_proj_and_distance(&self, lon: f64, lat: f64) -> ((f64, f64), f64, bool) {
    let (sin_lat, cos_lat) = lat.sin_cos();
    let dlon = lon - self.center_lon;
    let (sin_dlon, cos_dlon) = dlon.sin_cos();
    let x = cos_lat * sin_dlon;
    let y = self.cos_center_lat * sin_lat - self.sin_center_lat * cos_lat * cos_dlon;
    let z = self.sin_center_lat * sin_lat + self.cos_center_lat * cos_lat * cos_dlon;
    // (x^2 + y^2).sqrt() is the sine of the angular distance and z its cosine: `z.acos()` is NaN when z is larger than 1
    // by a rounding error, and has no more than 8 significant digits for small distances
    ((x, y), (x * x + y * y).sqrt().atan2(z), z > 0.0)
  }
}

impl Default for ProjSIN {
  fn default() -> Self {
    ProjSIN {
      center_lon: 0.0,
      center_lat: 0.0,
      // derived quantities
      cos_center_lat: 1.0,
      sin_center_lat: 0.0,
    }
  }
}

impl Proj for ProjSIN {
  
  fn set_center(&mut self, lon: f64, lat :f64) {
    // I put assert tests here because the normalization is time consuming and I would like to
    // avoid it as much as possible
//    debug_assert!(0.0 <= lon && lon < TWICE_PI);
//    debug_assert!(-HALF_PI <= lat && lat < HALF_PI);
    self.center_lon = lon;
    self.center_lat = lat;
    normalize_lonlat(&mut self.center_lon, &mut self.center_lat);
    let (sin_lat, cos_lat) = self.center_lat.sin_cos();
    self.cos_center_lat = cos_lat;
    self.sin_center_lat = sin_lat;
  }
  
  fn proj(&self, lon: f64, lat: f64) -> Option<(f64, f64)> {
    let (sin_lat, cos_lat) = lat.sin_cos();
    let dlon = lon - self.center_lon;
    /*
     let mut dlon = lon - self.center_lon;
    if dlon < -PI {
      dlon += TWICE_PI;
    } else if dlon > PI {
      dlon -= TWICE_PI;
    }*/
    let (sin_dlon, cos_dlon) = dlon.sin_cos();
    if self.sin_center_lat * sin_lat + self.cos_center_lat * cos_lat * cos_dlon > 0.0 {
      Some((
        cos_lat * sin_dlon,
        self.cos_center_lat * sin_lat - self.sin_center_lat * cos_lat * cos_dlon
      ))
    } else {
      None
    }
  }
  
  fn unproj(&self, x: f64, y: f64) -> Option<(f64, f64)> {
    let rho2 = x.pow2() + y.pow2();
    if rho2 < 1.0 {
      let z = (1.0 - rho2).sqrt(); // = cos(arcsin(rho)) = rho / tan(arcsin(rho))
      let lat = (self.sin_center_lat * z + y * self.cos_center_lat).asin();
      let lon = self.cos_center_lat * z - y * self.sin_center_lat;
      let lon = self.center_lon + x.atan2(lon);
      Some((
        if lon < 0.0 {
          lon + TWICE_PI
        } else if lon > TWICE_PI {
          lon - TWICE_PI
        } else {
          lon
        }, lat))
    } else {
      None
    }
  }
  
}