//! Verification hooks (compiled only with `--cfg cdshealpix_verif`; absent from normal builds).
//! They let an external harness observe the lazy, first-use initialisation of the per-depth tables:
//! one `construct` event per execution of `Layer::new` / `ConstantsC2V::new`, totally ordered with the
//! harness's own `inv` / `resp` events by a sequence number taken under the log's mutex, and an optional
//! busy-wait that widens the window in which a second constructor could start.
use std::cell::Cell;
use std::sync::atomic::{AtomicU64, Ordering};
use std::sync::Mutex;

/// event kinds
pub const INV: u8 = 0;
pub const CONSTRUCT: u8 = 1;
pub const RESP: u8 = 2;
/// tables
pub const TABLE_LAYER: u8 = 0;
pub const TABLE_C2V: u8 = 1;

#[derive(Clone, Debug)]
pub struct Event { pub seq: u64, pub thread: u32, pub kind: u8, pub table: u8, pub depth: u8, pub ptr: usize, pub ok: bool }

static LOG: Mutex<Vec<Event>> = Mutex::new(Vec::new());
pub static INIT_DELAY_NS: AtomicU64 = AtomicU64::new(0);
thread_local! { static TAG: Cell<u32> = Cell::new(u32::MAX); }

pub fn set_thread_tag(tag: u32) { TAG.with(|t| t.set(tag)); }

/// Appends an event; the sequence number is its index in the log (taken under the mutex).
pub fn log(kind: u8, table: u8, depth: u8, ptr: usize, ok: bool) {
  let thread = TAG.with(|t| t.get());
  let mut l = LOG.lock().unwrap_or_else(|e| e.into_inner());
  let seq = l.len() as u64;
  l.push(Event { seq, thread, kind, table, depth, ptr, ok });
}

/// Called at the very beginning of a table constructor.
pub fn on_construct(table: u8, depth: u8) {
  log(CONSTRUCT, table, depth, 0, true);
  let ns = INIT_DELAY_NS.load(Ordering::Relaxed);
  if ns > 0 {
    let t0 = std::time::Instant::now();
    while (t0.elapsed().as_nanos() as u64) < ns { std::hint::spin_loop(); }
  }
}

pub fn take_log() -> Vec<Event> {
  let mut l = LOG.lock().unwrap_or_else(|e| e.into_inner());
  std::mem::take(&mut *l)
}
