
use super::super::Customf64;

#[derive(Debug)]
pub struct Ellipse {
  sigx2: f64,
  sigy2: f64,
  rho_sigx_sigy: f64,
  // Derived quantities
  one_over_det: f64,
}

impl Ellipse {
  
  /// Create a new ellipse for the given oriented ellipse parameters.
  /// # Inputs
  /// - `a` ellipse semi-major axis
  /// - `b` ellipse semi-minor axis
  /// - `(sin(theta), cos(theta)` in which `theta` is the counterclockwise angle between the x-axis 
  ///                             and the semi-major axis = `theta_radians.sin_cos()`
  pub fn from_oriented(a: f64, b: f64, theta_sin_cos: (f64, f64)) -> Ellipse {
    let a2 = a.pow2();
    let b2 = b.pow2();
    let (sin_t, cos_t) = theta_sin_cos;
    let sin2_t = sin_t.pow2();
    let cos2_t = cos_t.pow2();
    let sigx2 = a2 * cos2_t + b2 * sin2_t;
    let sigy2 = a2 * sin2_t + b2 * cos2_t;
    let rho_sigx_sigy = cos_t * sin_t * (a2 - b2);
    let det = sigx2 * sigy2 - rho_sigx_sigy.pow2();
    Ellipse {
      sigx2,
      sigy2,
      rho_sigx_sigy,
      one_over_det: 1.0 / det,
    }
  }

  pub fn from_cor_matrix(sig_x: f64, sig_y: f64, rho: f64) -> Ellipse {
    let sigx2 = sig_x * sig_x;
    let sigy2 = sig_y * sig_y;
    let rho_sigx_sigy = rho * sig_x * sig_y;
    let det = sigx2 * sigy2 - rho_sigx_sigy.pow2();
    Ellipse {
      sigx2,
      sigy2,
      rho_sigx_sigy,
      one_over_det: 1.0 / det,
    }
  }
  
  pub fn from_cov_matrix(sigx2: f64, sigy2: f64, rho_sigx_sigy: f64) -> Ellipse {
    let det = sigx2 * sigy2 - rho_sigx_sigy.pow2();
    Ellipse {
      sigx2,
      sigy2,
      rho_sigx_sigy,
      one_over_det: 1.0 / det,
    }
  }
  
  pub fn to_a_b_theta(&self) -> (f64, f64, f64) {
    let val_sqrt = ((self.sigx2 - self.sigy2).pow2() + self.rho_sigx_sigy.twice().pow2()).sqrt();
    let a2 = 0.5 * (self.sigx2 + self.sigy2 + val_sqrt);
    let b2 = 0.5 * (self.sigx2 + self.sigy2 - val_sqrt);
    let theta = self.rho_sigx_sigy.atan2(a2 - self.sigy2);
    // let theta =  (a2 - self.sigx2).atan2(self.rho_sigx_sigy);
    (a2.sqrt(), b2.sqrt(), theta)
  }
  
  fn extended_stat_by_circle(&self, sig: f64) -> Ellipse {
    Ellipse::from_cov_matrix(
      self.sigx2 + sig.pow2(),
      self.sigy2 + sig.pow2(),
      self.rho_sigx_sigy,
    )
  }
  
  fn extended_stat(&self, other: &Ellipse) -> Ellipse {
    Ellipse::from_cov_matrix(
      self.sigx2 + other.sigx2,
      self.sigy2 + other.sigy2,
      self.rho_sigx_sigy + other.rho_sigx_sigy,
    )
  }
  
  fn extended_geom_by_circle(&self, sig: f64) -> Ellipse {
    let sigx = self.sigx2.sqrt() + sig;
    let sigy = self.sigy2.sqrt() + sig;
    Ellipse::from_cov_matrix(
      sigx.pow2(),
      sigy.pow2(),
      self.rho_sigx_sigy,
    )
  }
  
  fn extended_geom(&self, other: &Ellipse) -> Ellipse {
    let sigx = self.sigx2.sqrt() + other.sigx2.sqrt();
    let sigy = self.sigy2.sqrt() + other.sigy2.sqrt();
    // Formula on rho_sigx_sigy to be verified!
    Ellipse::from_cov_matrix(
      sigx.pow2(),
      sigy.pow2(),
      self.rho_sigx_sigy + other.rho_sigx_sigy,
    )
  }
  
  pub fn squared_mahalanobis_distance(&self, x: f64, y: f64) -> f64 {
    let x2 = x.pow2();
    let y2 = y.pow2();
    self.one_over_det * (x2 * self.sigy2 - (self.rho_sigx_sigy * x * y).twice() + y2 * self.sigx2)
  }
  
  pub fn contains(&self, x: f64, y: f64) -> bool {
    self.squared_mahalanobis_distance(x, y) <= 1.0
  }
  
  pub fn overlap(&self, x: f64, y: f64, other: &Ellipse) -> bool {
    self.extended_geom(other).contains(x, y)
  }
  
  pub fn path_along_edge(a: f64, b: f64, theta: f64, half_num_points: usize) -> Box<[(f64, f64)]> {
    
    let step = (2.0 * a) / (half_num_points as f64);
    let (sin_t, cos_t) = theta.sin_cos();
    let mut v = Vec::<(f64, f64)>::with_capacity(half_num_points << 1);
    for i in 0..half_num_points {
      let x = a - (i as f64) * step;
      let y = b * (1.0 - (x / a).pow2()).sqrt();
      v.push(rotate(x, y, cos_t, sin_t));
    }
    for i in 0..half_num_points {
      let (x, y) = v[i];
      v.push(rotate(-x, -y, cos_t, sin_t));
    }
    v.into_boxed_slice()
  }
}

// TODO: verify the rotation (angle may be the opposite)!
fn rotate(x: f64, y: f64, cost: f64, sint: f64) -> (f64, f64) {
  (
    x * cost - y * sint,
    x * sint + y * cost
  )
}