---------------------------- MODULE Bilinear ----------------------------
(***************************************************************************)
(* Layer::bilinear_interpolation transcribed on exact rationals (C19).     *)
(* The position is given by its cell c (subdivision N) and its offsets     *)
(* dx = u/D, dy = v/D in the cell, D = 2K, u, v \in 0..D (dx = 1/2 is      *)
(* u = K).  The neighbours are those of the GEOMETRIC adjacency of HpxGeo  *)
(* (NeighAt), not the crate's tables.  Weights are numerators over 2*D*D.  *)
(* One branch per quarter of the cell, one sub-branch for the missing      *)
(* cardinal neighbour (the 24 cells next to the 8 three-cell points), as   *)
(* in the Rust code.  The result is a sequence of 4 <<cell, weight>>.      *)
(***************************************************************************)
EXTENDS HpxGeo, TLC
One(S) == CHOOSE x \in S : TRUE
Bil(N, c, K, u, v) ==
  LET D == 2 * K
      nb(w) == NeighAt(N, c, w)
      at(w) == One(nb(w))
      xcoo == IF u > K THEN 1 ELSE 0           \* dx > 0.5
      ycoo == IF v > K THEN 1 ELSE 0
      quarter == 2 * ycoo + xcoo
      (* products of two factors given as numerators over D, doubled: value over 2 D^2 *)
      P(a, b) == 2 * a * b
      (* a factor (0.75 + 0.5 dx) = (3K + u) / (2 D): product with a/D is a (3K + u) / (2 D^2) *)
      H(a, b2) == a * b2
  IN CASE quarter = 0 ->
            IF nb("S") # {} THEN << <<at("S"), P(K - u, K - v)>>, <<at("SE"), P(K + u, K - v)>>, <<at("SW"), P(K - u, K + v)>>, <<c, P(K + u, K + v)>> >>
            ELSE << <<c, 0>>, <<at("SE"), H(K - v, 3 * K + u)>>, <<at("SW"), H(K - u, 3 * K + v)>>, <<c, P(K + u, K + v)>> >>
       [] quarter = 1 ->
            IF nb("E") # {} THEN << <<at("SE"), P(3 * K - u, K - v)>>, <<at("E"), P(u - K, K - v)>>, <<c, P(3 * K - u, K + v)>>, <<at("NE"), P(u - K, K + v)>> >>
            ELSE << <<at("SE"), H(K - v, 5 * K - u)>>, <<c, 0>>, <<c, P(3 * K - u, K + v)>>, <<at("NE"), H(u - K, 3 * K + v)>> >>
       [] quarter = 2 ->
            IF nb("W") # {} THEN << <<at("SW"), P(K - u, 3 * K - v)>>, <<c, P(u + K, 3 * K - v)>>, <<at("W"), P(K - u, v - K)>>, <<at("NW"), P(K + u, v - K)>> >>
            ELSE << <<at("SW"), H(K - u, 5 * K - v)>>, <<c, P(u + K, 3 * K - v)>>, <<c, 0>>, <<at("NW"), H(v - K, u + 3 * K)>> >>
       [] quarter = 3 ->
            IF nb("N") # {} THEN << <<c, P(3 * K - u, 3 * K - v)>>, <<at("NE"), P(u - K, 3 * K - v)>>, <<at("NW"), P(3 * K - u, v - K)>>, <<at("N"), P(u - K, v - K)>> >>
            ELSE << <<c, P(3 * K - u, 3 * K - v)>>, <<at("NE"), H(u - K, 5 * K - v)>>, <<at("NW"), H(5 * K - u, v - K)>>, <<c, 0>> >>

(* ---- the claims of C19 on that definition ---- *)
Total(r) == r[1][2] + r[2][2] + r[3][2] + r[4][2]
(* centre of a cell of the same base cell, in half-cell units relative to the south corner of c *)
CtrA(c, o) == 2 * (o[2] - c[2]) + 1
CtrC(c, o) == 2 * (o[3] - c[3]) + 1
BilOK(N, c, K, u, v) ==
  LET r == Bil(N, c, K, u, v)
      D == 2 * K
      one == 2 * D * D
  IN /\ \A k \in 1..4 : r[k][2] >= 0 /\ (r[k][1] = c \/ r[k][1] \in Neigh(N, c))
     /\ Total(r) = one
     /\ \E k \in 1..4 : r[k][1] = c
     /\ (u = K /\ v = K) => \E k \in 1..4 : r[k][1] = c /\ r[k][2] = one
     (* barycentre identity when the four cells are in the base cell of c and distinct: sum w (centre - position) = 0;
        centres in half cells, position (2u/D, 2v/D) half cells: multiply by D *)
     /\ ((\A k \in 1..4 : r[k][1][1] = c[1]) /\ Cardinality({r[k][1] : k \in 1..4}) = 4) =>
           /\ r[1][2] * (D * CtrA(c, r[1][1]) - 2 * u) + r[2][2] * (D * CtrA(c, r[2][1]) - 2 * u)
                + r[3][2] * (D * CtrA(c, r[3][1]) - 2 * u) + r[4][2] * (D * CtrA(c, r[4][1]) - 2 * u) = 0
           /\ r[1][2] * (D * CtrC(c, r[1][1]) - 2 * v) + r[2][2] * (D * CtrC(c, r[2][1]) - 2 * v)
                + r[3][2] * (D * CtrC(c, r[3][1]) - 2 * v) + r[4][2] * (D * CtrC(c, r[4][1]) - 2 * v) = 0
     (* a cell listed twice stands for the missing corner: it is c, next to a 3-cell point, and one copy weighs 0 *)
     /\ \A k, m \in 1..4 : (k < m /\ r[k][1] = r[m][1]) =>
           r[k][1] = c /\ (r[k][2] = 0 \/ r[m][2] = 0) /\ \E d \in Cardinals : NeighAt(N, c, d) = {}
=======================================================================
