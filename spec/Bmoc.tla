---------------------------- MODULE Bmoc ----------------------------
(***************************************************************************)
(* BMOC values and their semantics (C07, C08, C09, C15).                   *)
(*                                                                         *)
(* A cell is a record [b |-> base cell 0..11, p |-> path (sequence of      *)
(* base-4 digits, one per depth), f |-> 1 (full) / 0 (partial)]; a BMOC    *)
(* value is [dmax |-> maximal depth, cells |-> sequence of cells].         *)
(* Its meaning is the map "deepest-level cell |-> absent / partial / full",*)
(* represented without ever expanding to 4^29 cells as a forest of         *)
(* quadtrees  Tree ::= <<0>> (absent) | <<1>> (partial) | <<2>> (full)     *)
(*                   | <<t0, t1, t2, t3>>,   one tree per base cell,       *)
(* normalised by collapsing four equal leaves.                             *)
(***************************************************************************)
EXTENDS Integers, Sequences, FiniteSets

Absent == <<0>>
Partial == <<1>>
Full == <<2>>
IsLeaf(t) == Len(t) = 1
Kids(t) == IF IsLeaf(t) THEN <<t, t, t, t>> ELSE t
Norm4(k) == IF IsLeaf(k[1]) /\ IsLeaf(k[2]) /\ IsLeaf(k[3]) /\ IsLeaf(k[4]) /\ k[1] = k[2] /\ k[2] = k[3] /\ k[3] = k[4]
            THEN k[1] ELSE k
RECURSIVE NormT(_)
NormT(t) == IF IsLeaf(t) THEN t ELSE Norm4(<<NormT(t[1]), NormT(t[2]), NormT(t[3]), NormT(t[4])>>)
LeafOf(f) == IF f = 1 THEN Full ELSE Partial

(* set the region of path p of tree t to the leaf v *)
RECURSIVE Insert(_, _, _)
Insert(t, p, v) == IF p = <<>> THEN v
                   ELSE LET k == Kids(t) IN [k EXCEPT ![p[1] + 1] = Insert(k[p[1] + 1], Tail(p), v)]
EmptyForest == [b \in 0..11 |-> Absent]
RECURSIVE Build(_, _)
Build(cells, forest) == IF cells = <<>> THEN forest
                        ELSE LET c == Head(cells) IN
                             Build(Tail(cells), [forest EXCEPT ![c.b] = Insert(forest[c.b], c.p, LeafOf(c.f))])
(* NB: 4-tuples are written explicitly (<<f(1), f(2), f(3), f(4)>>) rather than as [i \in 1..4 |-> f(i)]: TLC keeps the
   latter as a lazy function whose body is re-evaluated at every application, which is exponential in the depth. *)
(* the semantics of a (well-formed) cell sequence *)
Sem(cells) == LET f == Build(cells, EmptyForest) IN [b \in 0..11 |-> NormT(f[b])]

(* ---- the four operators on the semantics (the documented leaf tables) ---- *)
Rk(x) == x[1]
Min2(x, y) == IF x < y THEN x ELSE y
Max2(x, y) == IF x > y THEN x ELSE y
LeafOp(op, x, y) == CASE op = "and" -> <<Min2(Rk(x), Rk(y))>>
                      [] op = "or"  -> <<Max2(Rk(x), Rk(y))>>
                      [] op = "xor" -> IF x = Absent THEN y ELSE IF y = Absent THEN x
                                       ELSE IF x = Full /\ y = Full THEN Absent ELSE Partial
RECURSIVE Op2T(_, _, _)
Op2T(op, s, t) == IF IsLeaf(s) /\ IsLeaf(t) THEN LeafOp(op, s, t)
                  ELSE LET ks == Kids(s)
                           kt == Kids(t)
                       IN Norm4(<<Op2T(op, ks[1], kt[1]), Op2T(op, ks[2], kt[2]), Op2T(op, ks[3], kt[3]), Op2T(op, ks[4], kt[4])>>)
RECURSIVE NotT(_)
NotT(t) == IF IsLeaf(t) THEN <<2 - Rk(t)>> ELSE Norm4(<<NotT(t[1]), NotT(t[2]), NotT(t[3]), NotT(t[4])>>)
Op2(op, F, G) == [b \in 0..11 |-> Op2T(op, F[b], G[b])]
Not(F) == [b \in 0..11 |-> NotT(F[b])]
FullSky == [b \in 0..11 |-> Full]

(* ---- canonical (packed) cell list of a forest: maximal non-absent leaves in z-order ---- *)
RECURSIVE CanonT(_, _, _)
CanonT(t, b, prefix) ==
  IF IsLeaf(t) THEN (IF t = Absent THEN <<>> ELSE <<[b |-> b, p |-> prefix, f |-> IF t = Full THEN 1 ELSE 0]>>)
  ELSE CanonT(t[1], b, Append(prefix, 0)) \o CanonT(t[2], b, Append(prefix, 1)) \o
       CanonT(t[3], b, Append(prefix, 2)) \o CanonT(t[4], b, Append(prefix, 3))
RECURSIVE CanonF(_, _)
CanonF(F, b) == IF b > 11 THEN <<>> ELSE CanonT(F[b], b, <<>>) \o CanonF(F, b + 1)
Canonical(F) == CanonF(F, 0)

(* ---- well-formedness of a cell sequence (C09) ---- *)
CellOK(c, dmax) == /\ c.b \in 0..11 /\ Len(c.p) <= dmax /\ c.f \in {0, 1}
                   /\ \A k \in 1..Len(c.p) : c.p[k] \in 0..3
(* strictly before in z-order AND not nested: the paths differ at a common position *)
ZBefore(c1, c2) ==
  \/ c1.b < c2.b
  \/ /\ c1.b = c2.b
     /\ \E k \in 1..Min2(Len(c1.p), Len(c2.p)) :
          /\ c1.p[k] < c2.p[k]
          /\ \A m \in 1..(k - 1) : c1.p[m] = c2.p[m]
WellFormed(bm) == /\ bm.dmax \in 0..29
                  /\ \A k \in 1..Len(bm.cells) : CellOK(bm.cells[k], bm.dmax)
                  /\ \A k \in 1..(Len(bm.cells) - 1) : ZBefore(bm.cells[k], bm.cells[k + 1])
AllFull(cells) == \A k \in 1..Len(cells) : cells[k].f = 1
(* packed: no four full siblings (on a well-formed sequence they are consecutive) *)
SameParent(c1, c2) == c1.b = c2.b /\ Len(c1.p) = Len(c2.p) /\ Len(c1.p) > 0
                      /\ SubSeq(c1.p, 1, Len(c1.p) - 1) = SubSeq(c2.p, 1, Len(c2.p) - 1)
Packed(cells) == \A k \in 1..(Len(cells) - 3) :
                   ~(/\ cells[k].f = 1 /\ cells[k + 1].f = 1 /\ cells[k + 2].f = 1 /\ cells[k + 3].f = 1
                     /\ SameParent(cells[k], cells[k + 1]) /\ SameParent(cells[k], cells[k + 2]) /\ SameParent(cells[k], cells[k + 3]))
(* a cell (base cell + path of any depth) is covered by the cell sequence: one entry is a prefix of it *)
IsPrefixOf(p, q) == Len(p) <= Len(q) /\ SubSeq(q, 1, Len(p)) = p
Covered(cells, b, p) == \E k \in 1..Len(cells) : cells[k].b = b /\ IsPrefixOf(cells[k].p, p)

(* ---- raw u64 encoding as base-4 digits, most significant first, leading zeros stripped:
        hash digits, then the sentinel bit and the flag: 2+f if depth = dmax, else 2, 0.., 0, f ---- *)
RECURSIVE StripZeros(_)
StripZeros(s) == IF Len(s) > 1 /\ s[1] = 0 THEN StripZeros(Tail(s)) ELSE s
Raw(c, dmax) == LET hd == <<c.b \div 4, c.b % 4>> \o c.p
                    dd == dmax - Len(c.p)
                IN StripZeros(hd \o (IF dd = 0 THEN <<2 + c.f>> ELSE <<2>> \o [k \in 1..(dd - 1) |-> 0] \o <<c.f>>))

(* ---- flattened views: cells of depth dmax in z-order (only for small values) ---- *)
RECURSIVE AllPaths(_)
AllPaths(n) == IF n = 0 THEN << <<>> >>
               ELSE LET r == AllPaths(n - 1) IN
                    [k \in 1..(4 * Len(r)) |-> <<(k - 1) \div Len(r)>> \o r[((k - 1) % Len(r)) + 1]]
FlatCell(c, dmax) == LET ext == AllPaths(dmax - Len(c.p)) IN [k \in 1..Len(ext) |-> [b |-> c.b, p |-> c.p \o ext[k], f |-> c.f]]
RECURSIVE Flat(_, _)
Flat(cells, dmax) == IF cells = <<>> THEN <<>> ELSE FlatCell(Head(cells), dmax) \o Flat(Tail(cells), dmax)

(* ---- lowering the depth (C15): keep a coarse cell iff it contained something, full iff entirely full ---- *)
RECURSIVE LowerT(_, _)
LowerT(t, n) == IF IsLeaf(t) THEN t
                ELSE IF n = 0 THEN Partial    \* a mixed subtree below the new depth: something, but not entirely full
                ELSE Norm4(<<LowerT(t[1], n - 1), LowerT(t[2], n - 1), LowerT(t[3], n - 1), LowerT(t[4], n - 1)>>)
Lower(F, d) == [b \in 0..11 |-> LowerT(F[b], d)]
(* the property only demands: a coarse cell is kept iff it contained something, and is full ONLY IF it was entirely
   covered by full cells (a coarse cell entirely covered by four full children may legitimately come out partial when
   the source was not packed).  Weak forgets the full/partial distinction, FullPart keeps the full part only. *)
RECURSIVE MapLeaves(_, _)
MapLeaves(t, m) == IF IsLeaf(t) THEN <<m[Rk(t) + 1]>> ELSE Norm4(<<MapLeaves(t[1], m), MapLeaves(t[2], m), MapLeaves(t[3], m), MapLeaves(t[4], m)>>)
Weak(F) == [b \in 0..11 |-> MapLeaves(F[b], <<0, 1, 1>>)]
FullPart(F) == [b \in 0..11 |-> MapLeaves(F[b], <<0, 0, 2>>)]
LoweredOK(R, E) == Weak(R) = Weak(E) /\ Op2("and", FullPart(R), FullPart(E)) = FullPart(R)
=======================================================================
