---------------------------- MODULE BmocAlgo ----------------------------
(***************************************************************************)
(* Transcription of the crate's BMOC algorithms (src/nested/bmoc.rs), one  *)
(* TLA+ operator per Rust function, same branch structure:                 *)
(*   not, and, or (with not_in_cell_4_or), xor (with not_in_cell_4_xor),   *)
(*   go_up, go_down, dd_4_go_up, consume_while_overlapped(_and_partial),   *)
(*   BMOCBuilderUnsafe::pack and to_lower_depth.                           *)
(* The claim model-checked in MC_BmocAlgo is refinement of the semantic    *)
(* specification (Bmoc.tla):  Sem(Algo(a, b)) = Op(Sem a, Sem b), results  *)
(* well formed, pack = same map and no four full siblings.  This is where  *)
(* a wrong merge rule shows up at MODEL level, independently of any run of *)
(* the Rust code (it found the two defects of `or`, F11, before the fix;   *)
(* the transcription below is of the repaired code).                       *)
(* A cell here is [d |-> depth, h |-> hash (integer), f |-> BOOLEAN].      *)
(***************************************************************************)
EXTENDS Bmoc, TLC
Pow4(k) == 4^k
Shr(h, k) == h \div Pow4(k)            \* h >> 2k
Shl(h, k) == h * Pow4(k)               \* h << 2k
C(d, h, f) == [d |-> d, h |-> h, f |-> f]
IsIn(low, hi) == low.d <= hi.d /\ low.h = Shr(hi.h, hi.d - low.d)
(* to the vocabulary of Bmoc.tla *)
PathOfHash(h, d) == [k \in 1..d |-> (h \div Pow4(d - k)) % 4]
ToCell(c) == [b |-> c.h \div Pow4(c.d), p |-> PathOfHash(c.h, c.d), f |-> IF c.f THEN 1 ELSE 0]
ToCells(X) == [k \in 1..Len(X) |-> ToCell(X[k])]
RECURSIVE HashOfPath(_, _)
HashOfPath(p, acc) == IF p = <<>> THEN acc ELSE HashOfPath(Tail(p), 4 * acc + Head(p))
FromCell(c) == C(Len(c.p), HashOfPath(c.p, c.b), c.f = 1)
FromCells(X) == [k \in 1..Len(X) |-> FromCell(X[k])]

(* ---- builder helpers: return the pushed cells and the new (d, h) ---- *)
RECURSIVE GoUpRec(_, _, _, _, _)
GoUpRec(d, h, dd, flag, out) ==
  IF dd = 0 THEN [d |-> d, h |-> h + 1, out |-> out]
  ELSE LET target == (h \div 4) * 4 + 3
           pushed == [k \in 1..(target - h) |-> C(d, h + k, flag)]
       IN GoUpRec(d - 1, h \div 4, dd - 1, flag, out \o pushed)
GoUp(d, h, dd, flag) == GoUpRec(d, h, dd, flag, <<>>)
RECURSIVE GoDownRec(_, _, _, _, _, _)
GoDownRec(dep, h, td, th, flag, out) ==
  LET t == Shr(th, td - dep)
      pushed == IF t > h THEN [k \in 1..(t - h) |-> C(dep, h + k - 1, flag)] ELSE <<>>
  IN IF dep = td THEN [d |-> td, h |-> th, out |-> out \o pushed]
     ELSE GoDownRec(dep + 1, t * 4, td, th, flag, out \o pushed)
GoDown(d, h, td, th, flag) == GoDownRec(d, h, td, th, flag, <<>>)
Dd4GoUp(d, h, nd, nh) ==
  LET target == IF nd < d THEN Shl(nh, d - nd) ELSE Shr(nh, nd - d) IN
  IF h = target THEN 0
  ELSE LET m == CHOOSE k \in 0..15 : /\ (h \div Pow4(k)) # (target \div Pow4(k))
                                     /\ (h \div Pow4(k + 1)) = (target \div Pow4(k + 1))
       IN IF m < d THEN m ELSE d

(* ---- iterator helpers: X is the cell sequence, k the index of the current (already taken) element;
        Len(X) + 1 stands for None ---- *)
RECURSIVE ConsumeWhileOverlapped(_, _, _)
ConsumeWhileOverlapped(low, X, k) ==
  LET n == k + 1 IN IF n <= Len(X) /\ IsIn(low, X[n]) THEN ConsumeWhileOverlapped(low, X, n) ELSE n
RECURSIVE ConsumeWhileOverlappedAndPartial(_, _, _, _)
ConsumeWhileOverlappedAndPartial(low, X, k, flagIn) ==   \* returns [idx, ov]; ov is only ever raised
  LET n == k + 1 IN
  IF n <= Len(X) /\ IsIn(low, X[n])
    THEN IF X[n].f THEN [idx |-> n, ov |-> TRUE] ELSE ConsumeWhileOverlappedAndPartial(low, X, n, flagIn)
    ELSE [idx |-> n, ov |-> flagIn]

(* ---- not ---- *)
RECURSIVE NotLoop(_, _, _, _, _)
NotLoop(X, i, d, h, out) ==
  IF i > Len(X) THEN [d |-> d, h |-> h, out |-> out]
  ELSE LET c == X[i]
           up == GoUp(d, h, Dd4GoUp(d, h, c.d, c.h), TRUE)
           dn == GoDown(up.d, up.h, c.d, c.h, TRUE)
       IN NotLoop(X, i + 1, dn.d, dn.h, out \o up.out \o dn.out \o (IF c.f THEN <<>> ELSE <<c>>))
NotAlgo(X) ==
  IF X = <<>> THEN [k \in 1..12 |-> C(0, k - 1, TRUE)]
  ELSE LET first == X[1]
           dn == GoDown(0, 0, first.d, first.h, TRUE)
           lp == NotLoop(X, 2, dn.d, dn.h, dn.out \o (IF first.f THEN <<>> ELSE <<first>>))
           up == GoUp(lp.d, lp.h, lp.d, TRUE)
       IN lp.out \o up.out \o [k \in 1..(12 - up.h) |-> C(0, up.h + k - 1, TRUE)]

(* ---- and ---- *)
RECURSIVE AndLoop(_, _, _, _, _)
AndLoop(A, B, l, r, out) ==
  IF l > Len(A) \/ r > Len(B) THEN out
  ELSE LET a == A[l]
           b == B[r]
       IN IF a.d < b.d THEN
            LET hr == Shr(b.h, b.d - a.d) IN
            IF a.h < hr THEN AndLoop(A, B, l + 1, r, out)
            ELSE IF a.h > hr THEN AndLoop(A, B, l, r + 1, out)
            ELSE AndLoop(A, B, l, r + 1, Append(out, C(b.d, b.h, b.f /\ a.f)))
          ELSE IF a.d > b.d THEN
            LET hl == Shr(a.h, a.d - b.d) IN
            IF hl < b.h THEN AndLoop(A, B, l + 1, r, out)
            ELSE IF hl > b.h THEN AndLoop(A, B, l, r + 1, out)
            ELSE AndLoop(A, B, l + 1, r, Append(out, C(a.d, a.h, b.f /\ a.f)))
          ELSE IF a.h < b.h THEN AndLoop(A, B, l + 1, r, out)
          ELSE IF a.h > b.h THEN AndLoop(A, B, l, r + 1, out)
          ELSE AndLoop(A, B, l + 1, r + 1, Append(out, C(a.d, a.h, b.f /\ a.f)))
AndAlgo(A, B) == AndLoop(A, B, 1, 1, <<>>)

(* ---- pack (in-place fix-point of BMOCBuilderUnsafe::pack, written functionally) ---- *)
RECURSIVE SkipNonCandidates(_, _, _, _)
(* the inner while: copies cells that cannot start a merge; returns the candidate, the next index and the output *)
SkipNonCandidates(E, curr, i, out) ==
  IF i <= Len(E) /\ (curr.d = 0 \/ ~curr.f \/ curr.h % 4 # 0)
    THEN SkipNonCandidates(E, E[i], i + 1, Append(out, curr))
    ELSE [curr |-> curr, i |-> i, out |-> out]
RECURSIVE PackPass(_, _, _)
PackPass(E, i, out) ==
  IF i > Len(E) THEN out
  ELSE LET s == SkipNonCandidates(E, E[i], i + 1, out)
           c == s.curr
           j == s.i
       IN IF j + 2 <= Len(E) /\ E[j] = C(c.d, c.h + 1, TRUE) /\ E[j + 1] = C(c.d, c.h + 2, TRUE) /\ E[j + 2] = C(c.d, c.h + 3, TRUE)
               /\ c.h % 4 = 0      \* (c.h | k = c.h + k only then; otherwise the raw values compared in the code cannot match)
            THEN PackPass(E, j + 3, Append(s.out, C(c.d - 1, c.h \div 4, TRUE)))
            ELSE PackPass(E, j, Append(s.out, c))
RECURSIVE PackAlgo(_)
PackAlgo(E) == LET n == PackPass(E, 1, <<>>) IN IF Len(n) = Len(E) THEN n ELSE PackAlgo(n)

(* ---- or (repaired code) ---- *)
RECURSIVE NotInCellLoopOr(_, _, _, _, _, _)
NotInCellLoopOr(low, X, k, d, h, out) ==
  LET r == ConsumeWhileOverlappedAndPartial(low, X, k, FALSE) IN      \* is_overlapped reset before each call
  IF ~r.ov THEN [idx |-> r.idx, d |-> d, h |-> h, out |-> out]
  ELSE LET c == X[r.idx]
           up == GoUp(d, h, Dd4GoUp(d, h, c.d, c.h), FALSE)
           dn == GoDown(up.d, up.h, c.d, c.h, FALSE)
       IN NotInCellLoopOr(low, X, r.idx, dn.d, dn.h, out \o up.out \o dn.out \o <<C(c.d, c.h, TRUE)>>)
NotInCell4Or(low, X, ci) ==
  LET c == X[ci]
      dn == GoDown(low.d, low.h, c.d, c.h, FALSE)
      lp == NotInCellLoopOr(low, X, ci, dn.d, dn.h, dn.out \o <<C(c.d, c.h, TRUE)>>)
      up == GoUp(lp.d, lp.h, lp.d - low.d, FALSE)
      dn2 == GoDown(up.d, up.h, low.d, low.h + 1, FALSE)
  IN [idx |-> lp.idx, out |-> lp.out \o up.out \o dn2.out]
RECURSIVE OrLoop(_, _, _, _, _)
OrLoop(A, B, l, r, out) ==
  IF l > Len(A) THEN out \o SubSeq(B, r, Len(B))
  ELSE IF r > Len(B) THEN out \o SubSeq(A, l, Len(A))
  ELSE LET a == A[l]
           b == B[r]
       IN IF a.d < b.d THEN
            LET hr == Shr(b.h, b.d - a.d) IN
            IF a.h < hr THEN OrLoop(A, B, l + 1, r, Append(out, a))
            ELSE IF a.h > hr THEN OrLoop(A, B, l, r + 1, Append(out, b))
            ELSE IF a.f THEN OrLoop(A, B, l + 1, ConsumeWhileOverlapped(a, B, r), Append(out, a))
            ELSE LET cw == IF b.f THEN [idx |-> r, ov |-> TRUE] ELSE ConsumeWhileOverlappedAndPartial(a, B, r, FALSE) IN
                 IF cw.ov THEN LET nc == NotInCell4Or(a, B, cw.idx) IN OrLoop(A, B, l + 1, nc.idx, out \o nc.out)
                 ELSE OrLoop(A, B, l + 1, cw.idx, Append(out, C(a.d, a.h, FALSE)))
          ELSE IF a.d > b.d THEN
            LET hl == Shr(a.h, a.d - b.d) IN
            IF hl < b.h THEN OrLoop(A, B, l + 1, r, Append(out, a))
            ELSE IF hl > b.h THEN OrLoop(A, B, l, r + 1, Append(out, b))
            ELSE IF b.f THEN OrLoop(A, B, ConsumeWhileOverlapped(b, A, l), r + 1, Append(out, b))
            ELSE LET cw == IF a.f THEN [idx |-> l, ov |-> TRUE] ELSE ConsumeWhileOverlappedAndPartial(b, A, l, FALSE) IN
                 IF cw.ov THEN LET nc == NotInCell4Or(b, A, cw.idx) IN OrLoop(A, B, nc.idx, r + 1, out \o nc.out)
                 ELSE OrLoop(A, B, cw.idx, r + 1, Append(out, C(b.d, b.h, FALSE)))
          ELSE IF a.h < b.h THEN OrLoop(A, B, l + 1, r, Append(out, a))
          ELSE IF a.h > b.h THEN OrLoop(A, B, l, r + 1, Append(out, b))
          ELSE OrLoop(A, B, l + 1, r + 1, Append(out, C(a.d, a.h, a.f \/ b.f)))
OrAlgo(A, B) == PackAlgo(OrLoop(A, B, 1, 1, <<>>))

(* ---- xor ---- *)
RECURSIVE NotInCellLoopXor(_, _, _, _, _, _)
NotInCellLoopXor(low, X, n, d, h, out) ==         \* n: index of the cell just obtained by iter.next()
  IF n > Len(X) \/ ~IsIn(low, X[n]) THEN [idx |-> n, d |-> d, h |-> h, out |-> out]
  ELSE LET c == X[n]
           up == GoUp(d, h, Dd4GoUp(d, h, c.d, c.h), TRUE)
           dn == GoDown(up.d, up.h, c.d, c.h, TRUE)
       IN NotInCellLoopXor(low, X, n + 1, dn.d, dn.h, out \o up.out \o dn.out \o (IF c.f THEN <<>> ELSE <<C(c.d, c.h, FALSE)>>))
NotInCell4Xor(low, X, ci) ==
  LET c == X[ci]
      dn == GoDown(low.d, low.h, c.d, c.h, TRUE)
      lp == NotInCellLoopXor(low, X, ci + 1, dn.d, dn.h, dn.out \o (IF c.f THEN <<>> ELSE <<C(c.d, c.h, FALSE)>>))
      up == GoUp(lp.d, lp.h, lp.d - low.d, TRUE)
      dn2 == GoDown(up.d, up.h, low.d, low.h + 1, TRUE)
  IN [idx |-> lp.idx, out |-> lp.out \o up.out \o dn2.out]
RECURSIVE XorLoop(_, _, _, _, _)
XorLoop(A, B, l, r, out) ==
  IF l > Len(A) THEN out \o SubSeq(B, r, Len(B))
  ELSE IF r > Len(B) THEN out \o SubSeq(A, l, Len(A))
  ELSE LET a == A[l]
           b == B[r]
       IN IF a.d < b.d THEN
            LET hr == Shr(b.h, b.d - a.d) IN
            IF a.h < hr THEN XorLoop(A, B, l + 1, r, Append(out, a))
            ELSE IF a.h > hr THEN XorLoop(A, B, l, r + 1, Append(out, b))
            ELSE IF a.f THEN LET nc == NotInCell4Xor(a, B, r) IN XorLoop(A, B, l + 1, nc.idx, out \o nc.out)
            ELSE XorLoop(A, B, l + 1, ConsumeWhileOverlapped(a, B, r), Append(out, a))
          ELSE IF a.d > b.d THEN
            LET hl == Shr(a.h, a.d - b.d) IN
            IF hl < b.h THEN XorLoop(A, B, l + 1, r, Append(out, a))
            ELSE IF hl > b.h THEN XorLoop(A, B, l, r + 1, Append(out, b))
            ELSE IF b.f THEN LET nc == NotInCell4Xor(b, A, l) IN XorLoop(A, B, nc.idx, r + 1, out \o nc.out)
            ELSE XorLoop(A, B, ConsumeWhileOverlapped(b, A, l), r + 1, Append(out, b))
          ELSE IF a.h < b.h THEN XorLoop(A, B, l + 1, r, Append(out, a))
          ELSE IF a.h > b.h THEN XorLoop(A, B, l, r + 1, Append(out, b))
          ELSE XorLoop(A, B, l + 1, r + 1, IF a.f /\ b.f THEN out ELSE Append(out, C(a.d, a.h, FALSE)))
XorAlgo(A, B) == PackAlgo(XorLoop(A, B, 1, 1, <<>>))

(* ---- to_lower_depth(new_depth): cells deeper than new_depth become one partial cell per new_depth ancestor ---- *)
RECURSIVE LowerLoop(_, _, _, _, _)
LowerLoop(E, i, nd, prev, out) ==          \* prev: hash at new depth of the pending group, or -1
  IF i > Len(E) THEN (IF prev >= 0 THEN Append(out, C(nd, prev, FALSE)) ELSE out)
  ELSE LET c == E[i] IN
       IF c.d <= nd
         THEN LowerLoop(E, i + 1, nd, -1, (IF prev >= 0 THEN Append(out, C(nd, prev, FALSE)) ELSE out) \o <<c>>)
         ELSE LET cur == Shr(c.h, c.d - nd) IN
              IF prev >= 0 /\ prev # cur THEN LowerLoop(E, i + 1, nd, cur, Append(out, C(nd, prev, FALSE)))
              ELSE LowerLoop(E, i + 1, nd, cur, out)
LowerAlgo(E, nd) == LowerLoop(E, 1, nd, -1, <<>>)
=======================================================================
