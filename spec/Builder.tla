---------------------------- MODULE Builder ----------------------------
(***************************************************************************)
(* The fixed-depth BMOC builder (C15) as a state machine: transcription of *)
(* BMOCBuilderFixedDepth { buffer, sorted, bmoc } with its three methods   *)
(* push / drain_buffer (buff_to_bmoc, largest_lower_cell_sequence_len)     *)
(* / to_bmoc.  Cells of the builder depth are integers (the model uses a   *)
(* small depth); the accumulated BMOC is kept through its semantics (the   *)
(* merge with the previous accumulation is BMOC::or, specified in Bmoc).   *)
(* Refinement claim: at every step  Sem(acc) OR cells(buffer) = the set of *)
(* pushed cells, all with the requested flag, whatever the push order,     *)
(* the duplicates and the capacity.                                        *)
(***************************************************************************)
EXTENDS Bmoc, TLC
CONSTANTS Depth, Hashes, Caps, MaxPush, Flag
VARIABLES buf, sorted, acc, accNone, cap, pushed, npush, done
vars == <<buf, sorted, acc, accNone, cap, pushed, npush, done>>

Pow4(k) == 4^k
(* base-4 digits of a hash of depth d below the base cell *)
PathOf(h, d) == [k \in 1..d |-> (h \div Pow4(d - k)) % 4]
CellOfHash(h, d, f) == [b |-> h \div Pow4(d), p |-> PathOf(h, d), f |-> f]
(* trailing zero base-4 digits (h = 0 has "infinitely many": 32 pairs of bits) *)
RECURSIVE Tz4(_)
Tz4(h) == IF h = 0 THEN 32 ELSE IF h % 4 = 0 THEN 1 + Tz4(h \div 4) ELSE 0
Min(a, b) == IF a < b THEN a ELSE b
(* largest_lower_cell_sequence_len(h, entries): entries[1] = h *)
SeqLen(entries) ==
  LET h == entries[1]
      dd == Min(Tz4(h), Depth)
      n == Min(Pow4(dd), Len(entries))
      RECURSIVE Scan(_)
      Scan(i) == IF i > n THEN n ELSE IF entries[i] # h + i - 1 THEN i - 1 ELSE Scan(i + 1)
  IN Scan(2)
(* the delta depth deduced from a sequence length (next_power_of_two arithmetic of buff_to_bmoc) *)
RECURSIVE NextPow2(_, _)
NextPow2(s, p) == IF p >= s THEN p ELSE NextPow2(s, 2 * p)
RECURSIVE Log2(_)
Log2(p) == IF p <= 1 THEN 0 ELSE 1 + Log2(p \div 2)
DeltaDepth(s) == LET p == NextPow2(s, 1) IN IF p > s THEN Log2(p) \div 4 ELSE Log2(p) \div 2
(* buff_to_bmoc: greedy grouping of aligned runs into coarser cells *)
RECURSIVE BuffToCells(_)
BuffToCells(b) == IF b = <<>> THEN <<>>
                  ELSE LET dd == DeltaDepth(SeqLen(b))
                           n == Pow4(dd)
                       IN <<CellOfHash(b[1] \div n, Depth - dd, Flag)>> \o BuffToCells(SubSeq(b, n + 1, Len(b)))
(* sort_unstable + dedup *)
SortedSeq(S) == LET RECURSIVE Mk(_)
                    Mk(T) == IF T = {} THEN <<>> ELSE LET m == CHOOSE x \in T : \A y \in T : x <= y IN <<m>> \o Mk(T \ {m})
                IN Mk(S)
SeqToSet(s) == {s[k] : k \in 1..Len(s)}
Drained(b, srt) == IF srt THEN b ELSE SortedSeq(SeqToSet(b))
ForestOfHashes(S) == LET RECURSIVE Ins(_, _)
                         Ins(T, F) == IF T = {} THEN F
                                      ELSE LET h == CHOOSE x \in T : TRUE
                                               c == CellOfHash(h, Depth, Flag)
                                           IN Ins(T \ {h}, [F EXCEPT ![c.b] = Insert(F[c.b], c.p, LeafOf(Flag))])
                         f == Ins(S, EmptyForest)
                     IN [b \in 0..11 |-> NormT(f[b])]

Init == /\ buf = <<>> /\ sorted = TRUE /\ acc = EmptyForest /\ accNone = TRUE /\ cap \in Caps
        /\ pushed = {} /\ npush = 0 /\ done = FALSE
DrainInto(b, srt) == LET cells == BuffToCells(Drained(b, srt)) IN Op2("or", acc, Sem(cells))
Push(h) == /\ ~done /\ npush < MaxPush /\ npush' = npush + 1 /\ pushed' = pushed \cup {h}
           /\ IF buf # <<>> /\ buf[Len(buf)] = h
                THEN UNCHANGED <<buf, sorted, acc, accNone>>                       \* same as the last pushed: ignored
                ELSE LET srt == sorted /\ ~(buf # <<>> /\ buf[Len(buf)] > h)
                         nb == Append(buf, h)
                     IN IF Len(nb) = cap
                          THEN acc' = DrainInto(nb, srt) /\ accNone' = FALSE /\ buf' = <<>> /\ sorted' = TRUE
                          ELSE buf' = nb /\ sorted' = srt /\ UNCHANGED <<acc, accNone>>
           /\ UNCHANGED <<cap, done>>
Finish == /\ ~done /\ done' = TRUE
          /\ IF buf # <<>> THEN acc' = DrainInto(buf, sorted) /\ accNone' = FALSE /\ buf' = <<>> /\ sorted' = TRUE
             ELSE UNCHANGED <<buf, sorted, acc, accNone>>
          /\ UNCHANGED <<cap, pushed, npush>>
Next == (\E h \in Hashes : Push(h)) \/ Finish
Spec == Init /\ [][Next]_vars
(* refinement: what has been accumulated plus what is buffered is exactly what was pushed *)
Refines == Op2("or", acc, ForestOfHashes(SeqToSet(buf))) = ForestOfHashes(pushed)
(* the `sorted` flag is truthful *)
SortedFlag == sorted => \A k \in 1..(Len(buf) - 1) : buf[k] < buf[k + 1]
NoneIffEmpty == done => (accNone = (pushed = {}))
Result == done => acc = ForestOfHashes(pushed)
BufBounded == Len(buf) < cap
=======================================================================
