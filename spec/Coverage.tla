---------------------------- MODULE Coverage ----------------------------
(***************************************************************************)
(* The recursive descent shared by the coverage queries (cone: C05 / C06), *)
(* abstracted to what its soundness depends on.  Distances are integers in *)
(* 0..P (P stands for pi).  A point x of the sphere lies in a chain of     *)
(* nested cells c_0 > c_1 > ... > c_L (one per depth from the start depth  *)
(* to the target depth); dc[i] is the distance from the cone centre to the *)
(* centre of c_i, dp the distance to x.  The only geometric fact used is   *)
(* the C16 lemma: every point of a cell of level i is within D[i] of its   *)
(* centre, hence |dp - dc[i]| <= D[i].  The algorithm (transcription of    *)
(* cone_coverage_approx_recur and to_shs_min_max) compares the "squared    *)
(* half segment" shs(d) = sin^2(d/2) - monotone on [0, pi] only - of dc[i] *)
(* with shs(r - D[i]) and shs(r + D[i]).                                   *)
(*   AsCoded = TRUE  : thresholds exactly as the crate computes them       *)
(*                     (min = 0 when r < D; shs(r + D) taken beyond pi)    *)
(*   AsCoded = FALSE : the intended rule (no "full" threshold when r < D;  *)
(*                     r + D capped at pi)                                 *)
(***************************************************************************)
EXTENDS Integers, Sequences, FiniteSets
CONSTANTS P, L, Tables, AsCoded
VARIABLES r, D, dc, dp, lev, out
vars == <<r, D, dc, dp, lev, out>>
Abs(x) == IF x < 0 THEN -x ELSE x
Min(a, b) == IF a < b THEN a ELSE b
(* sin^2(d/2) as an order-isomorphic integer: increasing on [0, P], symmetric around P *)
Shs(d) == IF d <= P THEN d ELSE 2 * P - d
MinThr(i) == IF AsCoded THEN (IF r < D[i] THEN 0 ELSE Shs(r - D[i]))
             ELSE (IF r < D[i] THEN -1 ELSE Shs(r - D[i]))
MaxThr(i) == IF AsCoded THEN Shs(r + D[i]) ELSE Shs(Min(r + D[i], P))
Init == /\ r \in 1..P /\ D \in Tables
        /\ dc \in [0..L -> 0..P] /\ dp \in 0..P
        /\ \A i \in 0..L : Abs(dp - dc[i]) <= D[i]           \* the point is in every cell of the chain (C16 lemma)
        /\ lev = 0 /\ out = "visiting"
Visit == /\ out = "visiting"
         /\ LET shs == Shs(dc[lev]) IN
            IF shs <= MinThr(lev) THEN out' = "full" /\ UNCHANGED lev
            ELSE IF shs <= MaxThr(lev) THEN (IF lev = L THEN out' = "partial" /\ UNCHANGED lev ELSE lev' = lev + 1 /\ UNCHANGED out)
            ELSE out' = "dropped" /\ UNCHANGED lev
         /\ UNCHANGED <<r, D, dc, dp>>
Next == Visit
Spec == Init /\ [][Next]_vars
(* C05: a cell containing a point of the cone is never dropped (nor are its ancestors) *)
NoMiss == out = "dropped" => dp > r
(* C06: a cell (or ancestor) flagged full lies entirely in the cone *)
Truthful == out = "full" => dp <= r
(* C06 tightness: a reported cell is not farther than r + D of its level *)
Tight == out \in {"full", "partial"} => dc[lev] <= r + D[lev]
=======================================================================
