---------------------------- MODULE Gen_Bmoc ----------------------------
(* Generators (spec -> impl) for the BMOC properties: the specification enumerates a bounded universe of
   operands / push sequences / cell lists; the harness executes them on the real crate and the resulting
   events are validated by Trace_Bmoc (so the judge is TLC in both directions).
     Mode "pairs":  every ordered pair of BMOCs of the universe (trees of depth <= 1 in base cell 0 with the
                    given leaf states, combined with a few states of base cell 11), several dmax mixes
     Mode "pushes": every push sequence of length <= MaxLen over Hashes (cells of depth 1), each capacity, flag
     Mode "cells":  every cell list of the universe, packed and unpacked variants, for pack / lower / views *)
EXTENDS Bmoc, TLC, Json, IOUtils, SequencesExt
CONSTANTS Mode, States, OtherStates, DmaxPairs, Hashes, MaxLen, Caps, Flags
Leaves(S) == {<<s>> : s \in S}
Trees(S) == Leaves(S) \cup ({<<a, b, c, d>> : a \in Leaves(S), b \in Leaves(S), c \in Leaves(S), d \in Leaves(S)} \ {<<a, a, a, a>> : a \in Leaves(S)})
ForestOf(t, u) == [b \in 0..11 |-> IF b = 0 THEN t ELSE IF b = 11 THEN u ELSE Absent]
Universe == {ForestOf(t, u) : t \in Trees(States), u \in Leaves(OtherStates)}
(* an unpacked presentation of the same map: a depth-0 leaf written as its four children *)
Unpack(cells) == IF cells # <<>> /\ Head(cells).p = <<>>
                 THEN [k \in 1..4 |-> [b |-> Head(cells).b, p |-> <<k - 1>>, f |-> Head(cells).f]] \o Tail(cells)
                 ELSE cells
Val(F, d) == [dmax |-> d, cells |-> Canonical(F)]
Pairs == {[kind |-> "pair", a |-> Val(Fa, dp \div 10), b |-> Val(Fb, dp % 10)] : Fa \in Universe, Fb \in Universe, dp \in DmaxPairs}
RECURSIVE SeqsUpTo(_, _)
SeqsUpTo(S, n) == IF n = 0 THEN {<<>>} ELSE LET r == SeqsUpTo(S, n - 1) IN r \cup {Append(s, x) : s \in {q \in r : Len(q) = n - 1}, x \in S}
HashCell(h) == [b |-> h \div 4, p |-> <<h % 4>>]
Pushes == {[kind |-> "pushes", depth |-> 1, flag |-> fl, cap |-> c, hs |-> [k \in 1..Len(s) |-> HashCell(s[k])]] :
             s \in SeqsUpTo(Hashes, MaxLen), c \in Caps, fl \in Flags}
CellLists == {[kind |-> "cells", a |-> [dmax |-> 2, cells |-> cs]] : cs \in {Canonical(F) : F \in Universe} \cup {Unpack(Canonical(F)) : F \in Universe}}
Cases == IF Mode = "pairs" THEN Pairs ELSE IF Mode = "pushes" THEN Pushes ELSE CellLists
ASSUME ndJsonSerialize(IOEnv.OUT, SetToSeq(Cases))
VARIABLE x
Init == x = 0
Next == UNCHANGED x
Spec == Init /\ [][Next]_x
=======================================================================
