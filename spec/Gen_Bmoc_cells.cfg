SPECIFICATION Spec
CONSTANTS
  Mode = "cells"
  States = {0, 1, 2}
  OtherStates = {0, 2}
  DmaxPairs = {}
  Hashes = {}
  MaxLen = 0
  Caps = {}
  Flags = {}
