SPECIFICATION Spec
CONSTANTS
  Mode = "pairs"
  States = {0, 1, 2}
  OtherStates = {0}
  DmaxPairs = {11}
  Hashes = {}
  MaxLen = 0
  Caps = {}
  Flags = {}
