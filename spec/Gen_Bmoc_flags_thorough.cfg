SPECIFICATION Spec
CONSTANTS
  Mode = "pairs"
  States = {0, 1, 2}
  OtherStates = {0, 1}
  DmaxPairs = {11, 12, 31}
  Hashes = {}
  MaxLen = 0
  Caps = {}
  Flags = {}
