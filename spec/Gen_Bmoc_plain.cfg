SPECIFICATION Spec
CONSTANTS
  Mode = "pairs"
  States = {0, 2}
  OtherStates = {0, 2}
  DmaxPairs = {11, 13, 21}
  Hashes = {}
  MaxLen = 0
  Caps = {}
  Flags = {}
