SPECIFICATION Spec
CONSTANTS
  Mode = "pushes"
  States = {}
  OtherStates = {}
  DmaxPairs = {}
  Hashes = {0, 1, 2, 3, 4, 7}
  MaxLen = 3
  Caps = {1, 2, 3, 4}
  Flags = {1}
