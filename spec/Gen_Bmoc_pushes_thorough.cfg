SPECIFICATION Spec
CONSTANTS
  Mode = "pushes"
  States = {}
  OtherStates = {}
  DmaxPairs = {}
  Hashes = {0, 1, 2, 3, 4, 5, 6, 7}
  MaxLen = 4
  Caps = {1, 2, 3, 4, 5}
  Flags = {0, 1}
