SPECIFICATION Spec
CONSTANTS
  ExhDepths = {0, 1}
  ClassDepths = {5, 27, 28}
  Deltas = {1, 2}
