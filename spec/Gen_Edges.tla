---------------------------- MODULE Gen_Edges ----------------------------
(* Generator (spec -> impl) for C14: (cell, delta_depth) with the expected internal walk, external edge,
   sides and corners.  Exhaustive for small depths, base-cell corner / border classes for deep ones. *)
EXTENDS HpxGeo, TLC, Json, IOUtils, SequencesExt
CONSTANTS ExhDepths, ClassDepths, Deltas
Pow2(d) == 2^d
One(s) == IF s = {} THEN <<>> ELSE CHOOSE o \in s : TRUE
Case(d, c, dd) == LET N == Pow2(d)
                      M == Pow2(dd)
                  IN [d |-> d, dd |-> dd, c |-> c, ie |-> InternalEdgeWalk(c, M),
                      ee |-> SetToSeq(ExternalEdgeFiled(N, c, M)),
                      side |-> [o \in Ordinals |-> SetToSeq(ExternalSide(N, c, M, o))],
                      corner |-> [k \in Cardinals |-> One(ExternalCorner(N, c, M, k))],
                      icorner |-> [k \in Cardinals |-> InternalCorner(c, M, k)],
                      ipart |-> [o \in Ordinals |-> SetToSeq(InternalSide(c, M, o))]]
EdgeVals(N) == {0, 1, N \div 2, N - 1} \cap 0..(N - 1)
ClassCells(N) == {<<b, i, j>> : b \in 0..11, i \in EdgeVals(N), j \in EdgeVals(N)}
Cases == UNION ({{Case(d, c, dd) : c \in Cells(Pow2(d)), dd \in Deltas} : d \in ExhDepths}
           \cup {{Case(d, c, dd) : c \in ClassCells(Pow2(d)), dd \in {x \in Deltas : d + x <= 29}} : d \in ClassDepths})
ASSUME ndJsonSerialize(IOEnv.OUT, SetToSeq(Cases))
VARIABLE x
Init == x = 0
Next == UNCHANGED x
Spec == Init /\ [][Next]_x
=======================================================================
