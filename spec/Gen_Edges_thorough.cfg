SPECIFICATION Spec
CONSTANTS
  ExhDepths = {0, 1, 2, 3}
  ClassDepths = {4, 7, 11, 16, 21, 25, 26, 27, 28}
  Deltas = {1, 2, 3}
