SPECIFICATION Spec
CONSTANTS
  ExhDepths = {0, 1, 2}
  ClassDepths = {3, 7, 12, 19, 25, 28, 29}
