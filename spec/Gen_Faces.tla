---------------------------- MODULE Gen_Faces ----------------------------
(* Generator (spec -> impl) for C01/C03: faces of the cell complex (open cells, open edges, nodes) with
   the set of cells whose closure contains them.  Exhaustive for small depths; for deep depths the
   classes: faces next to the 4 corners / 4 borders / centre lines of each of the 12 base cells
   (which include the poles, the transition latitude, the meridians k*pi/4 and the 8 three-cell points). *)
EXTENDS HpxGeo, TLC, Json, IOUtils, SequencesExt
CONSTANTS ExhDepths, ClassDepths
Pow2(d) == 2^d
CVals(N) == {0, 1, 2, N - 1, N, N + 1, 2 * N - 2, 2 * N - 1, 2 * N} \cap 0..(2 * N)
ClassFaces(N) == {<<b, a2, c2>> : b \in 0..11, a2 \in CVals(N), c2 \in CVals(N)}
Case(d, f) == [d |-> d, f |-> f, star |-> SetToSeq(StarFace(Pow2(d), f))]
Cases == UNION ({{Case(d, f) : f \in Faces(Pow2(d))} : d \in ExhDepths}
           \cup {{Case(d, f) : f \in ClassFaces(Pow2(d))} : d \in ClassDepths})
ASSUME ndJsonSerialize(IOEnv.OUT, SetToSeq(Cases))
VARIABLE x
Init == x = 0
Next == UNCHANGED x
Spec == Init /\ [][Next]_x
=======================================================================
