SPECIFICATION Spec
CONSTANTS
  ExhDepths = {0, 1}
  ClassDepths = {2, 3}
