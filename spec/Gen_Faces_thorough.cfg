SPECIFICATION Spec
CONSTANTS
  ExhDepths = {0, 1, 2, 3, 4}
  ClassDepths = {5, 6, 7, 8, 9, 10, 11, 12, 13, 14, 15, 16, 17, 18, 19, 20, 21, 22, 23, 24, 25, 26, 27, 28, 29}
