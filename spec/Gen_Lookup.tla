---------------------------- MODULE Gen_Lookup ----------------------------
(* Generator for C16 (a): the 61 order classes of a radius relative to the table, with the expected depth. *)
EXTENDS Lookup, TLC, Json, IOUtils, SequencesExt
(* class r even = equal to entry T^-1(r), r odd = strictly between entries (r+1)/... ; -1 = below the last entry *)
Case(x) == [cls |-> x, expected |-> Best(x),
            eq |-> IF x % 2 = 0 /\ x >= 2 THEN (60 - x) \div 2 ELSE -1,          \* the entry the radius is equal to, if any
            above |-> IF x % 2 # 0 /\ x >= 3 THEN (61 - x) \div 2 ELSE -1,   \* x odd >= 3: strictly between T(above) and T(above - 1)
            below |-> IF x <= 1 THEN 1 ELSE 0]                                \* below the last entry
ASSUME ndJsonSerialize(IOEnv.OUT, SetToSeq({Case(x) : x \in Radii}))
=======================================================================
