SPECIFICATION Spec
CONSTANTS
  ExhDepths = {0, 1, 2, 3}
  ClassDepths = {4, 9, 16, 24, 28, 29}
