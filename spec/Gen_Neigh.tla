---------------------------- MODULE Gen_Neigh ----------------------------
(* Generator (spec -> impl) for C04: cells with the neighbour map the specification expects.
   Exhaustive over the small depths, class-complete (corners, borders, their neighbours and the
   interior of each of the 12 base cells) for the deep ones. *)
EXTENDS HpxGeo, TLC, Json, IOUtils, SequencesExt
CONSTANTS ExhDepths, ClassDepths
Pow2(d) == 2^d
MapOf(N, c) == [w \in MainWinds |-> LET s == NeighAt(N, c, w) IN IF s = {} THEN <<>> ELSE CHOOSE o \in s : TRUE]
EdgeVals(N) == {0, 1, N \div 2, N - 2, N - 1} \cap 0..(N - 1)
ClassCells(N) == {<<b, i, j>> : b \in 0..11, i \in EdgeVals(N), j \in EdgeVals(N)}
Cases == UNION ({{[d |-> d, c |-> c, m |-> MapOf(Pow2(d), c)] : c \in Cells(Pow2(d))} : d \in ExhDepths}
           \cup {{[d |-> d, c |-> c, m |-> MapOf(Pow2(d), c)] : c \in ClassCells(Pow2(d))} : d \in ClassDepths})
ASSUME ndJsonSerialize(IOEnv.OUT, SetToSeq(Cases))
VARIABLE x
Init == x = 0
Next == UNCHANGED x
Spec == Init /\ [][Next]_x
=======================================================================
