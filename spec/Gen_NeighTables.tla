---------------------------- MODULE Gen_NeighTables ----------------------------
(* Generator (spec -> impl): the base-cell tables of src/lib.rs and the MainWind helpers of
   src/compass_point.rs as the GEOMETRY defines them (HpxGeo at N = 1 and N = 4), not as NeighAlgo
   transcribes them (MC_NeighAlgo shows the two agree). One json line per table entry:
     bn   neighbour(base_cell, w)                         r = [] | [base cell]
     dfn  direction_from_neighbour(base_cell, w)          r = direction | "!" (documented panic)
     ecd  edge_cell_direction_from_neighbour(b, inner, w) r = direction, for every (inner, w) that a border cell
          of a subdivided base cell really meets (N = 4: corners, their neighbours and mid-border cells)
     opp / off  MainWind::opposite, MainWind::from_offsets                                       *)
EXTENDS NeighAlgo, TLC, Json, IOUtils, SequencesExt
CONSTANT Kinds
One(s) == IF s = {} THEN <<>> ELSE <<CHOOSE x \in s : TRUE>>
Bn == {[k |-> "bn", b |-> b, w |-> w, r |-> One({o[1] : o \in NeighAt(1, <<b, 0, 0>>, w)})] : b \in 0..11, w \in MainWinds}
Dfn == {[k |-> "dfn", b |-> b, w |-> w,
         r |-> LET s == NeighAt(1, <<b, 0, 0>>, w) IN IF s = {} THEN "!" ELSE Dir(1, CHOOSE o \in s : TRUE, <<b, 0, 0>>)] : b \in 0..11, w \in MainWinds}
EcdAt(N) == {[k |-> "ecd", b |-> t[1][1], inner |-> DirectionInBorder(N, t[1]), w |-> t[2], r |-> Dir(N, t[3], t[1])] :
               t \in {<<c, w, o>> \in Cells(N) \X MainWinds \X Cells(N) : InBorder(N, c) /\ o \in NeighAt(N, c, w) /\ o[1] # c[1]}}
EcdFast(N) == UNION {UNION {{[k |-> "ecd", b |-> c[1], inner |-> DirectionInBorder(N, c), w |-> w, r |-> Dir(N, o, c)] :
               o \in {x \in NeighAt(N, c, w) : x[1] # c[1]}} : w \in MainWinds} : c \in {c \in Cells(N) : InBorder(N, c)}}
Opp == {[k |-> "opp", w |-> w, r |-> CHOOSE v \in MainWinds : OffSE(v) = -OffSE(w) /\ OffSW(v) = -OffSW(w)] : w \in MainWinds}
Off == {[k |-> "off", ose |-> a, osw |-> c, r |-> CHOOSE v \in MainWinds \cup {"C"} : OffSE(v) = a /\ OffSW(v) = c] : a \in -1..1, c \in -1..1}
Cases == (IF "bn" \in Kinds THEN Bn \cup Opp \cup Off ELSE {}) \cup (IF "dfn" \in Kinds THEN Dfn \cup EcdFast(4) \cup EcdFast(2) ELSE {})
ASSUME ndJsonSerialize(IOEnv.OUT, SetToSeq(Cases))
VARIABLE x
Init == x = 0
Next == UNCHANGED x
Spec == Init /\ [][Next]_x
=======================================================================
