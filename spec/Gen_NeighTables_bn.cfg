SPECIFICATION Spec
CONSTANTS
  Kinds = {"bn"}
