SPECIFICATION Spec
CONSTANTS
  Kinds = {"dfn"}
