SPECIFICATION Spec
CONSTANT Ns = {1, 2, 3, 4, 8}
