---------------------------- MODULE Gen_Proj ----------------------------
(* Generator (spec -> impl) for C17: every lattice point of small subdivisions with exact plane coordinates
   and the depth-0 cells whose closure contains it. *)
EXTENDS HpxProj, TLC, Json, IOUtils, SequencesExt
CONSTANT Ns
Case(N, f) == [n |-> N, f |-> f, xn |-> XNum(N, f), yn |-> YNum(N, f), bc |-> SetToSeq(BaseCellsOf(N, f))]
Cases == UNION {{Case(N, f) : f \in Faces(N)} : N \in Ns}
ASSUME \A N \in Ns : \A f \in Faces(N) : InDomain(N, f) /\ BaseCellsOf(N, f) # {} /\ f[1] \in BaseCellsOf(N, f)
                                         /\ Abs(SinLat(N, f)[1]) <= SinLat(N, f)[2]
ASSUME ndJsonSerialize(IOEnv.OUT, SetToSeq(Cases))
VARIABLE x
Init == x = 0
Next == UNCHANGED x
Spec == Init /\ [][Next]_x
=======================================================================
