---------------------------- MODULE Gen_Ring ----------------------------
(* Generators (spec -> impl) for C10 / C11.
   Mode "pairs": (depth, cell, RING index) for every cell of small depths and ring-boundary classes of deep depths.
   Mode "faces": (nside, face, RING indices of the cells around the face) for every face of small nsides
                 (powers of two or not) and seam / pole classes of large ones. *)
EXTENDS HpxRing, TLC, Json, IOUtils, SequencesExt
CONSTANTS Mode, ExhDepths, ClassDepths, ExhNsides, ClassNsides
Pow2(d) == 2^d
EdgeVals(N) == {0, 1, N \div 2, N - 1} \cap 0..(N - 1)
ClassCells(N) == {<<b, i, j>> : b \in 0..11, i \in EdgeVals(N), j \in EdgeVals(N)}
Pair(d, c) == [d |-> d, c |-> c, r |-> ToRing(Pow2(d), c)]
Pairs == UNION ({{Pair(d, c) : c \in Cells(Pow2(d))} : d \in ExhDepths} \cup {{Pair(d, c) : c \in ClassCells(Pow2(d))} : d \in ClassDepths})
CVals(N) == {0, 1, 2, N - 1, N, N + 1, 2 * N - 2, 2 * N - 1, 2 * N} \cap 0..(2 * N)
ClassFaces(N) == {<<b, a2, c2>> : b \in 0..11, a2 \in CVals(N), c2 \in CVals(N)}
FaceCase(N, f) == [n |-> N, f |-> f, rs |-> SetToSeq({ToRing(N, cl) : cl \in StarFace(N, f)})]
FaceCases == UNION ({{FaceCase(N, f) : f \in Faces(N)} : N \in ExhNsides} \cup {{FaceCase(N, f) : f \in ClassFaces(N)} : N \in ClassNsides})
ASSUME ndJsonSerialize(IOEnv.OUT, SetToSeq(IF Mode = "pairs" THEN Pairs ELSE FaceCases))
VARIABLE x
Init == x = 0
Next == UNCHANGED x
Spec == Init /\ [][Next]_x
=======================================================================
