SPECIFICATION Spec
CONSTANTS
  Mode = "faces"
  ExhDepths = {}
  ClassDepths = {}
  ExhNsides = {1, 2, 3, 4, 5, 6, 7}
  ClassNsides = {13, 64, 97, 1000, 65537, 1000003, 536870911, 536870912}
