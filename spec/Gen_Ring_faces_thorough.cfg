SPECIFICATION Spec
CONSTANTS
  Mode = "faces"
  ExhDepths = {}
  ClassDepths = {}
  ExhNsides = {1, 2, 3, 4, 5, 6, 7, 8, 9, 10, 11, 12, 13, 14, 15, 16, 17, 20, 24}
  ClassNsides = {31, 32, 33, 64, 97, 255, 256, 257, 1000, 4095, 4096, 4097, 65537, 1000003, 123456789, 268435456, 536870911, 536870912}
