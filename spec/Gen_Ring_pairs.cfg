SPECIFICATION Spec
CONSTANTS
  Mode = "pairs"
  ExhDepths = {0, 1, 2, 3, 4}
  ClassDepths = {5, 8, 13, 20, 24, 25, 26, 27, 28, 29}
  ExhNsides = {}
  ClassNsides = {}
