SPECIFICATION Spec
CONSTANTS
  Mode = "pairs"
  ExhDepths = {0, 1, 2, 3, 4, 5, 6}
  ClassDepths = {7, 8, 9, 10, 11, 12, 13, 14, 15, 16, 17, 18, 19, 20, 21, 22, 23, 24, 25, 26, 27, 28, 29}
  ExhNsides = {}
  ClassNsides = {}
