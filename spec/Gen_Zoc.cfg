SPECIFICATION Spec
CONSTANTS
  W = 4
  Shifts = {0, 4, 5, 12, 13, 20, 28}
