---------------------------- MODULE Gen_Zoc ----------------------------
(* Generator (spec -> impl) for C18: every (i, j) of W bits with its interleaving (W base-4 digits), to be
   replayed at several bit offsets through every z-order implementation the crate can select. *)
EXTENDS HpxZoc, TLC, Json, IOUtils, SequencesExt
CONSTANTS W, Shifts
Cases == {[i |-> vi, j |-> vj, shift |-> s, h |-> PathOfIJ(vi, vj, W)] : vi \in 0..(2^W - 1), vj \in 0..(2^W - 1), s \in Shifts}
ASSUME ndJsonSerialize(IOEnv.OUT, SetToSeq(Cases))
VARIABLE x
Init == x = 0
Next == UNCHANGED x
Spec == Init /\ [][Next]_x
=======================================================================
