SPECIFICATION Spec
CONSTANTS
  W = 6
  Shifts = {0, 1, 2, 3, 7, 10, 15, 18, 23, 26}
