---------------------------- MODULE HashAlgo ----------------------------
(***************************************************************************)
(* Transcription of the crate's position -> cell algorithms on EXACT       *)
(* rationals (C01, C02, C03, C11, C17 at model level):                     *)
(*   nested::Layer::hash_v2 (xpm1_and_q, d0h_lh_in_d0c, cast, clamp),      *)
(*   nested::Layer::hash_with_dxdy (proj, shift_rotate_scale, discretize,  *)
(*       base_cell_coos, depth0_bits, hash_with_dxdy_out_of_base_cells),   *)
(*   ring::hash_with_dldh (deal_with_1x1_box, gap correction, build),      *)
(*   base_cell_from_proj_coo.                                              *)
(* One operator per Rust function, same branch structure.                  *)
(*                                                                         *)
(* A *lattice point* is <<b, A, C>>, A, C \in 0..L, L = 2*N*K: the point   *)
(* of base cell b with local coordinates a = A/(2K), c = C/(2K) (in cells  *)
(* of subdivision N), i.e. a face of subdivision N*K in the doubled        *)
(* coordinates of HpxGeo.  Plane coordinates (numerators over L):          *)
(*    X = cx*L + A - C,   Y = (cy - 1)*L + A + C.                          *)
(* On the lattice every quantity the algorithms compute is rational:       *)
(* in a cap sigma = sqrt(3(1 - |z|)) = 2 - |y| = s/L, and the longitude    *)
(* (units of pi/4) is t = xc + (x - xc)/sigma = ((2q+1) s + A - C)/s.      *)
(*                                                                         *)
(* What floating point adds is modelled as NONDETERMINISM, not computed:    *)
(*   - reg: on the transition latitude (|Y| = L) either branch may be      *)
(*     taken (the comparison with the rounded TRANSITION_LATITUDE);        *)
(*   - sgn: a zero longitude may carry either sign bit;                    *)
(*   - e1, e2 \in Eps: the two projected coordinates are perturbed by      *)
(*     e/(R*L) with R = 4 (a rounding error far below the lattice step);   *)
(*   - pole: at a pole the longitude is arbitrary.                         *)
(* The invariants of MC_HashAlgo state that for EVERY such choice the      *)
(* returned cell is in StarFace(face of the exact point).                  *)
(***************************************************************************)
EXTENDS HpxRing
(* "asis": the code of the repository as it stands.  The other variants re-introduce, one at a time, a defect that
   the code had (or could have); each must violate an invariant of MC_HashAlgo (non-vacuity, bin/selfcheck):
     "f02"     xpm1_and_q subtracts q (the odd floor masked to 3 bits) instead of the odd floor     -> NestedOK
     "noclamp" hash_v2 without `i == nside -> nside - 1`                                             -> NestedOK
     "f06"     ring::hash without the correction of the cells falling in the gap between two caps  -> RingOK
     "f10"     base_cell_from_proj_coo without the final `& 3` and without the clamp of j           -> BaseCellOK
     "nooob"   hash_with_dxdy routing every position through depth0_bits branches 0..2 only         -> DxDyOK *)
CONSTANT Variant

R == 4                                  \* refinement of the lattice step for perturbations
LOf(N, K) == 2 * N * K
PX(L, p) == Cx(p[1]) * L + p[2] - p[3]
PY(L, p) == (Cy(p[1]) - 1) * L + p[2] + p[3]
SOf(L, p) == 2 * L - Abs(PY(L, p))      \* sigma * L
IsPole(L, p) == SOf(L, p) = 0
(* regions the code may select for the point *)
Regions(L, p) == LET Y == PY(L, p) IN
  IF Abs(Y) < L THEN {"belt"} ELSE IF Abs(Y) > L THEN {IF Y > 0 THEN "north" ELSE "south"}
  ELSE {"belt", IF Y > 0 THEN "north" ELSE "south"}
(* longitude in units of pi/4 as a fraction <<T, W>>, W > 0 (pole: `pole` halves) *)
LonFrac(L, p, pole) == LET Y == PY(L, p) IN
  IF Abs(Y) <= L THEN <<PX(L, p), L>>
  ELSE LET s == SOf(L, p) IN
       IF s = 0 THEN <<pole, 2>> ELSE <<(2 * BQ(p[1]) + 1) * s + p[2] - p[3], s>>
(* sign bits a float holding T/W may have *)
Signs(T) == IF T > 0 THEN {0} ELSE IF T < 0 THEN {1} ELSE {0, 1}

(***************************************************************************)
(* xpm1_and_q / pm1_offset_decompose: x = |lon| * 4/pi = xa/W               *)
(*   odd_floor = (x as u8) | 1, q = odd_floor & 7                          *)
(* (x as u8 saturates at 255: the model is restricted to |x| < 256)        *)
(***************************************************************************)
OddFloor(xa, W) == LET fl == xa \div W IN IF fl % 2 = 0 THEN fl + 1 ELSE fl
XPM1Q(T, W, sgn) ==
  LET xa == Abs(T)
      odd == OddFloor(xa, W)
      q == odd % 8
      sub == IF Variant = "f02" THEN q ELSE odd
  IN IF sgn = 0 THEN [p |-> xa - sub * W, q |-> q \div 2]
     ELSE [p |-> sub * W - xa, q |-> 3 - (q \div 2)]

(***************************************************************************)
(* d0h_lh_in_d0c: base cell + (l, h) in the base cell, numerators over     *)
(* R*L.  xp.p is x_pm1 over W (W = L in the belt, W = s in a cap, so that  *)
(* x_pm1 * sigma = xp.p / L).                                              *)
(***************************************************************************)
B2N(b) == IF b THEN 1 ELSE 0
D0hLH(L, p, reg, xp, e1, e2) ==
  LET Y == PY(L, p)
      s == SOf(L, p)
      RL == R * L
  IN IF reg = "north" THEN
       [d |-> xp.q, l |-> (IF s = 0 THEN 0 ELSE R * xp.p) + e1, h |-> R * (2 * L - s) + e2]
     ELSE IF reg = "south" THEN
       [d |-> xp.q + 8, l |-> (IF s = 0 THEN 0 ELSE R * xp.p) + e1, h |-> R * s + e2]
     ELSE
       LET xpm1 == R * xp.p + e1
           ypm1 == R * Y + e2
           q01 == B2N(xpm1 > ypm1)
           q12 == B2N(xpm1 >= -ypm1)
           q1 == IF q01 = 1 /\ q12 = 1 THEN 1 ELSE 0
           q013 == q01 + (1 - q12)
       IN [d |-> q013 * 4 + ((xp.q + q1) % 4),
           l |-> xpm1 - (q01 + q12 - 1) * RL,
           h |-> ypm1 + q013 * RL]

(* `v as u32` of a float v = num/den: toward zero, negative values give 0 *)
Cast(num, den) == IF num < 0 THEN 0 ELSE num \div den

(***************************************************************************)
(* hash_v2: i = (N/2 (h + l)) as u32, j = (N/2 (h - l)) as u32, then       *)
(* i == nside -> nside - 1.  N/2 / (R*L) = 1/(4 K R).                       *)
(* Returns <<d0h, i, j>> (possibly out of range: the invariant decides).   *)
(***************************************************************************)
NestedHash(N, K, p, reg, turn, sgn, pole, e1, e2) ==
  LET L == LOf(N, K)
      lf == LonFrac(L, p, pole)
      T == lf[1] + 8 * lf[2] * turn
      xp == XPM1Q(T, lf[2], sgn)
      r == D0hLH(L, p, reg, xp, e1, e2)
      i0 == Cast(r.h + r.l, 4 * K * R)
      j0 == Cast(r.h - r.l, 4 * K * R)
      i == IF i0 = N /\ Variant # "noclamp" THEN N - 1 ELSE i0
      j == IF j0 = N /\ Variant # "noclamp" THEN N - 1 ELSE j0
  IN <<r.d, i, j>>
(* signs available for the turned longitude *)
TurnSigns(L, p, pole, turn) == LET lf == LonFrac(L, p, pole) IN Signs(lf[1] + 8 * lf[2] * turn)

(***************************************************************************)
(* proj (lib.rs): abs / sign decomposition, pm1_offset_decompose, CEA or   *)
(* Collignon, apply_offset_and_signs, then ensures_x_is_positive.          *)
(* Returns plane coordinates as numerators over L (exact, no perturbation: *)
(* the perturbation is applied by the callers).                            *)
(***************************************************************************)
ProjXY(L, p, reg, T, W, sgn, ysgn) ==
  LET xa == Abs(T)
      odd == OddFloor(xa, W)
      off == odd % 8
      pp == xa - odd * W                              \* pm1 over W
      s == SOf(L, p)
      xn == off * L + (IF reg = "belt" THEN pp ELSE IF s = 0 THEN 0 ELSE pp)   \* belt: W = L; cap: pm1 * sigma = pp / L
      yn == IF reg = "belt" THEN Abs(PY(L, p)) ELSE 2 * L - s
      x == IF sgn = 1 THEN -xn ELSE xn
      y == IF ysgn = 1 THEN -yn ELSE yn
  IN <<x, y>>
EnsurePos(x, L) == IF x < 0 THEN x + 8 * L ELSE x
YSigns(L, p) == Signs(PY(L, p))

(***************************************************************************)
(* hash_with_dxdy.  Coordinates in the shifted / rotated / scaled frame    *)
(* are numerators over Q = 4*K*R (one cell = Q).                           *)
(***************************************************************************)
OutOfBaseCells(N, Q, i, j, xs, ys) ==
  LET gx == xs - i * N * Q
      gy == ys - j * N * Q
      last == N - 1
      InLast(g) == LET c == Cast(g, Q) IN IF c > last THEN last ELSE c
  IN CASE i + j = 6 ->
            IF gx < gy THEN LET cj == InLast(gy) IN [c |-> <<(i - 2) % 4, last, cj>>, dx |-> Q + gx, dy |-> gy - cj * Q]
            ELSE LET ci == InLast(gx) IN [c |-> <<(i - 1) % 4, ci, last>>, dx |-> gx - ci * Q, dy |-> Q + gy]
       [] i + j = 7 -> [c |-> <<(i - 2) % 4, last, last>>, dx |-> Q + gx, dy |-> Q + gy]
       [] i + j = 2 ->
            IF gx > gy THEN LET cj == InLast(gy) IN [c |-> <<8 + ((i + 1) % 4), 0, cj>>, dx |-> 0, dy |-> gy - cj * Q]
            ELSE LET ci == InLast(gx) IN [c |-> <<8 + (i % 4), ci, 0>>, dx |-> gx - ci * Q, dy |-> 0]
       [] i + j = 1 -> [c |-> <<8 + ((i + 1) % 4), 0, 0>>, dx |-> 0, dy |-> 0]
       [] OTHER -> [c |-> <<-1, 0, 0>>, dx |-> 0, dy |-> 0]           \* panic!("Algorithm error")

NestedHashDxDy(N, K, p, reg, turn, sgn, ysgn, pole, e1, e2) ==
  LET L == LOf(N, K)
      Q == 4 * K * R
      lf == LonFrac(L, p, pole)
      T == lf[1] + 8 * lf[2] * turn
      xy == ProjXY(L, p, reg, T, lf[2], sgn, ysgn)
      x == R * EnsurePos(xy[1], L) + e1
      y == R * xy[2] + e2
      RL == R * L
      \* shift_rotate_scale: (N/2)(x + y + 1), (N/2)(y + 1 + 8 - x); N/2 / (R L) = 1/Q
      xs == x + y + RL
      ys == y + RL + 8 * RL - x
      ii == Cast(xs, Q)
      jj == Cast(ys, Q)
      dx == xs - ii * Q
      dy == ys - jj * Q
      id == ii \div N
      jd == jj \div N
      ipj == id + jd
  IN IF (ipj < 3 \/ ipj > 5) /\ Variant # "nooob" THEN OutOfBaseCells(N, Q, id, jd, xs, ys)
     ELSE LET k == 5 - ipj          \* depth0_bits, branches 0..2 (the others are unreachable from here)
              d0h == 4 * k + ((id - (IF k = 0 THEN 1 ELSE 0)) % 4)
          IN [c |-> <<d0h, ii % N, jj % N>>, dx |-> dx, dy |-> dy]

(***************************************************************************)
(* ring::hash_with_dldh (the index part).  dl = (N/2) x, dh = (N/2)(y+3),  *)
(* numerators over Q.  Returns the RING index as an integer (small N), or  *)
(* -1 where the code would underflow a u64.                                *)
(***************************************************************************)
Tri4(n) == 2 * n * (n + 1)                           \* triangular_number_x4
RingHash(N, K, p, reg, turn, sgn, ysgn, pole, e1, e2) ==
  LET L == LOf(N, K)
      Q == 4 * K * R
      RL == R * L
      lf == LonFrac(L, p, pole)
      T == lf[1] + 8 * lf[2] * turn
      xy == ProjXY(L, p, reg, T, lf[2], sgn, ysgn)
      dlA == R * EnsurePos(xy[1], L) + e1
      dhA == R * xy[2] + e2 + 3 * RL
      fh == Cast(dhA, Q)
      fl == Cast(dlA, Q)
      dl == dlA - fl * Q
      dh == dhA - fh * Q
      in1 == B2N(dl <= dh)
      in2 == B2N(dl >= Q - dh)
      iring0 == 2 * fh + in1 + in2
      iin0 == fl + (IF in2 = 1 /\ in1 = 0 THEN 1 ELSE 0)
  IN IF iring0 >= 5 * N THEN (iin0 \div N) % 4
     ELSE IF iring0 < N THEN -1                       \* i_ring - nside underflows
     ELSE
       LET nin == IF iring0 >= 4 * N THEN 5 * N - iring0 ELSE IF iring0 < 2 * N THEN iring0 - N ELSE N
           off == N - nin
           first == (off \div 2) + (off % 2)
           iind0h == iin0 % N
           gap == Variant # "f06" /\ nin < N /\ (iind0h < first \/ iind0h >= first + nin)
           off2 == off - 1
           firstNext == (off2 \div 2) + (off2 % 2)
           west == iind0h < first
           north == iring0 >= 4 * N
           iin1 == IF gap THEN ((iin0 \div N) % 4) * N + firstNext + (IF west THEN 0 ELSE nin) ELSE iin0
           iring1 == IF gap THEN (IF north THEN iring0 - 1 ELSE iring0 + 1) ELSE iring0
           ir == 5 * N - 1 - iring1
       IN IF ir < 0 THEN -1
          ELSE IF ir < N THEN
            LET o == N - 1 - ir
                sub == (o \div 2) + (o % 2) + o * (iin1 \div N)
            IN IF iin1 < sub THEN -1 ELSE Tri4(ir) + iin1 - sub
          ELSE IF ir >= 3 * N THEN
            LET o == ir + 1 - 3 * N
                sub == (o \div 2) + (o % 2) + o * (iin1 \div N)
            IN IF iin1 < sub \/ 4 * N - 1 < ir THEN -1 ELSE 12 * N * N - Tri4(4 * N - 1 - ir) + iin1 - sub
          ELSE Tri4(N) + (ir - N) * 4 * N + (IF iin1 = 4 * N THEN 0 ELSE iin1)

(***************************************************************************)
(* base_cell_from_proj_coo(x, y), x = xn / L (any sign), y = yn / L;       *)
(* numerators over 2*R*L after the halving.                                *)
(***************************************************************************)
BaseCellFromProj(L, xn, yn, e1, e2) ==
  LET D == 2 * R * L
      x == R * EnsurePos(xn, L) + e1               \* 0.5 * x  over D
      y == R * (yn + 3 * L) + e2                   \* 0.5 * (y + 3) over D
      i0 == Cast(x, D)
      j0 == Cast(y, D)
      fx == x - i0 * D
      fy == y - j0 * D
      nw == B2N(fx <= fy)
      se == B2N(fx >= D - fy)
      i == i0 + (IF se = 1 /\ nw = 0 THEN 1 ELSE 0)
      jr == 2 * j0 + nw + se
      j == IF Variant = "f10" THEN jr ELSE IF jr > 4 THEN 4 ELSE IF jr < 2 THEN 2 ELSE jr
  IN (4 - j) * 4 + (IF Variant = "f10" THEN i ELSE i % 4)
=======================================================================
