---------------------------- MODULE HpxGeo ----------------------------
(***************************************************************************)
(* The HEALPix tessellation as an exact combinatorial object.              *)
(*                                                                         *)
(* Everything is parameterised by the subdivision N >= 1 (NESTED uses      *)
(* N = 2^depth, RING any N), so that ONE definition serves the exhaustive  *)
(* small-N model checking and the depth-29 trace events.  All arithmetic   *)
(* stays below 2^31 for N <= 2^29 (TLC integers are 32 bit).               *)
(*                                                                         *)
(* Layout (Calabretta & Roukema, not the crate's tables): base cell b has  *)
(* ring r = b \div 4 (0 north, 1 equatorial, 2 south), quarter q = b % 4,  *)
(* centre cx = 2q + [r # 1], cy = 1 - r in the projection plane.           *)
(* A node is <<b, a, c>>, a, c \in 0..N, at                                *)
(*      x = cx + (a - c)/N,      y = cy - 1 + (a + c)/N.                   *)
(* A cell is <<b, i, j>>, i, j \in 0..N-1, with vertices                   *)
(*      S = (b,i,j)  E = (b,i+1,j)  W = (b,i,j+1)  N = (b,i+1,j+1)         *)
(* (NESTED convention: i along south->east, j along south->west).          *)
(***************************************************************************)
EXTENDS Integers, Sequences, FiniteSets

Abs(x) == IF x < 0 THEN -x ELSE x
BRing(b) == b \div 4
BQ(b) == b % 4
Cx(b) == IF BRing(b) = 1 THEN 2 * BQ(b) ELSE 2 * BQ(b) + 1
Cy(b) == 1 - BRing(b)

Nodes(N) == {<<b, a, c>> : b \in 0..11, a \in 0..N, c \in 0..N}
Cells(N) == {<<b, i, j>> : b \in 0..11, i \in 0..(N-1), j \in 0..(N-1)}

(***************************************************************************)
(* Canonical form of the sphere point of a node: two nodes are the same    *)
(* point of the sphere iff they have the same canonical form.  Derived     *)
(* only from the projection formulae lon = (pi/4)(xc + (x - xc)/sigma),    *)
(* sigma = 1 in the belt and 2 - |y| in a cap.                             *)
(*   <<Y, k, r>> :  Y = N*y (scaled latitude line), and the longitude is   *)
(*   (k + r/w) * pi/4 with w = N in the belt, w = s = 2N - |Y| in a cap.   *)
(* The pair (k, r) avoids the product 8*N (overflow at N = 2^29).          *)
(***************************************************************************)
YOf(N, n) == -N * BRing(n[1]) + n[2] + n[3]
Canon(N, n) ==
  LET b == n[1]
      Y == YOf(N, n)
      D == n[2] - n[3]
  IN IF Abs(Y) <= N
       THEN <<Y, (Cx(b) + (D \div N)) % 8, D % N>>
       ELSE LET s == 2 * N - Abs(Y)
            IN IF s = 0 THEN <<Y, 0, 0>>
               ELSE <<Y, (2 * BQ(b) + 1 + (D \div s)) % 8, D % s>>

(* Width (in node steps) of one longitude unit pi/4 on the line Y *)
WOf(N, Y) == IF Abs(Y) <= N THEN N ELSE 2 * N - Abs(Y)

(***************************************************************************)
(* Constructive inverse of Canon: the representative of point p in base    *)
(* cell b, if any (at most one).                                           *)
(***************************************************************************)
RepFromSD(N, b, S, D) ==
  IF (S + D) % 2 # 0 THEN {}
  ELSE LET a == (S + D) \div 2
           c == (S - D) \div 2
       IN IF a >= 0 /\ a <= N /\ c >= 0 /\ c <= N THEN {<<b, a, c>>} ELSE {}

RepIn(N, p, b) ==
  LET Y == p[1]
      k == p[2]
      r == p[3]
      S == Y + N * BRing(b)      \* = a + c; evaluated only when in range (no overflow at N = 2^29)
  IN IF Y < -N * BRing(b) \/ Y > N * (2 - BRing(b)) THEN {}
     ELSE IF Abs(Y) <= N THEN
            LET dk == (k - Cx(b)) % 8
                Ds == (IF dk = 0 THEN {r} ELSE {}) \cup
                      (IF dk = 7 THEN {r - N} ELSE {}) \cup
                      (IF dk = 1 /\ r = 0 THEN {N} ELSE {})
            IN UNION {RepFromSD(N, b, S, d) : d \in Ds}
          ELSE IF BRing(b) = 1 THEN {}
          ELSE LET s == 2 * N - Abs(Y)
               IN IF s = 0 THEN RepFromSD(N, b, S, 0)
                  ELSE LET dk == (k - (2 * BQ(b) + 1)) % 8
                           Ds == (IF dk = 0 THEN {r} ELSE {}) \cup
                                 (IF dk = 7 THEN {r - s} ELSE {}) \cup
                                 (IF dk = 1 /\ r = 0 THEN {s} ELSE {})
                       IN UNION {RepFromSD(N, b, S, d) : d \in Ds}

Reps(N, p) == UNION {RepIn(N, p, b) : b \in 0..11}
RepsBrute(N, p) == {n \in Nodes(N) : Canon(N, n) = p}
Points(N) == {Canon(N, n) : n \in Nodes(N)}

(* cells having node n (of their own base cell) as one of their 4 vertices *)
CellsAtNode(N, n) ==
  {<<n[1], i, j>> : i \in {n[2] - 1, n[2]} \cap 0..(N-1), j \in {n[3] - 1, n[3]} \cap 0..(N-1)}

(* Star of a sphere point: every cell whose closure contains it *)
Star(N, p) == UNION {CellsAtNode(N, n) : n \in Reps(N, p)}
StarOfNode(N, n) == Star(N, Canon(N, n))

(***************************************************************************)
(* Faces of the cell complex in doubled coordinates <<b, a2, c2>>,         *)
(* a2, c2 \in 0..2N: an even coordinate lies on the grid line a2/2, an     *)
(* odd one strictly inside column (a2-1)/2.  both odd = open cell,         *)
(* one even = open edge, both even = node.  A position on the sphere lies  *)
(* in the relative interior of exactly one face (up to the choice of base  *)
(* cell on seams); the cells whose closure contains the position are       *)
(* exactly StarFace(face).  This is the tie-break agnostic oracle for      *)
(* every "the returned cell contains the point" clause.                    *)
(***************************************************************************)
Faces(N) == {<<b, a2, c2>> : b \in 0..11, a2 \in 0..(2*N), c2 \in 0..(2*N)}
FaceKind(f) == IF f[2] % 2 = 1 /\ f[3] % 2 = 1 THEN "cell"
               ELSE IF f[2] % 2 = 0 /\ f[3] % 2 = 0 THEN "node" ELSE "edge"
FaceCorners(f) ==
  {<<f[1], a, c>> : a \in {f[2] \div 2, (f[2] + 1) \div 2}, c \in {f[3] \div 2, (f[3] + 1) \div 2}}
StarFace(N, f) ==
  IF FaceKind(f) = "cell" THEN {<<f[1], f[2] \div 2, f[3] \div 2>>}
  ELSE LET cs == FaceCorners(f)
           n0 == CHOOSE n \in cs : TRUE
       IN {cl \in StarOfNode(N, n0) : \A n \in cs : cl \in StarOfNode(N, n)}

(***************************************************************************)
(* Vertices, neighbours, directions                                        *)
(***************************************************************************)
VNode(cl, d) == CASE d = "S" -> <<cl[1], cl[2], cl[3]>>
                  [] d = "E" -> <<cl[1], cl[2] + 1, cl[3]>>
                  [] d = "W" -> <<cl[1], cl[2], cl[3] + 1>>
                  [] d = "N" -> <<cl[1], cl[2] + 1, cl[3] + 1>>
Cardinals == {"S", "E", "W", "N"}
Vtx(N, cl, d) == Canon(N, VNode(cl, d))
VSet(N, cl) == {Vtx(N, cl, d) : d \in Cardinals}
Neigh(N, cl) == (UNION {Star(N, p) : p \in VSet(N, cl)}) \ {cl}
(* the set of cl's vertices (as cardinal names) that the other cell o also has *)
Shared(N, cl, o) == {d \in Cardinals : Vtx(N, cl, d) \in VSet(N, o)}
DirOfShared(sh) ==
  CASE sh = {"S"} -> "S" [] sh = {"E"} -> "E" [] sh = {"W"} -> "W" [] sh = {"N"} -> "N"
    [] sh = {"S", "E"} -> "SE" [] sh = {"S", "W"} -> "SW"
    [] sh = {"N", "E"} -> "NE" [] sh = {"N", "W"} -> "NW"
    [] OTHER -> "?"
Dir(N, cl, o) == DirOfShared(Shared(N, cl, o))
MainWinds == {"S", "SE", "E", "SW", "NE", "W", "NW", "N"}
(* the neighbour map of a cell: direction |-> set of cells (a singleton or empty) *)
NeighMap(N, cl) == [w \in MainWinds |-> {o \in Neigh(N, cl) : Dir(N, cl, o) = w}]

(* direct, constant-time neighbour in a direction (for deep events): go through the
   shared vertex / the two shared vertices *)
NeighAt(N, cl, w) ==
  LET want == CASE w = "S" -> {"S"} [] w = "E" -> {"E"} [] w = "W" -> {"W"} [] w = "N" -> {"N"}
                [] w = "SE" -> {"S", "E"} [] w = "SW" -> {"S", "W"}
                [] w = "NE" -> {"N", "E"} [] w = "NW" -> {"N", "W"}
      d0 == CHOOSE d \in want : TRUE
      cand == Star(N, Vtx(N, cl, d0)) \ {cl}
  IN {o \in cand : Shared(N, cl, o) = want}

(***************************************************************************)
(* Hierarchy: the cell of subdivision N containing a cell of subdivision   *)
(* N*m; faces refine and coarsen by integer scaling.                       *)
(***************************************************************************)
ParentCell(cl, m) == <<cl[1], cl[2] \div m, cl[3] \div m>>
(* the face of subdivision N in whose relative interior a face f of subdivision N*m lies *)
CoarsenCoord(x2, m) == IF x2 % (2 * m) = 0 THEN x2 \div m ELSE 2 * (x2 \div (2 * m)) + 1
CoarsenFace(f, m) == <<f[1], CoarsenCoord(f[2], m), CoarsenCoord(f[3], m)>>

(***************************************************************************)
(* Exact plane coordinates (numerators over N) of a node / of a face's     *)
(* representative point (numerators over 2N).                              *)
(***************************************************************************)
NodeX(N, n) == N * Cx(n[1]) + n[2] - n[3]        \* x * N   (x in [-1, 8]); overflow-safe only for N <= 2^27
NodeY(N, n) == YOf(N, n)                          \* y * N

(***************************************************************************)
(* Internal / external edges of a cell c of subdivision N, seen at the     *)
(* finer subdivision N*M (M = 2^delta in NESTED).  (C14)                   *)
(***************************************************************************)
Desc(c, M) == {<<c[1], c[2] * M + x, c[3] * M + y>> : x \in 0..(M - 1), y \in 0..(M - 1)}
IsDesc(c, M, o) == o[1] = c[1] /\ o[2] \div M = c[2] /\ o[3] \div M = c[3]
Sub(c, M, x, y) == <<c[1], c[2] * M + x, c[3] * M + y>>
(* descendants touching the border of c *)
InternalEdgeSet(c, M) == {Sub(c, M, x, y) : x \in {0, M - 1}, y \in 0..(M - 1)} \cup
                         {Sub(c, M, x, y) : x \in 0..(M - 1), y \in {0, M - 1}}
(* the closed walk S -> E -> N -> W -> (S): 4M - 4 cells for M >= 2 *)
InternalEdgeWalk(c, M) ==
  [k \in 1..(M - 1) |-> Sub(c, M, k - 1, 0)] \o          \* south-east side, from S towards E
  [k \in 1..(M - 1) |-> Sub(c, M, M - 1, k - 1)] \o      \* north-east side, from E towards N
  [k \in 1..(M - 1) |-> Sub(c, M, M - k, M - 1)] \o      \* north-west side, from N towards W
  [k \in 1..(M - 1) |-> Sub(c, M, 0, M - k)]             \* south-west side, from W towards S
InternalCorner(c, M, d) == CASE d = "S" -> Sub(c, M, 0, 0) [] d = "E" -> Sub(c, M, M - 1, 0)
                             [] d = "W" -> Sub(c, M, 0, M - 1) [] d = "N" -> Sub(c, M, M - 1, M - 1)
InternalSide(c, M, o) == CASE o = "SE" -> {Sub(c, M, x, 0) : x \in 0..(M - 1)}
                           [] o = "SW" -> {Sub(c, M, 0, y) : y \in 0..(M - 1)}
                           [] o = "NE" -> {Sub(c, M, M - 1, y) : y \in 0..(M - 1)}
                           [] o = "NW" -> {Sub(c, M, x, M - 1) : x \in 0..(M - 1)}
Ordinals == {"SE", "SW", "NE", "NW"}
(* external cells filed by the side / the corner of c they face *)
ExternalSide(N, c, M, o) == UNION {NeighAt(N * M, e, o) : e \in InternalSide(c, M, o)}
ExternalCorner(N, c, M, d) == NeighAt(N * M, InternalCorner(c, M, d), d)
ExternalEdgeFiled(N, c, M) == UNION {ExternalSide(N, c, M, o) : o \in Ordinals} \cup
                              UNION {ExternalCorner(N, c, M, d) : d \in Cardinals}
(* geometric definition: cells of the finer subdivision outside c and adjacent to it *)
ExternalEdgeGeo(N, c, M) == {o \in UNION {Neigh(N * M, e) : e \in InternalEdgeSet(c, M)} : ~IsDesc(c, M, o)}
=======================================================================
