---------------------------- MODULE HpxProj ----------------------------
(***************************************************************************)
(* Exact HEALPix projection on the lattice (C17).  A point of the face     *)
(* <<b, a2, c2>> of subdivision N (doubled coordinates, local coordinates  *)
(* a = a2/2, c = c2/2) has plane coordinates                               *)
(*      x = cx + (a - c)/N = XNum / (2N),   y = cy - 1 + (a + c)/N = YNum / (2N)  *)
(* and (Calabretta & Roukema) sphere coordinates: belt |y| <= 1: lon = x pi/4, *)
(* sin lat = 2y/3; cap: sigma = 2 - |y|, sin lat = sgn(y)(1 - sigma^2/3),   *)
(* lon = (xc + (x - xc)/sigma) pi/4.  The depth-0 cells containing the     *)
(* point are those of the face it coarsens to at N = 1.                    *)
(***************************************************************************)
EXTENDS HpxGeo
XNum(N, f) == 2 * N * Cx(f[1]) + f[2] - f[3]
YNum(N, f) == 2 * N * (Cy(f[1]) - 1) + f[2] + f[3]
BaseCellsOf(N, f) == {c[1] : c \in StarFace(1, CoarsenFace(f, N))}
(* sin(lat) as a fraction <<num, den>> *)
SinLat(N, f) == LET y == YNum(N, f)
                    d == 2 * N
                IN IF Abs(y) <= d THEN <<2 * y, 3 * d>>
                   ELSE LET s == 2 * d - Abs(y) IN <<(IF y > 0 THEN 1 ELSE -1) * (3 * d * d - s * s), 3 * d * d>>
InDomain(N, f) == XNum(N, f) >= -2 * N /\ XNum(N, f) <= 16 * N /\ Abs(YNum(N, f)) <= 4 * N
=======================================================================
