---------------------------- MODULE HpxRing ----------------------------
(***************************************************************************)
(* The RING numbering of the cells of subdivision N (any N >= 1).          *)
(* Definition (not a formula): the RING index of a cell is its rank when   *)
(* cell centres are ordered by latitude descending, then longitude         *)
(* ascending in [0, 2pi).  Closed form: first index of the iso-latitude    *)
(* ring + position in the ring.  RING indices reach 12 * 2^58, TLC         *)
(* integers are 32 bit: indices are little-endian base-2^15 digit strings. *)
(***************************************************************************)
EXTENDS HpxGeo

(* ---- little-endian base 2^15 naturals ---- *)
BB == 32768
BigOf(n) == IF n < BB THEN <<n>> ELSE IF n \div BB < BB THEN <<n % BB, n \div BB>>
            ELSE <<n % BB, (n \div BB) % BB, n \div (BB * BB)>>
RECURSIVE BigTrim(_)
BigTrim(x) == IF Len(x) > 1 /\ x[Len(x)] = 0 THEN BigTrim(SubSeq(x, 1, Len(x) - 1)) ELSE x
Dig(x, k) == IF k <= Len(x) THEN x[k] ELSE 0
RECURSIVE BigAddR(_, _, _, _)
BigAddR(x, y, k, carry) ==
  IF k > Len(x) /\ k > Len(y) THEN (IF carry = 0 THEN <<>> ELSE <<carry>>)
  ELSE LET s == Dig(x, k) + Dig(y, k) + carry IN <<s % BB>> \o BigAddR(x, y, k + 1, s \div BB)
BigAdd(x, y) == BigTrim(BigAddR(x, y, 1, 0))
(* x - y, requires x >= y *)
RECURSIVE BigSubR(_, _, _, _)
BigSubR(x, y, k, borrow) ==
  IF k > Len(x) THEN <<>>
  ELSE LET s == Dig(x, k) - Dig(y, k) - borrow
       IN IF s < 0 THEN <<s + BB>> \o BigSubR(x, y, k + 1, 1) ELSE <<s>> \o BigSubR(x, y, k + 1, 0)
BigSub(x, y) == BigTrim(BigSubR(x, y, 1, 0))
RECURSIVE BigMulDigR(_, _, _, _)
BigMulDigR(x, d, k, carry) ==
  IF k > Len(x) THEN (IF carry = 0 THEN <<>> ELSE <<carry>>)
  ELSE LET s == x[k] * d + carry IN <<s % BB>> \o BigMulDigR(x, d, k + 1, s \div BB)
Zeros(n) == [k \in 1..n |-> 0]
RECURSIVE BigMulR(_, _, _)
BigMulR(x, y, k) == IF k > Len(y) THEN <<0>>
                    ELSE BigAdd(Zeros(k - 1) \o BigMulDigR(x, y[k], 1, 0), BigMulR(x, y, k + 1))
BigMul(x, y) == BigTrim(BigMulR(x, y, 1))
RECURSIVE BigLessR(_, _, _)
BigLessR(x, y, k) == IF k = 0 THEN FALSE
                     ELSE IF Dig(x, k) # Dig(y, k) THEN Dig(x, k) < Dig(y, k) ELSE BigLessR(x, y, k - 1)
BigLess(x, y) == LET n == IF Len(x) > Len(y) THEN Len(x) ELSE Len(y) IN BigLessR(x, y, n)
RECURSIVE BigToIntR(_, _)
BigToIntR(x, k) == IF k > Len(x) THEN 0 ELSE x[k] + BB * BigToIntR(x, k + 1)
BigToInt(x) == BigToIntR(x, 1)          \* only for small values (model checking)

(* ---- iso-latitude rings ---- *)
YcOf(N, cl) == -N * BRing(cl[1]) + cl[2] + cl[3] + 1          \* N * y of the cell centre
RhoOf(N, cl) == 2 * N - YcOf(N, cl)                            \* ring number 1 .. 4N-1, from the north
(* number of cells of ring rho *)
RingSize(N, rho) == IF rho < N THEN 4 * rho ELSE IF rho <= 3 * N THEN 4 * N ELSE 4 * (4 * N - rho)
(* position of the cell in its ring, as <<pq, pr, w>> meaning pq * w + pr with pr < w
   (w = N in the belt, w = s in a cap): avoids 4N = 2^31 *)
PosInRing(N, cl) ==
  LET Yc == YcOf(N, cl)
      D == cl[2] - cl[3]
      b == cl[1]
  IN IF Abs(Yc) <= N
       THEN LET qq == Cx(b) \div 2
                rem == (Cx(b) % 2) * N + D
            IN IF rem >= 0 THEN <<qq, rem \div 2, N>> ELSE <<(qq - 1) % 4, N + (rem \div 2), N>>
       ELSE LET s == 2 * N - Abs(Yc) IN <<BQ(b), (s + D) \div 2, s>>
(* first RING index of the ring of the cell *)
FirstOfRing(N, cl) ==
  LET Yc == YcOf(N, cl) IN
  IF Yc >= N THEN LET s == 2 * N - Yc IN BigMul(BigOf(2 * s), BigOf(s - 1))                 \* north cap and transition ring: 2 s (s-1)
  ELSE IF Yc >= -N THEN BigAdd(BigMul(BigOf(2 * N), BigOf(N - 1)),
                               BigMul(BigMul(BigOf(4), BigOf(N)), BigOf(N - Yc)))             \* belt: 2N(N-1) + 4N (rho - N)
  ELSE LET s == 2 * N + Yc IN BigSub(BigMul(BigOf(12), BigMul(BigOf(N), BigOf(N))),
                                     BigMul(BigOf(2 * s), BigOf(s + 1)))                       \* south cap: 12N^2 - 2 s (s+1)
ToRing(N, cl) == LET p == PosInRing(N, cl) IN
                 BigAdd(FirstOfRing(N, cl), BigAdd(BigMul(BigOf(p[1]), BigOf(p[3])), BigOf(p[2])))
(* index of the first cell of ring rho (1 .. 4N-1), and of rho = 4N: the total number of cells *)
RingStart(N, rho) ==
  IF rho <= N THEN BigMul(BigMul(<<2>>, BigOf(rho)), BigOf(rho - 1))
  ELSE IF rho <= 3 * N THEN BigAdd(BigMul(BigMul(<<2>>, BigOf(N)), BigOf(N - 1)), BigMul(BigOf(rho - N), BigMul(<<4>>, BigOf(N))))
  ELSE LET s == N - (rho - 3 * N) IN BigSub(BigMul(BigOf(12), BigMul(BigOf(N), BigOf(N))), BigMul(BigMul(<<2>>, BigOf(s)), BigOf(s + 1)))
NHashBig(N) == BigMul(BigOf(12), BigMul(BigOf(N), BigOf(N)))

(* ---- the definition: rank in (latitude desc, longitude asc) ---- *)
(* longitude of the centre as a fraction num/den of pi/4, num/den in [0, 8) *)
LonNum(N, cl) == LET Yc == YcOf(N, cl)
                     D == cl[2] - cl[3]
                 IN IF Abs(Yc) <= N THEN (N * Cx(cl[1]) + D) % (8 * N)
                    ELSE LET s == 2 * N - Abs(Yc) IN ((2 * BQ(cl[1]) + 1) * s + D) % (8 * s)
LonDen(N, cl) == LET Yc == YcOf(N, cl) IN IF Abs(Yc) <= N THEN N ELSE 2 * N - Abs(Yc)
Before(N, c1, c2) == \/ YcOf(N, c1) > YcOf(N, c2)
                     \/ YcOf(N, c1) = YcOf(N, c2) /\ LonNum(N, c1) * LonDen(N, c2) < LonNum(N, c2) * LonDen(N, c1)
Rank(N, cl) == Cardinality({o \in Cells(N) : Before(N, o, cl)})
=======================================================================
