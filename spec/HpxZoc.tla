---------------------------- MODULE HpxZoc ----------------------------
(***************************************************************************)
(* Bit-level encodings (C18): z-order interleaving and uniq numbers, on    *)
(* digit strings (most significant first) so that 64-bit values never      *)
(* become TLC integers.                                                    *)
(*   i, j  : sequences of bits of equal length n                           *)
(*   h     : sequence of n base-4 digits, h[k] = 2*j[k] + i[k]             *)
(*           (i on the even bit positions, j on the odd ones)              *)
(***************************************************************************)
EXTENDS Integers, Sequences
Interleave(i, j) == [k \in 1..Len(i) |-> 2 * j[k] + i[k]]
DeinterleaveI(h) == [k \in 1..Len(h) |-> h[k] % 2]
DeinterleaveJ(h) == [k \in 1..Len(h) |-> h[k] \div 2]
ZeroBits(n) == [k \in 1..n |-> 0]
(* bits (msb first) of a natural number on n bits *)
Bits(x, n) == [k \in 1..n |-> (x \div 2^(n - k)) % 2]
(* the path of cell (i, j) of depth d (d base-4 digits) *)
PathOfIJ(i, j, d) == Interleave(Bits(i, d), Bits(j, d))
RECURSIVE IOfPath(_)
IOfPath(p) == IF p = <<>> THEN 0 ELSE 2 * IOfPath(SubSeq(p, 1, Len(p) - 1)) + (p[Len(p)] % 2)
RECURSIVE JOfPath(_)
JOfPath(p) == IF p = <<>> THEN 0 ELSE 2 * JOfPath(SubSeq(p, 1, Len(p) - 1)) + (p[Len(p)] \div 2)

(* uniq numbers as base-4 digit strings without leading zeros; a cell is base cell b + path p *)
Uniq(b, p) == <<1, b \div 4, b % 4>> \o p                  \* 16 * 4^d + h  (sentinel digit 1 above the two base-cell digits)
UniqIvoa(b, p) == <<(b \div 4) + 1, b % 4>> \o p           \* 4 * 4^d + h
FromUniq(u) == [d |-> Len(u) - 3, b |-> 4 * u[2] + u[3], p |-> SubSeq(u, 4, Len(u))]
FromUniqIvoa(u) == [d |-> Len(u) - 2, b |-> 4 * (u[1] - 1) + u[2], p |-> SubSeq(u, 3, Len(u))]
=======================================================================
