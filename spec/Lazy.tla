---------------------------- MODULE Lazy ----------------------------
(***************************************************************************)
(* The lazy, first-use initialisation of the per-depth tables (C20):       *)
(*   static mut SLOT: [Option<T>; 30];  static INIT: [Once; 30];           *)
(*   get_or_create(d): match SLOT[d] { Some(v) => return v,                *)
(*                      None => INIT[d].call_once(|| SLOT[d] = Some(T::new(d))) }  *)
(*                     match SLOT[d] { Some(v) => v, None => unreachable!() }      *)
(* (FastPath = TRUE: the original code above.  FastPath = FALSE: the       *)
(* repaired code, which always goes through call_once before reading the   *)
(* slot: Check1 then reads nothing and goes straight to the Once.)         *)
(* One action per critical section: Call, Check1 (unsynchronised fast-path *)
(* read), EnterOnce (the Once's CAS / wait), Construct (T::new), Publish   *)
(* (the store into the slot; in one step, or torn in two when Torn),       *)
(* Complete (the Once is marked done), Check2, Return.  Keys stand for     *)
(* (table, depth) pairs.                                                   *)
(***************************************************************************)
EXTENDS Integers, Sequences, FiniteSets, TLC
CONSTANTS
  \* @type: Set(Str);
  Threads,
  \* @type: Set(Str);
  Keys,
  \* @type: Int;
  MaxCalls,
  \* @type: Bool;
  Torn,
  \* @type: Bool;
  UseOnce,
  \* @type: Bool;
  FastPath
None == 0
PartialStore == -1
TornRead == -1
Unreachable == -2
VARIABLES
  \* @type: Str -> Int;
  slot,    \* per key: None | PartialStore (a torn store in progress) | the id (>= 1) of the published construction
  \* @type: Str -> Str;
  once,    \* per key: "inc" | "run" | "done"
  \* @type: Str -> Int;
  built,   \* per key: number of constructions started
  \* @type: Str -> Str;
  pc,
  \* @type: Str -> Str;
  arg,
  \* @type: Str -> Int;
  mine,
  \* @type: Str -> Int;
  ret,
  \* @type: Str -> Int;
  calls
vars == <<slot, once, built, pc, arg, mine, ret, calls>>
Init == /\ slot = [k \in Keys |-> None] /\ once = [k \in Keys |-> "inc"] /\ built = [k \in Keys |-> 0]
        /\ pc = [t \in Threads |-> "idle"] /\ arg = [t \in Threads |-> CHOOSE k \in Keys : TRUE]
        /\ mine = [t \in Threads |-> 0] /\ ret = [t \in Threads |-> 0] /\ calls = [t \in Threads |-> 0]
Call(t, k) == /\ pc[t] = "idle" /\ calls[t] < MaxCalls
              /\ pc' = [pc EXCEPT ![t] = "check1"] /\ arg' = [arg EXCEPT ![t] = k]
              /\ calls' = [calls EXCEPT ![t] = @ + 1] /\ ret' = [ret EXCEPT ![t] = 0]
              /\ UNCHANGED <<slot, once, built, mine>>
Check1(t) == /\ pc[t] = "check1"
             /\ LET k == arg[t] IN
                IF ~FastPath \/ slot[k] = None THEN pc' = [pc EXCEPT ![t] = "once"] /\ UNCHANGED ret
                ELSE pc' = [pc EXCEPT ![t] = "ret"] /\ ret' = [ret EXCEPT ![t] = IF slot[k] = PartialStore THEN TornRead ELSE slot[k]]
             /\ UNCHANGED <<slot, once, built, arg, mine, calls>>
EnterOnce(t) == /\ pc[t] = "once"
                /\ LET k == arg[t] IN
                   IF UseOnce THEN
                     \/ once[k] = "inc" /\ once' = [once EXCEPT ![k] = "run"] /\ pc' = [pc EXCEPT ![t] = "construct"]
                     \/ once[k] = "done" /\ pc' = [pc EXCEPT ![t] = "check2"] /\ UNCHANGED once
                   ELSE pc' = [pc EXCEPT ![t] = "construct"] /\ UNCHANGED once
                /\ UNCHANGED <<slot, built, arg, mine, ret, calls>>
Construct(t) == /\ pc[t] = "construct"
                /\ built' = [built EXCEPT ![arg[t]] = @ + 1]
                /\ mine' = [mine EXCEPT ![t] = built[arg[t]] + 1]
                /\ pc' = [pc EXCEPT ![t] = "publish"]
                /\ UNCHANGED <<slot, once, arg, ret, calls>>
Publish(t) == /\ pc[t] = "publish"
              /\ IF Torn THEN slot' = [slot EXCEPT ![arg[t]] = PartialStore] /\ pc' = [pc EXCEPT ![t] = "publish2"]
                 ELSE slot' = [slot EXCEPT ![arg[t]] = mine[t]] /\ pc' = [pc EXCEPT ![t] = "complete"]
              /\ UNCHANGED <<once, built, arg, mine, ret, calls>>
Publish2(t) == /\ pc[t] = "publish2" /\ slot' = [slot EXCEPT ![arg[t]] = mine[t]] /\ pc' = [pc EXCEPT ![t] = "complete"]
               /\ UNCHANGED <<once, built, arg, mine, ret, calls>>
Complete(t) == /\ pc[t] = "complete" /\ once' = [once EXCEPT ![arg[t]] = "done"] /\ pc' = [pc EXCEPT ![t] = "check2"]
               /\ UNCHANGED <<slot, built, arg, mine, ret, calls>>
Check2(t) == /\ pc[t] = "check2" /\ pc' = [pc EXCEPT ![t] = "ret"]
             /\ ret' = [ret EXCEPT ![t] = IF slot[arg[t]] \in {None, PartialStore} THEN Unreachable ELSE slot[arg[t]]]
             /\ UNCHANGED <<slot, once, built, arg, mine, calls>>
Return(t) == /\ pc[t] = "ret" /\ pc' = [pc EXCEPT ![t] = "idle"] /\ UNCHANGED <<slot, once, built, arg, mine, ret, calls>>
Internal(t) == Check1(t) \/ EnterOnce(t) \/ Construct(t) \/ Publish(t) \/ Publish2(t) \/ Complete(t) \/ Check2(t)
Next == \E t \in Threads : (\E k \in Keys : Call(t, k)) \/ Internal(t) \/ Return(t)
Spec == Init /\ [][Next]_vars /\ \A t \in Threads : WF_vars(Internal(t) \/ Return(t))
(* each key is constructed at most once *)
BuiltOnce == \A k \in Keys : built[k] <= 1
(* every thread obtains a fully initialised object, the same for a key *)
NoTorn == \A t \in Threads : ret[t] \notin {TornRead, Unreachable}
SameObject == \A t, u \in Threads : (pc[t] = "ret" /\ pc[u] = "ret" /\ arg[t] = arg[u]) => ret[t] = ret[u]
OnceProtects == \A k \in Keys : once[k] = "done" => slot[k] \notin {None, PartialStore}
AllReturn == \A t \in Threads : (pc[t] # "idle") ~> (pc[t] = "idle")
=======================================================================
