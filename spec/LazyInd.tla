---------------------------- MODULE LazyInd ----------------------------
(***************************************************************************)
(* Inductive invariant of the REPAIRED lazy initialisation (FastPath =     *)
(* FALSE, UseOnce = TRUE; the store may be torn or not), checked with      *)
(* Apalache:  Init => IndInv,  IndInv /\ Next => IndInv',  IndInv =>       *)
(* BuiltOnce /\ NoTorn /\ SameObject /\ OnceProtects.  Unlike the TLC runs  *)
(* of MC_Lazy (MaxCalls = 2) it covers any number of calls per thread:     *)
(* IndInv does not bound `calls`.  (The type annotations live in Lazy.tla  *)
(* as comments; TLC ignores them.)                                         *)
(***************************************************************************)
EXTENDS Lazy

PCs == {"idle", "check1", "once", "construct", "publish", "publish2", "complete", "check2", "ret"}
Building == {"construct", "publish", "publish2", "complete"}
Owners(k) == {t \in Threads : arg[t] = k /\ pc[t] \in Building}

TypeOK == /\ slot \in [Keys -> {None, PartialStore, 1}]
          /\ once \in [Keys -> {"inc", "run", "done"}]
          /\ built \in [Keys -> {0, 1}]
          /\ pc \in [Threads -> PCs]
          /\ arg \in [Threads -> Keys]
          /\ mine \in [Threads -> {0, 1}]
          /\ ret \in [Threads -> {0, 1}]
          /\ calls \in [Threads -> Nat]

KeyInv(k) ==
  /\ once[k] = "inc" => Owners(k) = {} /\ built[k] = 0 /\ slot[k] = None
  /\ once[k] = "done" => Owners(k) = {} /\ built[k] = 1 /\ slot[k] = 1
  /\ once[k] = "run" =>
       /\ \E t \in Owners(k) : \A u \in Owners(k) : u = t          \* exactly one thread is inside the Once
       /\ \A t \in Owners(k) :
            /\ pc[t] = "construct" => built[k] = 0 /\ slot[k] = None
            /\ pc[t] = "publish" => built[k] = 1 /\ mine[t] = 1 /\ slot[k] = None
            /\ pc[t] = "publish2" => built[k] = 1 /\ mine[t] = 1 /\ slot[k] = PartialStore
            /\ pc[t] = "complete" => built[k] = 1 /\ mine[t] = 1 /\ slot[k] = 1
ThreadInv(t) ==
  /\ pc[t] = "check2" => once[arg[t]] = "done"
  /\ pc[t] = "ret" => ret[t] = 1 /\ once[arg[t]] = "done"

IndInv == TypeOK /\ (\A k \in Keys : KeyInv(k)) /\ (\A t \in Threads : ThreadInv(t))
Safety == BuiltOnce /\ NoTorn /\ SameObject /\ OnceProtects

\* @type: () => Bool;
ConstInit4 == /\ Threads = {"t1", "t2", "t3", "t4"} /\ Keys = {"k1", "k2"} /\ MaxCalls = 1000000
              /\ Torn \in BOOLEAN /\ UseOnce = TRUE /\ FastPath = FALSE
\* @type: () => Bool;
ConstInitFastPath == /\ Threads = {"t1", "t2", "t3"} /\ Keys = {"k1", "k2"} /\ MaxCalls = 1000000
                     /\ Torn = TRUE /\ UseOnce = TRUE /\ FastPath = TRUE          \* the ORIGINAL code: IndInv is not inductive
IndInit == IndInv
=======================================================================
