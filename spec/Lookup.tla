---------------------------- MODULE Lookup ----------------------------
(***************************************************************************)
(* best_starting_depth (C16): the deepest depth whose tabulated limit      *)
(* still exceeds the radius, Best(r) = max {d : T[d] > r}, against the     *)
(* transcription of the crate's unrolled binary search.  The table is      *)
(* abstract: any strictly decreasing T; radii are taken in all 61 order    *)
(* classes relative to it (equal to an entry, or strictly between two      *)
(* consecutive entries, or below the last).  T[d] = 60 - 2d, r in -1..59.  *)
(***************************************************************************)
EXTENDS Integers, FiniteSets
T(d) == 60 - 2 * d
Depths == 0..29
Radii == -1..59                     \* all classes below T(0) = 60
Best(r) == CHOOSE d \in Depths : T(d) > r /\ \A e \in Depths : T(e) > r => e <= d
(* transcription of src/lib.rs best_starting_depth, same nesting *)
BestAlgo(r) ==
  IF r < T(29) THEN 29
  ELSE IF r < T(15) THEN
         (IF r < T(22) THEN
            (IF r < T(25) THEN
               (IF r < T(27) THEN (IF r < T(28) THEN 28 ELSE 27)
                ELSE IF r < T(26) THEN 26 ELSE 25)
             ELSE IF r < T(24) THEN 24 ELSE IF r < T(23) THEN 23 ELSE 22)
          ELSE IF r < T(18) THEN
            (IF r < T(20) THEN (IF r < T(21) THEN 21 ELSE 20)
             ELSE IF r < T(19) THEN 19 ELSE 18)
          ELSE IF r < T(17) THEN 17 ELSE IF r < T(16) THEN 16 ELSE 15)
  ELSE IF r < T(7) THEN
         (IF r < T(11) THEN
            (IF r < T(13) THEN (IF r < T(14) THEN 14 ELSE 13)
             ELSE IF r < T(12) THEN 12 ELSE 11)
          ELSE IF r < T(9) THEN (IF r < T(10) THEN 10 ELSE 9)
          ELSE IF r < T(8) THEN 8 ELSE 7)
  ELSE IF r < T(3) THEN
         (IF r < T(5) THEN (IF r < T(6) THEN 6 ELSE 5)
          ELSE IF r < T(4) THEN 4 ELSE 3)
  ELSE IF r < T(2) THEN 2 ELSE IF r < T(1) THEN 1 ELSE 0
VARIABLE r
Init == r = -1
Next == r < 59 /\ r' = r + 1
Spec == Init /\ [][Next]_r
AlgoIsBest == BestAlgo(r) = Best(r)
HasBest == r < T(0)
=======================================================================
