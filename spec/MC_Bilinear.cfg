SPECIFICATION Spec
CONSTANT Ns = {1, 2, 4}
CONSTANT K = 3
INVARIANT AllOffsetsOK
CHECK_DEADLOCK TRUE
