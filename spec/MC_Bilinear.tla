---------------------------- MODULE MC_Bilinear ----------------------------
(* The transcription of bilinear_interpolation satisfies the claims of C19 on every cell of the subdivisions in Ns
   (walker over the sphere) and every lattice offset (u, v) in (0..2K)^2. *)
EXTENDS Bilinear
CONSTANTS Ns, K
VARIABLES n, cl
vars == <<n, cl>>
Init == n \in Ns /\ cl = <<0, 0, 0>>
Next == /\ n' = n
        /\ \E w \in MainWinds : \E o \in NeighAt(n, cl, w) : cl' = o
Spec == Init /\ [][Next]_vars
AllOffsetsOK == \A u \in 0..(2 * K) : \A v \in 0..(2 * K) : BilOK(n, cl, K, u, v)
=======================================================================
