SPECIFICATION Spec
CONSTANT Ns = {1, 2, 3, 4, 5, 8}
CONSTANT K = 4
INVARIANT AllOffsetsOK
CHECK_DEADLOCK TRUE
