---------------------------- MODULE MC_Bmoc ----------------------------
(* Model checking of the BMOC semantics over a bounded universe (one varying base cell, depth <= 1 trees,
   states absent / partial / full): a history state machine applies operators to two registers; every
   reachable pair satisfies the algebraic laws of C07 / C08, and Canonical is a normal form (C09, C15). *)
EXTENDS Bmoc, TLC
CONSTANT States            \* {0, 2} plain MOCs, {0, 1, 2} with partial flags
VARIABLES F, G
vars == <<F, G>>
Leaves == {<<s>> : s \in States}
Trees == Leaves \cup ({<<a, b, c, d>> : a \in Leaves, b \in Leaves, c \in Leaves, d \in Leaves} \ {<<a, a, a, a>> : a \in Leaves})
ForestOf(t) == [b \in 0..11 |-> IF b = 0 THEN t ELSE Absent]
Universe == {ForestOf(t) : t \in Trees}
Init == F \in Universe /\ G \in Universe
Next == \/ \E op \in {"and", "or", "xor"} : F' = Op2(op, F, G) /\ G' = G
        \/ F' = Not(F) /\ G' = G
        \/ F' = G /\ G' = F
Spec == Init /\ [][Next]_vars
Plain(X) == \A b \in 0..11 : \A k \in 1..Len(Canonical(X)) : Canonical(X)[k].f = 1
TypeOK == \A b \in 0..11 : F[b] = NormT(F[b]) /\ G[b] = NormT(G[b])
(* Canonical is a normal form: well formed, packed, and Sem inverts it *)
CanonOK == LET c == Canonical(F) IN
           /\ WellFormed([dmax |-> 1, cells |-> c]) /\ Packed(c) /\ Sem(c) = F
NotNot == Not(Not(F)) = F
DeMorgan == Not(Op2("and", F, G)) = Op2("or", Not(F), Not(G)) /\ Not(Op2("or", F, G)) = Op2("and", Not(F), Not(G))
Commut == \A op \in {"and", "or", "xor"} : Op2(op, F, G) = Op2(op, G, F)
Idem == Op2("and", F, F) = F /\ Op2("or", F, F) = F
(* laws that hold for plain MOCs only *)
XorSelf == Plain(F) => Op2("xor", F, F) = EmptyForest
OrNot == Plain(F) => Op2("or", F, Not(F)) = FullSky /\ Op2("and", F, Not(F)) = EmptyForest
XorDef == (Plain(F) /\ Plain(G)) => Op2("xor", F, G) = Op2("and", Op2("or", F, G), Not(Op2("and", F, G)))
(* lowering: keeps a coarse cell iff it contained something, full iff entirely full *)
LowerOK == LET L == Lower(F, 0) IN
           /\ (L[0] = Absent) = (F[0] = Absent)
           /\ (L[0] = Full) = (F[0] = Full)
           /\ IsLeaf(L[0])
=======================================================================
