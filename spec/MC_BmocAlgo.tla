---------------------------- MODULE MC_BmocAlgo ----------------------------
(* The transcribed algorithms refine the semantic specification on every ordered pair of a bounded universe:
   BMOCs living in base cells 0 and 11, depth <= 1 in base cell 0, states absent / partial / full, packed and
   unpacked presentations. *)
EXTENDS BmocAlgo
CONSTANTS States, OtherStates
VARIABLES a, b
vars == <<a, b>>
Leaves(S) == {<<s>> : s \in S}
Trees(S) == Leaves(S) \cup ({<<x, y, z, w>> : x \in Leaves(S), y \in Leaves(S), z \in Leaves(S), w \in Leaves(S)} \ {<<x, x, x, x>> : x \in Leaves(S)})
ForestOf(t, u) == [k \in 0..11 |-> IF k = 0 THEN t ELSE IF k = 11 THEN u ELSE Absent]
Unpack(cells) == IF cells # <<>> /\ Head(cells).p = <<>> /\ Head(cells).b = 0
                 THEN [k \in 1..4 |-> [b |-> 0, p |-> <<k - 1>>, f |-> Head(cells).f]] \o Tail(cells)
                 ELSE cells
Universe == LET cs == {Canonical(ForestOf(t, u)) : t \in Trees(States), u \in Leaves(OtherStates)}
            IN {FromCells(c) : c \in cs \cup {Unpack(c) : c \in cs}}
Init == a \in Universe /\ b \in Universe
Next == a' = b /\ b' = a
Spec == Init /\ [][Next]_vars
SA == Sem(ToCells(a))
SB == Sem(ToCells(b))
WF(X) == WellFormed([dmax |-> 1, cells |-> ToCells(X)])
NotRefines == LET r == NotAlgo(a) IN WF(r) /\ Sem(ToCells(r)) = Not(SA)
AndRefines == LET r == AndAlgo(a, b) IN WF(r) /\ Sem(ToCells(r)) = Op2("and", SA, SB)
OrRefines == LET r == OrAlgo(a, b) IN WF(r) /\ Sem(ToCells(r)) = Op2("or", SA, SB)
XorRefines == LET r == XorAlgo(a, b) IN WF(r) /\ Sem(ToCells(r)) = Op2("xor", SA, SB)
PackRefines == LET r == PackAlgo(a) IN WF(r) /\ Sem(ToCells(r)) = SA /\ Packed(ToCells(r))
LowerRefines == LET r == LowerAlgo(PackAlgo(a), 0) IN
                /\ WellFormed([dmax |-> 0, cells |-> ToCells(r)])
                /\ LoweredOK(Sem(ToCells(r)), Lower(SA, 0))
(* plain MOCs: or / xor return the canonical packed form *)
PlainCanonical == (AllFull(ToCells(a)) /\ AllFull(ToCells(b))) =>
                    /\ ToCells(OrAlgo(a, b)) = Canonical(Op2("or", SA, SB))
                    /\ ToCells(XorAlgo(a, b)) = Canonical(Op2("xor", SA, SB))
=======================================================================
