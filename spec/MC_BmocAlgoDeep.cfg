SPECIFICATION Spec
CONSTANT WithSiblings = FALSE
INVARIANT PackRefines NotRefines NotNot LowerRefines
CHECK_DEADLOCK FALSE
