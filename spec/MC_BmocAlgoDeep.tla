---------------------------- MODULE MC_BmocAlgoDeep ----------------------------
(* Unary transcriptions (pack, not, to_lower_depth) on a DEEPER universe than MC_BmocAlgo: every well-formed cell list of
   depth <= 2 inside base cell 0 with all flags full, packed or not (four full siblings may be present at either level, so
   packing needs cascades of two levels and the pass loop of `pack` runs more than twice), optionally with base cells
   1, 2, 3 full beside it (the cascade must then stop at depth 0).  ~105 k lists, plus the 'exploded' lists of depth <= 3 (one subtree per level). *)
EXTENDS BmocAlgo
CONSTANT WithSiblings
VARIABLE a
(* unnormalised trees of depth <= 2 over {absent, full}: a leaf, or ANY four subtrees (four equal leaves included) *)
L == {<<0>>, <<2>>}
U1 == L \cup {<<x, y, z, w>> : x \in L, y \in L, z \in L, w \in L}
U2 == L \cup {<<x, y, z, w>> : x \in U1, y \in U1, z \in U1, w \in U1}
RECURSIVE ListOf(_, _)
ListOf(t, p) == IF Len(t) = 1 THEN (IF t[1] = 0 THEN <<>> ELSE << [b |-> 0, p |-> p, f |-> 1] >>)
                ELSE ListOf(t[1], Append(p, 0)) \o ListOf(t[2], Append(p, 1)) \o ListOf(t[3], Append(p, 2)) \o ListOf(t[4], Append(p, 3))
(* "exploded" trees down to depth 3: at each level one child is a subtree, the three others are leaves - the cascades of
   sibling merges run over three levels there (four with the sibling base cells) *)
RECURSIVE Ex(_)
Ex(k) == IF k = 0 THEN L
         ELSE L \cup UNION {{[i \in 1..4 |-> IF i = pos THEN sub ELSE lv[i]] : lv \in [1..4 -> L]} : pos \in 1..4, sub \in Ex(k - 1)}
Ex4 == Ex(3)
Sib == IF WithSiblings THEN << [b |-> 1, p |-> <<>>, f |-> 1], [b |-> 2, p |-> <<>>, f |-> 1], [b |-> 3, p |-> <<>>, f |-> 1] >> ELSE <<>>
Init == a \in {FromCells(ListOf(t, <<>>) \o Sib) : t \in U2 \cup Ex4}
Next == UNCHANGED a
Spec == Init /\ [][Next]_a
SA == Sem(ToCells(a))
WF(X, d) == WellFormed([dmax |-> d, cells |-> ToCells(X)])
PackRefines == LET r == PackAlgo(a) IN WF(r, 4) /\ Sem(ToCells(r)) = SA /\ Packed(ToCells(r)) /\ ToCells(r) = Canonical(SA)
NotRefines == LET r == NotAlgo(a) IN WF(r, 4) /\ Sem(ToCells(r)) = Not(SA)
NotNot == ToCells(NotAlgo(NotAlgo(PackAlgo(a)))) = ToCells(PackAlgo(a))
LowerRefines == \A nd \in 0..3 : LET r == LowerAlgo(PackAlgo(a), nd) IN
                   WellFormed([dmax |-> nd, cells |-> ToCells(r)]) /\ LoweredOK(Sem(ToCells(r)), Lower(SA, nd))
=======================================================================
