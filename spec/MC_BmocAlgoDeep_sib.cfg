SPECIFICATION Spec
CONSTANT WithSiblings = TRUE
INVARIANT PackRefines NotRefines NotNot LowerRefines
CHECK_DEADLOCK FALSE
