SPECIFICATION Spec
CONSTANTS
  States = {0, 1, 2}
  OtherStates = {0, 1, 2}
INVARIANT NotRefines AndRefines OrRefines XorRefines PackRefines LowerRefines PlainCanonical
CHECK_DEADLOCK FALSE
