SPECIFICATION Spec
CONSTANT States = {0, 1, 2}
INVARIANT TypeOK CanonOK NotNot DeMorgan Commut Idem XorSelf OrNot XorDef LowerOK
CHECK_DEADLOCK FALSE
