SPECIFICATION Spec
CONSTANTS
  Depth = 1
  Hashes = {0, 1, 2, 3, 4, 6, 7, 9}
  Caps = {1, 2, 3, 4, 5}
  MaxPush = 5
  Flag = 1
INVARIANT Refines SortedFlag NoneIffEmpty Result BufBounded
CHECK_DEADLOCK FALSE
