SPECIFICATION Spec
CONSTANTS
  Depth = 2
  Hashes = {0, 1, 2, 3, 4, 5, 6, 7, 8, 15, 16, 17}
  Caps = {2, 3, 9}
  MaxPush = 5
  Flag = 0
INVARIANT Refines SortedFlag NoneIffEmpty Result BufBounded
CHECK_DEADLOCK FALSE
