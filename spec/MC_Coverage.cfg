SPECIFICATION Spec
CONSTANTS
  P = 9
  L = 2
  Tables <- MCTables
  AsCoded = FALSE
INVARIANT NoMiss Truthful Tight
CHECK_DEADLOCK FALSE
