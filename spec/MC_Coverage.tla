---------------------------- MODULE MC_Coverage ----------------------------
EXTENDS Coverage
T1 == [i \in 0..2 |-> IF i = 0 THEN 4 ELSE IF i = 1 THEN 2 ELSE 1]
T2 == [i \in 0..2 |-> IF i = 0 THEN 3 ELSE IF i = 1 THEN 2 ELSE 1]
T3 == [i \in 0..2 |-> IF i = 0 THEN 5 ELSE IF i = 1 THEN 3 ELSE 2]
T4 == [i \in 0..2 |-> IF i = 0 THEN 2 ELSE IF i = 1 THEN 1 ELSE 0]
MCTables == {T1, T2, T3, T4}
=======================================================================
