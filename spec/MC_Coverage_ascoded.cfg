SPECIFICATION Spec
CONSTANTS
  P = 9
  L = 2
  Tables <- MCTables
  AsCoded = TRUE
INVARIANT NoMiss Truthful Tight
CHECK_DEADLOCK FALSE
