---------------------------- MODULE MC_Geo ----------------------------
(* Exhaustive check of the cell complex for small subdivisions: a walker moves
   from cell to neighbouring cell; every reachable state (= every cell, the sphere
   being connected) is checked against the geometric claims of C01-C04. *)
EXTENDS HpxGeo, TLC
CONSTANT Ns
VARIABLES n, cl
vars == <<n, cl>>
Init == n \in Ns /\ cl = <<0, 0, 0>>
Move(w) == \E o \in NeighMap(n, cl)[w] : cl' = o /\ n' = n
Next == \E w \in MainWinds : Move(w)
Spec == Init /\ [][Next]_vars

ClosureFaces(c) == {<<c[1], a2, c2>> : a2 \in (2*c[2])..(2*c[2]+2), c2 \in (2*c[3])..(2*c[3]+2)}

TypeOK == n \in Ns /\ cl \in Cells(n)
NeighCount == Cardinality(Neigh(n, cl)) \in (IF n = 1 THEN {6} ELSE {7, 8})
NeighLabels == /\ \A o \in Neigh(n, cl) : Dir(n, cl, o) \in MainWinds
               /\ \A w \in MainWinds : Cardinality(NeighMap(n, cl)[w]) <= 1
               /\ \A w \in MainWinds : NeighAt(n, cl, w) = NeighMap(n, cl)[w]
               \* a missing neighbour is always a cardinal one, and only at a 3-cell point
               /\ \A w \in MainWinds : NeighMap(n, cl)[w] = {} =>
                     w \in Cardinals /\ Cardinality(Star(n, Vtx(n, cl, w))) = 3
NeighSym == \A o \in Neigh(n, cl) : cl \in Neigh(n, o)
(* ordinal neighbour shares that edge's two vertices, cardinal neighbour exactly that vertex *)
NeighShares == \A o \in Neigh(n, cl) : Cardinality(Shared(n, cl, o)) \in {1, 2}
RepsOK == \A d \in Cardinals : LET p == Vtx(n, cl, d) IN
             /\ Reps(n, p) = RepsBrute(n, p)
             /\ Cardinality(Star(n, p)) \in {3, 4}
             /\ cl \in Star(n, p)
StarFaceOK == \A f \in ClosureFaces(cl) :
                 /\ cl \in StarFace(n, f)
                 /\ FaceKind(f) = "cell" => StarFace(n, f) = {cl}
                 /\ FaceKind(f) = "edge" => Cardinality(StarFace(n, f)) = 2
                 /\ FaceKind(f) = "node" => StarFace(n, f) = StarOfNode(n, <<f[1], f[2] \div 2, f[3] \div 2>>)
(* hierarchy (C02 at model level): refining by 2, the parents of the cells around a fine face
   are among the cells around the coarse face that contains it *)
FineFaces(c) == {<<c[1], a2, c2>> : a2 \in (4*c[2])..(4*c[2]+4), c2 \in (4*c[3])..(4*c[3]+4)}
HierarchyOK == \A f \in FineFaces(cl) :
                  \A fc \in StarFace(2 * n, f) : ParentCell(fc, 2) \in StarFace(n, CoarsenFace(f, 2))

(* C14 at model level: the explicit walk is a closed walk of adjacent cells visiting exactly the border
   descendants once, and the side/corner filing of the external edge is the geometric external edge *)
SeqSet(s) == {s[k] : k \in 1..Len(s)}
EdgesOK == \A M \in {2, 4} : n * M <= 16 =>
             LET w == InternalEdgeWalk(cl, M) IN
             /\ Len(w) = 4 * M - 4 /\ SeqSet(w) = InternalEdgeSet(cl, M) /\ Cardinality(SeqSet(w)) = Len(w)
             /\ w[1] = InternalCorner(cl, M, "S")
             /\ \A k \in 1..Len(w) : w[(k % Len(w)) + 1] \in Neigh(n * M, w[k])
             /\ ExternalEdgeFiled(n, cl, M) = ExternalEdgeGeo(n, cl, M)
             /\ \A o \in Ordinals : Cardinality(ExternalSide(n, cl, M, o)) = M
             /\ \A d \in Cardinals : Cardinality(ExternalCorner(n, cl, M, d)) = (IF NeighAt(n, cl, d) = {} THEN 0 ELSE 1)

ASSUME \A N \in Ns : Cardinality(Points(N)) = 12 * N * N + 2                                   \* Euler
ASSUME \A N \in Ns : Cardinality({p \in Points(N) : Cardinality(Star(N, p)) = 3}) = 8
ASSUME \A N \in Ns : \A p \in Points(N) : Reps(N, p) = RepsBrute(N, p)
=======================================================================
