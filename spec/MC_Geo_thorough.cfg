SPECIFICATION Spec
CONSTANT Ns = {1, 2, 3, 4, 5, 6, 8}
INVARIANT TypeOK NeighCount NeighLabels NeighSym NeighShares RepsOK StarFaceOK HierarchyOK EdgesOK
CHECK_DEADLOCK TRUE
