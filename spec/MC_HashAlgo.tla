---------------------------- MODULE MC_HashAlgo ----------------------------
(* The position -> cell algorithms of the crate, as transcribed in HashAlgo, land in the star of the face of the
   position for EVERY lattice point of the subdivisions in NKs (pairs <<N, K>>: subdivision, lattice steps per
   half cell), every turn in Turns, and every nondeterministic choice that models floating point (branch taken on
   the transition latitude, sign bit of a zero, longitude at a pole, perturbation of the projected coordinates). *)
EXTENDS HashAlgo, TLC
CONSTANTS NKs, Turns, Eps
VARIABLES nk, p, turn
vars == <<nk, p, turn>>
n == nk[1]
k == nk[2]
L == LOf(n, k)
Init == /\ nk \in NKs
        /\ p \in {<<b, A, C>> : b \in 0..11, A \in 0..LOf(nk[1], nk[2]), C \in 0..LOf(nk[1], nk[2])}
        /\ turn \in Turns
Next == UNCHANGED vars
Spec == Init /\ [][Next]_vars

Poles == IF IsPole(L, p) THEN 0..15 ELSE {0}
StarP == StarFace(n, CoarsenFace(p, k))
(* every combination of the nondeterministic choices *)
Forall(P(_, _, _, _, _)) ==
  \A reg \in Regions(L, p) : \A pole \in Poles : \A sgn \in TurnSigns(L, p, pole, turn) : \A e1 \in Eps : \A e2 \in Eps :
     P(reg, pole, sgn, e1, e2)

(* C01: nested::hash returns a cell of the subdivision whose closure contains the position *)
NestedOK == LET st == StarP IN Forall(LAMBDA reg, pole, sgn, e1, e2 : NestedHash(n, k, p, reg, turn, sgn, pole, e1, e2) \in st)
(* C02: the cell at subdivision 2n is a child of the cell at subdivision n, for the same floating-point choices *)
HierarchyOK == k % 2 = 0 =>
  Forall(LAMBDA reg, pole, sgn, e1, e2 :
           ParentCell(NestedHash(2 * n, k \div 2, p, reg, turn, sgn, pole, e1, e2), 2)
             = NestedHash(n, k, p, reg, turn, sgn, pole, e1, e2))
(* C03: hash_with_dxdy returns a containing cell, offsets in [0, 1], and (exact arithmetic) the position is the
   point at those offsets in the returned cell - as a sphere point, so that seams and poles are identified *)
Q == 4 * k * R
DxDyOK == LET st == StarP
              me == Canon(n * Q, <<p[1], p[2] * 2 * R, p[3] * 2 * R>>) IN
          Forall(LAMBDA reg, pole, sgn, e1, e2 : \A ysgn \in YSigns(L, p) :
            LET r == NestedHashDxDy(n, k, p, reg, turn, sgn, ysgn, pole, e1, e2) IN
            /\ r.c \in st
            \* offsets in [0, 1] up to the rounding error: a perturbed position may lie just outside the domain
            /\ r.dx >= -(Abs(e1) + Abs(e2)) /\ r.dx <= Q + Abs(e1) + Abs(e2)
            /\ r.dy >= -(Abs(e1) + Abs(e2)) /\ r.dy <= Q + Abs(e1) + Abs(e2)
            /\ (e1 = 0 /\ e2 = 0) =>
                  Canon(n * Q, <<r.c[1], r.c[2] * Q + r.dx, r.c[3] * Q + r.dy>>) = me)
(* C11: ring::hash returns the RING index of a containing cell (any n, power of two or not) *)
YIn(ysgn, e2) == Abs(R * (IF ysgn = 1 THEN -Abs(PY(L, p)) ELSE Abs(PY(L, p))) + e2) <= 2 * R * L   \* |y| <= 2 also after rounding (sigma >= 0)
RingOK == LET ok == {BigToInt(ToRing(n, c)) : c \in StarP} IN
          Forall(LAMBDA reg, pole, sgn, e1, e2 : \A ysgn \in YSigns(L, p) : YIn(ysgn, e2) =>
            RingHash(n, k, p, reg, turn, sgn, ysgn, pole, e1, e2) \in ok)
(* C17: base_cell_from_proj_coo on the exact plane coordinates (x given in [0, 8], or negative) *)
BaseCellOK == turn = 0 =>
  LET ok == {c[1] : c \in StarFace(1, CoarsenFace(p, n * k))} IN
  \A e1 \in Eps : \A e2 \in Eps :
    \A xn \in {x \in {PX(L, p), PX(L, p) - 8 * L, PX(L, p) + 8 * L} : x >= -8 * L /\ x <= 8 * L} :
       (xn * R + e1 >= -8 * L * R /\ xn * R + e1 <= 8 * L * R /\ Abs(PY(L, p) * R + e2) <= 2 * L * R) =>
       BaseCellFromProj(L, xn, PY(L, p), e1, e2) \in ok
TurnsAll == -2..2
EpsAll == {-1, 0, 1}
NKsQuick == {<<1, 2>>, <<2, 2>>, <<3, 1>>, <<4, 2>>}
NKsThorough == {<<1, 2>>, <<1, 3>>, <<2, 2>>, <<2, 4>>, <<3, 1>>, <<3, 2>>, <<4, 2>>, <<5, 1>>, <<6, 1>>, <<7, 1>>, <<8, 2>>}
=======================================================================
