SPECIFICATION Spec
CONSTANT NKs <- NKsQuick
CONSTANT Turns <- TurnsAll
CONSTANT Eps <- EpsAll
CONSTANT Variant = "asis"
INVARIANT DxDyOK
CHECK_DEADLOCK FALSE
