SPECIFICATION Spec
CONSTANT NKs <- NKsThorough
CONSTANT Turns <- TurnsAll
CONSTANT Eps <- EpsAll
CONSTANT Variant = "asis"
INVARIANT DxDyOK
CHECK_DEADLOCK FALSE
