SPECIFICATION Spec
CONSTANT NKs <- NKsQuick
CONSTANT Turns <- TurnsAll
CONSTANT Eps <- EpsAll
CONSTANT Variant = "asis"
INVARIANT NestedOK
CHECK_DEADLOCK FALSE
