SPECIFICATION Spec
CONSTANT NKs <- NKsThorough
CONSTANT Turns <- TurnsAll
CONSTANT Eps <- EpsAll
CONSTANT Variant = "asis"
INVARIANT NestedOK
CHECK_DEADLOCK FALSE
