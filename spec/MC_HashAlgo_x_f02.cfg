SPECIFICATION Spec
CONSTANT NKs <- NKsQuick
CONSTANT Turns <- TurnsAll
CONSTANT Eps <- EpsAll
CONSTANT Variant = "f02"
INVARIANT NestedOK
CHECK_DEADLOCK FALSE
