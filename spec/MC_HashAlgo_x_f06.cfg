SPECIFICATION Spec
CONSTANT NKs <- NKsQuick
CONSTANT Turns <- TurnsAll
CONSTANT Eps <- EpsAll
CONSTANT Variant = "f06"
INVARIANT RingOK
CHECK_DEADLOCK FALSE
