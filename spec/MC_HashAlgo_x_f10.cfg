SPECIFICATION Spec
CONSTANT NKs <- NKsQuick
CONSTANT Turns <- TurnsAll
CONSTANT Eps <- EpsAll
CONSTANT Variant = "f10"
INVARIANT BaseCellOK
CHECK_DEADLOCK FALSE
