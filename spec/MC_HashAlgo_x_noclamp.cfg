SPECIFICATION Spec
CONSTANT NKs <- NKsQuick
CONSTANT Turns <- TurnsAll
CONSTANT Eps <- EpsAll
CONSTANT Variant = "noclamp"
INVARIANT NestedOK
CHECK_DEADLOCK FALSE
