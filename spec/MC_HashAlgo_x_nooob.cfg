SPECIFICATION Spec
CONSTANT NKs <- NKsQuick
CONSTANT Turns <- TurnsAll
CONSTANT Eps <- EpsAll
CONSTANT Variant = "nooob"
INVARIANT DxDyOK
CHECK_DEADLOCK FALSE
