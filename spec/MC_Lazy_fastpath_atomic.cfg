SPECIFICATION Spec
CONSTANTS
  Threads = {t1, t2, t3}
  Keys = {k1, k2}
  MaxCalls = 2
  Torn = FALSE
  UseOnce = TRUE
  FastPath = TRUE
INVARIANT BuiltOnce NoTorn SameObject OnceProtects
PROPERTY AllReturn
CHECK_DEADLOCK FALSE
