SPECIFICATION Spec
CONSTANTS
  Threads = {t1, t2}
  Keys = {k1}
  MaxCalls = 1
  Torn = FALSE
  UseOnce = FALSE
  FastPath = FALSE
INVARIANT BuiltOnce
CHECK_DEADLOCK FALSE
