SPECIFICATION Spec
CONSTANTS
  Threads = {t1, t2}
  Keys = {k1}
  MaxCalls = 1
  Torn = TRUE
  UseOnce = TRUE
  FastPath = TRUE
INVARIANT NoTorn
CHECK_DEADLOCK FALSE
