SPECIFICATION Spec
INVARIANT AlgoIsBest HasBest
CHECK_DEADLOCK FALSE
