SPECIFICATION Spec
CONSTANT Ns = {1, 2, 3, 4, 8}
INVARIANT TypeOK AlgoRefines BaseTableOK DirFromOK PanicsOK BorderOK
CHECK_DEADLOCK TRUE
