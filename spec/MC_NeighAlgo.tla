---------------------------- MODULE MC_NeighAlgo ----------------------------
(* The neighbour algorithm of the crate, as transcribed in NeighAlgo, refines the geometric
   definition of HpxGeo on every cell of the subdivisions in Ns (walker over the sphere as in MC_Geo). *)
EXTENDS NeighAlgo, TLC
CONSTANT Ns
VARIABLES n, cl
vars == <<n, cl>>
Init == n \in Ns /\ cl = <<0, 0, 0>>
Move(w) == \E o \in NeighbourFromParts(n, cl, w) : cl' = o /\ n' = n
Next == \E w \in MainWinds : Move(w)
Spec == Init /\ [][Next]_vars

TypeOK == n \in Ns /\ cl \in Cells(n)
(* neighbour_from_parts = the cell sharing exactly the vertices the direction names *)
AlgoRefines == \A w \in MainWinds : NeighbourFromParts(n, cl, w) = NeighAt(n, cl, w)
(* the base-cell table of lib.rs is the neighbour relation of the 12 base cells, and the base cell of every
   neighbour of a border cell is the one the table gives for the direction in which the base cell is left *)
BaseTableOK ==
  /\ \A w \in MainWinds : BaseNeighbour(cl[1], w) = {o[1] : o \in NeighAt(1, <<cl[1], 0, 0>>, w)}
  /\ \A w \in MainWinds : \A o \in NeighAt(n, cl, w) :
        LET d == FromOffsets(BaseOffset(n, cl[2] + OffSE(w)), BaseOffset(n, cl[3] + OffSW(w)))
        IN {o[1]} = BaseNeighbour(cl[1], d)
(* the direction of cl as seen from its neighbour, as the external-edge code computes it *)
DirFromOK == \A w \in MainWinds : \A o \in NeighAt(n, cl, w) : DirFromNeigAlgo(n, cl, w, o) = Dir(n, o, cl)
(* direction_from_neighbour panics exactly where the base cell has no neighbour *)
PanicsOK == \A w \in MainWinds : (DirectionFromNeighbour(cl[1], w) = "!") = (BaseNeighbour(cl[1], w) = {})
(* is_in_base_cell_border: exactly the cells with a neighbour in another base cell, or with a missing neighbour *)
BorderOK == InBorder(n, cl) = \E w \in MainWinds : NeighAt(n, cl, w) = {} \/ \E o \in NeighAt(n, cl, w) : o[1] # cl[1]
ASSUME OppositeOK == \A w \in MainWinds : Opposite(Opposite(w)) = w /\ Opposite(w) # w
=======================================================================
