SPECIFICATION Spec
CONSTANT Ns = {1, 2, 3, 4, 5, 6, 8, 16}
INVARIANT TypeOK AlgoRefines BaseTableOK DirFromOK PanicsOK BorderOK
CHECK_DEADLOCK TRUE
