SPECIFICATION Spec
CONSTANT Ns = {1, 2, 3, 4, 5}
INVARIANT ClosedIsRank InRange RingSizes PosOK RingStartOK
CHECK_DEADLOCK FALSE
