---------------------------- MODULE MC_Ring ----------------------------
(* Model checking of the RING numbering for small subdivisions (powers of two or not): the closed form
   equals the rank in (latitude desc, longitude asc), is a bijection onto 0..12N^2-1, ring sizes are
   4i / 4N, and stepping to the next RING index never goes north / west within a ring. *)
EXTENDS HpxRing, TLC
CONSTANT Ns
VARIABLES n, cl
vars == <<n, cl>>
Init == n \in Ns /\ cl = <<0, 0, 0>>
(* a walker moving from cell to neighbouring cell reaches every cell *)
Next == /\ n' = n
        /\ \E w \in MainWinds : \E o \in NeighAt(n, cl, w) : cl' = o
Spec == Init /\ [][Next]_vars
ClosedIsRank == BigToInt(ToRing(n, cl)) = Rank(n, cl)
InRange == BigLess(ToRing(n, cl), NHashBig(n))
RingSizes == Cardinality({c \in Cells(n) : RhoOf(n, c) = RhoOf(n, cl)}) = RingSize(n, RhoOf(n, cl))
PosOK == LET p == PosInRing(n, cl) IN p[2] >= 0 /\ p[2] < p[3] /\ p[1] \in 0..3
ASSUME \A N \in Ns : {BigToInt(ToRing(N, c)) : c \in Cells(N)} = 0..(12 * N * N - 1)
RECURSIVE SumSizes(_, _)
SumSizes(N, rho) == IF rho = 0 THEN 0 ELSE RingSize(N, rho) + SumSizes(N, rho - 1)
ASSUME \A N \in Ns : \A rho \in 1..(4 * N) : BigToInt(RingStart(N, rho)) = SumSizes(N, rho - 1)
RingStartOK == BigToInt(RingStart(n, RhoOf(n, cl))) <= Rank(n, cl) /\ Rank(n, cl) < BigToInt(RingStart(n, RhoOf(n, cl) + 1))
ASSUME BigMul(BigOf(123456789), BigOf(987654321)) = <<21381, 30718, 17491, 3465>>
ASSUME BigSub(BigMul(BigOf(40000), BigOf(50000)), BigOf(1999999999)) = BigOf(1)
=======================================================================
