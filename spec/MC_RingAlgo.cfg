SPECIFICATION Spec
CONSTANT Ns = {1, 2, 4, 8}
INVARIANT ToRingIsRank ToRingIsClosedForm FromRingInverse
CHECK_DEADLOCK TRUE
