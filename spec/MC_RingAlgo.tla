---------------------------- MODULE MC_RingAlgo ----------------------------
(* to_ring / from_ring as coded refine the definition of the RING numbering, for every cell of the power-of-two
   subdivisions in Ns (walker over the sphere, as MC_Ring). *)
EXTENDS RingAlgo, TLC
CONSTANT Ns
VARIABLES n, cl
vars == <<n, cl>>
Init == n \in Ns /\ cl = <<0, 0, 0>>
Next == /\ n' = n
        /\ \E w \in MainWinds : \E o \in NeighAt(n, cl, w) : cl' = o
Spec == Init /\ [][Next]_vars
ToRingIsRank == ToRingAlgo(n, cl) = Rank(n, cl)
ToRingIsClosedForm == ToRingAlgo(n, cl) = BigToInt(ToRing(n, cl))
FromRingInverse == FromRingAlgo(n, ToRingAlgo(n, cl)) = cl
ASSUME \A N \in Ns : \A h \in 0..(12 * N * N - 1) : FromRingAlgo(N, h) \in Cells(N) /\ ToRingAlgo(N, FromRingAlgo(N, h)) = h
=======================================================================
