SPECIFICATION Spec
CONSTANT Ns = {1, 2, 4, 8, 16}
INVARIANT ToRingIsRank ToRingIsClosedForm FromRingInverse
CHECK_DEADLOCK TRUE
