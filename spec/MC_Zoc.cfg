SPECIFICATION Spec
CONSTANTS
  D = 5
  DU = 3
INVARIANT Inverse Restrictions
CHECK_DEADLOCK FALSE
