---------------------------- MODULE MC_Zoc ----------------------------
(* Model checking of the encodings on all (i, j) of D bits and all cells of depth <= DU: interleaving is
   invertible, its restrictions are what i02h / oj2h must return, uniq encodings are injective and inverted. *)
EXTENDS HpxZoc, FiniteSets, TLC
CONSTANTS D, DU
VARIABLES vi, vj
vars == <<vi, vj>>
Init == vi = 0 /\ vj = 0
Next == \/ vi < 2^D - 1 /\ vi' = vi + 1 /\ vj' = vj
        \/ vj < 2^D - 1 /\ vj' = vj + 1 /\ vi' = vi
Spec == Init /\ [][Next]_vars
Inverse == LET h == PathOfIJ(vi, vj, D) IN IOfPath(h) = vi /\ JOfPath(h) = vj /\ DeinterleaveI(h) = Bits(vi, D) /\ DeinterleaveJ(h) = Bits(vj, D)
Restrictions == /\ PathOfIJ(vi, 0, D) = Bits(vi, D)
                /\ PathOfIJ(0, vj, D) = [k \in 1..D |-> 2 * Bits(vj, D)[k]]
                /\ \A k \in 1..D : PathOfIJ(vi, vj, D)[k] = PathOfIJ(vi, 0, D)[k] + PathOfIJ(0, vj, D)[k]
Paths(d) == [1..d -> 0..3]
AllCells == UNION {{<<b, p>> : b \in 0..11, p \in Paths(d)} : d \in 0..DU}
ASSUME \A c \in AllCells : LET u == Uniq(c[1], c[2]) IN FromUniq(u).b = c[1] /\ FromUniq(u).p = c[2] /\ FromUniq(u).d = Len(c[2])
ASSUME \A c \in AllCells : LET u == UniqIvoa(c[1], c[2]) IN FromUniqIvoa(u).b = c[1] /\ FromUniqIvoa(u).p = c[2] /\ FromUniqIvoa(u).d = Len(c[2])
ASSUME Cardinality({Uniq(c[1], c[2]) : c \in AllCells}) = Cardinality(AllCells)
ASSUME Cardinality({UniqIvoa(c[1], c[2]) : c \in AllCells}) = Cardinality(AllCells)
ASSUME \A c \in AllCells : Uniq(c[1], c[2])[1] # 0 /\ UniqIvoa(c[1], c[2])[1] # 0
=======================================================================
