SPECIFICATION Spec
CONSTANTS
  D = 7
  DU = 4
INVARIANT Inverse Restrictions
CHECK_DEADLOCK FALSE
