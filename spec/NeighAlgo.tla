---------------------------- MODULE NeighAlgo ----------------------------
(* Transcription of the neighbour machinery of the crate (src/nested/mod.rs:
   neighbour_from_parts, neighbour_base_cell_offset, neighbour_from_shifted_coos,
   ncp_/eqr_/spc_neighbour, direction_in_base_cell_border; src/lib.rs: neighbour,
   direction_from_neighbour, edge_cell_direction_from_neighbour and their per-region
   tables), one operator per function, same case analysis.

   MC_NeighAlgo checks that the transcription REFINES the geometric definition of
   HpxGeo (neighbour = cell sharing a vertex / an edge, direction = which vertices are
   shared) for every cell of small subdivisions, and Gen_NeighTables writes the three
   base-cell tables as the specification defines them so that the harness can compare
   the crate's public functions with them.                                          *)
EXTENDS HpxGeo

Iden(q) == q
NextQ(q) == (q + 1) % 4
PrevQ(q) == (q + 3) % 4
OppoQ(q) == (q + 2) % 4
BaseCell(q, ring) == 4 * ring + q

(* compass_point.rs: offset_se / offset_sw / from_offsets / opposite *)
OffSE(w) == CASE w \in {"S", "SW", "W"} -> -1 [] w \in {"SE", "C", "NW"} -> 0 [] OTHER -> 1
OffSW(w) == CASE w \in {"S", "SE", "E"} -> -1 [] w \in {"SW", "C", "NE"} -> 0 [] OTHER -> 1
WindIndex == <<"S", "SE", "E", "SW", "C", "NE", "W", "NW", "N">>
FromIndex(k) == WindIndex[k + 1]
FromOffsets(ose, osw) == FromIndex(3 * (osw + 1) + (ose + 1))
Opposite(w) == FromOffsets(-OffSE(w), -OffSW(w))

(* neighbour_base_cell_offset: -1 | 0 | 1 for a coordinate in -1..nside *)
BaseOffset(N, x) == IF x = -1 THEN -1 ELSE IF x = N THEN 1 ELSE 0

(* ncp_ / eqr_ / spc_neighbour (nested/mod.rs): base cell and coordinates of the neighbour
   lying in another base cell; {} where the crate returns None *)
NcpNeighbour(N, q, i, j, d) ==
  LET m == N - 1 IN
  CASE d = "S"  -> {<<BaseCell(Iden(q), 2), m, m>>}
    [] d = "SE" -> {<<BaseCell(NextQ(q), 1), i, m>>}
    [] d = "SW" -> {<<BaseCell(Iden(q), 1), m, j>>}
    [] d = "NE" -> {<<BaseCell(NextQ(q), 0), j, m>>}
    [] d = "NW" -> {<<BaseCell(PrevQ(q), 0), m, i>>}
    [] d = "N"  -> {<<BaseCell(OppoQ(q), 0), m, m>>}
    [] OTHER -> {}
EqrNeighbour(N, q, i, j, d) ==
  LET m == N - 1 IN
  CASE d = "SE" -> {<<BaseCell(Iden(q), 2), i, m>>}
    [] d = "E"  -> {<<BaseCell(NextQ(q), 1), 0, m>>}
    [] d = "SW" -> {<<BaseCell(PrevQ(q), 2), m, j>>}
    [] d = "NE" -> {<<BaseCell(Iden(q), 0), 0, j>>}
    [] d = "W"  -> {<<BaseCell(PrevQ(q), 1), m, 0>>}
    [] d = "NW" -> {<<BaseCell(PrevQ(q), 0), i, 0>>}
    [] OTHER -> {}
SpcNeighbour(N, q, i, j, d) ==
  CASE d = "S"  -> {<<BaseCell(OppoQ(q), 2), 0, 0>>}
    [] d = "SE" -> {<<BaseCell(NextQ(q), 2), 0, i>>}
    [] d = "SW" -> {<<BaseCell(PrevQ(q), 2), j, 0>>}
    [] d = "NE" -> {<<BaseCell(NextQ(q), 1), 0, j>>}
    [] d = "NW" -> {<<BaseCell(Iden(q), 1), i, 0>>}
    [] d = "N"  -> {<<BaseCell(Iden(q), 0), 0, 0>>}
    [] OTHER -> {}

(* neighbour_from_shifted_coos + neighbour_from_parts *)
NeighbourFromParts(N, cl, w) ==
  LET i == cl[2] + OffSE(w)
      j == cl[3] + OffSW(w)
      d == FromOffsets(BaseOffset(N, i), BaseOffset(N, j))
      q == BQ(cl[1])
  IN IF d = "C" THEN {<<cl[1], i, j>>}
     ELSE CASE BRing(cl[1]) = 0 -> NcpNeighbour(N, q, i, j, d)
            [] BRing(cl[1]) = 1 -> EqrNeighbour(N, q, i, j, d)
            [] OTHER -> SpcNeighbour(N, q, i, j, d)

(* Layer::neighbours: the whole map (inner cells go through the +-1 arithmetic, which is the
   d = "C" branch above; border cells through neighbour_from_parts) *)
NeighboursAlgo(N, cl) == [w \in MainWinds |-> NeighbourFromParts(N, cl, w)]

(* is_in_base_cell_border / direction_in_base_cell_border *)
InBorder(N, cl) == cl[2] = 0 \/ cl[2] = N - 1 \/ cl[3] = 0 \/ cl[3] = N - 1
BorderIdx(N, x) == IF x = 0 THEN 0 ELSE IF x = N - 1 THEN 2 ELSE 1
DirectionInBorder(N, cl) == FromIndex(3 * BorderIdx(N, cl[3]) + BorderIdx(N, cl[2]))

(* lib.rs: neighbour(base_cell, direction) *)
BaseNeighbour(b, w) ==
  LET q == BQ(b) IN
  IF w = "C" THEN {b} ELSE
  CASE BRing(b) = 0 -> (CASE w = "S" -> {BaseCell(Iden(q), 2)} [] w = "SE" -> {BaseCell(NextQ(q), 1)}
                          [] w = "SW" -> {BaseCell(Iden(q), 1)} [] w = "NE" -> {BaseCell(NextQ(q), 0)}
                          [] w = "NW" -> {BaseCell(PrevQ(q), 0)} [] w = "N" -> {BaseCell(OppoQ(q), 0)}
                          [] OTHER -> {})
    [] BRing(b) = 1 -> (CASE w = "SE" -> {BaseCell(Iden(q), 2)} [] w = "E" -> {BaseCell(NextQ(q), 1)}
                          [] w = "SW" -> {BaseCell(PrevQ(q), 2)} [] w = "NE" -> {BaseCell(Iden(q), 0)}
                          [] w = "W" -> {BaseCell(PrevQ(q), 1)} [] w = "NW" -> {BaseCell(PrevQ(q), 0)}
                          [] OTHER -> {})
    [] OTHER ->        (CASE w = "S" -> {BaseCell(OppoQ(q), 2)} [] w = "SE" -> {BaseCell(NextQ(q), 2)}
                          [] w = "SW" -> {BaseCell(PrevQ(q), 2)} [] w = "NE" -> {BaseCell(NextQ(q), 1)}
                          [] w = "NW" -> {BaseCell(Iden(q), 1)} [] w = "N" -> {BaseCell(Iden(q), 0)}
                          [] OTHER -> {})

(* lib.rs: direction_from_neighbour(base_cell, neighbour_direction); "!" = the crate panics *)
DirectionFromNeighbour(b, w) ==
  CASE BRing(b) = 0 -> (CASE w \in {"E", "W", "C"} -> "!" [] w = "NE" -> "NW" [] w = "NW" -> "NE" [] w = "N" -> "N"
                          [] OTHER -> Opposite(w))
    [] BRing(b) = 1 -> (CASE w \in {"S", "N", "C"} -> "!" [] OTHER -> Opposite(w))
    [] OTHER ->        (CASE w \in {"E", "W", "C"} -> "!" [] w = "S" -> "S" [] w = "SE" -> "SW" [] w = "SW" -> "SE"
                          [] OTHER -> Opposite(w))

(* lib.rs: edge_cell_direction_from_neighbour(base_cell, inner_direction, neighbour_direction);
   "!" = panic / unreachable / failed assert *)
EdgeCellDirectionFromNeighbour(b, inner, w) ==
  CASE BRing(b) = 0 ->
        (CASE w = "C" -> "!"
           [] w = "E" -> (CASE inner \in {"N", "NE"} -> "N" [] inner \in {"S", "SE"} -> Opposite(w) [] OTHER -> "!")
           [] w = "W" -> (CASE inner \in {"N", "NW"} -> "N" [] inner \in {"S", "SW"} -> Opposite(w) [] OTHER -> "!")
           [] w = "NE" -> (IF inner \in {"N", "E", "NE"} THEN "NW" ELSE "!")
           [] w = "NW" -> (IF inner \in {"N", "W", "NW"} THEN "NE" ELSE "!")
           [] w = "N" -> (CASE inner = "N" -> "N" [] inner \in {"E", "NE"} -> "W" [] inner \in {"W", "NW"} -> "E" [] OTHER -> "!")
           [] OTHER -> Opposite(w))
    [] BRing(b) = 1 -> Opposite(w)
    [] OTHER ->
        (CASE w = "C" -> "!"
           [] w = "E" -> (CASE inner \in {"S", "SE"} -> "S" [] inner \in {"N", "NE"} -> Opposite(w) [] OTHER -> "!")
           [] w = "W" -> (CASE inner \in {"S", "SW"} -> "S" [] inner \in {"N", "NW"} -> Opposite(w) [] OTHER -> "!")
           [] w = "SE" -> (IF inner \in {"S", "E", "SE"} THEN "SW" ELSE "!")
           [] w = "SW" -> (IF inner \in {"S", "W", "SW"} THEN "SE" ELSE "!")
           [] w = "S" -> (CASE inner = "S" -> "S" [] inner \in {"E", "SE"} -> "W" [] inner \in {"W", "SW"} -> "E" [] OTHER -> "!")
           [] OTHER -> Opposite(w))

(* the direction under which the external-edge code files the part of neighbour o (found in direction w of cl)
   that touches cl: external_edge_generic *)
DirFromNeigAlgo(N, cl, w, o) ==
  IF o[1] = cl[1] THEN Opposite(w)
  ELSE IF N = 1 THEN DirectionFromNeighbour(cl[1], w)
  ELSE EdgeCellDirectionFromNeighbour(cl[1], DirectionInBorder(N, cl), w)
=======================================================================
