---------------------------- MODULE RingAlgo ----------------------------
(* Transcription of Layer::to_ring and Layer::from_ring (src/nested/mod.rs) with their helpers
   (polar_ring_index, triangular_number_x4, first_hash_in_eqr, minus_nside_x_4nside, depth0_hash_unsafe,
   div2_quotient = arithmetic shift), branch for branch, on plain integers (small N).
   MC_RingAlgo checks that both refine the DEFINITION of the RING numbering (HpxRing!Rank: rank of the cell
   centre by latitude then longitude) and are inverse of each other.  Shifts of negative values are floor
   divisions (arithmetic shift), which is what \div does in TLA+.                                        *)
EXTENDS HpxRing

Tri4(k) == 2 * k * (k + 1)                                        \* triangular_number_x4
FirstHashInEqr(N) == 2 * (N * N + N)                               \* first_hash_in_eqr
NHash(N) == 12 * N * N
(* polar_ring_index: the n with 2n(n+1) <= x < 2(n+1)(n+2) - the crate starts from a float sqrt and corrects
   it with two loops; the transcription keeps the loops' exit condition *)
PolarRingIndex(x) == CHOOSE k \in 0..(x + 1) : Tri4(k) <= x /\ x < Tri4(k + 1)

ToRingAlgo(N, cl) ==
  LET d0h == cl[1]
      i == cl[2]
      j == cl[3]
      h == i + j
      l == i - j
      id0h == d0h % 4
      jd0h == d0h \div 4
      iring == N * (jd0h + 2) - (h + 2)
      half == l \div 2                                              \* div2_quotient(l): floor
  IN IF iring < N
       THEN LET ip1 == iring + 1 IN 2 * iring * ip1 + half + (ip1 \div 2) + ip1 * id0h
     ELSE IF iring >= 3 * N - 1
       THEN LET ip1 == h + 1 IN NHash(N) - Tri4(ip1) + half + (ip1 \div 2) + ip1 * id0h
     ELSE FirstHashInEqr(N) + (iring - N) * 4 * N + half
            + ((N * ((jd0h + 1) % 2)) \div 2)
            + N * (IF d0h = 4 /\ l < 0 THEN 4 ELSE id0h)

(* depth0_hash_unsafe(i, j): k = 5 - (i + j); (k << 2) + ((i + ((k - 1) >> 7)) & 3) on i8 *)
Depth0HashUnsafe(i, j) == LET k == 5 - (i + j)
                              s == IF k - 1 < 0 THEN -1 ELSE 0      \* (k - 1) >> 7 on an i8
                          IN 4 * k + ((i + s) % 4)

FromRingAlgo(N, hash) ==
  LET fe == FirstHashInEqr(N)
      fs == NHash(N) - fe
  IN IF hash < fe
       THEN LET ir == PolarRingIndex(hash)
                nin == ir + 1
                iin == hash - Tri4(ir)
                d0h == iin \div nin
                h == 2 * N - 2 - ir
                l == 2 * (iin - nin * d0h) - ir
            IN <<d0h, (h + l) \div 2, (h - l) \div 2>>
     ELSE IF hash >= fs
       THEN LET rh == NHash(N) - 1 - hash
                ir == PolarRingIndex(rh)
                nin == ir + 1
                iin == (4 * nin - 1) - (rh - Tri4(ir))
                d0h == iin \div nin
                h == ir
                l == 2 * (iin - nin * d0h) - ir
            IN <<d0h + 8, (h + l) \div 2, (h - l) \div 2>>
     ELSE LET x == hash - fe
              ir == x \div (4 * N)
              iin == x - ir * 4 * N
              l == 2 * iin + (ir % 2)
              h == 2 * N - 2 - ir
              ic == (h + l) \div 2
              jc == ((h - l) \div 2) + 4 * N
              id0c == ic \div N
              jd0c == jc \div N
          IN <<Depth0HashUnsafe(id0c, jd0c), ic % N, jc % N>>
=======================================================================
