SPECIFICATION Spec
INVARIANT Done
CHECK_DEADLOCK FALSE
