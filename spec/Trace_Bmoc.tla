---------------------------- MODULE Trace_Bmoc ----------------------------
(***************************************************************************)
(* Trace validation of BMOC-producing calls (operators, builders, pack,    *)
(* lower-depth, coverage queries) and of the BMOC views.  Register style:  *)
(* the specification keeps its own copy of every BMOC value handed to the  *)
(* user (`regs`); operands are NOT re-read from the event, so a divergence *)
(* is caught at the step that introduces it.  The trace spec is total: a   *)
(* rejected event is recorded in `bad` with the violated clauses and the   *)
(* register is resynchronised so that the rest of the trace is checked.    *)
(***************************************************************************)
EXTENDS Bmoc, HpxRing, HpxZoc, TLC, Json, IOUtils
Rec == ndJsonDeserialize(IOEnv.TRACE)
NReg == 8
VARIABLES l, bad, regs
tvars == <<l, bad, regs>>
Failed(clauses) == LET idx == {k \in 1..Len(clauses) : ~clauses[k][2]} IN {clauses[k][1] : k \in idx}
Value(e) == [dmax |-> e.dmax, cells |-> e.cells]
EmptyBmoc == [dmax |-> 0, cells |-> <<>>]

(* ---- new: a BMOC built from an explicit (valid) cell list through BMOCBuilderUnsafe::push / to_bmoc ---- *)
(* the operand is built by the crate's own low-level builder (push of each cell, to_bmoc): it must come back as the cells pushed *)
NewC(e) == << <<"operand_wellformed", WellFormed(Value(e)) /\ e.built = 1>> >>

(* ---- op: not / and / or / xor ---- *)
Expected(e) == IF e.op = "not" THEN Not(Sem(regs[e.a].cells))
               ELSE Op2(e.op, Sem(regs[e.a].cells), Sem(regs[e.b].cells))
OpDmax(e) == IF e.op = "not" THEN regs[e.a].dmax ELSE Max2(regs[e.a].dmax, regs[e.b].dmax)
PlainOperands(e) == /\ AllFull(regs[e.a].cells) /\ Packed(regs[e.a].cells)
                    /\ (e.op = "not" \/ (AllFull(regs[e.b].cells) /\ Packed(regs[e.b].cells)))
OpC(e) == LET exp == Expected(e) IN
  << <<"panic", e.p = 0>>,
     <<"dmax", e.p = 1 \/ e.dmax = OpDmax(e)>>,
     <<"wellformed", e.p = 1 \/ WellFormed(Value(e))>>,
     <<"semantics", e.p = 1 \/ Sem(e.cells) = exp>>,
     (* plain MOCs: canonical packed form, so that structural equality is set equality (C07) *)
     <<"canonical", e.p = 1 \/ ~PlainOperands(e) \/ e.cells = Canonical(exp)>> >>
(* ---- law: an algebraic law evaluated by the crate itself through BMOC::equals on plain MOCs (C07):
        not(not a) = a, not(a and b) = not a or not b, a xor a = empty, a or not a = whole sky ---- *)
PlainReg(r) == AllFull(regs[r].cells) /\ Packed(regs[r].cells) /\ WellFormed(regs[r])
LawC(e) == << <<"panic", e.p = 0>>,
              <<"law_holds", e.p = 1 \/ ~(PlainReg(e.a) /\ PlainReg(e.b)) \/ e.holds = 1>> >>

(* ---- pack / lower (BMOCBuilderUnsafe::to_bmoc_packing, to_lower_depth_bmoc[_packing]) (C15) ---- *)
PackC(e) == LET src == regs[e.a] IN
  << <<"panic", e.p = 0>>, <<"dmax", e.p = 1 \/ e.dmax = src.dmax>>,
     <<"wellformed", e.p = 1 \/ WellFormed(Value(e))>>,
     <<"same_map", e.p = 1 \/ Sem(e.cells) = Sem(src.cells)>>,
     <<"no_four_full_siblings", e.p = 1 \/ Packed(e.cells)>> >>
LowerC(e) == LET src == regs[e.a]
                 exp == Lower(Sem(src.cells), e.to)
  IN << <<"panic", e.p = 0>>, <<"dmax", e.p = 1 \/ e.dmax = e.to>>,
        <<"wellformed", e.p = 1 \/ WellFormed(Value(e))>>,
        <<"lowered_map", e.p = 1 \/ LoweredOK(Sem(e.cells), exp)>>,
        <<"packed_if_asked", e.p = 1 \/ e.packing = 0 \/ Packed(e.cells)>> >>

(* ---- unordered: the cells of register a pushed in a shuffled order, BMOCBuilderUnsafe::to_bmoc_from_unordered (C09) ---- *)
UnorderedC(e) == LET src == regs[e.a] IN
  << <<"panic", e.p = 0>>, <<"dmax", e.p = 1 \/ e.dmax = src.dmax>>,
     <<"wellformed", e.p = 1 \/ WellFormed(Value(e))>>,
     <<"same_entries", e.p = 1 \/ ~WellFormed(src) \/ e.cells = src.cells>> >>

(* ---- fixed-depth builder (C15): the result covers exactly the pushed cells with the requested flag ---- *)
RECURSIVE PushAll(_, _, _)
PushAll(hs, v, forest) == IF hs = <<>> THEN forest
                          ELSE PushAll(Tail(hs), v, [forest EXCEPT ![Head(hs).b] = Insert(forest[Head(hs).b], Head(hs).p, v)])
FixedC(e) == LET f0 == PushAll(e.pushed, LeafOf(e.flag), EmptyForest)
                 exp == [b \in 0..11 |-> NormT(f0[b])]
  IN << <<"panic", e.p = 0>>,
        <<"none_iff_empty", e.p = 1 \/ (e.none = 1) = (e.pushed = <<>>)>>,
        <<"dmax", e.p = 1 \/ e.none = 1 \/ e.dmax = e.depth>>,
        <<"wellformed", e.p = 1 \/ e.none = 1 \/ WellFormed(Value(e))>>,
        <<"exactly_pushed", e.p = 1 \/ e.none = 1 \/ Sem(e.cells) = exp>>,
        <<"flags", e.p = 1 \/ e.none = 1 \/ \A k \in 1..Len(e.cells) : e.cells[k].f = e.flag>> >>

(* ---- query: a BMOC produced by a coverage query enters a register; only well-formedness is judged here ---- *)
QueryC(e) == << <<"panic", e.p = 0>>, <<"wellformed", e.p = 1 \/ WellFormed(Value(e))>> >>

(* ---- view: the views of the BMOC in register e.reg agree with its entries (C09) ---- *)
Pow4Big(k) == [i \in 1..((2 * k) \div 15 + 1) |-> IF i = (2 * k) \div 15 + 1 THEN 2^((2 * k) % 15) ELSE 0]
RECURSIVE DeepSizeBig(_, _)
DeepSizeBig(cells, dmax) == IF cells = <<>> THEN <<0>> ELSE BigAdd(Pow4Big(dmax - Len(Head(cells).p)), DeepSizeBig(Tail(cells), dmax))
(* the number of a cell at depth dmax (first descendant), as a big natural *)
RECURSIVE PathBig(_, _)
PathBig(p, acc) == IF p = <<>> THEN acc ELSE PathBig(Tail(p), BigAdd(BigMul(acc, <<4>>), <<Head(p)>>))
FirstDeep(c, dmax) == BigMul(PathBig(c.p, <<c.b>>), Pow4Big(dmax - Len(c.p)))
(* ranges: maximal runs of consecutive deepest cells *)
RECURSIVE RangesOf(_, _, _)
RangesOf(cells, dmax, acc) ==
  IF cells = <<>> THEN acc
  ELSE LET c == Head(cells)
           lo == FirstDeep(c, dmax)
           hi == BigAdd(lo, Pow4Big(dmax - Len(c.p)))
       IN IF acc # <<>> /\ acc[Len(acc)][2] = lo
            THEN RangesOf(Tail(cells), dmax, [acc EXCEPT ![Len(acc)] = <<acc[Len(acc)][1], hi>>])
            ELSE RangesOf(Tail(cells), dmax, Append(acc, <<lo, hi>>))
ViewC(e) == LET bm == regs[e.reg]
                n == Len(bm.cells)
  IN << <<"entries", e.dmax = bm.dmax /\ e.iter = bm.cells>>,
        <<"raw_encoding", Len(e.raw) = n /\ \A k \in 1..n : e.raw[k] = Raw(bm.cells[k], bm.dmax)>>,
        <<"deep_size", e.deep = DeepSizeBig(bm.cells, bm.dmax) /\ e.hint = 1>>,
        <<"ranges", e.ranges = RangesOf(bm.cells, bm.dmax, <<>>)>>,
        (* the expansion is evaluated only when the specification's own value is small too (a corrupted register must
           not make TLC expand 4^29 cells) *)
        <<"flat", e.small = 0 \/ ((LET ds == DeepSizeBig(bm.cells, bm.dmax) IN Len(ds) = 1 /\ ds[1] <= 2000) /\ (LET fl == Flat(bm.cells, bm.dmax) IN
                     /\ e.flat = [k \in 1..Len(fl) |-> [b |-> fl[k].b, p |-> fl[k].p]]
                     /\ e.flatarr = e.flat
                     /\ e.flatcell = fl))>> >>

(* ---- cone coverage (C05, C06): metric facts are measured by the bridge, the structure is judged here ---- *)
TolFull == 1000          \* 1e-12 rad, in units of 1e-15 rad (plus the radius-proportional part e.rtol = 1e-9 * r)
AllSkyCells == [k \in 1..12 |-> [b |-> k - 1, p |-> <<>>, f |-> 1]]
ConeC(e) == IF e.p = 1 THEN << <<"panic", FALSE>> >> ELSE
  << <<"dmax", e.dmax = e.d>>, <<"wellformed", WellFormed(Value(e))>>,
     (* C05: every cell of the requested depth that provably contains a point of the cone is covered, possibly by an ancestor *)
     <<"no_miss", \A k \in 1..Len(e.wit) : Covered(e.cells, e.wit[k].b, e.wit[k].p)>>,
     (* C06 *)
     <<"packed", Packed(e.cells)>>,
     <<"allsky", e.allsky = 0 \/ e.cells = AllSkyCells>>,
     <<"full_truthful", e.full_excess <= TolFull + e.rtol>>,
     <<"tight", e.slack <= 0>>,
     (* beyond the listed properties (X00): cone_coverage_approx_flat is the flat view of the same coverage *)
     <<"flat_variant", e.flat_same # 0>> >>

(* a position's cell is covered: some cell whose closure contains the position (StarFace of its face) is covered *)
Pow2(d) == 2^d
FaceCovered(cells, d, f) == \E cl \in StarFace(Pow2(d), f) : Covered(cells, cl[1], PathOfIJ(cl[2], cl[3], d))
(* ---- elliptical cone coverage (C13) ---- *)
EllipseC(e) == IF e.p = 1 THEN << <<"panic", FALSE>> >> ELSE
  << <<"dmax", e.dmax = e.d>>, <<"wellformed", WellFormed(Value(e))>>,
     <<"centre_covered", FaceCovered(e.cells, e.d, e.f)>>,
     <<"circular_no_miss", \A k \in 1..Len(e.wit) : Covered(e.cells, e.wit[k].b, e.wit[k].p)>>,
     <<"tight", e.slack <= 0>> >>
EllipseBadC(e) == << <<"nopanic", e.pp = 1 /\ e.pc = 1>> >>
(* ---- polygon coverage (C12) ---- *)
PolygonC(e) == IF e.p = 1 THEN << <<"panic", FALSE>> >> ELSE
  << <<"dmax", e.dmax = e.d>>, <<"wellformed", WellFormed(Value(e))>>,
     <<"vertex_cells_covered", \A k \in 1..Len(e.vf) : FaceCovered(e.cells, e.d, e.vf[k])>>,
     <<"full_honest", e.full_bad = 0>>,
     <<"tight", e.slack <= 0>>,
     <<"contains_predicate", e.contains_bad = 0>> >>

Clauses(e) == CASE e.ev = "new" -> NewC(e)
                [] e.ev = "op" -> OpC(e)
                [] e.ev = "law" -> LawC(e)
                [] e.ev = "cone" -> ConeC(e)
                [] e.ev = "ellipse" -> EllipseC(e)
                [] e.ev = "ellipse_bad" -> EllipseBadC(e)
                [] e.ev = "polygon" -> PolygonC(e)
                [] e.ev = "reset" -> <<>>
                [] e.ev = "pack" -> PackC(e)
                [] e.ev = "unordered" -> UnorderedC(e)
                [] e.ev = "lower" -> LowerC(e)
                [] e.ev = "fixed" -> FixedC(e)
                [] e.ev = "query" -> QueryC(e)
                [] e.ev = "view" -> ViewC(e)
                [] e.ev = "harness_abort" -> << <<"harness_abort", FALSE>> >>   \* the harness could not digest what the crate returned
                [] OTHER -> << <<"unknown_event", FALSE>> >>

(* the value a register takes after the event: the logged result when it is usable, else the specification's own *)
NextValue(e) ==
  IF e.ev \in {"new", "query", "fixed"} THEN (IF e.ev # "new" /\ (e.p = 1 \/ (e.ev = "fixed" /\ e.none = 1)) THEN EmptyBmoc ELSE Value(e))
  ELSE IF e.ev = "op" THEN (IF e.p = 0 /\ WellFormed(Value(e)) THEN Value(e) ELSE [dmax |-> OpDmax(e), cells |-> Canonical(Expected(e))])
  ELSE IF e.p = 0 /\ WellFormed(Value(e)) THEN Value(e) ELSE EmptyBmoc

Init == l = 1 /\ bad = <<>> /\ regs = [r \in 0..(NReg - 1) |-> EmptyBmoc]
Step == /\ l <= Len(Rec)
        /\ LET e == Rec[l]
               why == Failed(Clauses(e))
           IN /\ bad' = IF why = {} THEN bad ELSE Append(bad, [i |-> l, why |-> why])
              /\ regs' = IF e.ev \in {"view", "law", "cone", "ellipse", "ellipse_bad", "polygon", "harness_abort"} THEN regs
                         ELSE IF e.ev = "reset" THEN [r \in 0..(NReg - 1) |-> EmptyBmoc]
                         ELSE [regs EXCEPT ![e.out] = NextValue(e)]
        /\ l' = l + 1
Spec == Init /\ [][Step]_tvars
Done == l = Len(Rec) + 1 => JsonSerialize(IOEnv.VERDICT, [n |-> Len(Rec), bad |-> bad])
=======================================================================
