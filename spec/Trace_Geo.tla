---------------------------- MODULE Trace_Geo ----------------------------
(* Trace validation of recorded calls of the stateless geometric API against the
   cell complex of HpxGeo.  One event per public call; the trace spec is total:
   an event the specification does not allow is consumed by recording its index
   in `bad`, so that the rest of the trace is still checked. *)
EXTENDS HpxRing, TLC, Json, IOUtils
Rec == ndJsonDeserialize(IOEnv.TRACE)
VARIABLES l, bad
tvars == <<l, bad>>
Pow2(d) == 2^d
ToSet(x) == IF Len(x) = 0 THEN {} ELSE {x}
InRange(N, c) == Len(c) = 3 /\ c[1] \in 0..11 /\ c[2] \in 0..(N-1) /\ c[3] \in 0..(N-1)

(* C01: the returned cell is in range and its closure contains the position *)
HashOK(e) == LET N == Pow2(e.d) IN e.p = 0 /\ InRange(N, e.r) /\ e.r \in StarFace(N, e.f)
(* C01: a latitude outside [-pi/2, pi/2] is rejected by a panic *)
HashBadOK(e) == e.p = 1
(* C02: the cells of one position at depths 0..29 form a chain of parents *)
HierOK(e) == /\ e.p = 0
             /\ \A k \in 1..30 : InRange(Pow2(k - 1), e.cs[k])
             /\ \A k \in 1..29 : e.cs[k] = ParentCell(e.cs[k + 1], 2)
(* C04: the neighbour map is the geometric adjacency, direction by direction, through all accessors *)
NeighOK(e) == LET N == Pow2(e.d) IN
              /\ e.p = 0
              /\ \A w \in MainWinds : LET exp == NeighAt(N, e.c, w) IN
                    ToSet(e.m[w]) = exp /\ ToSet(e.mc[w]) = exp /\ ToSet(e.s[w]) = exp
              /\ e.ctr = e.c /\ e.cplain = 0 /\ e.free = 1
NeighBadOK(e) == e.p = 1

(* C14: internal / external edges through every accessor *)
SeqSet(s) == {s[k] : k \in 1..Len(s)}
IsSetSeq(s, S) == SeqSet(s) = S /\ Len(s) = Cardinality(S)
EdgesOK(e) == LET N == Pow2(e.d)
                  M == Pow2(e.dd)
                  c == e.c
                  sides == [o \in Ordinals |-> ExternalSide(N, c, M, o)]
                  corners == [d \in Cardinals |-> ExternalCorner(N, c, M, d)]
                  ext == UNION {sides[o] : o \in Ordinals} \cup UNION {corners[d] : d \in Cardinals}
              IN /\ e.p = 0 /\ e.free = 1 /\ e.freep = 0 /\ e.ssame = 1
                 /\ e.ie = InternalEdgeWalk(c, M)
                 /\ IsSetSeq(e.ies, InternalEdgeSet(c, M)) /\ e.ies_inc = 1
                 /\ IsSetSeq(e.ee, ext) /\ IsSetSeq(e.ees, ext) /\ e.ees_inc = 1
                 /\ \A o \in Ordinals : IsSetSeq(e.side[o], sides[o]) /\ IsSetSeq(e.ipart[o], InternalSide(c, M, o))
                 /\ \A d \in Cardinals : ToSet(e.corner[d]) = corners[d] /\ e.icorner[d] = InternalCorner(c, M, d)

(* ---- RING scheme (C10, C11) ---- *)
TolPos == 100                      \* 1e-13 rad, in units of 1e-15 rad
CellOfFace(f) == <<f[1], f[2] \div 2, f[3] \div 2>>
ToRingOK(e) == LET N == Pow2(e.d) IN e.p = 0 /\ e.r = ToRing(N, e.c) /\ e.back = e.c
FromRingOK(e) == LET N == Pow2(e.d) IN e.p = 0 /\ InRange(N, e.c) /\ ToRing(N, e.c) = e.r
RingNestedCentreOK(e) == LET N == Pow2(e.d) IN
                         /\ e.p = 0 /\ Len(e.cf) = 3 /\ FaceKind(e.cf) = "cell"
                         /\ ToRing(N, CellOfFace(e.cf)) = e.r /\ e.dev <= TolPos
RingHashOK(e) == LET N == e.n IN
                 /\ e.p = 0 /\ BigLess(e.r, NHashBig(N))
                 /\ \E cl \in StarFace(N, e.f) : ToRing(N, cl) = e.r
                 /\ e.same = 1 /\ e.dx \in 0..1000000 /\ e.dy \in 0..1000000
                 /\ (e.back = -1 \/ (e.back >= 0 /\ e.back <= TolPos))
RingCenterOK(e) == LET N == e.n IN
                   /\ e.p = 0 /\ Len(e.cf) = 3 /\ FaceKind(e.cf) = "cell"
                   /\ LET cl == CellOfFace(e.cf) IN
                      /\ ToRing(N, cl) = e.r /\ e.hc = e.r
                      /\ Len(e.vf) = 4 /\ \A k \in 1..4 : FaceKind(e.vf[k]) = "node"
                      /\ {Canon(N, CellOfFace(e.vf[k])) : k \in 1..4} = VSet(N, cl)
RingBadOK(e) == e.pc = 1 /\ e.pv = 1 /\ e.ps = 1 /\ e.ph = 1 /\ e.phd = 1

Check(e) == CASE e.ev = "hash" -> HashOK(e)
              [] e.ev = "hash_bad" -> HashBadOK(e)
              [] e.ev = "hier" -> HierOK(e)
              [] e.ev = "neigh" -> NeighOK(e)
              [] e.ev = "neigh_bad" -> NeighBadOK(e)
              [] e.ev = "edges" -> EdgesOK(e)
              [] e.ev = "to_ring" -> ToRingOK(e)
              [] e.ev = "from_ring" -> FromRingOK(e)
              [] e.ev = "ring_nested_centre" -> RingNestedCentreOK(e)
              [] e.ev = "ring_hash" -> RingHashOK(e)
              [] e.ev = "ring_center" -> RingCenterOK(e)
              [] e.ev = "ring_bad" -> RingBadOK(e)
              [] OTHER -> FALSE

Init == l = 1 /\ bad = <<>>
Step == /\ l <= Len(Rec)
        /\ bad' = IF Check(Rec[l]) THEN bad ELSE Append(bad, l)
        /\ l' = l + 1
Spec == Init /\ [][Step]_tvars
Done == l = Len(Rec) + 1 => JsonSerialize(IOEnv.VERDICT, [n |-> Len(Rec), bad |-> bad])
=======================================================================
