---------------------------- MODULE Trace_Geo ----------------------------
(***************************************************************************)
(* Trace validation of recorded calls of the stateless geometric API       *)
(* against the cell complex (HpxGeo) and the RING numbering (HpxRing).     *)
(* One event per public call.  The trace spec is total: an event the       *)
(* specification does not allow is consumed by recording its index and     *)
(* the names of the violated clauses in `bad`, so that the rest of the     *)
(* trace is still checked and a rejection can be attributed.               *)
(***************************************************************************)
EXTENDS HpxRing, HpxZoc, TLC, Json, IOUtils
Rec == ndJsonDeserialize(IOEnv.TRACE)
VARIABLES l, bad
tvars == <<l, bad>>
Pow2(d) == 2^d
ToSet(x) == IF Len(x) = 0 THEN {} ELSE {x}
InRange(N, c) == Len(c) = 3 /\ c[1] \in 0..11 /\ c[2] \in 0..(N-1) /\ c[3] \in 0..(N-1)
SeqSet(s) == {s[k] : k \in 1..Len(s)}
IsSetSeq(s, S) == SeqSet(s) = S /\ Len(s) = Cardinality(S)
CellOfFace(f) == <<f[1], f[2] \div 2, f[3] \div 2>>
(* names of the clauses (pairs <<name, holds>>) that do not hold *)
Failed(clauses) == LET idx == {k \in 1..Len(clauses) : ~clauses[k][2]} IN {clauses[k][1] : k \in idx}

(* ---- tolerances: the one place where "up to rounding" is defined ---- *)
TolPos == 100            \* 1e-13 rad, in units of 1e-15 rad
TolOff == 10             \* offsets dx, dy in [0,1] up to 1e-5 (units of 1e-6)

(* C01: the returned cell is in range and its closure contains the position *)
HashC(e) == LET N == Pow2(e.d) IN
  << <<"panic", e.p = 0>>, <<"range", e.p = 1 \/ InRange(N, e.r)>>, <<"contains", e.p = 1 \/ e.r \in StarFace(N, e.f)>> >>
(* C01: a latitude outside [-pi/2, pi/2] is rejected by a panic *)
HashBadC(e) == << <<"nopanic", e.p = 1>> >>
(* C02: the cells of one position at depths 0..29 form a chain of parents *)
HierC(e) == << <<"panic", e.p = 0>>, <<"range", \A k \in 1..30 : InRange(Pow2(k - 1), e.cs[k])>>,
               <<"prefix", \A k \in 1..29 : e.cs[k] = ParentCell(e.cs[k + 1], 2)>> >>
(* C04: the neighbour map is the geometric adjacency, direction by direction, through all accessors *)
NeighC(e) == LET N == Pow2(e.d) IN
  << <<"panic", e.p = 0>>,
     <<"map", \A w \in MainWinds : ToSet(e.m[w]) = NeighAt(N, e.c, w)>>,
     <<"map_with_centre", \A w \in MainWinds : ToSet(e.mc[w]) = NeighAt(N, e.c, w)>>,
     <<"single", \A w \in MainWinds : ToSet(e.s[w]) = NeighAt(N, e.c, w)>>,
     <<"centre", e.ctr = e.c /\ e.cplain = 0>>, <<"free", e.free = 1>> >>
NeighBadC(e) == << <<"nopanic_neighbours", e.pn = 1>>, <<"nopanic_neighbour", e.p1 = 1>> >>
(* C14: internal / external edges through every accessor *)
EdgesC(e) == LET N == Pow2(e.d)
                 M == Pow2(e.dd)
                 c == e.c
                 sides == [o \in Ordinals |-> ExternalSide(N, c, M, o)]
                 corners == [d \in Cardinals |-> ExternalCorner(N, c, M, d)]
                 ext == UNION {sides[o] : o \in Ordinals} \cup UNION {corners[d] : d \in Cardinals}
  IN << <<"panic", e.p = 0>>, <<"free", e.free = 1 /\ e.ssame = 1>>, <<"free_panic", e.freep = 0>>,
        <<"internal_walk", e.ie = InternalEdgeWalk(c, M)>>,
        <<"internal_sorted", IsSetSeq(e.ies, InternalEdgeSet(c, M)) /\ e.ies_inc = 1>>,
        <<"external", IsSetSeq(e.ee, ext)>>, <<"external_sorted", IsSetSeq(e.ees, ext) /\ e.ees_inc = 1>>,
        <<"sides", \A o \in Ordinals : IsSetSeq(e.side[o], sides[o])>>,
        <<"corners", \A d \in Cardinals : ToSet(e.corner[d]) = corners[d]>>,
        <<"internal_corner", \A d \in Cardinals : e.icorner[d] = InternalCorner(c, M, d)>>,
        <<"internal_part", \A o \in Ordinals : IsSetSeq(e.ipart[o], InternalSide(c, M, o))>> >>
(* C14 at large delta_depth (up to 2^22 cells per side): the lists are too long to be traced, the harness samples them.
   Position k (1-based) of the walk S -> E -> N -> W, in closed form (same definition as HpxGeo!InternalEdgeWalk). *)
WalkAt(c, M, k) == LET q == (k - 1) \div (M - 1)
                       r == (k - 1) % (M - 1)
                   IN CASE q = 0 -> Sub(c, M, r, 0) [] q = 1 -> Sub(c, M, M - 1, r)
                        [] q = 2 -> Sub(c, M, M - 1 - r, M - 1) [] OTHER -> Sub(c, M, 0, M - 1 - r)
OnSide(c, M, o, y) == IsDesc(c, M, y) /\ (CASE o = "SE" -> y[3] = c[3] * M [] o = "SW" -> y[2] = c[2] * M
                                            [] o = "NE" -> y[2] = c[2] * M + M - 1 [] o = "NW" -> y[3] = c[3] * M + M - 1)
EdgesBigC(e) == LET N == Pow2(e.d)
                    M == Pow2(e.dd)
                    c == e.c
  IN << <<"panic", e.p = 0>>, <<"free", e.free = 1>>,
        (* length, no duplicate, sorted variant = the same cells in increasing order (counted by the harness over the whole list) *)
        <<"internal_walk", e.ie_len = 4 * M - 4 /\ e.ie_dup = 0 /\ e.ie_nonadj = 0
                           /\ \A k \in 1..Len(e.ie_s) : e.ie_s[k][2] = WalkAt(c, M, e.ie_s[k][1])>>,
        <<"internal_sorted", e.ies_ok = 1>>,
        (* external edge: 4 M cells + one per existing corner, no duplicate, none a descendant; every sampled cell of side o is
           the neighbour in direction o of a border descendant of side o (across a base-cell seam the direction seen from the
           outer cell is not the opposite one) *)
        <<"external", e.ee_len = 4 * M + Cardinality({d \in Cardinals : NeighAt(N, c, d) # {}}) /\ e.ee_dup = 0 /\ e.ees_ok = 1>>,
        <<"sides", \A o \in Ordinals : e.side_len[o] = M /\ \A k \in 1..Len(e.side_s[o]) :
                      LET x == e.side_s[o][k] IN InRange(N * M, x) /\ ~IsDesc(c, M, x) /\ \E w \in MainWinds : \E y \in NeighAt(N * M, x, w) :
                                                     OnSide(c, M, o, y) /\ x \in NeighAt(N * M, y, o)>>,
        <<"corners", \A d \in Cardinals : ToSet(e.corner[d]) = ExternalCorner(N, c, M, d)>>,
        <<"internal_corner", \A d \in Cardinals : e.icorner[d] = InternalCorner(c, M, d)>> >>
(* ---- RING scheme (C10, C11) ---- *)
ToRingC(e) == LET N == Pow2(e.d) IN
  << <<"panic", e.p = 0>>, <<"rank", e.r = ToRing(N, e.c)>>, <<"roundtrip", e.back = e.c>> >>
FromRingC(e) == LET N == Pow2(e.d) IN
  << <<"panic", e.p = 0>>, <<"range", InRange(N, e.c)>>, <<"inverse", InRange(N, e.c) /\ ToRing(N, e.c) = e.r>> >>
RingNestedCentreC(e) == LET N == Pow2(e.d) IN
  << <<"panic", e.p = 0>>,
     <<"ring_centre_in_cell", Len(e.cf) = 3 /\ FaceKind(e.cf) = "cell" /\ ToRing(N, CellOfFace(e.cf)) = e.r>>,
     <<"same_centre", e.dev <= TolPos>> >>
RingHashC(e) == LET N == e.n IN
  << <<"panic", e.p = 0>>, <<"range", e.p = 1 \/ BigLess(e.r, NHashBig(N))>>,
     <<"contains", e.p = 1 \/ \E cl \in StarFace(N, e.f) : ToRing(N, cl) = e.r>>,
     <<"same_cell_dxdy", e.same = 1>>,
     <<"offsets", e.dx \in (-TolOff)..(1000000 + TolOff) /\ e.dy \in (-TolOff)..(1000000 + TolOff)>>,
     <<"sph_coo_inverts", e.back = -1 \/ (e.back >= 0 /\ e.back <= TolPos)>> >>
(* 200 positions of a polar cap on (or within 2 ulp of) a meridian k pi/2: extreme offsets and worst inversion error *)
RingScanC(e) == << <<"panic", e.p = 0>>, <<"same_cell_dxdy", e.diff = 0>>,
                   <<"offsets", e.dxmin >= -TolOff /\ e.dymin >= -TolOff /\ e.dxmax <= 1000000 + TolOff /\ e.dymax <= 1000000 + TolOff>>,
                   <<"sph_coo_inverts", e.back <= TolPos>> >>
RingCenterC(e) == LET N == e.n
                      okf == Len(e.cf) = 3 /\ FaceKind(e.cf) = "cell"
                      cl == CellOfFace(e.cf)
  IN << <<"panic", e.p = 0>>, <<"centre_in_cell", okf /\ ToRing(N, cl) = e.r>>, <<"hash_of_centre", e.hc = e.r>>,
        <<"vertices", okf /\ Len(e.vf) = 4 /\ (\A k \in 1..4 : FaceKind(e.vf[k]) = "node")
                      /\ {Canon(N, CellOfFace(e.vf[k])) : k \in 1..4} = VSet(N, cl)>> >>
(* the constants of the RING scheme at any NSIDE: number of cells / of rings, first cell of the ring N (transition),
   N + 1 (first ring entirely in the equatorial region), 3N (transition) and 3N + 1 *)
RingMetaC(e) == LET N == e.n IN
  << <<"panic", e.p = 0>>, <<"n_hash", e.nh = NHashBig(N)>>, <<"n_rings", e.nr = BigSub(BigMul(<<4>>, BigOf(N)), <<1>>)>>,
     <<"first_hash_on_npc_eqr_transition", e.ft = RingStart(N, N)>>, <<"first_hash_in_eqr", e.fe = RingStart(N, N + 1)>>,
     <<"first_hash_on_eqr_spc_transition", e.st = RingStart(N, 3 * N)>>, <<"first_hash_in_spc", e.fs = RingStart(N, 3 * N + 1)>> >>
RingBadC(e) == << <<"nopanic_center", e.pc = 1>>, <<"nopanic_vertices", e.pv = 1>>, <<"nopanic_sph_coo", e.ps = 1>>,
                  <<"nopanic_hash", e.ph = 1>>, <<"nopanic_hash_dxdy", e.phd = 1>> >>

(* ---- bit-level encodings (C18) ---- *)
ZocC(e) == << <<"panic", e.p = 0>>, <<"interleave", e.h = Interleave(e.i, e.j)>>,
              <<"inverse", e.i2 = e.i /\ e.j2 = e.j>>,
              <<"restrict_i", e.hi0 = Interleave(e.i, ZeroBits(32))>>,
              <<"restrict_j", e.h0j = Interleave(ZeroBits(32), e.j)>> >>
UniqC(e) == << <<"panic", e.p = 0>>, <<"uniq", e.u = Uniq(e.b, e.path)>>, <<"uniq_ivoa", e.ui = UniqIvoa(e.b, e.path)>>,
               <<"layer_same", e.lsame = 1>>,
               <<"from_uniq", e.fu.d = e.d /\ e.fu.b = e.b /\ e.fu.p = e.path>>,
               <<"from_uniq_ivoa", e.fui.d = e.d /\ e.fui.b = e.b /\ e.fui.p = e.path>> >>
UniqBadC(e) == << <<"nopanic_to_uniq", e.pu = 1>>, <<"nopanic_to_uniq_ivoa", e.pi = 1>> >>

(* ---- projection (C17): deviations are measured by the bridge in 1e-15 units, judged here ---- *)
TolProj == 10            \* 1e-14
ProjC(e) == << <<"panic", e.p = 0>>,
               <<"sign_and_range", e.p = 1 \/ (e.sign = 1 /\ e.range = 1)>>,
               <<"formulae", e.p = 1 \/ (e.dx <= TolProj /\ e.dy <= TolProj)>>,
               <<"unproj_inverts", e.p = 1 \/ (e.back <= TolProj /\ e.bsign = 1)>>,
               <<"proj_inverts", e.p = 1 \/ e.fwd <= TolProj>>,
               <<"base_cell", e.p = 1 \/ e.bc \in {c[1] : c \in StarFace(1, e.f1)}>> >>
ProjBadC(e) == << <<"nopanic_proj", e.pp = 1>>, <<"nopanic_unproj", e.pu = 1>> >>

(* ---- cell geometry accessors (C03) ---- *)
TolCell == 20            \* 2e-5 cell, in units of 1e-6 cell (bridge precision at depth 29 is ~1e-6 cell)
VOrder == <<"S", "E", "N", "W">>
CellGeoC(e) == LET N == Pow2(e.d)
                   c == e.c
  IN IF e.p = 1 THEN << <<"panic", FALSE>> >> ELSE
     << <<"centre", Len(e.cf) = 3 /\ FaceKind(e.cf) = "cell" /\ CellOfFace(e.cf) = c /\ e.cdev <= TolCell /\ e.hc = c>>,
        <<"vertices", Len(e.vf) = 4 /\ \A k \in 1..4 : FaceKind(e.vf[k]) = "node" /\ Canon(N, CellOfFace(e.vf[k])) = Vtx(N, c, VOrder[k])>>,
        <<"accessors_agree", e.vsame = 1>>,
        <<"sph_coo_inside", e.sph_bad = 0 /\ e.sph_dev <= TolCell>>,
        <<"path_and_grid_in_closure", Len(e.pf) = e.npath + e.ngrid /\ \A k \in 1..Len(e.pf) : c \in StarFace(N, e.pf[k])>>,
        <<"path_on_border", \A k \in 1..e.npath : FaceKind(e.pf[k]) # "cell">>,
        <<"nudged_inwards_hash_back", e.nudged_bad = 0>> >>
CellBadC(e) == << <<"nopanic", \A k \in 1..Len(e.ps) : e.ps[k] = 1>> >>
HashDxDyC(e) == LET N == Pow2(e.d) IN
  IF e.p = 1 THEN << <<"panic", FALSE>> >> ELSE
  << <<"range", InRange(N, e.r)>>, <<"contains", e.r \in StarFace(N, e.f)>>,
     <<"same_as_hash", e.fk # "cell" \/ e.r = e.rh>>,
     <<"offsets", e.dx \in (-TolOff)..(1000000 + TolOff) /\ e.dy \in (-TolOff)..(1000000 + TolOff)>>,
     <<"recovers_position", e.rec <= TolPos>>,
     <<"sph_coo_inverts", e.back = -1 \/ (e.back >= 0 /\ e.back <= TolPos)>> >>
(* ---- bilinear interpolation (C19) ---- *)
TolW == 2                \* weights in units of 2^-20
BilinearC(e) == LET N == Pow2(e.d)
                    c == e.c
  IN IF e.p = 1 THEN << <<"panic", FALSE>> >> ELSE
  << <<"contains", c \in StarFace(N, e.f)>>,
     <<"cells_around", Len(e.cells) = 4 /\ \A k \in 1..4 : e.cells[k] = c \/ e.cells[k] \in Neigh(N, c)>>,
     <<"cell_present", \E k \in 1..4 : e.cells[k] = c>>,
     <<"weights", (\A k \in 1..4 : e.w[k] >= -TolW /\ e.w[k] <= 1048576 + TolW) /\ e.sum \in -2..2>>,
     <<"centre_weight", e.ctr = 0 \/ \E k \in 1..4 : e.cells[k] = c /\ e.w[k] >= 1048576 - 64>>,
     <<"barycentre", e.bary = -1 \/ e.bary <= TolCell>>,
     (* a cell listed twice stands for a missing corner (next to a 3-cell point): one of the two carries weight 0 *)
     <<"missing_corner", \A k, m \in 1..4 : (k < m /\ e.cells[k] = e.cells[m]) => (e.cells[k] = c /\ (e.w[k] = 0 \/ e.w[m] = 0)
                                              /\ \E d \in Cardinals : NeighAt(N, c, d) = {})>> >>

(* ---- cell-size helpers (C16): the inequalities are measured by the bridge (deficit in 1e-6 of the true value) ---- *)
TolDeficit == 1          \* 1e-6 relative
C2vC(e) == << <<"panic", e.p = 0>>, <<"is_a_bound", e.p = 1 \/ e.deficit <= TolDeficit>> >>
C2vRadiusC(e) == << <<"panic", e.p = 0>>, <<"bound_with_radius", e.p = 1 \/ e.deficit <= TolDeficit>>,
                    <<"bounds_array", e.p = 1 \/ (e.len_ok = 1 /\ e.deficit_arr <= TolDeficit)>> >>
(* at the best starting depth, every cell that provably contains a point of the cone is the centre's cell or adjacent to it *)
Fits9C(e) == LET N == Pow2(e.d) IN
  << <<"panic", e.p = 0>>,
     <<"cone_in_cell_and_neighbours", e.p = 1 \/ LET ng == Neigh(N, e.c) IN \A k \in 1..Len(e.wit) : e.wit[k] = e.c \/ e.wit[k] \in ng>> >>

(* ---- behaviour specified beyond the listed properties (pseudo-check X00, DESIGN section 16) ---- *)
(* to_range(h, dd): the numbers of the descendants of the cell dd levels below are one contiguous range of 4^dd numbers *)
Pow4B(k) == BigMul(BigOf(Pow2(k)), BigOf(Pow2(k)))
ToRangeC(e) == LET M == Pow2(e.dd) IN
  << <<"panic", e.p = 0>>,
     <<"first_descendant", e.p = 1 \/ e.first = Sub(e.c, M, 0, 0)>>,
     <<"last_descendant", e.p = 1 \/ e.last = Sub(e.c, M, M - 1, M - 1)>>,
     <<"length", e.p = 1 \/ e.len = Pow4B(e.dd)>> >>
(* nside = 2^depth, n_hash = 12 * 4^depth (all three accessors), nside_square = 4^depth, depth(nside(d)) = d *)
SizesC(e) == << <<"panic", e.p = 0>>,
                <<"nside", e.p = 1 \/ (e.nside = Pow2(e.d) /\ e.back = e.d /\ e.isd = 1 /\ e.isn = 1)>>,
                <<"n_hash", e.p = 1 \/ (e.nh = BigMul(<<12>>, Pow4B(e.d)) /\ e.same = 1)>>,
                <<"nside_square", e.p = 1 \/ e.nsq = Pow4B(e.d)>> >>
SizesBadC(e) == << <<"depth_refused", \A k \in 1..Len(e.ps) : e.ps[k] = 1>>,
                   <<"is_nside", e.isn = e.pow2>>,
                   <<"depth_of_nside", IF e.pow2 = 1 THEN e.dp = e.log2 ELSE e.dp = -1>> >>
(* MainWindMap: the values are the neighbours (plus the cell itself when asked), sorted_values is increasing, the entries are
   the neighbour map, every accessor tells the same story *)
WindMapC(e) == LET N == Pow2(e.d)
                   want == Neigh(N, e.c) \cup (IF e.with_c = 1 THEN {e.c} ELSE {})
  IN << <<"panic", e.p = 0>>,
        <<"values", e.p = 1 \/ (SeqSet(e.sv) = want /\ Len(e.sv) = Cardinality(want) /\ e.inc = 1)>>,
        <<"entries", e.p = 1 \/ ((\A w \in MainWinds : ToSet(e.entries[w]) = NeighAt(N, e.c, w))
                                  /\ ToSet(e.entries["C"]) = (IF e.with_c = 1 THEN {e.c} ELSE {}))>>,
        <<"accessors_agree", e.p = 1 \/ e.same = 1>> >>

Clauses(e) == CASE e.ev = "hash" -> HashC(e)
                [] e.ev = "to_range" -> ToRangeC(e)
                [] e.ev = "sizes" -> SizesC(e)
                [] e.ev = "sizes_bad" -> SizesBadC(e)
                [] e.ev = "wind_map" -> WindMapC(e)
                [] e.ev = "hash_bad" -> HashBadC(e)
                [] e.ev = "hier" -> HierC(e)
                [] e.ev = "neigh" -> NeighC(e)
                [] e.ev = "neigh_bad" -> NeighBadC(e)
                [] e.ev = "edges" -> EdgesC(e)
                [] e.ev = "edges_big" -> EdgesBigC(e)
                [] e.ev = "to_ring" -> ToRingC(e)
                [] e.ev = "from_ring" -> FromRingC(e)
                [] e.ev = "ring_nested_centre" -> RingNestedCentreC(e)
                [] e.ev = "ring_hash" -> RingHashC(e)
                [] e.ev = "ring_center" -> RingCenterC(e)
                [] e.ev = "ring_scan" -> RingScanC(e)
                [] e.ev = "ring_bad" -> RingBadC(e)
                [] e.ev = "ring_meta" -> RingMetaC(e)
                [] e.ev = "cellgeo" -> CellGeoC(e)
                [] e.ev = "cell_bad" -> CellBadC(e)
                [] e.ev = "hash_dxdy" -> HashDxDyC(e)
                [] e.ev = "bilinear" -> BilinearC(e)
                [] e.ev = "c2v" -> C2vC(e)
                [] e.ev = "c2v_radius" -> C2vRadiusC(e)
                [] e.ev = "fits9" -> Fits9C(e)
                [] e.ev = "proj" -> ProjC(e)
                [] e.ev = "proj_bad" -> ProjBadC(e)
                [] e.ev = "zoc" -> ZocC(e)
                [] e.ev = "uniq" -> UniqC(e)
                [] e.ev = "uniq_bad" -> UniqBadC(e)
                [] e.ev = "harness_abort" -> << <<"harness_abort", FALSE>> >>   \* the harness could not digest what the crate returned
                [] OTHER -> << <<"unknown_event", FALSE>> >>

Init == l = 1 /\ bad = <<>>
Step == /\ l <= Len(Rec)
        /\ LET why == Failed(Clauses(Rec[l])) IN
           bad' = IF why = {} THEN bad ELSE Append(bad, [i |-> l, why |-> why])
        /\ l' = l + 1
Spec == Init /\ [][Step]_tvars
Done == l = Len(Rec) + 1 => JsonSerialize(IOEnv.VERDICT, [n |-> Len(Rec), bad |-> bad])
=======================================================================
