SPECIFICATION TSpec
INVARIANT NotAccepted
POSTCONDITION Report
CHECK_DEADLOCK FALSE
