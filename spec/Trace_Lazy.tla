---------------------------- MODULE Trace_Lazy ----------------------------
(***************************************************************************)
(* Validation of recorded first-use races against the Lazy specification.  *)
(* Logged: inv / resp of every get_or_create call (by the harness) and     *)
(* construct (by the cfg-guarded hook at the top of Layer::new and         *)
(* ConstantsC2V::new), totally ordered by a sequence number taken under    *)
(* the log's mutex.  Not logged: Check1, EnterOnce, Publish, Complete,     *)
(* Check2 - TLC searches for an interleaving of these silent steps that    *)
(* explains the history.  A history is accepted iff some behaviour         *)
(* consumes every event: the "invariant" NotAccepted is then VIOLATED;     *)
(* exhausting the state space without violating it is a rejection, and     *)
(* the furthest event reached is reported.                                 *)
(***************************************************************************)
EXTENDS Integers, Sequences, FiniteSets, TLC, Json, IOUtils
Rec == ndJsonDeserialize(IOEnv.TRACE)
Threads == 0..31
Keys == 0..59                 \* table * 30 + depth
MaxCalls == 1000000
Torn == FALSE
UseOnce == TRUE
VARIABLES slot, once, built, pc, arg, mine, ret, calls, l, addr
L == INSTANCE Lazy
tvars == <<slot, once, built, pc, arg, mine, ret, calls, l, addr>>
KeyOf(e) == e.tb * 30 + e.d
IsEv(k) == l <= Len(Rec) /\ Rec[l].ev = k /\ l' = l + 1
TInit == L!Init /\ l = 1 /\ addr = [k \in Keys |-> -1]
TInv == IsEv("inv") /\ L!Call(Rec[l].t, KeyOf(Rec[l])) /\ UNCHANGED addr
TConstruct == IsEv("construct") /\ arg[Rec[l].t] = KeyOf(Rec[l]) /\ L!Construct(Rec[l].t) /\ UNCHANGED addr
(* a response: the call returns a fully initialised object (probe through the returned reference agrees with
   the single-threaded values), without panicking, and every response for a key carries the same address *)
TResp == /\ IsEv("resp")
         /\ LET e == Rec[l]
                t == e.t
                k == KeyOf(e)
            IN /\ arg[t] = k /\ ret[t] >= 1 /\ e.p = 0 /\ e.ok = 1
               /\ (addr[k] = -1 \/ addr[k] = e.ptr)
               /\ addr' = [addr EXCEPT ![k] = e.ptr]
               /\ L!Return(t)
(* a new process: fresh statics *)
TReset == /\ IsEv("reset") /\ \A t \in Threads : pc[t] = "idle"
          /\ slot' = [k \in Keys |-> 0] /\ once' = [k \in Keys |-> "inc"] /\ built' = [k \in Keys |-> 0]
          /\ pc' = [t \in Threads |-> "idle"] /\ arg' = [t \in Threads |-> 0] /\ mine' = [t \in Threads |-> 0]
          /\ ret' = [t \in Threads |-> 0] /\ calls' = [t \in Threads |-> 0] /\ addr' = [k \in Keys |-> -1]
TSilent == /\ l <= Len(Rec) /\ UNCHANGED <<l, addr>>
           /\ \E t \in Threads : pc[t] \notin {"idle"} /\
                (L!Check1(t) \/ L!EnterOnce(t) \/ L!Publish(t) \/ L!Publish2(t) \/ L!Complete(t) \/ L!Check2(t))
TNext == TInv \/ TConstruct \/ TResp \/ TReset \/ TSilent
TSpec == TInit /\ [][TNext]_tvars
(* remember the furthest event consumed (reported on rejection) *)
Progress == IF l > TLCGet(1) THEN TLCSet(1, l) ELSE TRUE
NotAccepted == Progress /\ l <= Len(Rec)
ASSUME TLCSet(1, 0)
Report == JsonSerialize(IOEnv.VERDICT, [n |-> Len(Rec), reached |-> TLCGet(1)])
=======================================================================
