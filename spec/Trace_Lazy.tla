---------------------------- MODULE Trace_Lazy ----------------------------
(***************************************************************************)
(* Validation of recorded first-use races against the Lazy specification.  *)
(* Logged: inv / resp of every get_or_create call (by the harness) and     *)
(* construct (by the cfg-guarded hook at the top of Layer::new and         *)
(* ConstantsC2V::new), totally ordered by a sequence number taken under    *)
(* the log's mutex.  Not logged: Check1, EnterOnce, Publish, Complete,     *)
(* Check2 - TLC searches for an interleaving of these silent steps that    *)
(* explains the history.  A history is accepted iff some behaviour         *)
(* consumes every event: the "invariant" NotAccepted is then VIOLATED;     *)
(* exhausting the state space without violating it is a rejection, and     *)
(* the furthest event reached is reported.                                 *)
(***************************************************************************)
EXTENDS Integers, Sequences, FiniteSets, TLC, Json, IOUtils
Rec == ndJsonDeserialize(IOEnv.TRACE)
Threads == 0..31
Keys == 0..59                 \* table * 30 + depth
MaxCalls == 1000000
Torn == FALSE                  \* a torn object is never an acceptable explanation of a response
UseOnce == TRUE
FastPath == FALSE              \* the repaired code: no read of the slot before the Once
VARIABLES slot, once, built, pc, arg, mine, ret, calls, l, addr
L == INSTANCE Lazy
tvars == <<slot, once, built, pc, arg, mine, ret, calls, l, addr>>
KeyOf(e) == e.tb * 30 + e.d
IsEv(k) == l <= Len(Rec) /\ Rec[l].ev = k /\ l' = l + 1
TInit == L!Init /\ l = 1 /\ addr = [k \in Keys |-> -1]
TInv == IsEv("inv") /\ L!Call(Rec[l].t, KeyOf(Rec[l])) /\ UNCHANGED addr
TConstruct == IsEv("construct") /\ arg[Rec[l].t] = KeyOf(Rec[l]) /\ L!Construct(Rec[l].t) /\ UNCHANGED addr
(* The property does not say WHICH call constructs a key, only that each key is constructed once and before anybody obtains
   it: an implementation may build other keys than the requested one inside a call (eager or batched initialisation - the
   benign change C20-Q builds all 30 depths of a table at the first request).  Such a `construct` event, logged by a thread
   whose pending call is for another key, is a complete initialisation of a key nobody has started yet; a second construction
   of that key, by anybody, has no explanation afterwards. *)
TConstructForeign == /\ IsEv("construct")
                     /\ LET t == Rec[l].t
                            k == KeyOf(Rec[l])
                        IN /\ pc[t] # "idle" /\ arg[t] # k
                           /\ once[k] = "inc" /\ built[k] = 0
                           /\ built' = [built EXCEPT ![k] = 1] /\ once' = [once EXCEPT ![k] = "done"] /\ slot' = [slot EXCEPT ![k] = 1]
                     /\ UNCHANGED <<pc, arg, mine, ret, calls, addr>>
(* a response: the call returns a fully initialised object (probe through the returned reference agrees with
   the single-threaded values), without panicking, and every response for a key carries the same address *)
TResp == /\ IsEv("resp")
         /\ LET e == Rec[l]
                t == e.t
                k == KeyOf(e)
            IN /\ arg[t] = k /\ ret[t] >= 1 /\ e.p = 0 /\ e.ok = 1
               /\ (addr[k] = -1 \/ addr[k] = e.ptr)
               /\ addr' = [addr EXCEPT ![k] = e.ptr]
               /\ L!Return(t)
(* a new process: fresh statics *)
TReset == /\ IsEv("reset") /\ \A t \in Threads : pc[t] = "idle"
          /\ slot' = [k \in Keys |-> 0] /\ once' = [k \in Keys |-> "inc"] /\ built' = [k \in Keys |-> 0]
          /\ pc' = [t \in Threads |-> "idle"] /\ arg' = [t \in Threads |-> 0] /\ mine' = [t \in Threads |-> 0]
          /\ ret' = [t \in Threads |-> 0] /\ calls' = [t \in Threads |-> 0] /\ addr' = [k \in Keys |-> -1]
(* the next logged event of thread t at or after position i (look-ahead used only to prune the search) *)
RECURSIVE NextEvOf(_, _)
NextEvOf(t, i) == IF i > Len(Rec) THEN "none"
                  ELSE IF Rec[i].ev = "reset" THEN "none"
                  ELSE IF Rec[i].t = t THEN Rec[i].ev ELSE NextEvOf(t, i + 1)
(* sound pruning: a thread may win the Once (EnterOnce taking the "inc" -> "run" branch, i.e. reaching "construct")
   only if its next logged event is the constructor hook; conversely a thread whose next event is `construct`
   has nothing else to do.  Behaviours violating this can never consume the log. *)
TSilentOf(t) == \/ L!Check1(t)
                \/ (L!EnterOnce(t) /\ ((pc'[t] = "construct") <=> (NextEvOf(t, l) = "construct")))
                \/ L!Publish(t) \/ L!Publish2(t) \/ L!Complete(t) \/ L!Check2(t)
(* Lazy scheduling of the unlogged steps (a second, sound pruning that makes the search linear): an internal step is
   taken only when it is needed to enable the next logged event e = Rec[l]: the steps of e's own thread, and - when
   that thread is blocked on the Once - the Publish / Complete steps of the thread running the constructor of the
   same key.  Delaying an internal step never turns an explainable history into an unexplainable one: a later
   Check1 / EnterOnce of a non-constructing thread can only find the slot set / the Once done instead of empty /
   running, which leads to the same response; the constructing thread's own Check1 / EnterOnce still precede
   every Publish of its key. *)
Needed == IF l > Len(Rec) \/ Rec[l].ev = "reset" THEN {}
          ELSE LET te == Rec[l].t IN
               {te} \cup (IF Rec[l].ev = "resp" /\ pc[te] = "once"
                          THEN {c \in Threads : pc[c] \in {"publish", "publish2", "complete"} /\ arg[c] = arg[te]} ELSE {})
TSilent == /\ l <= Len(Rec) /\ UNCHANGED <<l, addr>>
           /\ \E t \in Needed : pc[t] \notin {"idle", "ret", "construct"} /\ TSilentOf(t)
TNext == TInv \/ TConstruct \/ TConstructForeign \/ TResp \/ TReset \/ TSilent
TSpec == TInit /\ [][TNext]_tvars
(* remember the furthest event consumed (reported on rejection) *)
Progress == IF l > TLCGet(1) THEN TLCSet(1, l) ELSE TRUE
NotAccepted == Progress /\ l <= Len(Rec)
ASSUME TLCSet(1, 0)
Report == JsonSerialize(IOEnv.VERDICT, [n |-> Len(Rec), reached |-> TLCGet(1)])
=======================================================================
